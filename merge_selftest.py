#!/usr/bin/env python3
"""Records the self-test result of one property (selftest.py --json) in its evidence file."""
import json, sys
ev_path, st_path = sys.argv[1], sys.argv[2]
try:
    ev = json.load(open(ev_path))
    st = json.load(open(st_path))
except (OSError, ValueError) as e:
    print("selftest result not recorded:", e)
    sys.exit(0)
def count(kind, status):
    return sum(1 for v in st.values() if v[2] == kind and v[0] == status)
rec = {
    "what": "sensitivity of this property's rules, re-measured on this run: source variants and kept seeded changes analysed as overlays on the current tree; not part of the verdict",
    "breaking_variants": sum(1 for v in st.values() if v[2] == "alarm"),
    "breaking_variants_reported": count("alarm", "ok"),
    "benign_variants": sum(1 for v in st.values() if v[2] == "quiet"),
    "benign_variants_quiet": count("quiet", "ok"),
    "seeded_changes": sum(1 for v in st.values() if v[2] == "seeded"),
    "seeded_changes_reported": count("seeded", "ok"),
    "skipped_not_applicable_to_current_tree": sorted(k for k, v in st.items() if v[0] == "skip"),
    "wrong": {k: v[:2] for k, v in st.items() if v[0] in ("MISS", "FALSE-ALARM")},
    "first_reports": {k: v[1][:140] for k, v in sorted(st.items()) if v[0] == "ok" and v[2] != "quiet"},
}
ev.setdefault("coverage", {})["selftest"] = rec
json.dump(ev, open(ev_path, "w"), indent=1)
print("selftest recorded: %d/%d breaking variants, %d/%d seeded changes reported, %d/%d benign quiet" % (
    rec["breaking_variants_reported"], rec["breaking_variants"], rec["seeded_changes_reported"], rec["seeded_changes"],
    rec["benign_variants_quiet"], rec["benign_variants"]))
