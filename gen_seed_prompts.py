#!/usr/bin/env python3
"""dev: writes the per-property prompts given to the seeding sub-agents (one fresh agent per property, own scratch
worktree, nothing from /verif).  usage: gen_seed_prompts.py <root under /tmp> [--avoid]
--avoid appends one-line summaries of the changes kept in earlier rounds for that property ("already tried, do
something else") so that a new round explores other mechanisms."""
import json, sys, os, glob
root = sys.argv[1]
avoid = '--avoid' in sys.argv
props = {}
for l in open('/verif/properties.jsonl'):
    p = json.loads(l); props[p['id']] = p
TMPL = open('/verif/seeded/PROMPT.tmpl.txt').read()
for pid, p in props.items():
    wt = os.path.join(root, pid)
    txt = TMPL.format(wt=wt, pid=pid, title=p['title'], statement=p['statement'], qtext=p['quantifier']['text'],
                      files=', '.join(p['anchors']['files']))
    if avoid:
        prev = []
        for d in sorted(glob.glob('/verif/seeded/%s-*/meta.json' % pid)):
            try:
                prev.append('  - ' + json.load(open(d)).get('summary', '').replace('\n', ' ')[:260])
            except Exception:
                pass
        if prev:
            txt += ('\nChanges that were ALREADY produced for this property in earlier rounds — do not repeat these or close '
                    'variations of them; look for other functions, other mechanisms, other clauses of the property:\n' + '\n'.join(prev) + '\n')
    open(os.path.join(root, 'prompt_%s.txt' % pid), 'w').write(txt)
print(len(props), 'prompts in', root)
