#!/usr/bin/env python3
"""dev: writes the per-property prompts given to the refactoring sub-agents (behaviour-preserving changes; one fresh
agent per property, own scratch worktree, nothing from /verif).  usage: gen_benign_prompts.py <root under /tmp> [template]"""
import json, sys, os
root = sys.argv[1]
tmpl = open(sys.argv[2] if len(sys.argv) > 2 else '/verif/benign/PROMPT-r3.tmpl.txt').read()
n = 0
for l in open('/verif/properties.jsonl'):
    d = json.loads(l)
    pid = d['id']
    files = ", ".join(d['anchors'].get('files', []))
    mech = "; ".join(m['name'] + " (" + m['where'] + ")" for m in d['anchors'].get('mechanism', []))
    txt = tmpl.format(wt=os.path.join(root, pid), pid=pid, title=d['title'], statement=d['statement'], files=files, mech=mech)
    open(os.path.join(root, 'prompt_%s.txt' % pid), 'w').write(txt)
    n += 1
print(n, 'prompts in', root)
