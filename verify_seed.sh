#!/bin/bash
# Confirms a seeded change produced by a sub-agent in a fresh scratch worktree of /repo HEAD:
#  demo passes clean; with the patch: build+vet+full suite pass and the demo fails.
# usage: verify_seed.sh <Cxx> <m1|m2>     (reads ${SEEDROOT:-/tmp/seed2}/<Cxx>/out/<mk>/)
set -u
P=$1; K=$2
SRC=${SEEDROOT:-/tmp/seed2}/$P/out/$K
ID=$P-${SEEDTAG:-r2}$K
WT=/tmp/vs/$ID
export PATH=/opt/veriftools/go1.26.8/bin:$PATH GOFLAGS=-mod=mod GOPROXY=off GOSUMDB=off GOTOOLCHAIN=local GOWORK=off
[ -f $SRC/patch.diff ] || { echo "$ID: no patch"; exit 2; }
mkdir -p /tmp/vs; git -C /repo worktree remove --force $WT 2>/dev/null; rm -rf $WT
git -C /repo worktree add -q --detach $WT HEAD || exit 2
cd $WT
PKG=$(python3 -c "import json;print(json.load(open('$SRC/meta.json'))['demo_pkg_dir'])")
RUN=$(python3 /verif/seed_run_cmd.py $SRC/meta.json)
DEMOS=$(ls $SRC/*_test.go 2>/dev/null)
[ -n "$DEMOS" ] || { echo "$ID: no demo test file"; }
LOG=/tmp/vs/$ID.log; : > $LOG
for d in $DEMOS; do cp $d $PKG/zz_$(basename $d); done
res_clean=FAIL; ( eval "timeout 300 $RUN" ) >>$LOG 2>&1 && res_clean=PASS
rm -f $PKG/zz_*_test.go
if ! git apply --3way $SRC/patch.diff >>$LOG 2>&1 && ! git apply $SRC/patch.diff >>$LOG 2>&1; then echo "$ID: patch does not apply"; cd /; git -C /repo worktree remove --force $WT; exit 1; fi
git reset -q 2>/dev/null
res_build=FAIL; (go build ./... && go vet ./...) >>$LOG 2>&1 && res_build=PASS
res_suite=FAIL; (go test -count=1 -vet=off ./...) >>$LOG 2>&1 && res_suite=PASS
for d in $DEMOS; do cp $d $PKG/zz_$(basename $d); done
res_mut=PASS; for try in 1 2 3 4; do ( eval "timeout 300 $RUN" ) >>$LOG 2>&1 || { res_mut=FAIL; break; }; done
rm -f $PKG/zz_*_test.go
git diff > /tmp/vs/$ID.patch
echo "$ID: demo_clean=$res_clean build_vet=$res_build suite=$res_suite demo_mutant=$res_mut"
if [ $res_clean = PASS ] && [ $res_build = PASS ] && [ $res_suite = PASS ] && [ $res_mut = FAIL ]; then
  D=/verif/seeded/$ID; mkdir -p $D
  cp /tmp/vs/$ID.patch $D/patch.diff
  for d in $DEMOS; do cp $d $D/$(basename $d).txt; done
  python3 - <<PY
import json
m=json.load(open('$SRC/meta.json'))
m['id']='$ID'
m['confirmed']={'by':'verify_seed.sh in scratch worktree /tmp/vs/$ID of /repo HEAD $(git -C /repo rev-parse --short HEAD)','demo_on_clean_tree':'PASS','build_and_vet_with_patch':'PASS','full_suite_with_patch':'PASS','demo_with_patch':'FAIL'}
m['demo_files']=[x+'.txt' for x in '''$(for d in $DEMOS; do basename $d; done)'''.split()]
json.dump(m,open('$D/meta.json','w'),indent=1)
PY
  echo "$ID: KEPT -> $D"
fi
cd /; git -C /repo worktree remove --force $WT; rm -f /tmp/vs/$ID.patch
