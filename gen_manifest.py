#!/usr/bin/env python3
"""Regenerates MANIFEST.json from the table below (kept valid at all times)."""
import json, subprocess, sys

BASELINE = json.load(open('/root/.vp/BASELINE.json'))['cmd']

# property -> (technique, level text, design ref)
CLAIMED = {
}
exec(open('/verif/manifest_table.py').read())

NOT_APPLICABLE = globals().get('NOT_APPLICABLE', {})

checks = []
for pid in sorted(CLAIMED):
    tech, text, ref = CLAIMED[pid]
    checks.append({
        "property_id": pid,
        "quick_cmd": f"./check.sh {pid} quick",
        "thorough_cmd": f"./check.sh {pid} thorough",
        "evidence_file": f"/verif/evidence/{pid}.json",
        "replay_cmd_template": "./check.sh --replay {path}",
        "engine": "zenocheck",
        "level_claimed": {"category": "other", "text": text, "design_ref": ref},
        "level_note": "Trusted base: go/types (go1.26.8), golang.org/x/tools v0.50.0 (go/packages, go/ssa, callgraph cha/vta), the reviewed rule tables in /verif/checker/rules; third-party modules (warc, goquery, gocrawlhq, sqlite, leveldb, ada) assumed to meet their documented contracts. Decides structural necessary conditions, not the runtime behaviour as a whole.",
        "technique": tech,
    })

m = {
    "version": 1,
    "setup_cmd": "./check.sh --build",
    "hooks": {
        "guard": "verif",
        "enable": "n/a: static analysis needs no instrumentation; no guarded source exists in /repo",
        "baseline_off_cmd": BASELINE,
        "source_commits": [],
        "add_only": True,
    },
    "engines": [{
        "name": "zenocheck", "path": "checker/",
        "serves_properties": sorted(CLAIMED),
        "kind_free_text": "custom repo-specific static analyzers over go/packages + go/ssa (+ CHA/VTA call graph): all-paths event rules, dominance/guard rules, who-may-write/who-may-call, lockset, constant folding / exhaustive abstract interpretation of small functions; preceded by a source canonicalisation pass (new helpers inlined back, renames undone, as a go/packages overlay) and path-sensitive reachability for flag phis",
    }],
    "checks": checks,
    "not_applicable": [{"property_id": k, "reason": v} for k, v in sorted(NOT_APPLICABLE.items()) if k not in CLAIMED],
    "notes": "All checks are static: they load /repo's current working tree with go/packages, build go/ssa and evaluate repo-specific rules; nothing from /repo is executed. Refactorings that only move code into helpers, rename unexported names or restate a loop are normalised away before the rules run (DESIGN.md §1.8). Known findings: /verif/known_findings.txt. Per-clause limits: DESIGN.md §3 and §5.",
}
json.dump(m, open('/verif/MANIFEST.json', 'w'), indent=1)
print("MANIFEST.json written:", len(checks), "checks,", len(m["not_applicable"]), "not applicable")
