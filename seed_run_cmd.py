#!/usr/bin/env python3
"""Prints the `go test …` command of a seed's meta.json (demo_run), quotes respected."""
import json, re, sys
r = json.load(open(sys.argv[1]))['demo_run']
m = re.search(r"""(GOMAXPROCS=\d+ +)?go test(?:'[^']*'|"[^"]*"|[^;&|'"])*""", r)
print(m.group(0).strip() if m else r)
