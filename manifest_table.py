_T = "static necessary-condition rules over the type-checked program (go/ssa): decides the structural clauses named in DESIGN §3 for this property on every path / for every writer / for every call site, not the runtime behaviour as a whole"
CLAIMED = {
 "C01": ("all-paths exactly-once event analysis on SSA CFG + value-identity wiring check + constant folding of HasWork + who-may-write", _T, "DESIGN.md §3 C01"),
 "C12": ("who-may-write on the reactor state table + edge-dominance (token arm / loaded / closed-check guards) + all-paths must-pass rules on SSA", _T, "DESIGN.md §3 C12"),
}
_P = "check not built yet in this round; planned rules in DESIGN.md §3 — not claimed until the rule runs"
NOT_APPLICABLE = {f"C{i:02d}": _P for i in range(1, 20)}
