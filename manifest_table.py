_T = "static necessary-condition rules over the type-checked program (go/ssa): decides the structural clauses named in DESIGN §3 for this property on every path / for every writer / for every call site, not the runtime behaviour as a whole"
CLAIMED = {
 "C01": ("all-paths exactly-once event analysis on SSA CFG + value-identity wiring check + constant folding of HasWork + who-may-write", _T, "DESIGN.md §3 C01"),
 "C12": ("who-may-write on the reactor state table + edge-dominance (token arm / loaded / closed-check guards) + all-paths must-pass rules on SSA", _T, "DESIGN.md §3 C12"),
}

CLAIMED.update({
 "C02": ("all-paths must-pass rule Do→feedback-wait→ItemArchived with WARCWriteAsync edge pruning + writer/reader context-key agreement with the linked warc module + who-may-call + drain-to-EOF guard rule + def-use chain of the discard hook", _T, "DESIGN.md §3 C02"),
 "C03": ("call-precedence (must-pass) rules on stopPipeline + goroutine/WaitGroup pairing + blocking-channel-operation scan of every waited goroutine with derived exemptions + nil-guard dominance on the WARC clients", _T, "DESIGN.md §3 C03"),
 "C05": ("all-paths edge-removal analysis of the preprocess gate loop + interprocedural validation summaries for NormalizeURL + who-may-call on request construction and HTTP egress", _T, "DESIGN.md §3 C05"),
 "C08": ("accessor-chain agreement (writer/reader) + guard dominance in both SeencheckItem variants + must-pass record-or-mark / hash-reset path rules + map-order effect scan", _T, "DESIGN.md §3 C08"),
 "C09": ("effect scan (map range / clock / random / package state) over everything reachable from URL.String and NormalizeURL + validation summaries for the accepted URL shape + split-before-unescape dataflow rule", _T, "DESIGN.md §3 C09"),
 "C14": ("per-worker select-arm path rules (pause arm ⇒ abandonable resume offer) + guard dominance and mutex pairing in pause.Resume/Pause + close/delete ordering", _T, "DESIGN.md §3 C14"),
 "C06": ("guard-dominance on the redirect/asset child creation sites + induction-variable shape of the retry loop + must-pass hop-assignment loops + who-may-write on the domains-crawl matcher", _T, "DESIGN.md §3 C06"),
 "C13": ("must-hold lockset dataflow with caller-holds helpers + shape-based interval reasoning on every store to refillRate/tokens + guard dominance and must-pass rules on the penalty arm + expression-shape check of the penalty formula", _T, "DESIGN.md §3 C13"),
 "C17": ("atomic-discipline scan over every access to the counter fields + who-may-write on rate.total + lockset dataflow on the per-key map with same-critical-section rule + Incr/defer-Decr pairing + must-pass event rules", _T, "DESIGN.md §3 C17"),
 "C18": ("data-dependence analysis of checkThreshold (single comparison on free, threshold independent of free) + exact-constant shape check of the three threshold cases + guard/must-pass rules on the watcher's pause/resume branches", _T, "DESIGN.md §3 C18"),
 "C16": ("acquire/release must-pass path rules (response bodies, spooled files, goroutine join, ticker stop) + guarded-insertion rule on the limiter table + reactor entry/token pairing", _T, "DESIGN.md §3 C16"),
 "C04": ("tokenised SQL-constant state machine + must-pass recovery statement on every successful Init + transaction-object identity and commit-before-return in Get + loop-coverage of the stop-time reset + who-may-call on DeleteURL", _T, "DESIGN.md §3 C04"),
 "C15": ("return-guard analysis of the sender retry loops (only shutdown or success) + select-arm dominance of batch replacement + fresh-slice rule + writer/reader field-mapping agreement + embedded-schema and constraint-branch checks", _T, "DESIGN.md §3 C15"),
 "C07": ("string-literal table extraction from goquery Find/Attr calls with def-use flow into the returned slice + guard allow-list per extraction site + exact-membership form of the disable test + loop-coverage of asset→child conversion", _T, "DESIGN.md §3 C07"),
 "C10": ("reachability-scoped scan (scope S) of every index/slice/assertion/panic/loop: bounds discharge by dominating guards, loop bounds, Split and regexp capture-group facts; defer/recover containment of panic-prone decoders; loop-variable progress on every back edge", _T, "DESIGN.md §3 C10"),
 "C11": ("who-may-write on the tree's structural fields + lockset dataflow with caller-holds + must-pass effects on every successful AddChild + constant folding of HasWork + guard allow-list on markCompleted + stage consistency gates", _T, "DESIGN.md §3 C11"),
 "C19": ("type-switch arm and loop-coverage checks in the JSON/XML/M3U8 extractors + sibling agreement on the asset/outlink split + predicate-order dominance in the dispatch switches + control-dependence and who-may-write rules on the S3 listing fields", _T, "DESIGN.md §3 C19"),
})
_P = "check not built yet in this round; planned rules in DESIGN.md §3 — not claimed until the rule runs"
NOT_APPLICABLE = {f"C{i:02d}": _P for i in range(1, 20)}
