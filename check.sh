#!/bin/bash
# Wrapper around the static checker. Usage:
#   ./check.sh Cxx quick|thorough      decide property Cxx on /repo's current working tree
#   ./check.sh --replay <file>         re-evaluate the obligation recorded in a replay file
#   ./check.sh --build                 (re)build the checker binary only
# Static analysis only: nothing from /repo is executed.
set -u
cd "$(dirname "$0")"
VERIF="$(pwd)"
export PATH=/opt/veriftools/go1.26.8/bin:$PATH
export GOFLAGS=-mod=mod GOPROXY=off GOSUMDB=off GOTOOLCHAIN=local GOWORK=off CGO_ENABLED=1
REPO="${VERIF_REPO:-/repo}"
BIN="$VERIF/bin/zenocheck"

build() {
  mkdir -p "$VERIF/bin"
  # rebuild when any checker source is newer than the binary
  if [ ! -x "$BIN" ] || [ -n "$(find "$VERIF/checker" -name '*.go' -newer "$BIN" -print -quit 2>/dev/null)" ] || [ "$VERIF/checker/go.mod" -nt "$BIN" ]; then
    (cd "$VERIF/checker" && go build -o "$BIN.tmp.$$" ./cmd/zenocheck && mv "$BIN.tmp.$$" "$BIN") || { echo "checker build failed" >&2; rm -f "$BIN.tmp.$$"; exit 2; }
  fi
}

case "${1:-}" in
  --build) build; exit 0 ;;
  --replay) build; exec "$BIN" -repo "$REPO" -verif "$VERIF" -replay "$2" ;;
  C[0-9][0-9]*)
    build
    tier="${2:-${VERIF_TIER:-quick}}"
    if [ "$tier" != "thorough" ] || [ -n "${3:-}" ]; then
      exec "$BIN" -repo "$REPO" -verif "$VERIF" -property "$1" -tier "$tier" ${3:+-only "$3"}
    fi
    # thorough: the same rules over the VTA-refined call graph, then the checker's own sensitivity is re-measured
    # for this property: every source variant and every kept seeded change of the property is analysed as an
    # overlay on /repo's current files (nothing is written to /repo, nothing from /repo is executed) and the
    # result is recorded in the evidence. The verdict (exit status) is that of the analysis of /repo alone.
    "$BIN" -repo "$REPO" -verif "$VERIF" -property "$1" -tier thorough
    rc=$?
    st="$VERIF/evidence/.selftest-$1.$$.json"
    python3 "$VERIF/selftest.py" -p "$1" -j 8 --quiet --json "$st" | tail -3
    python3 "$VERIF/merge_selftest.py" "$VERIF/evidence/$1.json" "$st"
    rm -f "$st"
    exit $rc
    ;;
  *) echo "usage: $0 Cxx quick|thorough | --replay <file> | --build" >&2; exit 2 ;;
esac
