#!/bin/bash
# dev helper: apply a kept seeded change to /repo, run the given property checks, restore /repo.
# usage: try_seed.sh <seed-id> [Cxx ...]   (default: the property recorded in meta.json)
set -u
ID=$1; shift
D=/verif/seeded/$ID
[ -f $D/patch.diff ] || { echo "no such seed $ID"; exit 2; }
git -C /repo diff --quiet || { echo "/repo dirty"; exit 3; }
PROPS="$@"
[ -n "$PROPS" ] || PROPS=$(python3 -c "import json;print(json.load(open('$D/meta.json'))['property'])")
git -C /repo apply $D/patch.diff || { echo "patch does not apply"; exit 3; }
for p in $PROPS; do
  out=$(/verif/check.sh $p quick 2>&1); rc=$?
  echo "== seed $ID on $p: exit=$rc"
  echo "$out" | grep -E "^  (violated|undecided)" | head -5
done
git -C /repo checkout -- .
git -C /repo status --short
