#!/bin/bash
# dev/records: applies every kept seeded change to /repo in turn, runs the quick check of its property, restores /repo.
# Output: /verif/seeded/RESULTS.tsv  (seed, property, exit, first violated obligation)
set -u
cd /verif
git -C /repo diff --quiet || { echo "/repo dirty"; exit 3; }
: > seeded/RESULTS.tsv
for d in seeded/C*m[0-9]/; do
  id=$(basename $d)
  prop=$(python3 -c "import json;print(json.load(open('$d/meta.json'))['property'])")
  git -C /repo apply /verif/$d/patch.diff 2>/dev/null || { printf "%s\t%s\tNA\tpatch does not apply\n" $id $prop >> seeded/RESULTS.tsv; continue; }
  out=$(./check.sh $prop quick 2>&1); rc=$?
  first=$(echo "$out" | grep -E "^  (violated|undecided)" | head -1 | awk '{print $2}')
  nviol=$(echo "$out" | grep -cE "^  (violated|undecided)")
  printf "%s\t%s\t%s\t%s\t%s\n" $id $prop $rc "$nviol" "$first" >> seeded/RESULTS.tsv
  git -C /repo checkout -- .
done
git -C /repo status --short
