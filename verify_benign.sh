#!/bin/bash
# Confirms a behaviour-preserving refactoring produced by a sub-agent in a fresh scratch worktree of /repo HEAD:
#  the patch applies, build+vet+full suite pass. Keeps it under /verif/benign/<Cxx>-b<k>/ (patch.diff, meta.json).
# Whether it is really behaviour-preserving is the agent's argument (meta.why_equivalent) plus my reading when a check alarms.
# usage: verify_benign.sh <Cxx> <b1..b4>     (reads ${BENROOT:-/tmp/ben}/<Cxx>/out/<bk>/)
set -u
P=$1; K=$2
SRC=${BENROOT:-/tmp/ben}/$P/out/$K
ID=$P-${BENTAG:-}$K
WT=/tmp/vb/$ID
export PATH=/opt/veriftools/go1.26.8/bin:$PATH GOFLAGS=-mod=mod GOPROXY=off GOSUMDB=off GOTOOLCHAIN=local GOWORK=off
[ -f $SRC/patch.diff ] || { echo "$ID: no patch"; exit 2; }
mkdir -p /tmp/vb; git -C /repo worktree remove --force $WT 2>/dev/null; rm -rf $WT
git -C /repo worktree add -q --detach $WT HEAD || exit 2
cd $WT
LOG=/tmp/vb/$ID.log; : > $LOG
if ! git apply $SRC/patch.diff >>$LOG 2>&1; then echo "$ID: patch does not apply"; cd /; git -C /repo worktree remove --force $WT; exit 1; fi
res_build=FAIL; (go build ./... && go vet ./...) >>$LOG 2>&1 && res_build=PASS
res_suite=FAIL; (go test -count=1 -vet=off ./...) >>$LOG 2>&1 && res_suite=PASS
[ $res_suite = FAIL ] && { (go test -count=1 -vet=off ./...) >>$LOG 2>&1 && res_suite=PASS; }
cp $SRC/patch.diff /tmp/vb/$ID.patch
echo "$ID: build_vet=$res_build suite=$res_suite"
if [ $res_build = PASS ] && [ $res_suite = PASS ]; then
  D=/verif/benign/$ID; mkdir -p $D
  cp /tmp/vb/$ID.patch $D/patch.diff
  python3 - <<PY
import json
m=json.load(open('$SRC/meta.json'))
m['id']='$ID'
m['confirmed']={'by':'verify_benign.sh in scratch worktree of /repo HEAD $(git -C /repo rev-parse --short HEAD)','build_and_vet_with_patch':'PASS','full_suite_with_patch':'PASS'}
json.dump(m,open('$D/meta.json','w'),indent=1)
PY
  echo "$ID: KEPT -> $D"
fi
cd /; git -C /repo worktree remove --force $WT; rm -f /tmp/vb/$ID.patch
