#!/bin/bash
# dev helper: temporarily re-introduce a fixed defect (reverse-apply a fix commit), run a check, restore.
# usage: dev_revert.sh <commit> <Cxx> [rule]
set -u
c=$1; prop=$2; rule=${3:-}
git -C /repo diff --quiet || { echo "/repo dirty"; exit 3; }
git -C /repo show "$c" -- . ':!*_test.go' | git -C /repo apply -R || { echo "cannot reverse-apply"; exit 3; }
/verif/check.sh "$prop" quick $rule | grep -v "^  held"
git -C /repo checkout -- .
git -C /repo status --short
