#!/usr/bin/env python3
"""Checker self-test: applies single-construct source mutations as go/packages
overlays (no copy of /repo is made) and verifies that the property check
reports each property-breaking variant and stays quiet on each behaviour-
preserving rewrite. A test of the *checker*, not of Zeno: nothing from /repo
is executed.

usage: selftest.py [-p Cxx] [-k substring] [-j N]
"""
import json, os, subprocess, sys, tempfile, argparse, glob, concurrent.futures, shutil

VERIF = os.path.dirname(os.path.abspath(__file__))
REPO = os.environ.get("VERIF_REPO", "/repo")
BIN = os.path.join(VERIF, "bin", "zenocheck")

def load_catalog():
    cat = []
    for f in sorted(glob.glob(os.path.join(VERIF, "variants", "*.py"))):
        ns = {}
        exec(open(f).read(), ns)
        cat.extend(ns.get("VARIANTS", []))
    # the seeded changes kept from the sub-agent rounds: applied to scratch copies of the touched files only
    for d in sorted(glob.glob(os.path.join(VERIF, "seeded", "C*m[0-9]"))):
        try:
            meta = json.load(open(os.path.join(d, "meta.json")))
        except (OSError, ValueError):
            continue
        cat.append({"id": "seed-" + os.path.basename(d), "property": meta.get("property", os.path.basename(d)[:3]),
                    "expect": "alarm", "patch": os.path.join(d, "patch.diff")})
    # behaviour-preserving refactorings kept from the sub-agent round: must stay quiet
    for d in sorted(glob.glob(os.path.join(VERIF, "benign", "C*b[0-9]"))):
        try:
            meta = json.load(open(os.path.join(d, "meta.json")))
        except (OSError, ValueError):
            continue
        for prop in meta.get("check_properties", [meta.get("property", os.path.basename(d)[:3])]):
            cat.append({"id": "refactor-" + os.path.basename(d) + ("" if prop == meta.get("property") else "@" + prop), "property": prop,
                        "expect": "quiet", "patch": os.path.join(d, "patch.diff")})
    return cat

def overlay_from_patch(patch, workdir):
    files = []
    for line in open(patch):
        if line.startswith("+++ b/") or line.startswith("--- a/"):
            f = line[6:].strip()
            if f not in files:
                files.append(f)
    d = tempfile.mkdtemp(prefix="zsp-", dir=workdir)
    try:
        for f in files:
            src = os.path.join(REPO, f)
            dst = os.path.join(d, f)
            os.makedirs(os.path.dirname(dst), exist_ok=True)
            if os.path.exists(src):
                shutil.copy(src, dst)
        r = subprocess.run(["patch", "-p1", "-s", "-f", "--no-backup-if-mismatch", "-d", d, "-i", patch], capture_output=True, text=True)
        if r.returncode != 0:
            return None, "patch does not apply to the current tree"
        ov = {}
        for f in files:
            if os.path.exists(os.path.join(d, f)):
                ov[os.path.join(REPO, f)] = open(os.path.join(d, f)).read()
            elif os.path.exists(os.path.join(REPO, f)) and f.endswith(".go"):
                # deleted by the patch: an overlay cannot remove a file, an empty file of the same package is equivalent
                pkg = "main"
                for l in open(os.path.join(REPO, f)):
                    if l.startswith("package "):
                        pkg = l.split()[1]
                        break
                ov[os.path.join(REPO, f)] = "package %s\n" % pkg
        return ov, ""
    finally:
        shutil.rmtree(d, ignore_errors=True)

def run_variant(v, workdir):
    overlay = {}
    if "patch" in v:
        overlay, why = overlay_from_patch(v["patch"], workdir)
        if overlay is None:
            return ("skip", why)
        edits = []
    else:
        edits = v["edits"] if "edits" in v else [{"file": v["file"], "old": v["old"], "new": v["new"]}]
    for e in edits:
        path = os.path.join(REPO, e["file"])
        src = overlay.get(path)
        if src is None:
            try:
                src = open(path).read()
            except OSError:
                return ("skip", "file missing: " + e["file"])
        if src.count(e["old"]) != 1:
            return ("skip", "anchor text occurs %d times in %s" % (src.count(e["old"]), e["file"]))
        overlay[path] = src.replace(e["old"], e["new"])
    d = tempfile.mkdtemp(prefix="zst-", dir=workdir)
    ov = os.path.join(d, "overlay.json")
    json.dump(overlay, open(ov, "w"))
    shutil.copy(os.path.join(VERIF, "known_findings.txt"), os.path.join(d, "known_findings.txt"))
    env = dict(os.environ, PATH="/opt/veriftools/go1.26.8/bin:" + os.environ["PATH"], GOFLAGS="-mod=mod", GOPROXY="off", GOSUMDB="off", GOTOOLCHAIN="local", GOWORK="off")
    r = subprocess.run([BIN, "-repo", REPO, "-verif", d, "-property", v["property"], "-tier", "quick", "-overlay", ov], capture_output=True, text=True, env=env)
    out = r.stdout + r.stderr
    shutil.rmtree(d, ignore_errors=True)
    if "load failed" in out:
        return ("skip", "variant does not type-check: " + out.strip().splitlines()[0][:200])
    alarm = "VIOLATION property=" in out
    lines = [l.strip() for l in out.splitlines() if l.strip().startswith(("violated", "undecided"))]
    want = v.get("expect", "alarm")
    if want == "alarm":
        if not alarm:
            return ("MISS", "no violation reported")
        if v.get("rule") and not any(v["rule"] in l for l in lines):
            return ("MISS", "violation reported but not by rule %s: %s" % (v["rule"], lines[:2]))
        return ("ok", lines[0][:160] if lines else "")
    else:
        if alarm:
            return ("FALSE-ALARM", "; ".join(lines[:2])[:300])
        return ("ok", "quiet")

def main():
    ap = argparse.ArgumentParser()
    ap.add_argument("-p", default="")
    ap.add_argument("-k", default="")
    ap.add_argument("-j", type=int, default=4)
    ap.add_argument("--json", default="")
    ap.add_argument("--no-seeds", action="store_true")
    ap.add_argument("--quiet", action="store_true")
    ap.add_argument("--all-props", action="store_true")
    a = ap.parse_args()
    subprocess.run([os.path.join(VERIF, "check.sh"), "--build"], check=True)
    cat = [v for v in load_catalog() if (not a.p or v["property"] == a.p) and (a.k in v["id"]) and not (a.no_seeds and "patch" in v)]
    if a.all_props:
        # development: evaluate every patch-based benign variant against all 19 properties
        extra = []
        for v in cat:
            if "patch" in v and v.get("expect") == "quiet" and "@" not in v["id"]:
                for i in range(1, 20):
                    pid = "C%02d" % i
                    if pid != v["property"]:
                        extra.append(dict(v, id=v["id"] + "@" + pid, property=pid))
        cat += extra
    work = tempfile.mkdtemp(prefix="zenoselftest-")
    res = {}
    with concurrent.futures.ThreadPoolExecutor(max_workers=a.j) as ex:
        futs = {ex.submit(run_variant, v, work): v for v in cat}
        for f in concurrent.futures.as_completed(futs):
            v = futs[f]
            res[v["id"]] = f.result()
    shutil.rmtree(work, ignore_errors=True)
    bad = 0
    for v in cat:
        st, msg = res[v["id"]]
        if st in ("MISS", "FALSE-ALARM"):
            bad += 1
        if not a.quiet or st != "ok":
            print("%-12s %s %-44s %s" % (st, v["property"], v["id"], msg))
    n = len(cat)
    print("selftest: %d variants, %d ok, %d skipped, %d wrong" % (n, sum(1 for s, _ in res.values() if s == "ok"), sum(1 for s, _ in res.values() if s == "skip"), bad))
    if a.json:
        kinds = {v["id"]: ("seeded" if "patch" in v and v.get("expect") == "alarm" else v.get("expect", "alarm")) for v in cat}
        json.dump({k: list(v) + [kinds[k]] for k, v in res.items()}, open(a.json, "w"), indent=1)
    sys.exit(1 if bad else 0)

if __name__ == "__main__":
    main()
