package main

import (
	"fmt"
	"os"
	"strings"

	"golang.org/x/tools/go/ssa"

	"zenocheck/core"
	"zenocheck/ir"
)

func main() {
	p, err := core.Load("/repo", "quick", nil)
	if err != nil {
		fmt.Println(err)
		os.Exit(1)
	}
	scope := []string{"internal/pkg/postprocessor", "internal/pkg/preprocessor", "internal/pkg/archiver", "pkg/models", "internal/pkg/utils"}
	for _, fn := range p.ModFuncs {
		pk := core.RelPkg(core.FuncPkg(fn))
		in := false
		for _, s := range scope {
			if strings.HasPrefix(pk, s) {
				in = true
			}
		}
		if !in {
			continue
		}
		for _, b := range fn.Blocks {
			for _, ins := range b.Instrs {
				switch x := ins.(type) {
				case *ssa.IndexAddr:
					fmt.Printf("IDX  %-60s %s  %s[%s]\n", core.FuncName(fn), p.InstrPos(ins), ir.Path(x.X), ir.Path(x.Index))
				case *ssa.Index:
					fmt.Printf("IDXV %-60s %s  %s[%s]\n", core.FuncName(fn), p.InstrPos(ins), ir.Path(x.X), ir.Path(x.Index))
				case *ssa.Slice:
					if x.Low != nil || x.High != nil {
						fmt.Printf("SLC  %-60s %s  %s\n", core.FuncName(fn), p.InstrPos(ins), ir.Path(x))
					}
				case *ssa.Lookup:
					if _, isStr := x.X.Type().Underlying().(interface{ Kind() int }); isStr {
					}
					if strings.Contains(x.X.Type().String(), "string") && !strings.Contains(x.X.Type().String(), "map") {
						fmt.Printf("STRI %-60s %s  %s[%s]\n", core.FuncName(fn), p.InstrPos(ins), ir.Path(x.X), ir.Path(x.Index))
					}
				case *ssa.TypeAssert:
					if !x.CommaOk {
						fmt.Printf("TA   %-60s %s  %s\n", core.FuncName(fn), p.InstrPos(ins), ir.Path(x))
					}
				case *ssa.Panic:
					fmt.Printf("PANIC %-59s %s  %s\n", core.FuncName(fn), p.InstrPos(ins), ir.Path(x.X))
				}
			}
		}
	}
}
