// zenocheck decides the structural clauses of the given properties on /repo's
// current source (static analysis only; nothing from /repo is executed).
package main

import (
	"encoding/json"
	"flag"
	"fmt"
	"os"
	"path/filepath"
	"strconv"
	"strings"
	"time"

	"zenocheck/core"
	"zenocheck/rules"
)

func main() {
	prop := flag.String("property", "", "property id (C01…C19)")
	tier := flag.String("tier", "quick", "quick|thorough")
	repo := flag.String("repo", "/repo", "repository root")
	verif := flag.String("verif", "/verif", "verif root (evidence/, replay/, known_findings.txt)")
	replay := flag.String("replay", "", "replay file: re-evaluate the property of that obligation and show it")
	overlay := flag.String("overlay", "", "self-test only: JSON {file: content} overlay")
	only := flag.String("only", "", "dev: restrict to one rule id")
	list := flag.Bool("list", false, "print the rule registry (markdown) and exit")
	writeInv := flag.String("write-inventory", "", "dev: write the baseline function inventory of -repo to this file and exit")
	flag.Parse()
	if *writeInv != "" {
		if err := core.WriteInventory(*repo, *writeInv); err != nil {
			fmt.Fprintln(os.Stderr, err)
			os.Exit(2)
		}
		return
	}
	if *list {
		for _, pid := range rules.Properties() {
			txt := rules.PropertyText[pid]
			fmt.Printf("### %s\n\n*Decides.* %s\n\n*Not decided.* %s\n\n", pid, txt[0], txt[1])
			for _, r := range rules.For(pid) {
				fmt.Printf("* **%s** (serves %s) — %s\n", r.ID, strings.Join(r.Props, ", "), r.Doc)
			}
			fmt.Println()
		}
		return
	}

	start := time.Now()
	seed := 0
	if s := os.Getenv("VERIF_SEED"); s != "" {
		if n, err := strconv.Atoi(s); err == nil {
			seed = n
		}
	}
	wantKey := ""
	if *replay != "" {
		b, err := os.ReadFile(*replay)
		if err != nil {
			fmt.Fprintln(os.Stderr, "cannot read replay file:", err)
			os.Exit(2)
		}
		var rec core.ReplayRecord
		if err := json.Unmarshal(b, &rec); err != nil || rec.Property == "" {
			fmt.Fprintln(os.Stderr, "malformed replay file")
			os.Exit(2)
		}
		*prop = rec.Property
		wantKey = rec.Obligation.Key()
		fmt.Printf("replaying %s obligation %s (recorded at %s: %s)\n", rec.Property, wantKey, rec.Obligation.Pos, rec.Obligation.Detail)
	}
	if *prop == "" {
		fmt.Fprintln(os.Stderr, "usage: zenocheck -property Cxx [-tier quick|thorough]")
		os.Exit(2)
	}
	rs := rules.For(*prop)
	if *only != "" {
		var f []*core.Rule
		for _, r := range rs {
			if r.ID == *only {
				f = append(f, r)
			}
		}
		rs = f
	}
	if len(rs) == 0 {
		fmt.Fprintf(os.Stderr, "no rules registered for %s\n", *prop)
		os.Exit(2)
	}
	var ov core.Overlay
	if *overlay != "" {
		b, err := os.ReadFile(*overlay)
		if err != nil {
			fmt.Fprintln(os.Stderr, err)
			os.Exit(2)
		}
		m := map[string]string{}
		if err := json.Unmarshal(b, &m); err != nil {
			fmt.Fprintln(os.Stderr, err)
			os.Exit(2)
		}
		ov = core.Overlay{}
		for k, v := range m {
			ov[k] = []byte(v)
		}
	}
	kf, err := core.LoadKnown(filepath.Join(*verif, "known_findings.txt"))
	if err != nil {
		fmt.Fprintln(os.Stderr, "known findings:", err)
		os.Exit(2)
	}
	p, err := core.Load(*repo, *tier, ov)
	if err != nil {
		// fail closed: the property cannot be decided on a tree that does not load
		os.MkdirAll(filepath.Join(*verif, "replay"), 0o755)
		rp := filepath.Join(*verif, "replay", *prop+"-load.json")
		b, _ := json.MarshalIndent(map[string]string{"property": *prop, "problem": "load failed", "error": err.Error()}, "", " ")
		os.WriteFile(rp, b, 0o644)
		fmt.Printf("load failed: %v\n", err)
		fmt.Printf("VIOLATION property=%s replay=%s\n", *prop, rp)
		os.Exit(1)
	}
	rep := core.NewReporter(p, *prop)
	for _, r := range rs {
		rep.SetRule(r.ID)
		func() {
			defer func() {
				if e := recover(); e != nil {
					rep.Undecided("panic", "", "rule panicked: %v", e)
				}
			}()
			r.Run(rep)
		}()
	}
	txt := rules.PropertyText[*prop]
	var docs []string
	for _, r := range rs {
		docs = append(docs, r.ID+": "+r.Doc)
	}
	expl := txt[0] + " Rules: " + strings.Join(docs, " | ")
	code := core.Finish(rep, rs, kf, *verif, seed, start, expl, txt[1], nil)
	if wantKey != "" {
		for _, o := range rep.Obs {
			if o.Key() == wantKey {
				fmt.Printf("replayed obligation %s: %s at %s — %s\n", wantKey, o.Verdict, o.Pos, o.Detail)
			}
		}
	}
	os.Exit(code)
}
