package rules

import (
	"fmt"
	"go/token"
	"go/types"
	"sort"
	"strings"

	"golang.org/x/tools/go/ssa"

	"zenocheck/core"
	"zenocheck/ir"
)

// R-OPTIONAL-COMPONENT: components that controler.startPipeline starts only under a configuration condition keep
// their state behind a package-level pointer that stays nil otherwise. Every call from outside the component into
// one of its functions that dereferences that pointer must sit under (at least) the same condition.

func init() {
	register(&core.Rule{ID: "R-OPTIONAL-COMPONENT", Props: []string{"C03"}, Doc: "for every component that controler.startPipeline starts under a configuration condition (seencheck: UseSeencheck && !UseHQ; hq: UseHQ; lq: !UseHQ; api; consul — derived from the guards of the Start/Register calls, not listed): the package-level pointers its starter assigns are nil when the condition is false, so every call from another package into a function of the component that (transitively, inside the package) dereferences such a pointer without a nil test is guarded by every conjunct of the start condition with the same polarity; 'any supported configuration … without crashing' fails at the first such call (there is no recover)", Run: ruleOptionalComponent})
}

type cfgCond struct {
	path string
	pol  bool
}

func (c cfgCond) String() string {
	if c.pol {
		return c.path
	}
	return "!" + c.path
}

// configGuards returns the configuration conjuncts under which `at` executes in fn (boolean config fields only).
func configGuards(fn *ssa.Function, at ssa.Instruction) []cfgCond {
	var out []cfgCond
	seen := map[string]bool{}
	for _, ii := range ir.Ifs(fn) {
		if ii.Atom.V == nil {
			continue
		}
		path := ir.Path(ii.Atom.V)
		if !strings.HasPrefix(path, "config.Get().") {
			continue
		}
		for _, pol := range []bool{true, false} {
			if ir.OnlyVia(ir.Entry(fn), at, ii.If.Block(), ii.EdgeWhen(pol)) {
				k := fmt.Sprint(path, pol)
				if !seen[k] {
					seen[k] = true
					out = append(out, cfgCond{path, pol})
				}
			}
		}
	}
	sort.Slice(out, func(i, j int) bool { return out[i].path < out[j].path })
	return out
}

func ruleOptionalComponent(r *core.Reporter) {
	p := r.P
	start := p.Func(rel(pkgCtl), "startPipeline")
	if start == nil {
		r.Undecided("controler.startPipeline", "", "function not found")
		return
	}
	r.Analysed(start)
	type comp struct {
		pkg     *types.Package
		starter *ssa.Function
		cond    []cfgCond
	}
	var comps []comp
	allInstrs(start, func(in ssa.Instruction) {
		cc := ir.AsCall(in)
		if cc == nil {
			return
		}
		callee := cc.StaticCallee()
		if callee == nil || !core.InModule(callee) || callee.Pkg == nil || callee.Signature.Recv() != nil || callee.Pkg.Pkg.Path() == pkgCtl || callee.Pkg.Pkg.Path() == pkgConfig {
			return
		}
		cond := configGuards(start, in)
		if len(cond) == 0 {
			return
		}
		comps = append(comps, comp{callee.Pkg.Pkg, callee, cond})
	})
	if !r.Floor("conditionally started components", len(comps), 3) {
		return
	}
	checked := 0
	for _, c := range comps {
		pkgFns := map[*ssa.Function]bool{}
		for _, fn := range p.ModFuncs {
			if core.FuncPkg(fn) == c.pkg {
				pkgFns[fn] = true
			}
		}
		// the pointers the starter establishes (directly or through in-package callees, not through goroutines)
		est := map[*ssa.Global]bool{}
		seenFn := map[*ssa.Function]bool{}
		var walk func(fn *ssa.Function, d int)
		walk = func(fn *ssa.Function, d int) {
			if fn == nil || seenFn[fn] || d > 3 || !pkgFns[fn] {
				return
			}
			seenFn[fn] = true
			allInstrs(fn, func(in ssa.Instruction) {
				if st, ok := in.(*ssa.Store); ok {
					if g, isG := st.Addr.(*ssa.Global); isG && g.Pkg != nil && g.Pkg.Pkg == c.pkg && !ir.IsNilConst(st.Val) {
						if _, isPtr := g.Type().(*types.Pointer).Elem().Underlying().(*types.Pointer); isPtr {
							est[g] = true
						}
					}
				}
				if cl, ok := in.(*ssa.Call); ok {
					walk(cl.Call.StaticCallee(), d+1)
				}
				if mc, ok := in.(*ssa.MakeClosure); ok { // once.Do(func() { global = … })
					if cf, isF := mc.Fn.(*ssa.Function); isF {
						pkgFns[cf] = true
						walk(cf, d+1)
					}
				}
			})
		}
		walk(c.starter, 0)
		cname := c.pkg.Name()
		if len(est) == 0 {
			r.Held(cname+"/state", 0, "started under %v; its starter establishes no package-level pointer (nothing to dereference)", c.cond)
			continue
		}
		// functions that dereference an established pointer without testing it
		needs := map[*ssa.Function]string{}
		for fn := range pkgFns {
			if fn == c.starter {
				continue
			}
			allInstrs(fn, func(in ssa.Instruction) {
				ld, ok := in.(*ssa.UnOp)
				if !ok || ld.Op != token.MUL {
					return
				}
				g, isG := ld.X.(*ssa.Global)
				if !isG || !est[g] || needs[fn] != "" {
					return
				}
				for _, use := range derefUses(ld, map[ssa.Value]bool{}) {
					if !handleNilGuarded(fn, ld, use) {
						needs[fn] = g.Name()
						return
					}
				}
			})
		}
		// propagate to in-package callers (synchronous calls; closures count for their parent when called or deferred)
		for changed := true; changed; {
			changed = false
			for fn := range pkgFns {
				if needs[fn] != "" || fn == c.starter {
					continue
				}
				allInstrs(fn, func(in ssa.Instruction) {
					if needs[fn] != "" {
						return
					}
					if _, isGo := in.(*ssa.Go); isGo {
						return
					}
					cc := ir.AsCall(in)
					if cc == nil {
						return
					}
					if callee := ir.CalleeOf(cc); callee != nil && needs[callee] != "" {
						needs[fn] = needs[callee]
						changed = true
					}
				})
			}
		}
		// external call sites
		var gl []string
		for g := range est {
			gl = append(gl, g.Name())
		}
		sort.Strings(gl)
		sites, bad := 0, 0
		count := map[string]int{}
		for _, fn := range p.ModFuncs {
			if !core.InModule(fn) || core.FuncPkg(fn) == c.pkg {
				continue
			}
			fn := fn
			allInstrs(fn, func(in ssa.Instruction) {
				cc := ir.AsCall(in)
				if cc == nil {
					return
				}
				callee := ir.CalleeOf(cc)
				if callee == nil || needs[callee] == "" {
					return
				}
				sites++
				r.Analysed(fn)
				have := map[string]bool{}
				for _, g := range configGuards(fn, in) {
					have[g.String()] = true
				}
				var missing []string
				for _, want := range c.cond {
					if !have[want.String()] {
						missing = append(missing, want.String())
					}
				}
				k := fmt.Sprintf("%s/call:%s.%s", core.FuncName(fn), cname, callee.Name())
				count[k]++
				key := fmt.Sprintf("%s#%d", k, count[k])
				if len(missing) > 0 {
					bad++
					r.Violated(key, p.InstrPos(in), "%s.%s dereferences %s.%s, which %s only assigns when %v; this call is not under %s — with that setting off the pointer is nil and the first call panics (no recover: the crawler dies)", cname, callee.Name(), cname, needs[callee], core.FuncName(c.starter), c.cond, strings.Join(missing, ", "))
				} else {
					r.Held(key, 1, "call under the component's start condition")
				}
			})
		}
		checked++
		if bad == 0 {
			r.Held(cname+"/state", sites, "started under %v, establishes %v; %d external call site(s) into dereferencing functions all under that condition", c.cond, gl, sites)
		}
	}
	_ = checked
}
