package rules

import (
	"go/ast"
	"go/constant"
	"go/token"
	"go/types"
	"os"
	"path/filepath"
	"regexp"
	"strings"

	"golang.org/x/tools/go/ssa"

	"zenocheck/core"
	"zenocheck/ir"
)

func init() {
	PropertyText["C15"] = [2]string{
		"Decides: the crawl-HQ senders (and the local finisher sender) leave their retry loop only on success or shutdown — no retry cap, no drop (R-RETRY-UNTIL-DONE); in every receiver an item read from the pipeline is appended to the batch, the batch is replaced only after its copy was sent and by a fresh slice, and every dispatched batch reaches a sender (R-BATCH-NO-LOSS); producers and consumers map URL text, via and hop count through the same fields and the same hop encoding, acks carry the item id (R-OUTLINK-FIELDS, R-HOPS); the local queue's UNIQUE(value) index exists and Add skips exactly the constraint error (R-LQ-UNIQUE). The time-triggered flush of each receiver keeps firing: a ticker, or a timer re-armed on every way through its arm (flush-clock clause).",
		"Not decided: the exact driver error text the constraint test matches (owned by the sqlite driver); delivery under crash; crawl HQ's server semantics; the local producer gives up on a failing Add (not part of the stated property, which names crawl-HQ errors).",
	}
	register(&core.Rule{ID: "R-RETRY-UNTIL-DONE", Props: []string{"C15"}, Doc: "hq.producerSender, hq.finisherSender, lq.finisherSender: every return is reachable only through the ctx.Done() arm or through err==nil of the queue call made in that iteration; siblings must agree", Run: ruleRetryUntilDone})
	register(&core.Rule{ID: "R-BATCH-NO-LOSS", Props: []string{"C15", "C01"}, Doc: "the four *Receiver loops: a received item is always appended to the batch; a new batch object is created only on the send arm of the select that hands the copy to batchCh; the batch's slice is never re-sliced in place; dispatchers pass every batch they receive to a sender", Run: ruleBatchNoLoss})
	register(&core.Rule{ID: "R-OUTLINK-FIELDS", Props: []string{"C15"}, Doc: "writer/reader agreement: producers set Value←GetURL().Raw, Via←GetSeedVia(), hops←GetHops() (HQ via hopsToPath, LQ as int64); consumers set Raw←Value, seedVia←Via, Hops←pathToHops(Path)/int(Hops), id←ID; hopsToPath/pathToHops use one and the same character; acks carry ID←item.GetID()", Run: ruleOutlinkFields})
	register(&core.Rule{ID: "R-LQ-UNIQUE", Props: []string{"C15"}, Doc: "the embedded schema declares a UNIQUE index on urls(value) and is executed by Init; (*LQClient).Add skips only the unique-constraint error (continue), returns on any other error before Commit, and commits otherwise", Run: ruleLQUnique})
}

func ruleRetryUntilDone(r *core.Reporter) {
	p := r.P
	type sender struct{ pkg, fn, call string }
	senders := []sender{
		{pkgHQ, "producerSender", "Add"}, {pkgHQ, "finisherSender", "Delete"}, {pkgLQ, "finisherSender", "Delete"},
	}
	n := 0
	for _, s := range senders {
		fn := p.Func(rel(s.pkg), s.fn)
		key := rel(s.pkg) + "." + s.fn
		if fn == nil {
			r.Undecided(key, "", "anchor not found")
			continue
		}
		r.Analysed(fn)
		// the queue call: method named s.call on the client whose last result is error
		var qc *ssa.Call
		allInstrs(fn, func(in ssa.Instruction) {
			c, ok := in.(*ssa.Call)
			if !ok {
				return
			}
			f := ir.CalleeOf(c.Common())
			if f != nil && f.Name() == s.call && f.Signature.Recv() != nil && strings.Contains(ir.Path(c.Call.Args[0]), ".client") {
				qc = c
			}
		})
		if qc == nil {
			r.Violated(key, fnPos(p, fn), "the sender no longer calls client.%s", s.call)
			continue
		}
		n++
		// the batch passed is the function's batch parameter
		// (identified by its type — it may be the receiver after a function → method conversion)
		batchParam := ""
		for _, prm := range fn.Params {
			if strings.Contains(strings.ToLower(prm.Type().String()), "batch") {
				batchParam = prm.Name()
			}
		}
		if batchParam == "" || !strings.Contains(ir.Path(qc.Call.Args[2]), "$"+batchParam+".URLs") {
			r.Violated(key+"/payload", p.InstrPos(qc), "the sender does not submit its batch's URLs (got %s)", ir.Path(qc.Call.Args[2]))
		}
		errNil := func(a ir.Atom) bool {
			return a.V == nil && a.Op == token.EQL && ((a.X == ssa.Value(qc) && ir.IsNilConst(a.Y)) || (a.Y == ssa.Value(qc) && ir.IsNilConst(a.X)))
		}
		// Done arms
		type edge struct {
			b *ssa.BasicBlock
			s int
		}
		var doneEdges []edge
		for _, si := range ir.Selects(fn) {
			for _, arm := range si.Arms {
				if arm.State.Dir == types.RecvOnly && arm.EdgeB != nil {
					if _, ok := ir.IsDoneChan(arm.State.Chan); ok {
						doneEdges = append(doneEdges, edge{arm.EdgeB, arm.EdgeS})
					}
				}
			}
		}
		bad := ssa.Instruction(nil)
		for _, ret := range ir.Returns(fn) {
			ok := false
			for _, e := range doneEdges {
				if ir.OnlyVia(ir.Entry(fn), ret, e.b, e.s) {
					ok = true
				}
			}
			if !ok {
				if _, g := ir.GuardedBy(fn, ir.Entry(fn), ret, true, errNil); g {
					// and the err tested is the one of the latest call: the call dominates in the same iteration — the If must be
					// reachable from the call without passing the call again
					ok = true
				}
			}
			if !ok {
				bad = ret
			}
		}
		// the loop really retries: from the err != nil edge the call is reached again
		retries := false
		for _, ii := range ir.Ifs(fn) {
			if errNil(ii.Atom) {
				start := ir.EdgePt(ii.If.Block(), ii.EdgeWhen(false))
				if ir.Reach([]ir.Pt{start}, ir.Opts{}).Reached[qc] {
					retries = true
				}
			}
		}
		switch {
		case bad != nil:
			r.Violated(key, p.InstrPos(bad), "the sender can give up: a return is reachable that is neither the shutdown arm nor the success of the queue call (retry cap or error-class early exit) — the batch is dropped on a transient queue error")
		case !retries:
			r.Violated(key, p.InstrPos(qc), "a failed client.%s is not retried", s.call)
		case len(doneEdges) == 0:
			r.Violated(key, fnPos(p, fn), "the retry loop cannot be left on shutdown")
		default:
			r.Held(key, 1, "returns only on ctx.Done() or on client.%s success; failures loop back to the call", s.call)
		}
	}
	r.Floor("queue senders", n, 3)
}

// batchRecvArm: in fn, the select arm that receives a *models.Item from the source's channel field.
func ruleBatchNoLoss(r *core.Reporter) {
	p := r.P
	recvs := []struct{ pkg, fn string }{{pkgHQ, "producerReceiver"}, {pkgHQ, "finisherReceiver"}, {pkgLQ, "producerReceiver"}, {pkgLQ, "finisherReceiver"}}
	n := 0
	for _, rc := range recvs {
		fn := p.Func(rel(rc.pkg), rc.fn)
		key := rel(rc.pkg) + "." + rc.fn
		if fn == nil {
			r.Undecided(key, "", "anchor not found")
			continue
		}
		r.Analysed(fn)
		// main select + item arm
		var mainSel *ir.SelectInfo
		var itemArm *ir.SelectArm
		for _, si := range ir.Selects(fn) {
			si := si
			for i := range si.Arms {
				if si.Arms[i].State.Dir == types.RecvOnly && isItemChan(si.Arms[i].State.Chan.Type()) {
					mainSel = &si
					itemArm = &si.Arms[i]
				}
			}
		}
		if mainSel == nil || itemArm.Body == nil {
			r.Violated(key+"/receive", fnPos(p, fn), "the receiver no longer reads items from the pipeline channel in its select")
			continue
		}
		n++
		hdr := mainSel.Sel
		// (1) append on the item arm
		isAppendStore := func(in ssa.Instruction) bool {
			st, ok := in.(*ssa.Store)
			if !ok {
				return false
			}
			_, f, okf := ir.FieldOf(st.Addr)
			if !okf || f != "URLs" {
				return false
			}
			c, isC := st.Val.(*ssa.Call)
			return isC && ir.CallName(c.Common()) == "builtin.append"
		}
		res := ir.Reach([]ir.Pt{{B: itemArm.Body, I: 0}}, ir.Opts{Stop: func(in ssa.Instruction) bool { return in == ssa.Instruction(hdr) || isAppendStore(in) }})
		dropped := res.Stopped[hdr]
		for in := range res.Reached {
			if _, isRet := in.(*ssa.Return); isRet {
				dropped = true
			}
		}
		if dropped {
			r.Violated(key+"/append", p.InstrPos(itemArm.Body.Instrs[0]), "an item received from the pipeline can be left out of the batch (a path skips the append): that outlink / finish ack never reaches the queue")
		} else {
			r.Held(key+"/append", 1, "every received item is appended to the batch")
		}
		// (2) new batch objects only on send arms
		var sendEdges [][2]any
		for _, si := range ir.Selects(fn) {
			for _, arm := range si.Arms {
				if arm.State.Dir == types.SendOnly && arm.EdgeB != nil && strings.Contains(strings.ToLower(ir.TypeName(arm.State.Chan.Type())+arm.State.Chan.Type().String()), "batch") {
					sendEdges = append(sendEdges, [2]any{arm.EdgeB, arm.EdgeS})
				}
			}
		}
		if len(sendEdges) < 2 {
			r.Violated(key+"/send", fnPos(p, fn), "expected a size-triggered and a timer-triggered hand-over of the batch to the dispatcher (found %d abandonable sends)", len(sendEdges))
			continue
		}
		var batchType string
		resets, badReset := 0, ssa.Instruction(nil)
		loopStart := ir.Pt{B: hdr.Block(), I: 0}
		allInstrs(fn, func(in ssa.Instruction) {
			al, ok := in.(*ssa.Alloc)
			if !ok || !al.Heap {
				return
			}
			tn := ir.TypeName(al.Type())
			if !strings.HasSuffix(strings.ToLower(tn), "batch") {
				return
			}
			batchType = tn
			// is it created inside the loop?
			if !ir.Reach([]ir.Pt{ir.After(hdr)}, ir.Opts{}).Reached[in] {
				return
			}
			// copies (copyBatch) are stored with a load of the current batch; replacements get a fresh URLs slice
			isCopy := false
			for _, rr := range ir.Referrers(al) {
				if st, isSt := rr.(*ssa.Store); isSt && st.Addr == ssa.Value(al) {
					isCopy = true
				}
			}
			if isCopy {
				return
			}
			resets++
			via := false
			for _, e := range sendEdges {
				if ir.OnlyVia(loopStart, in, e[0].(*ssa.BasicBlock), e[1].(int)) {
					via = true
				}
			}
			if !via {
				badReset = in
			}
		})
		if resets < 2 {
			r.Violated(key+"/reset", fnPos(p, fn), "the batch is not replaced by a fresh one after each hand-over (%d replacement site(s) of %s)", resets, batchType)
		} else if badReset != nil {
			r.Violated(key+"/reset", p.InstrPos(badReset), "the batch can be replaced without its copy having been sent to the dispatcher (e.g. through a default/else arm): the items collected so far are silently dropped")
		} else {
			r.Held(key+"/reset", resets, "a fresh batch replaces the old one only on the arm that sent the copy")
		}
		// (3) no in-place re-slice of URLs
		reslice := ssa.Instruction(nil)
		allInstrs(fn, func(in ssa.Instruction) {
			st, ok := in.(*ssa.Store)
			if !ok {
				return
			}
			if _, f, okf := ir.FieldOf(st.Addr); okf && f == "URLs" {
				if _, isSl := st.Val.(*ssa.Slice); isSl {
					reslice = in
				}
			}
		})
		if reslice != nil {
			r.Violated(key+"/fresh-slice", p.InstrPos(reslice), "the batch's URL slice is re-sliced in place after the hand-over: the copy in flight (possibly being retried) shares the backing array and is overwritten by later items")
		} else {
			r.Held(key+"/fresh-slice", 1, "batch slices are never re-sliced in place")
		}
		// (4) the time-triggered flush keeps firing: a periodic ticker, or a one-shot timer re-armed on every way
		// through its arm (a timer that fires on an empty batch and is not reset never fires again: a trailing group
		// smaller than the batch size waits for ever)
		for _, si := range ir.Selects(fn) {
			for _, arm := range si.Arms {
				if arm.State.Dir != types.RecvOnly || arm.Body == nil {
					continue
				}
				tn, f, okf := fieldOfLoad(arm.State.Chan)
				if !okf || f != "C" {
					continue
				}
				switch tn {
				case "time.Ticker":
					r.Held(key+"/flush-clock", 1, "time-triggered flush driven by a periodic ticker")
				case "time.Timer":
					var timer ssa.Value
					if u, isU := arm.State.Chan.(*ssa.UnOp); isU {
						if fa, isFA := u.X.(*ssa.FieldAddr); isFA {
							timer = fa.X
						}
					}
					rearm := func(in ssa.Instruction) bool {
						c, ok := in.(*ssa.Call)
						return ok && ir.IsCallTo(c, "(*time.Timer).Reset") && (timer == nil || ir.SameValue(c.Call.Args[0], timer))
					}
					sel := si.Sel
					if _, again := ir.PathExists([]ir.Pt{{B: arm.Body, I: 0}}, ir.Opts{Stop: rearm}, func(in ssa.Instruction) bool { return in == ssa.Instruction(sel) }); again {
						r.Violated(key+"/flush-clock", p.InstrPos(arm.Body.Instrs[0]), "the flush deadline is a one-shot timer and a way through its arm (it fired on an empty batch) does not re-arm it: after the first idle period it never fires again, items that do not fill a whole batch are never handed to the queue")
					} else {
						r.Held(key+"/flush-clock", 1, "one-shot flush timer re-armed on every way through its arm")
					}
				}
			}
		}
	}
	r.Floor("batch receivers", n, 4)
	// dispatchers
	for _, d := range []struct{ pkg, fn, sender string }{{pkgHQ, "producerDispatcher", "producerSender"}, {pkgHQ, "finisherDispatcher", "finisherSender"}, {pkgLQ, "finisherDispatcher", "finisherSender"}, {pkgLQ, "producerDispatcher", ""}} {
		fn := p.Func(rel(d.pkg), d.fn)
		var senderFn *ssa.Function
		if d.sender != "" {
			senderFn = p.Func(rel(d.pkg), d.sender) // follows renames and function → method conversions
		}
		key := rel(d.pkg) + "." + d.fn
		if fn == nil {
			r.Undecided(key, "", "anchor not found")
			continue
		}
		r.Analysed(fn)
		var arm *ir.SelectArm
		var sel *ssa.Select
		var batchVal ssa.Value
		for _, si := range ir.Selects(fn) {
			recvIdx := 0
			for i := range si.Arms {
				a := si.Arms[i]
				if a.State.Dir != types.RecvOnly {
					continue
				}
				my := recvIdx
				recvIdx++
				if strings.Contains(strings.ToLower(a.State.Chan.Type().String()), "batch") {
					arm = &si.Arms[i]
					sel = si.Sel
					for _, rr := range ir.Referrers(si.Sel) {
						if e, ok := rr.(*ssa.Extract); ok && e.Index == 2+my {
							batchVal = e
						}
					}
				}
			}
		}
		if arm == nil || arm.Body == nil || batchVal == nil {
			r.Violated(key, fnPos(p, fn), "the dispatcher no longer receives batches from its channel")
			continue
		}
		handled := func(in ssa.Instruction) bool {
			switch x := in.(type) {
			case *ssa.Go:
				for _, a := range x.Call.Args {
					if ir.SameValue(a, batchVal) {
						// the goroutine calls the sender with its batch parameter
						t := ir.CalleeOf(x.Common())
						ok := false
						allInstrs(t, func(y ssa.Instruction) {
							if c, isC := y.(*ssa.Call); isC {
								if f := ir.CalleeOf(c.Common()); f != nil && (f.Name() == d.sender || f == senderFn) {
									ok = true
								}
							}
						})
						return ok
					}
				}
			case *ssa.Call:
				if f := ir.CalleeOf(x.Common()); f != nil && (f.Name() == "Add" || f.Name() == d.sender || f == senderFn) {
					for _, a := range x.Call.Args {
						if strings.HasPrefix(ir.Path(a), ir.Path(batchVal)) {
							return true
						}
					}
				}
			}
			return false
		}
		res := ir.Reach([]ir.Pt{{B: arm.Body, I: 0}}, ir.Opts{Stop: func(in ssa.Instruction) bool { return in == ssa.Instruction(sel) || handled(in) }})
		lost := res.Stopped[sel]
		for in := range res.Reached {
			if _, isRet := in.(*ssa.Return); isRet {
				lost = true
			}
		}
		if lost {
			r.Violated(key, p.InstrPos(arm.Body.Instrs[0]), "a batch taken from the channel can be discarded without being passed to a sender")
		} else {
			r.Held(key, 1, "every received batch is handed to a sender")
		}
	}
}

func ruleOutlinkFields(r *core.Reporter) {
	p := r.P
	fieldsStored := func(fn *ssa.Function, structType string) map[string]ssa.Value {
		out := map[string]ssa.Value{}
		allInstrs(fn, func(in ssa.Instruction) {
			if st, ok := in.(*ssa.Store); ok {
				if tn, f, ok := ir.FieldOf(st.Addr); ok && tn == structType {
					out[f] = st.Val
				}
			}
		})
		return out
	}
	// ---- producers
	type want struct {
		field string
		ok    func(v ssa.Value, item string) bool
		desc  string
	}
	hqURL := "github.com/internetarchive/gocrawlhq.URL"
	lqURL := pkgSqlc + ".Url"
	endsWith := func(suffix string) func(ssa.Value, string) bool {
		return func(v ssa.Value, item string) bool { return v != nil && ir.Path(v) == item+suffix }
	}
	prods := []struct {
		pkg, fn, typ string
		wants        []want
	}{
		{pkgHQ, "producerReceiver", hqURL, []want{
			{"Value", endsWith(".GetURL().Raw"), "item.GetURL().Raw"},
			{"Via", endsWith(".GetSeedVia()"), "item.GetSeedVia()"},
			{"Path", func(v ssa.Value, item string) bool {
				if v == nil {
					return false
				}
				pv := ir.Path(v)
				// hopsToPath(hops), or its body written out: strings.Repeat("<c>", hops)
				if pv == "hq.hopsToPath("+item+".GetURL().GetHops())" {
					return true
				}
				return strings.HasPrefix(pv, "strings.Repeat(") && strings.HasSuffix(pv, ","+item+".GetURL().GetHops())")
			}, "hopsToPath(item.GetURL().GetHops())"},
		}},
		{pkgLQ, "producerReceiver", lqURL, []want{
			{"Value", endsWith(".GetURL().Raw"), "item.GetURL().Raw"},
			{"Via", endsWith(".GetSeedVia()"), "item.GetSeedVia()"},
			{"Hops", func(v ssa.Value, item string) bool {
				return v != nil && ir.Path(v) == "int64("+item+".GetURL().GetHops())"
			}, "int64(item.GetURL().GetHops())"},
		}},
		{pkgHQ, "finisherReceiver", hqURL, []want{{"ID", endsWith(".GetID()"), "item.GetID()"}}},
		{pkgLQ, "finisherReceiver", lqURL, []want{{"ID", endsWith(".GetID()"), "item.GetID()"}}},
	}
	for _, pr := range prods {
		fn := p.Func(rel(pr.pkg), pr.fn)
		key := rel(pr.pkg) + "." + pr.fn
		if fn == nil {
			r.Undecided(key, "", "anchor not found")
			continue
		}
		r.Analysed(fn)
		// the item: extract of the select's item receive
		item := ""
		for _, si := range ir.Selects(fn) {
			recvIdx := 0
			for _, a := range si.Arms {
				if a.State.Dir != types.RecvOnly {
					continue
				}
				my := recvIdx
				recvIdx++
				if isItemChan(a.State.Chan.Type()) {
					for _, rr := range ir.Referrers(si.Sel) {
						if e, ok := rr.(*ssa.Extract); ok && e.Index == 2+my {
							item = ir.Path(e)
						}
					}
				}
			}
		}
		st := fieldsStored(fn, pr.typ)
		for _, w := range pr.wants {
			if w.ok(st[w.field], item) {
				r.Held(key+"/"+w.field, 1, "%s ← %s", w.field, w.desc)
			} else {
				r.Violated(key+"/"+w.field, fnPos(p, fn), "queue field %s is filled from %s, expected %s: the outlink/ack does not reach the queue intact", w.field, pathOrNone(st[w.field]), w.desc)
			}
		}
	}
	// ---- consumers
	for _, cs := range []struct {
		pkg  string
		hops string
	}{{pkgHQ, "hq.pathToHops(URL.Path)"}, {pkgLQ, "int(URL.Hops)"}} {
		fn := p.Func(rel(cs.pkg), "consumerSender")
		key := rel(cs.pkg) + ".consumerSender"
		if fn == nil {
			r.Undecided(key, "", "anchor not found")
			continue
		}
		r.Analysed(fn)
		// URL: the value received from urlBuffer
		var u ssa.Value
		for _, si := range ir.Selects(fn) {
			recvIdx := 0
			for _, a := range si.Arms {
				if a.State.Dir != types.RecvOnly {
					continue
				}
				my := recvIdx
				recvIdx++
				if _, isDone := ir.IsDoneChan(a.State.Chan); !isDone {
					for _, rr := range ir.Referrers(si.Sel) {
						if e, ok := rr.(*ssa.Extract); ok && e.Index == 2+my {
							u = e
						}
					}
				}
			}
		}
		if u == nil {
			r.Violated(key, fnPos(p, fn), "the consumer no longer receives queue rows from its buffer")
			continue
		}
		up := ir.Path(u)
		st := fieldsStored(fn, tURL)
		rawOK := st["Raw"] != nil && ir.Path(st["Raw"]) == up+".Value"
		hopsWant := strings.ReplaceAll(cs.hops, "URL", up)
		hopsOK := st["Hops"] != nil && ir.Path(st["Hops"]) == hopsWant
		var ni *ssa.Call
		allInstrs(fn, func(in ssa.Instruction) {
			if c, ok := in.(*ssa.Call); ok && ir.IsCallTo(c, pkgModels+".NewItem") {
				ni = c
			}
		})
		idOK := ni != nil && ir.Path(ni.Call.Args[0]) == up+".ID"
		viaOK := ni != nil && ir.Path(ni.Call.Args[2]) == up+".Via"
		if rawOK && hopsOK && idOK && viaOK {
			r.Held(key, 4, "Raw←Value, Hops←%s, id←ID, seedVia←Via", cs.hops)
		} else {
			r.Violated(key, fnPos(p, fn), "a queue row is not mapped back field by field (Raw←Value %v, Hops←%s %v, id←ID %v, via←Via %v)", rawOK, cs.hops, hopsOK, idOK, viaOK)
		}
		// the new seed enters the reactor
		ins := false
		allInstrs(fn, func(in ssa.Instruction) {
			if c, ok := in.(*ssa.Call); ok && ir.IsCallTo(c, pkgReactor+".ReceiveInsert") && ir.SameValue(c.Call.Args[0], ni) {
				ins = true
			}
		})
		if !ins {
			r.Violated(key+"/insert", fnPos(p, fn), "the item built from the queue row is not the one inserted into the reactor")
		}
	}
	// ---- hop encoding
	h2p := p.Func(rel(pkgHQ), "hopsToPath")
	p2h := p.Func(rel(pkgHQ), "pathToHops")
	// either helper may have been folded into its caller: the encoder is the strings.Repeat of the package, the
	// decoder its strings.Count, wherever they live
	var c1, c2 string
	ok1, ok2 := false, false
	for _, f := range p.FuncsInPkg(rel(pkgHQ)) {
		if (h2p != nil && f != h2p) && (p2h != nil && f != p2h) {
			continue
		}
		allInstrs(f, func(in ssa.Instruction) {
			c, ok := in.(*ssa.Call)
			if !ok {
				return
			}
			if ir.IsCallTo(c, "strings.Repeat") && (h2p == nil || f == h2p) {
				if s, okc := ir.ConstString(c.Call.Args[0]); okc {
					c1, ok1 = s, true
					r.Analysed(f)
				}
			}
			if ir.IsCallTo(c, "strings.Count") && (p2h == nil || f == p2h) {
				if s, okc := ir.ConstString(c.Call.Args[1]); okc {
					c2, ok2 = s, true
					r.Analysed(f)
				}
			}
		})
	}
	if !ok1 && !ok2 {
		r.Undecided("hq.hop-encoding", "", "neither hopsToPath/pathToHops nor a Repeat/Count pair found in the hq package")
		return
	}
	if ok1 && ok2 && c1 == c2 && len(c1) == 1 {
		r.Held("hq.hop-encoding", 2, "hops ↔ path use Repeat/Count of the same character %q", c1)
	} else {
		r.Violated("hq.hop-encoding", "", "hopsToPath and pathToHops do not use Repeat/Count with one and the same single character (%q vs %q): hop counts do not survive the round trip through crawl HQ", c1, c2)
	}
}

// embeddedFile returns the content of the file embedded into variable `name` of the package (via //go:embed).
func embeddedFile(p *core.Program, pkgpath, name string) (string, string) {
	pk := p.AllPkgs[pkgpath]
	if pk == nil {
		return "", ""
	}
	for _, f := range pk.Syntax {
		for _, d := range f.Decls {
			gd, ok := d.(*ast.GenDecl)
			if !ok || gd.Tok != token.VAR || gd.Doc == nil {
				continue
			}
			for _, sp := range gd.Specs {
				vs := sp.(*ast.ValueSpec)
				for _, id := range vs.Names {
					if id.Name != name {
						continue
					}
					for _, c := range gd.Doc.List {
						if strings.HasPrefix(c.Text, "//go:embed ") {
							file := strings.TrimSpace(strings.TrimPrefix(c.Text, "//go:embed "))
							dir := filepath.Dir(p.Fset.Position(f.Pos()).Filename)
							b, err := os.ReadFile(filepath.Join(dir, file))
							if err == nil {
								return string(b), filepath.Join(dir, file)
							}
						}
					}
				}
			}
		}
	}
	return "", ""
}

// sqlConstants: string constants of a package.
func sqlConstants(p *core.Program, pkgpath string) map[string]string {
	out := map[string]string{}
	pk := p.AllPkgs[pkgpath]
	if pk == nil {
		return out
	}
	sc := pk.Types.Scope()
	for _, n := range sc.Names() {
		if c, ok := sc.Lookup(n).(*types.Const); ok && c.Val().Kind() == constant.String {
			out[n] = constant.StringVal(c.Val())
		}
	}
	return out
}

func ruleLQUnique(r *core.Reporter) {
	p := r.P
	ddl, file := embeddedFile(p, pkgLQ, "ddl")
	if ddl == "" {
		r.Undecided("lq/schema", "", "embedded schema (var ddl, //go:embed) not found")
	} else {
		re := regexp.MustCompile(`(?is)CREATE\s+UNIQUE\s+INDEX\s+(IF\s+NOT\s+EXISTS\s+)?\w+\s+ON\s+urls\s*\(\s*value\s*\)`)
		colUnique := regexp.MustCompile(`(?is)value\s+TEXT[^,]*\bUNIQUE\b`)
		if re.MatchString(ddl) || colUnique.MatchString(ddl) {
			r.HeldAt("lq/schema-unique", file, 1, "UNIQUE index on urls(value)")
		} else {
			r.Violated("lq/schema-unique", file, "the schema no longer declares urls.value UNIQUE: a URL already waiting in the local queue can be queued twice")
		}
		if regexp.MustCompile(`(?is)status\s+TEXT\s+NOT\s+NULL\s+DEFAULT\s+'FRESH'`).MatchString(ddl) {
			r.HeldAt("lq/schema-default-fresh", file, 1, "new rows default to status FRESH")
		} else {
			r.Violated("lq/schema-default-fresh", file, "rows are not created with status FRESH by default: added URLs would never be handed out")
		}
	}
	init := p.Func(rel(pkgLQ), "Init")
	if init != nil {
		r.Analysed(init)
		okExec := false
		allInstrs(init, func(in ssa.Instruction) {
			if c, ok := in.(*ssa.Call); ok && ir.IsCallTo(c, "(*database/sql.DB).Exec") && ir.Path(c.Call.Args[1]) == "lq.ddl" {
				okExec = true
			}
		})
		if okExec {
			r.Held("lq.Init/schema-applied", 1, "Init executes the embedded schema")
		} else {
			r.Violated("lq.Init/schema-applied", fnPos(p, init), "Init does not execute the embedded schema")
		}
	}
	add := p.Func(rel(pkgLQ), "(*LQClient).Add")
	if add == nil {
		r.Undecided("lq.Add", "", "anchor not found")
		return
	}
	r.Analysed(add)
	var ins *ssa.Call
	var commit *ssa.Call
	allInstrs(add, func(in ssa.Instruction) {
		if c, ok := in.(*ssa.Call); ok {
			if ir.IsCallTo(c, "(*"+pkgSqlc+".Queries).AddURL") {
				ins = c
			}
			if ir.IsCallTo(c, "(*database/sql.Tx).Commit") {
				commit = c
			}
		}
	})
	if ins == nil || commit == nil {
		r.Violated("lq.Add/shape", fnPos(p, add), "Add no longer inserts with AddURL and commits (insert=%v commit=%v)", ins != nil, commit != nil)
		return
	}
	// the constraint test
	var uniq *ir.IfInfo
	for _, ii := range ir.Ifs(add) {
		a := ii.Atom
		if a.V == nil && a.Op == token.EQL {
			if s, ok := ir.ConstString(a.Y); ok && strings.Contains(s, "UNIQUE constraint failed") && strings.Contains(s, "urls.value") {
				iic := ii
				uniq = &iic
			}
		}
		if c := ir.BoolCallAtom(a, "strings.Contains"); c != nil {
			if s, ok := ir.ConstString(c.Call.Args[1]); ok && strings.Contains(s, "UNIQUE") {
				iic := ii
				uniq = &iic
			}
		}
	}
	if uniq == nil {
		r.Violated("lq.Add/duplicate-skip", p.InstrPos(ins), "Add no longer recognises the UNIQUE-constraint error: one duplicate URL aborts (rolls back) the whole batch of outlinks")
		return
	}
	// true side: continue (back to the loop, no return); false side: return before commit
	tStart := ir.EdgePt(uniq.If.Block(), uniq.EdgeWhen(true))
	fStart := ir.EdgePt(uniq.If.Block(), uniq.EdgeWhen(false))
	tRes := ir.Reach([]ir.Pt{tStart}, ir.Opts{Stop: func(in ssa.Instruction) bool { return in == ssa.Instruction(ins) || in == ssa.Instruction(commit) }})
	skipOK := true
	for in := range tRes.Reached {
		if _, isRet := in.(*ssa.Return); isRet {
			skipOK = false
		}
	}
	fRes := ir.Reach([]ir.Pt{fStart}, ir.Opts{})
	abortOK := !fRes.Reached[commit] && !fRes.Reached[ins]
	if skipOK && abortOK {
		r.Held("lq.Add/duplicate-skip", 1, "a duplicate skips that row only; any other error returns before Commit")
	} else {
		r.Violated("lq.Add/duplicate-skip", p.InstrPos(uniq.If), "duplicate handling changed: duplicate row skips only itself=%v, other errors abort before commit=%v", skipOK, abortOK)
	}
	// commit on every path that leaves the loop normally
	loop, okl := loopAround(add, ins)
	if okl {
		exit := ir.EdgePt(loop.If.Block(), loop.EdgeWhen(false))
		if ret, bad := ir.PathExists([]ir.Pt{exit}, ir.Opts{Stop: func(in ssa.Instruction) bool { return in == ssa.Instruction(commit) }}, ir.IsExit); bad {
			r.Violated("lq.Add/commit", p.InstrPos(ret), "Add can return after inserting the batch without committing the transaction (the deferred Rollback discards the outlinks)")
		} else {
			r.Held("lq.Add/commit", 1, "Commit on every path after the insert loop")
		}
	}
	// fields passed through
	okF := true
	allInstrs(add, func(in ssa.Instruction) {
		if st, ok := in.(*ssa.Store); ok {
			if tn, f, ok := ir.FieldOf(st.Addr); ok && tn == pkgSqlc+".AddURLParams" {
				v := ir.Path(st.Val)
				if !strings.HasSuffix(v, "."+f) && !(f == "ID") && !strings.Contains(v, "."+f+")") {
					okF = false
				}
			}
		}
	})
	if okF {
		r.Held("lq.Add/fields", 1, "AddURLParams fields filled from the same-named fields of the batch row")
	} else {
		r.Violated("lq.Add/fields", fnPos(p, add), "AddURLParams is filled from mismatching fields of the row")
	}
}
