package rules

import (
	"fmt"
	"go/token"
	"go/types"
	"sort"
	"strings"

	"golang.org/x/tools/go/ssa"

	"zenocheck/core"
	"zenocheck/ir"
)

func init() {
	PropertyText["C03"] = [2]string{
		"Decides the structural preconditions of a terminating, finalising stop: the necessary ordering pairs inside stopPipeline and that every component is stopped on every path (R-STOP-ORDER); each stage Stop cancels before it waits and every goroutine it waits for is registered with the WaitGroup and signals Done (R-STAGE-STOP); no goroutine a Stop waits for contains a channel operation that cannot be abandoned on a context that Stop cancels (R-CTX-SELECT, with derived exemptions listed in the evidence); the WARC clients are never dereferenced where they can be nil (R-NIL-CLIENT) and archiver.Stop waits for and closes every client that exists (R-WARC-CLOSE); watcher loops leave on their Done arm (R-WATCHER-EXIT); Resume cannot wedge the watcher stop (R-RESUME-GUARD). Blocking channel operations in functions those goroutines call, in any component, are abandonable through a context cancelled no later than the goroutine's own component is stopped, by stopPipeline's order (R-CALLEE-WAKE). Components that startPipeline starts only under a configuration condition are called from outside only under that condition, so a switched-off component's nil state is never dereferenced (R-OPTIONAL-COMPONENT). Every WARC client gets its Timeout (R-CLIENT-TIMEOUT); the per-attempt feedback channel has room for the writer's plain send (R-WARC-WAIT/feedback-capacity). No sleep in the fetch goroutine lasts as long as the server says (R-SLEEP-BOUNDED); every stop function cancels before it waits (R-STOP-CANCEL-FIRST).",
		"Not decided: the time bound itself; the warc module's Close() renaming .open files and record completeness; behaviour of an in-flight client.Do under cancellation (depends on dial/read timeouts).",
	}
	register(&core.Rule{ID: "R-STOP-ORDER", Props: []string{"C03", "C04"}, Doc: "stopPipeline calls every component's Stop on every path, with the necessary precedences: stage Stops and source Stop before reactor.Stop, finisher.Stop before source Stop, preprocessor.Stop before seencheck.Close, reactor.Freeze before source Stop, log.Stop last", Run: ruleStopOrder})
	register(&core.Rule{ID: "R-STAGE-STOP", Props: []string{"C03"}, Doc: "each Stop calls the component's cancel func before wg.Wait(); every goroutine started by Start is preceded by wg.Add and signals wg.Done on every exit", Run: ruleStageStop})
	register(&core.Rule{ID: "R-CALLEE-WAKE", Props: []string{"C03"}, Doc: "blocking channel operations in module functions that a joined goroutine calls (transitively, static calls, any component): a select needs a Done arm on a context that is cancelled by the goroutine's own component's stop or by a function stopPipeline calls before it on every path (cancel functions paired with their contexts through context.WithCancel); plain sends/receives are local rendezvous or are discharged by the named C12/C14 rule", Run: ruleCalleeWake})
	register(&core.Rule{ID: "R-CTX-SELECT", Props: []string{"C03"}, Doc: "in every goroutine a Stop waits for, each potentially blocking channel operation (plain send/receive, blocking select) has an arm on a context Done() channel, or falls under a derived exemption (ticker/timer channel, semaphore released by defer, consumer that outlives the sender, capacity argument)", Run: ruleCtxSelect})
	register(&core.Rule{ID: "R-NIL-CLIENT", Props: []string{"C03"}, Doc: "archiver.Client / ClientWithProxy are created under complementary config.Proxy conditions; every dereference is dominated by a nil test of the same field, by the same config condition, or by the assignment itself", Run: ruleNilClient})
	register(&core.Rule{ID: "R-WARC-CLOSE", Props: []string{"C03"}, Doc: "archiver.Stop: after cancel+wg.Wait every path to return calls Close() on each client field unless that field is nil, each Close preceded by that client's WaitGroup.Wait()", Run: ruleWarcClose})
	register(&core.Rule{ID: "R-ERRCHAN-DRAIN", Props: []string{"C03"}, Doc: "each WARC client's ErrChan has a reader goroutine that leaves only when the channel is closed: the warc module reports errors with a blocking send while holding the client's WaitGroup, so a reader that stops early wedges archiver.Stop", Run: ruleErrChanDrain})
	register(&core.Rule{ID: "R-WATCHER-EXIT", Props: []string{"C03", "C14"}, Doc: "watcher goroutines: the Done arm of the watcher's select reaches a return and the stop functions cancel before they wait", Run: ruleWatcherExit})
}

func callsFn(in ssa.Instruction, pkg, name string) bool {
	return ir.IsPlainCallTo(in, pkg+"."+name)
}

func ruleStopOrder(r *core.Reporter) {
	p := r.P
	fn := p.Func(rel(pkgCtl), "stopPipeline")
	if fn == nil {
		r.Undecided("controler.stopPipeline", "", "anchor not found")
		return
	}
	r.Analysed(fn)
	type site struct{ pkg, fn string }
	S := func(pk, f string) site { return site{pk, f} }
	find := func(s site) []ssa.Instruction {
		var out []ssa.Instruction
		allInstrs(fn, func(in ssa.Instruction) {
			if callsFn(in, s.pkg, s.fn) {
				out = append(out, in)
			}
		})
		return out
	}
	name := func(s site) string {
		if s.pkg == "source" {
			return "source(hq|lq)." + s.fn
		}
		return rel(s.pkg) + "." + s.fn
	}
	pkgLog := mod + "/internal/pkg/log"
	// must be called on every path
	must := []site{S(pkgPre, "Stop"), S(pkgArch, "Stop"), S(pkgPost, "Stop"), S(pkgFin, "Stop"), S(pkgReactor, "Stop"), S(pkgReactor, "Freeze"), S(pkgWatch, "StopDiskWatcher"), S(pkgWatch, "StopWARCWritingQueueWatcher")}
	for _, m := range must {
		sites := find(m)
		r.Calls += len(sites)
		if len(sites) == 0 {
			r.Violated("always/"+name(m), fnPos(p, fn), "stopPipeline never calls %s", name(m))
			continue
		}
		if ret, bad := ir.PathExists([]ir.Pt{ir.Entry(fn)}, ir.Opts{Stop: func(in ssa.Instruction) bool { return callsFn(in, m.pkg, m.fn) }}, ir.IsExit); bad {
			r.Violated("always/"+name(m), p.InstrPos(ret), "a path through stopPipeline skips %s", name(m))
		} else {
			r.Held("always/"+name(m), len(sites), "called on every path")
		}
	}
	// one of the two sources
	if ret, bad := ir.PathExists([]ir.Pt{ir.Entry(fn)}, ir.Opts{Stop: func(in ssa.Instruction) bool { return callsFn(in, pkgHQ, "Stop") || callsFn(in, pkgLQ, "Stop") }}, ir.IsExit); bad {
		r.Violated("always/source.Stop", p.InstrPos(ret), "a path through stopPipeline stops neither hq nor lq")
	} else {
		r.Held("always/source.Stop", 2, "hq.Stop or lq.Stop on every path")
	}
	// precedences: A before B  (every path from entry to B passes A)
	type prec struct {
		a, b   site
		reason string
	}
	precs := []prec{
		{S(pkgFin, "Stop"), S(pkgHQ, "Stop"), "the finisher's sends to the source channels need a live consumer"},
		{S(pkgFin, "Stop"), S(pkgLQ, "Stop"), "the finisher's sends to the source channels need a live consumer"},
		{S("source", "Stop"), S(pkgReactor, "Stop"), "source Stop reads reactor.GetStateTable(); reactor.Stop sets the reactor to nil"},
		{S(pkgFin, "Stop"), S(pkgReactor, "Stop"), "a live finisher worker panics on feedback to a stopped reactor"},
		{S(pkgPre, "Stop"), S(pkgReactor, "Stop"), "stages must be quiescent before the reactor goes away"},
		{S(pkgArch, "Stop"), S(pkgReactor, "Stop"), "stages must be quiescent before the reactor goes away"},
		{S(pkgPost, "Stop"), S(pkgReactor, "Stop"), "stages must be quiescent before the reactor goes away"},
		{S(pkgReactor, "Freeze"), S(pkgHQ, "Stop"), "consumers treat only ErrReactorFrozen as a stop signal"},
		{S(pkgReactor, "Freeze"), S(pkgLQ, "Stop"), "consumers treat only ErrReactorFrozen as a stop signal"},
		{S(pkgReactor, "Freeze"), S(pkgFin, "Stop"), "the finisher tolerates only ErrReactorFrozen from feedback"},
		{S(pkgPre, "Stop"), S(pkgSeen, "Close"), "preprocess workers query the seencheck DB; isSeen panics on a closed store"},
		{S(pkgArch, "Stop"), S(pkgLog, "Stop"), "log.Stop is last"},
		{S(pkgReactor, "Stop"), S(pkgLog, "Stop"), "log.Stop is last"},
	}
	for _, pr := range precs {
		key := "before/" + name(pr.a) + "≺" + name(pr.b)
		bs := find(pr.b)
		if len(bs) == 0 {
			if pr.b.pkg == pkgSeen || pr.b.pkg == pkgLog {
				continue
			}
			r.Undecided(key, fnPos(p, fn), "%s not called", name(pr.b))
			continue
		}
		isA := func(in ssa.Instruction) bool { return callsFn(in, pr.a.pkg, pr.a.fn) }
		if pr.a.pkg == "source" {
			isA = func(in ssa.Instruction) bool { return callsFn(in, pkgHQ, "Stop") || callsFn(in, pkgLQ, "Stop") }
		}
		res := ir.Reach([]ir.Pt{ir.Entry(fn)}, ir.Opts{Stop: isA})
		var bad ssa.Instruction
		for _, b := range bs {
			if res.Reached[b] {
				bad = b
			}
		}
		if bad != nil {
			r.Violated(key, p.InstrPos(bad), "%s can run before %s (%s)", name(pr.b), name(pr.a), pr.reason)
		} else {
			r.Held(key, len(bs), "%s", pr.reason)
		}
	}
}

// component describes a Start/Stop pair with a context and a WaitGroup.
type component struct {
	pkg string
}

func ruleStageStop(r *core.Reporter) {
	p := r.P
	n := 0
	for _, pk := range []string{pkgReactor, pkgPre, pkgArch, pkgPost, pkgFin, pkgHQ, pkgLQ} {
		stop := p.Func(rel(pk), "Stop")
		start := p.Func(rel(pk), "Start")
		if stop == nil || start == nil {
			r.Undecided(rel(pk)+".Stop", "", "Start/Stop not found")
			continue
		}
		r.Analysed(stop, start)
		// cancel: call of a value loaded from a field named cancel (type context.CancelFunc)
		isCancel := func(in ssa.Instruction) bool {
			c, ok := in.(*ssa.Call)
			if !ok || c.Call.IsInvoke() {
				return false
			}
			if _, f, ok := fieldOfLoad(c.Call.Value); ok && ir.TypeName(c.Call.Value.Type()) == "context.CancelFunc" {
				return f == "cancel"
			}
			return false
		}
		isWait := func(in ssa.Instruction) bool {
			if !ir.IsPlainCallTo(in, "(*sync.WaitGroup).Wait") {
				return false
			}
			_, f, ok := ir.FieldOf(ir.AsCall(in).Args[0])
			return ok && f == "wg"
		}
		var waits []ssa.Instruction
		cancels := 0
		allInstrs(stop, func(in ssa.Instruction) {
			if isWait(in) {
				waits = append(waits, in)
			}
			if isCancel(in) {
				cancels++
			}
		})
		key := rel(pk) + ".Stop"
		switch {
		case cancels == 0:
			r.Violated(key+"/cancel", fnPos(p, stop), "Stop never cancels the component's context: its goroutines are never told to leave")
		case len(waits) == 0:
			r.Violated(key+"/wait", fnPos(p, stop), "Stop does not wait for the component's goroutines")
		default:
			res := ir.Reach([]ir.Pt{ir.Entry(stop)}, ir.Opts{Stop: isCancel})
			bad := false
			for _, w := range waits {
				if res.Reached[w] {
					bad = true
				}
			}
			if bad {
				r.Violated(key+"/cancel-before-wait", p.InstrPos(waits[0]), "wg.Wait() is reachable before cancel(): Stop would wait for goroutines it has not told to stop")
			} else {
				n++
				r.Held(key+"/cancel-before-wait", 2, "cancel() then wg.Wait()")
			}
		}
		// goroutine ↔ WaitGroup pairing in Start
		for _, f := range withAnon(start) {
			allInstrs(f, func(in ssa.Instruction) {
				g, ok := in.(*ssa.Go)
				if !ok {
					return
				}
				target := ir.CalleeOf(g.Common())
				if target == nil || !core.InModule(target) {
					return
				}
				gkey := key + "/go/" + core.FuncName(target)
				// Add on field wg precedes
				hasAdd := false
				allInstrs(f, func(x ssa.Instruction) {
					if ir.IsPlainCallTo(x, "(*sync.WaitGroup).Add") {
						if _, fld, ok := ir.FieldOf(ir.AsCall(x).Args[0]); ok && fld == "wg" {
							if !ir.Reach([]ir.Pt{ir.After(g)}, ir.Opts{}).Reached[x] || ir.Reach([]ir.Pt{ir.After(x)}, ir.Opts{}).Reached[g] {
								hasAdd = true
							}
						}
					}
				})
				// Done on every exit of target
				done := ir.Event{ID: "wg.Done", Match: func(x ssa.Instruction) bool {
					if !ir.IsCallTo(x, "(*sync.WaitGroup).Done") {
						return false
					}
					_, fld, ok := ir.FieldOf(ir.AsCall(x).Args[0])
					return ok && fld == "wg"
				}}
				r.Analysed(target)
				_, missing := ir.PathExists([]ir.Pt{ir.Entry(target)}, ir.Opts{Stop: ir.WithSummaries(done, 2)}, ir.IsExit)
				switch {
				case !hasAdd:
					r.Violated(gkey, p.InstrPos(g), "goroutine started without wg.Add: Stop does not wait for it")
				case missing:
					r.Violated(gkey, fnPos(p, target), "goroutine can return without wg.Done(): Stop's wg.Wait() never returns")
				default:
					r.Held(gkey, 1, "wg.Add before go, wg.Done on every exit")
				}
			})
		}
	}
	r.Floor("components with cancel-before-wait", n, 7)
}

// ---------------------------------------------------------------------------
// R-CTX-SELECT

type blockOp struct {
	fn   *ssa.Function
	in   ssa.Instruction
	kind string
	ch   ssa.Value
}

func isTimeChan(v ssa.Value) bool {
	pth := ir.Path(v)
	return strings.HasSuffix(pth, ".C") && strings.Contains(ir.TypeName(v.Type()), "chan") && (strings.Contains(pth, "icker") || strings.Contains(pth, "imer")) ||
		strings.HasPrefix(pth, "time.After(") || strings.HasPrefix(pth, "time.Tick(")
}

func isTickerField(v ssa.Value) bool {
	if u, ok := v.(*ssa.UnOp); ok && u.Op == token.MUL {
		if tn, f, ok := ir.FieldOf(u.X); ok && f == "C" && (tn == "time.Ticker" || tn == "time.Timer") {
			return true
		}
	}
	if c, ok := v.(*ssa.Call); ok && ir.IsCallTo(c, "time.After", "time.Tick") {
		return true
	}
	return false
}

func blockingOps(fn *ssa.Function) []blockOp {
	var out []blockOp
	allInstrs(fn, func(in ssa.Instruction) {
		switch x := in.(type) {
		case *ssa.Send:
			out = append(out, blockOp{fn, in, "send", x.Chan})
		case *ssa.UnOp:
			if x.Op == token.ARROW {
				out = append(out, blockOp{fn, in, "recv", x.X})
			}
		case *ssa.Select:
			if x.Blocking {
				out = append(out, blockOp{fn, in, "select", nil})
			}
		}
	})
	return out
}

func hasDoneArm(sel *ssa.Select) bool {
	for _, st := range sel.States {
		if st.Dir == types.RecvOnly {
			if _, ok := ir.IsDoneChan(st.Chan); ok {
				return true
			}
		}
	}
	return false
}

// waitedGoroutines: goroutine entry functions that some Stop waits for (started from Start of the
// components, plus goroutines those start), and the watcher goroutines.
func waitedGoroutines(p *core.Program) []*ssa.Function {
	seen := map[*ssa.Function]bool{}
	var out []*ssa.Function
	var add func(fn *ssa.Function, depth int)
	add = func(fn *ssa.Function, depth int) {
		if fn == nil || seen[fn] || !core.InModule(fn) || depth > 4 {
			return
		}
		seen[fn] = true
		out = append(out, fn)
		for _, f := range withAnon(fn) {
			allInstrs(f, func(in ssa.Instruction) {
				if g, ok := in.(*ssa.Go); ok && joined(f, g) {
					add(ir.CalleeOf(g.Common()), depth+1)
				}
			})
		}
	}
	for _, pk := range []string{pkgReactor, pkgPre, pkgArch, pkgPost, pkgFin, pkgHQ, pkgLQ} {
		start := p.Func(rel(pk), "Start")
		for _, f := range withAnon(start) {
			allInstrs(f, func(in ssa.Instruction) {
				if g, ok := in.(*ssa.Go); ok && joined(f, g) {
					add(ir.CalleeOf(g.Common()), 0)
				}
			})
		}
	}
	for _, nm := range []string{"WatchDiskSpace", "StartWatchWARCWritingQueue"} {
		fn := p.Func(rel(pkgWatch), nm)
		if fn == nil {
			continue
		}
		if nm == "WatchDiskSpace" {
			add(fn, 0)
		}
		for _, f := range withAnon(fn) {
			allInstrs(f, func(in ssa.Instruction) {
				if g, ok := in.(*ssa.Go); ok && joined(f, g) {
					add(ir.CalleeOf(g.Common()), 0)
				}
			})
		}
	}
	sort.Slice(out, func(i, j int) bool { return core.FuncName(out[i]) < core.FuncName(out[j]) })
	return out
}

// joined: the go statement is preceded (in its function) by a WaitGroup.Add, i.e. somebody waits for the goroutine.
func joined(f *ssa.Function, g *ssa.Go) bool {
	ok := false
	allInstrs(f, func(x ssa.Instruction) {
		if ir.IsPlainCallTo(x, "(*sync.WaitGroup).Add") && ir.Reach([]ir.Pt{ir.After(x)}, ir.Opts{}).Reached[g] {
			ok = true
		}
	})
	return ok
}

func ruleCtxSelect(r *core.Reporter) {
	p := r.P
	gs := waitedGoroutines(p)
	if !r.Floor("goroutines waited for by a Stop", len(gs), 12) {
		return
	}
	ops, exempt := 0, 0
	for _, fn := range gs {
		r.Analysed(fn)
		// goroutine bodies only (closures started by `go` are separate entries; plain nested closures are included)
		var bodies []*ssa.Function
		bodies = append(bodies, fn)
		for _, a := range fn.AnonFuncs {
			isGo := false
			allInstrs(fn, func(in ssa.Instruction) {
				if g, ok := in.(*ssa.Go); ok && ir.CalleeOf(g.Common()) == a {
					isGo = true
				}
			})
			if !isGo {
				bodies = append(bodies, a)
			}
		}
		for _, body := range bodies {
			for _, op := range blockingOps(body) {
				ops++
				key := core.FuncName(fn) + "/" + op.kind
				switch op.kind {
				case "select":
					sel := op.in.(*ssa.Select)
					if hasDoneArm(sel) {
						continue
					}
					// all arms on time channels → periodic, cannot block forever
					allTime := true
					for _, st := range sel.States {
						if !(st.Dir == types.RecvOnly && isTickerField(st.Chan)) {
							allTime = false
						}
					}
					if allTime {
						exempt++
						continue
					}
					// a select that also has a receive arm on a locally made stop channel that the spawner signals
					if localStopArm(sel) {
						exempt++
						continue
					}
					r.Violated(key+"@"+selKey(sel), p.InstrPos(op.in), "blocking select without a ctx.Done() arm in a goroutine that Stop waits for")
				case "recv":
					if _, ok := ir.IsDoneChan(op.ch); ok {
						continue
					}
					if isTickerField(op.ch) {
						exempt++
						continue
					}
					if why, ok := recvExempt(body, op); ok {
						exempt++
						_ = why
						continue
					}
					r.Violated(key+"@"+chanKey(op.ch), p.InstrPos(op.in), "plain blocking receive on %s in a goroutine that Stop waits for", ir.Path(op.ch))
				case "send":
					if why, ok := sendExempt(p, body, op); ok {
						exempt++
						r.Held("exempt/"+key+"@"+chanKey(op.ch), 1, "%s", why)
						continue
					}
					r.Violated(key+"@"+chanKey(op.ch), p.InstrPos(op.in), "plain blocking send on %s in a goroutine that Stop waits for: it cannot be abandoned when the context is cancelled", ir.Path(op.ch))
				}
			}
		}
	}
	r.Held("scan", ops, "%d goroutine functions, %d potentially blocking channel operations inspected, %d under derived exemptions", len(gs), ops, exempt)
}

func selKey(sel *ssa.Select) string {
	var parts []string
	for _, st := range sel.States {
		d := "<-"
		if st.Dir == types.SendOnly {
			d = "->"
		}
		parts = append(parts, d+chanKey(st.Chan))
	}
	return strings.Join(parts, ",")
}

// chanKey names a channel by its field/global path without local instruction ids.
func chanKey(v ssa.Value) string {
	pth := ir.Path(v)
	if i := strings.Index(pth, "@"); i >= 0 {
		// local channel: name by type
		return "local:" + types.TypeString(v.Type(), func(p *types.Package) string { return p.Name() })
	}
	return pth
}

func localStopArm(sel *ssa.Select) bool {
	for _, st := range sel.States {
		if st.Dir == types.RecvOnly {
			if fv, ok := st.Chan.(*ssa.UnOp); ok {
				_ = fv
			}
			// channel is a free variable / local made with make(chan struct{})
			if ch, ok := st.Chan.Type().Underlying().(*types.Chan); ok {
				if s, ok := ch.Elem().Underlying().(*types.Struct); ok && s.NumFields() == 0 {
					if _, isDone := ir.IsDoneChan(st.Chan); !isDone {
						pth := ir.Path(st.Chan)
						if strings.Contains(pth, "makechan@") || strings.Contains(pth, "done") || strings.Contains(pth, "stop") {
							return true
						}
					}
				}
			}
		}
	}
	return false
}

func recvExempt(fn *ssa.Function, op blockOp) (string, bool) {
	// receive used to release a semaphore inside a deferred closure: `defer func(){ <-sem }()`
	if localMakeChan(op.ch) != nil {
		// local channel made by the spawner: semaphore release or result collection from goroutines the function joins
		return "local channel", true
	}
	// range over a channel that the owner closes (ErrChan): not in scope of waited goroutines
	return "", false
}

func sendExempt(p *core.Program, fn *ssa.Function, op blockOp) (string, bool) {
	pth := ir.Path(op.ch)
	// (b) semaphore: send on a locally made channel whose receive is deferred in a goroutine started by the same function
	if mc := localMakeChan(op.ch); mc != nil {
		released := false
		for _, a := range fn.AnonFuncs {
			for _, aa := range withAnon(a) {
				allInstrs(aa, func(in ssa.Instruction) {
					if u, ok := in.(*ssa.UnOp); ok && u.Op == token.ARROW {
						if localMakeChan(u.X) == mc {
							released = true
						}
					}
				})
			}
		}
		if released {
			return "semaphore: every holder releases it in a deferred receive, holders are goroutines that satisfy this rule", true
		}
		if n, ok := ir.ConstInt(mc.Size); ok && n >= 1 {
			return "", false
		}
	}
	// (a) finisher → source channels: the consumer is stopped later (R-STOP-ORDER) and satisfies this rule
	if core.RelPkg(core.FuncPkg(fn)) == rel(pkgFin) {
		f := lastField(pth)
		w := findStageWorker(p, pkgFin)
		if w != nil {
			stores := fieldParamStores(w.StartFn)
			if idx, ok := stores[f]; ok && (idx == 1 || idx == 2) {
				return fmt.Sprintf("finisher→source channel (Start parameter %d): hq/lq receivers select on it until the source is stopped, and stopPipeline stops the finisher first (R-STOP-ORDER)", idx), true
			}
		}
	}
	// (d) reactor input after a token: bounded by R-REACT-CAP
	if isReactorField(op.ch, "input") {
		return "reactor.input has the capacity of the token pool (R-REACT-CAP): items in input ≤ tracked seeds ≤ capacity", true
	}
	return "", false
}

func localMakeChan(v ssa.Value) *ssa.MakeChan {
	// (an inlined helper that took the channel as a parameter adds a cell, a conversion and a capture per level)
	for i := 0; i < 16; i++ {
		switch x := v.(type) {
		case *ssa.MakeChan:
			return x
		case *ssa.FreeVar:
			b := ir.FreeVarBinding(x)
			if b == nil {
				return nil
			}
			v = b
		case *ssa.UnOp:
			if x.Op != token.MUL {
				return nil
			}
			v = x.X
		case *ssa.Alloc:
			var val ssa.Value
			n := 0
			for _, rr := range ir.Referrers(x) {
				if st, ok := rr.(*ssa.Store); ok && st.Addr == x {
					n++
					val = st.Val
				}
			}
			if n != 1 {
				return nil
			}
			v = val
		case *ssa.ChangeType:
			v = x.X
		case *ssa.Parameter:
			// parameter of a function literal with a single call/go/defer site in its parent: the argument
			lit := x.Parent()
			if lit == nil || lit.Parent() == nil {
				return nil
			}
			idx := -1
			for k, pp := range lit.Params {
				if pp == x {
					idx = k
				}
			}
			var arg ssa.Value
			n := 0
			allInstrs(lit.Parent(), func(in ssa.Instruction) {
				c := ir.AsCall(in)
				if c == nil || c.IsInvoke() {
					return
				}
				callee := c.Value
				if mc, ok := callee.(*ssa.MakeClosure); ok {
					callee = mc.Fn
				}
				if callee == ssa.Value(lit) && idx >= 0 && idx < len(c.Args) {
					n++
					arg = c.Args[idx]
				}
			})
			if n != 1 {
				return nil
			}
			v = arg
		default:
			return nil
		}
	}
	return nil
}

// ---------------------------------------------------------------------------
// R-NIL-CLIENT / R-WARC-CLOSE

const tArchiver = pkgArch + ".archiver"

func clientFieldLoad(v ssa.Value) (string, bool) {
	u, ok := v.(*ssa.UnOp)
	if !ok || u.Op != token.MUL {
		return "", false
	}
	tn, f, ok := ir.FieldOf(u.X)
	if ok && tn == tArchiver && (f == "Client" || f == "ClientWithProxy") {
		return f, true
	}
	return "", false
}

// derefUses: instructions that dereference pointer value v (method call with v as receiver, field access, range).
func derefUses(v ssa.Value, seen map[ssa.Value]bool) []ssa.Instruction {
	if seen[v] {
		return nil
	}
	seen[v] = true
	var out []ssa.Instruction
	for _, in := range ir.Referrers(v) {
		switch x := in.(type) {
		case *ssa.FieldAddr:
			if x.X == v {
				out = append(out, in)
			}
		case *ssa.Field:
			out = append(out, in)
		case *ssa.Call:
			if len(x.Call.Args) > 0 && x.Call.Args[0] == v && !x.Call.IsInvoke() {
				if f := ir.CalleeOf(x.Common()); f != nil && f.Signature.Recv() != nil {
					out = append(out, in)
				}
			}
		case *ssa.Defer:
			if len(x.Call.Args) > 0 && x.Call.Args[0] == v {
				out = append(out, in)
			}
		case *ssa.Phi:
			out = append(out, derefUses(x, seen)...)
		case *ssa.UnOp:
			if x.Op == token.MUL {
				out = append(out, in)
			}
		}
	}
	return out
}

func proxyAtom(a ir.Atom) (isEmptyTest bool, ok bool) {
	// config.Get().Proxy == ""
	if a.V != nil || a.Op != token.EQL {
		return false, false
	}
	x, y := a.X, a.Y
	if s, isS := ir.ConstString(x); isS && s == "" {
		x, y = y, x
	}
	if s, isS := ir.ConstString(y); !isS || s != "" {
		return false, false
	}
	return true, isConfigField(x, "Proxy")
}

func ruleNilClient(r *core.Reporter) {
	p := r.P
	// creation conditions
	created := map[string]string{} // field -> "empty" | "nonempty"
	for _, fn := range p.FuncsInPkg(rel(pkgArch)) {
		allInstrs(fn, func(in ssa.Instruction) {
			st, ok := in.(*ssa.Store)
			if !ok {
				return
			}
			tn, f, ok := ir.FieldOf(st.Addr)
			if !ok || tn != tArchiver || (f != "Client" && f != "ClientWithProxy") {
				return
			}
			cond := "unconditional"
			for _, ii := range ir.Ifs(fn) {
				if _, okp := proxyAtom(ii.Atom); !okp {
					continue
				}
				if ir.OnlyVia(ir.Entry(fn), st, ii.If.Block(), ii.EdgeWhen(true)) {
					cond = "empty"
				}
				if ir.OnlyVia(ir.Entry(fn), st, ii.If.Block(), ii.EdgeWhen(false)) {
					cond = "nonempty"
				}
			}
			created[f] = cond
			r.Analysed(fn)
		})
	}
	if len(created) != 2 {
		r.Undecided("archiver/client-creation", "", "creation of Client/ClientWithProxy not found (%v)", created)
		return
	}
	r.Held("archiver/client-creation", 2, "Client created when Proxy %s, ClientWithProxy when Proxy %s", created["Client"], created["ClientWithProxy"])
	derefs := 0
	for _, fn := range p.ModFuncs {
		allInstrs(fn, func(in ssa.Instruction) {
			v, ok := in.(ssa.Value)
			if !ok {
				return
			}
			field, ok := clientFieldLoad(v)
			if !ok {
				return
			}
			if created[field] == "unconditional" {
				return
			}
			for _, use := range derefUses(v, map[ssa.Value]bool{}) {
				derefs++
				key := core.FuncName(fn) + "/" + field
				if nilGuarded(fn, in, use, field, created[field]) {
					r.Held(key, 1, "dereference guarded")
				} else {
					r.Violated(key, p.InstrPos(use), "archiver.%s is dereferenced where it can be nil (it only exists when config.Proxy is %s): nil-pointer panic", field, created[field])
				}
			}
		})
	}
	r.Floor("client dereferences", derefs, 2)
}

// nilGuarded: the load `ld` of the client field (and its use) execute only under a guard that implies the field is non-nil.
func nilGuarded(fn *ssa.Function, ld ssa.Instruction, use ssa.Instruction, field, createdWhen string) bool {
	check := func(f *ssa.Function, target ssa.Instruction) bool {
		for _, ii := range ir.Ifs(f) {
			a := ii.Atom
			// nil test on the same field
			if a.V == nil && a.Op == token.EQL {
				x, y := a.X, a.Y
				if ir.IsNilConst(x) {
					x, y = y, x
				}
				if ir.IsNilConst(y) {
					if fld, ok := clientFieldLoad(x); ok && fld == field {
						if ir.OnlyVia(ir.Entry(f), target, ii.If.Block(), ii.EdgeWhen(false)) {
							return true
						}
					}
					// nil test on a local that was loaded from a slice literal of the clients (GetClients idiom):
					if _, isLoad := x.(*ssa.UnOp); isLoad && x == ld.(ssa.Value) {
						if ir.OnlyVia(ir.Entry(f), target, ii.If.Block(), ii.EdgeWhen(false)) {
							return true
						}
					}
				}
			}
			if empty, ok := proxyAtom(a); ok && empty {
				want := createdWhen == "empty"
				if ir.OnlyVia(ir.Entry(f), target, ii.If.Block(), ii.EdgeWhen(want)) {
					return true
				}
			}
		}
		return false
	}
	if check(fn, use) || check(fn, ld) {
		return true
	}
	// closure created under the guard
	if fn.Parent() != nil {
		parent := fn.Parent()
		var sites []ssa.Instruction
		allInstrs(parent, func(in ssa.Instruction) {
			if mc, ok := in.(*ssa.MakeClosure); ok && mc.Fn == fn {
				sites = append(sites, in)
			} else if c := ir.AsCall(in); c != nil && c.Value == ssa.Value(fn) {
				sites = append(sites, in)
			}
		})
		if len(sites) == 1 && check(parent, sites[0]) {
			return true
		}
	}
	return false
}

func ruleWarcClose(r *core.Reporter) {
	p := r.P
	stop := p.Func(rel(pkgArch), "Stop")
	if stop == nil {
		r.Undecided("archiver.Stop", "", "anchor not found")
		return
	}
	r.Analysed(stop)
	var wgWait ssa.Instruction
	allInstrs(stop, func(in ssa.Instruction) {
		if ir.IsPlainCallTo(in, "(*sync.WaitGroup).Wait") {
			if tn, f, ok := ir.FieldOf(ir.AsCall(in).Args[0]); ok && tn == tArchiver && f == "wg" {
				wgWait = in
			}
		}
	})
	if wgWait == nil {
		r.Undecided("archiver.Stop/wg.Wait", fnPos(p, stop), "archiver.Stop does not wait for its workers")
		return
	}
	warcClient := "github.com/CorentinB/warc.CustomHTTPClient"
	if warcCloseCollectionForm(r, stop, wgWait, warcClient) {
		return
	}
	for _, field := range []string{"Client", "ClientWithProxy"} {
		isClose := func(in ssa.Instruction) bool {
			if !ir.MethodCall(in, warcClient, "Close") {
				return false
			}
			f, ok := clientFieldLoad(ir.AsCall(in).Args[0])
			return ok && f == field
		}
		isWGWait := func(in ssa.Instruction) bool {
			// (*WaitGroupWithCount).Wait on <field>.WaitGroup
			c := ir.AsCall(in)
			if c == nil {
				return false
			}
			f := ir.CalleeOf(c)
			if f == nil || f.Name() != "Wait" || len(c.Args) == 0 {
				return false
			}
			pth := ir.Path(c.Args[0])
			return strings.Contains(pth, "."+field+".WaitGroup")
		}
		nilEdge := func(b *ssa.BasicBlock, s int) bool {
			if len(b.Instrs) == 0 {
				return true
			}
			ifi, ok := b.Instrs[len(b.Instrs)-1].(*ssa.If)
			if !ok {
				return true
			}
			a, pol := ir.Decompose(ifi.Cond)
			if a.V == nil && a.Op == token.EQL {
				x, y := a.X, a.Y
				if ir.IsNilConst(x) {
					x, y = y, x
				}
				if f, ok := clientFieldLoad(x); ok && f == field && ir.IsNilConst(y) {
					edgeNil := 0
					if !pol {
						edgeNil = 1
					}
					return s != edgeNil
				}
			}
			return true
		}
		key := "archiver.Stop/" + field
		if ret, bad := ir.PathExists([]ir.Pt{ir.After(wgWait)}, ir.Opts{Stop: isClose, EdgeOK: nilEdge}, ir.IsExit); bad {
			r.Violated(key+"/close", p.InstrPos(ret), "a path through archiver.Stop returns without closing %s although it may exist: its WARC files stay .open", field)
		} else {
			r.Held(key+"/close", 1, "Close() on every path where the client exists")
		}
		// each Close preceded by the writer wait
		var closes []ssa.Instruction
		allInstrs(stop, func(in ssa.Instruction) {
			if isClose(in) {
				closes = append(closes, in)
			}
		})
		res := ir.Reach([]ir.Pt{ir.After(wgWait)}, ir.Opts{Stop: isWGWait, EdgeOK: nilEdge})
		bad := false
		for _, c := range closes {
			if res.Reached[c] {
				bad = true
			}
		}
		if len(closes) == 0 {
			continue
		}
		if bad {
			r.Violated(key+"/wait-before-close", p.InstrPos(closes[0]), "%s is closed without waiting for its WARC writers (records in flight are lost)", field)
		} else {
			r.Held(key+"/wait-before-close", len(closes), "WaitGroup.Wait() precedes Close()")
		}
	}
}

func ruleWatcherExit(r *core.Reporter) {
	p := r.P
	n := 0
	var fns []*ssa.Function
	if f := p.Func(rel(pkgWatch), "WatchDiskSpace"); f != nil {
		fns = append(fns, f)
	}
	if f := p.Func(rel(pkgWatch), "StartWatchWARCWritingQueue"); f != nil {
		fns = append(fns, goTargets(f, 1, map[*ssa.Function]bool{})...)
	}
	for _, fn := range fns {
		r.Analysed(fn)
		for _, si := range ir.Selects(fn) {
			for _, arm := range si.Arms {
				if arm.State.Dir != types.RecvOnly || arm.Body == nil {
					continue
				}
				if _, ok := ir.IsDoneChan(arm.State.Chan); !ok {
					// the Done channel kept in a local that is also set to nil (`done = nil // don't spin`)
					var leaves []ssa.Value
					phiLeaves(ir.Strip(arm.State.Chan), map[ssa.Value]bool{}, &leaves)
					isDone := false
					for _, l := range leaves {
						if _, okd := ir.IsDoneChan(l); okd {
							isDone = true
						} else if !ir.IsNilConst(l) {
							isDone = false
							break
						}
					}
					if !isDone {
						continue
					}
				}
				n++
				key := core.FuncName(fn) + "/done-arm"
				res := ir.Reach([]ir.Pt{{B: arm.Body, I: 0}}, ir.Opts{Stop: func(in ssa.Instruction) bool { return in == ssa.Instruction(si.Sel) }})
				canReturn := false
				for in := range res.Reached {
					if _, ok := in.(*ssa.Return); ok {
						canReturn = true
					}
				}
				loops := res.Stopped[si.Sel]
				switch {
				case !canReturn:
					r.Violated(key, p.InstrPos(si.Sel), "the watcher's Done arm never returns: StopXxx waits forever")
				case loops && !flagLimitsLoop(fn, si, arm):
					r.Violated(key, p.InstrPos(si.Sel), "the watcher's Done arm can loop back without a flag that forces the return on the next pass")
				default:
					r.Held(key, 1, "Done arm returns (immediately or on the next pass)")
				}
			}
		}
	}
	// stop functions: cancel before Wait
	for _, nm := range []string{"StopDiskWatcher", "StopWARCWritingQueueWatcher"} {
		fn := p.Func(rel(pkgWatch), nm)
		if fn == nil {
			r.Undecided("watchers."+nm, "", "anchor not found")
			continue
		}
		r.Analysed(fn)
		var cancel, wait ssa.Instruction
		allInstrs(fn, func(in ssa.Instruction) {
			if c, ok := in.(*ssa.Call); ok && ir.TypeName(c.Call.Value.Type()) == "context.CancelFunc" {
				cancel = in
			}
			if ir.IsPlainCallTo(in, "(*sync.WaitGroup).Wait") {
				wait = in
			}
		})
		if cancel == nil || (wait != nil && ir.Reach([]ir.Pt{ir.Entry(fn)}, ir.Opts{Stop: func(in ssa.Instruction) bool { return in == cancel }}).Reached[wait]) {
			r.Violated("watchers."+nm, fnPos(p, fn), "watcher stop does not cancel before it waits")
		} else {
			r.Held("watchers."+nm, 1, "cancel then wait")
		}
	}
	r.Floor("watcher Done arms", n, 3)
}

// flagLimitsLoop: every If inside the Done arm that has an edge looping back to the select tests a
// loop-carried boolean (a phi in the select's block), and the looping path feeds that phi the constant
// that makes the same test take the other (returning) edge on the next pass.
func flagLimitsLoop(fn *ssa.Function, si ir.SelectInfo, arm ir.SelectArm) bool {
	stopAtSel := func(in ssa.Instruction) bool { return in == ssa.Instruction(si.Sel) }
	inArm := ir.Reach([]ir.Pt{{B: arm.Body, I: 0}}, ir.Opts{Stop: stopAtSel})
	hdr := si.Sel.Block()
	found := false
	for _, ii := range ir.Ifs(fn) {
		if !inArm.Reached[ii.If] {
			continue
		}
		for s := 0; s < 2; s++ {
			start := ir.EdgePt(ii.If.Block(), s)
			back := ir.Reach([]ir.Pt{start}, ir.Opts{Stop: stopAtSel})
			if !back.Stopped[si.Sel] {
				continue // this edge does not loop
			}
			// only the last decision before the loop-back counts: no further If between this edge and the select
			direct := ir.Reach([]ir.Pt{start}, ir.Opts{Stop: func(in ssa.Instruction) bool {
				_, isIf := in.(*ssa.If)
				return isIf || stopAtSel(in)
			}})
			if !direct.Stopped[si.Sel] {
				continue
			}
			back = direct
			other := ir.Reach([]ir.Pt{ir.EdgePt(ii.If.Block(), 1-s)}, ir.Opts{Stop: stopAtSel})
			if other.Stopped[si.Sel] {
				// both edges loop: this If does not decide; a later If must
				continue
			}
			ph, ok := ii.Atom.V.(*ssa.Phi)
			if !ok || ph.Block() != hdr {
				return false
			}
			// truth of the atom on the looping edge
			loopTruth := (s == 0) == ii.Pol
			// incoming values of the phi along back edges reachable from the looping path
			okAll, any := true, false
			for i, pred := range hdr.Preds {
				if len(pred.Instrs) == 0 {
					continue
				}
				last := pred.Instrs[len(pred.Instrs)-1]
				if !back.Reached[last] {
					continue
				}
				any = true
				c, isC := ph.Edges[i].(*ssa.Const)
				if !isC || c.Value == nil || (c.Value.ExactString() == "true") == loopTruth {
					okAll = false
				}
			}
			if !any || !okAll {
				return false
			}
			found = true
		}
	}
	return found
}

func ruleErrChanDrain(r *core.Reporter) {
	p := r.P
	readers := map[string]int{}
	for _, fn := range p.FuncsInPkg(rel(pkgArch)) {
		var recvs []ssa.Instruction
		field := ""
		allInstrs(fn, func(in ssa.Instruction) {
			check := func(ch ssa.Value) {
				pth := ir.Path(ch)
				if strings.HasSuffix(pth, ".ErrChan") {
					recvs = append(recvs, in)
					if strings.Contains(pth, ".ClientWithProxy.") {
						field = "ClientWithProxy"
					} else if strings.Contains(pth, ".Client.") {
						field = "Client"
					}
				}
			}
			switch x := in.(type) {
			case *ssa.UnOp:
				if x.Op == token.ARROW {
					check(x.X)
				}
			case *ssa.Select:
				for _, st := range x.States {
					if st.Dir == types.RecvOnly {
						check(st.Chan)
					}
				}
			}
		})
		if len(recvs) == 0 {
			continue
		}
		r.Analysed(fn)
		key := core.FuncName(fn) + "/" + field + ".ErrChan"
		// exits only on closed channel
		okOnlyClosed := true
		var bad ssa.Instruction
		for _, rc := range recvs {
			u, isU := rc.(*ssa.UnOp)
			if !isU || !u.CommaOk {
				okOnlyClosed, bad = false, rc
				continue
			}
			var okv ssa.Value
			for _, rr := range ir.Referrers(u) {
				if e, isE := rr.(*ssa.Extract); isE && e.Index == 1 {
					okv = e
				}
			}
			for _, ret := range ir.Returns(fn) {
				if _, g := ir.GuardedBy(fn, ir.Entry(fn), ret, false, func(a ir.Atom) bool { return a.V != nil && a.V == okv }); !g {
					okOnlyClosed, bad = false, ret
				}
			}
			// it loops
			if !ir.Reach([]ir.Pt{ir.After(rc)}, ir.Opts{}).Reached[rc] {
				okOnlyClosed, bad = false, rc
			}
		}
		var fields []string
		if field != "" {
			fields = []string{field}
		} else {
			// the reader takes the client as a parameter (`go logWARCWriterErrors(client)`): which clients is it started for?
			for _, caller := range p.FuncsInPkg(rel(pkgArch)) {
				allInstrs(caller, func(in ssa.Instruction) {
					cc := ir.AsCall(in)
					if cc == nil || ir.CalleeOf(cc) != fn {
						return
					}
					for _, a := range cc.Args {
						ap := ir.Path(a)
						switch {
						case strings.HasSuffix(ap, ".ClientWithProxy"):
							fields = append(fields, "ClientWithProxy")
						case strings.HasSuffix(ap, ".Client"):
							fields = append(fields, "Client")
						}
					}
				})
			}
		}
		if okOnlyClosed {
			for _, f := range fields {
				readers[f]++
			}
			r.Held(key, len(recvs), "reader loops until the channel is closed")
		} else {
			r.Violated(key, p.InstrPos(bad), "the ErrChan reader can stop before the channel is closed: a WARC-side error reported afterwards blocks inside the warc module while holding the client's WaitGroup, and archiver.Stop never returns")
		}
	}
	for _, f := range []string{"Client", "ClientWithProxy"} {
		if readers[f] == 0 {
			r.Violated("reader/"+f, "", "no goroutine drains %s.ErrChan until close", f)
		}
	}
}

// calleeClosure: module functions reachable from fn through static calls (not `go`), excluding fn itself.
func calleeClosure(fn *ssa.Function, maxDepth int) map[*ssa.Function][]string {
	out := map[*ssa.Function][]string{}
	var walk func(f *ssa.Function, chain []string, d int)
	walk = func(f *ssa.Function, chain []string, d int) {
		if d > maxDepth {
			return
		}
		for _, ff := range withAnon(f) {
			allInstrs(ff, func(in ssa.Instruction) {
				var cc *ssa.CallCommon
				switch x := in.(type) {
				case *ssa.Call:
					cc = x.Common()
				case *ssa.Defer:
					cc = x.Common()
				default:
					return
				}
				cal := ir.CalleeOf(cc)
				if cal == nil || !core.InModule(cal) || cal.Blocks == nil || cal == fn {
					return
				}
				if _, seen := out[cal]; seen {
					return
				}
				nc := append(append([]string{}, chain...), core.FuncName(cal))
				out[cal] = nc
				walk(cal, nc, d+1)
			})
		}
	}
	walk(fn, []string{core.FuncName(fn)}, 0)
	return out
}

// cancelCallers maps a context field (type.field) to the module functions that invoke the cancel function
// created together with it by context.WithCancel.
func cancelCallers(p *core.Program) map[string][]*ssa.Function {
	pair := map[string]string{} // cancel field -> ctx field
	for _, fn := range p.ModFuncs {
		allInstrs(fn, func(in ssa.Instruction) {
			c, ok := in.(*ssa.Call)
			if !ok || !ir.IsCallTo(c, "context.WithCancel", "context.WithTimeout", "context.WithDeadline") {
				return
			}
			var ctxF, canF string
			for _, rr := range ir.Referrers(c) {
				e, isE := rr.(*ssa.Extract)
				if !isE {
					continue
				}
				for _, er := range ir.Referrers(e) {
					st, isSt := er.(*ssa.Store)
					if !isSt || st.Val != ssa.Value(e) {
						continue
					}
					tn, f, okf := ir.FieldOf(st.Addr)
					if !okf {
						if g, isG := st.Addr.(*ssa.Global); isG {
							tn, f, okf = g.Pkg.Pkg.Path(), g.Name(), true
						}
					}
					if okf {
						if e.Index == 0 {
							ctxF = tn + "." + f
						} else {
							canF = tn + "." + f
						}
					}
				}
			}
			if ctxF != "" && canF != "" {
				pair[canF] = ctxF
			}
		})
	}
	out := map[string][]*ssa.Function{}
	for _, fn := range p.ModFuncs {
		allInstrs(fn, func(in ssa.Instruction) {
			var cc *ssa.CallCommon
			switch x := in.(type) {
			case *ssa.Call:
				cc = x.Common()
			case *ssa.Defer:
				cc = x.Common()
			default:
				return
			}
			if cc.IsInvoke() || ir.CalleeOf(cc) != nil {
				return
			}
			u, ok := cc.Value.(*ssa.UnOp)
			if !ok || u.Op != token.MUL {
				return
			}
			key := ""
			if tn, f, okf := ir.FieldOf(u.X); okf {
				key = tn + "." + f
			} else if g, isG := u.X.(*ssa.Global); isG {
				key = g.Pkg.Pkg.Path() + "." + g.Name()
			}
			if ctxF, okp := pair[key]; okp {
				top := fn
				for top.Parent() != nil {
					top = top.Parent()
				}
				out[ctxF] = append(out[ctxF], top)
			}
		})
	}
	return out
}

func ctxFieldKey(ctx ssa.Value) string {
	if u, ok := ctx.(*ssa.UnOp); ok && u.Op == token.MUL {
		if tn, f, okf := ir.FieldOf(u.X); okf {
			return tn + "." + f
		}
		if g, isG := u.X.(*ssa.Global); isG {
			return g.Pkg.Pkg.Path() + "." + g.Name()
		}
	}
	return ""
}

// ruleCalleeWake: blocking channel operations in functions that a joined goroutine calls (possibly in another
// component) must be woken no later than the moment the goroutine's own Stop starts waiting for it.
func ruleCalleeWake(r *core.Reporter) {
	p := r.P
	sp := p.Func(rel(pkgCtl), "stopPipeline")
	if sp == nil {
		r.Undecided("controler.stopPipeline", "", "anchor not found")
		return
	}
	cancels := cancelCallers(p)
	callsTo := func(f *ssa.Function) func(ssa.Instruction) bool {
		return func(in ssa.Instruction) bool {
			c, ok := in.(*ssa.Call)
			return ok && ir.CalleeOf(c.Common()) == f
		}
	}
	callsIntoPkg := func(pk string) func(ssa.Instruction) bool {
		return func(in ssa.Instruction) bool {
			c, ok := in.(*ssa.Call)
			if !ok {
				return false
			}
			cal := ir.CalleeOf(c.Common())
			return cal != nil && cal.Pkg != nil && cal.Pkg.Pkg.Path() == pk
		}
	}
	// wakes(ctxKey, gpkg): the context is cancelled by the goroutine's own component's stop function, or by a
	// function that stopPipeline calls before it enters that component on every path
	wakes := func(ctxKey, gpkg string) (bool, string) {
		cs := cancels[ctxKey]
		if len(cs) == 0 {
			return false, "nobody cancels " + ctxKey
		}
		for _, cf := range cs {
			if cf.Pkg != nil && cf.Pkg.Pkg.Path() == gpkg {
				return true, core.FuncName(cf) + " (the component's own stop)"
			}
			called := false
			allInstrs(sp, func(in ssa.Instruction) {
				if callsTo(cf)(in) {
					called = true
				}
			})
			if !called {
				continue
			}
			if _, bad := ir.PathExists([]ir.Pt{ir.Entry(sp)}, ir.Opts{Stop: callsTo(cf)}, callsIntoPkg(gpkg)); !bad {
				return true, core.FuncName(cf) + " (called by stopPipeline before the component is stopped)"
			}
		}
		var names []string
		for _, cf := range cs {
			names = append(names, core.FuncName(cf))
		}
		return false, "it is cancelled only by " + strings.Join(names, ", ") + ", which stopPipeline calls after waiting for this goroutine"
	}
	// operations whose non-blocking nature is decided by another property's rules
	elsewhere := map[string]string{
		"recv " + pkgReactor + ".reactor.tokenPool":   "a token is taken back only after LoadAndDelete reported the entry, whose creation put a token in (C12 R-REACT-INSERT/R-REACT-RELEASE)",
		"send " + pkgReactor + ".reactor.input":       "input has the token pool's capacity and the send follows a token acquisition (C12 R-REACT-CAP/R-REACT-ACCEPT)",
		"recv " + pkgPause + ".ControlChans.ResumeCh": "Resume's reads are answered by every subscriber's offer or by Unsubscribe closing the channel (C14 R-PAUSE-WORKER/R-UNSUB-SAFE)",
	}
	gs := waitedGoroutines(p)
	ops := 0
	seenKey := map[string]bool{}
	for _, g := range gs {
		gpkg := g.Pkg.Pkg.Path()
		closure := calleeClosure(g, 6)
		// the goroutine's own body takes part for the timing of its Done arms (R-CTX-SELECT decides the rest)
		closure[g] = []string{core.FuncName(g)}
		type unit struct {
			f     *ssa.Function
			chain []string
		}
		var units []unit
		for cal, chain := range closure {
			units = append(units, unit{cal, chain})
			// closures handed to callbacks run on the caller's goroutine; `go` closures are separate goroutines
			for _, a := range cal.AnonFuncs {
				if _, called := closure[a]; !called && !isGoTarget(cal, a) {
					units = append(units, unit{a, chain})
				}
			}
		}
		sort.Slice(units, func(i, j int) bool { return core.FuncName(units[i].f) < core.FuncName(units[j].f) })
		for _, u := range units {
			cal, chain := u.f, u.chain
			for _, op := range blockingOps(cal) {
				if cal == g || cal.Parent() == g {
					if op.kind != "select" || !hasDoneArm(op.in.(*ssa.Select)) {
						continue // decided by R-CTX-SELECT
					}
				}
				ops++
				key := core.FuncName(g) + "->" + core.FuncName(cal) + "/" + op.kind
				if op.kind == "select" {
					key += "@" + selKey(op.in.(*ssa.Select))
				} else {
					key += "@" + chanKey(op.ch)
				}
				if seenKey[key] {
					continue
				}
				seenKey[key] = true
				via := strings.Join(chain, " > ")
				switch op.kind {
				case "select":
					sel := op.in.(*ssa.Select)
					okArm, why := false, "no ctx.Done() arm"
					allTime := true
					for _, st := range sel.States {
						if !(st.Dir == types.RecvOnly && isTickerField(st.Chan)) {
							allTime = false
						}
						if st.Dir != types.RecvOnly {
							continue
						}
						if c, isDone := ir.IsDoneChan(st.Chan); isDone {
							ck := ctxFieldKey(c)
							if ck == "" {
								// a context handed in by the caller: the goroutine's own rule (R-CTX-SELECT) covers its origin
								okArm, why = true, "context passed by the caller"
								break
							}
							if w, reason := wakes(ck, gpkg); w {
								okArm, why = true, ck+" cancelled by "+reason
								break
							} else {
								why = reason
							}
						}
					}
					switch {
					case okArm:
						r.HeldAt(key, p.InstrPos(op.in), 1, "abandonable: %s", why)
					case allTime || localStopArm(sel):
						r.HeldAt(key, p.InstrPos(op.in), 1, "periodic or locally signalled")
					default:
						r.Violated(key, p.InstrPos(op.in), "blocking select reached from a goroutine that %s's stop waits for (%s) cannot be abandoned in time: %s", rel(gpkg), via, why)
					}
				default:
					if localMakeChan(op.ch) != nil {
						r.HeldAt(key, p.InstrPos(op.in), 1, "channel local to the function and the goroutines it starts")
						continue
					}
					// a channel parameter that every caller fills with a channel local to itself
					// (the operation may sit in a literal of the function that has the parameter: `defer func() { <-sem }()`)
					encloses := func(outer, inner *ssa.Function) bool {
						for f := inner; f != nil; f = f.Parent() {
							if f == outer {
								return true
							}
						}
						return false
					}
					if par := resolveParam(op.ch, 0); par != nil && encloses(par.Parent(), cal) {
						idx, sites, allLocal := paramIndex(par), 0, true
						owner := par.Parent()
						for _, f := range p.ModFuncs {
							allInstrs(f, func(x ssa.Instruction) {
								// called, started with `go`, or deferred
								if c := ir.AsCall(x); c != nil && ir.CalleeOf(c) == owner {
									sites++
									if idx < 0 || idx >= len(c.Args) {
										allLocal = false
										return
									}
									var leaves []ssa.Value
									phiLeaves(ir.Strip(c.Args[idx]), map[ssa.Value]bool{}, &leaves)
									for _, l := range leaves {
										if localMakeChan(l) == nil && !ir.IsNilConst(l) {
											allLocal = false
										}
									}
								}
							})
						}
						if sites > 0 && allLocal {
							r.HeldAt(key, p.InstrPos(op.in), 1, "channel parameter: every caller passes a channel local to itself (rendezvous with work it started)")
							continue
						}
					}
					if _, isDone := ir.IsDoneChan(op.ch); isDone && op.kind == "recv" {
						r.HeldAt(key, p.InstrPos(op.in), 1, "waits for cancellation itself")
						continue
					}
					fk := ""
					if u, ok := op.ch.(*ssa.UnOp); ok && u.Op == token.MUL {
						if tn, f, okf := ir.FieldOf(u.X); okf {
							fk = op.kind + " " + tn + "." + f
						}
					}
					if why, ok := elsewhere[fk]; ok {
						r.HeldAt(key, p.InstrPos(op.in), 1, "%s", why)
						continue
					}
					r.Violated(key, p.InstrPos(op.in), "plain blocking %s on %s reached from a goroutine that %s's stop waits for (%s)", op.kind, ir.Path(op.ch), rel(gpkg), via)
				}
			}
		}
	}
	r.Floor("blocking operations in callees of joined goroutines", ops, 4)
}

func isGoTarget(parent, a *ssa.Function) bool {
	is := false
	for _, f := range withAnon(parent) {
		allInstrs(f, func(in ssa.Instruction) {
			if g, ok := in.(*ssa.Go); ok && ir.CalleeOf(g.Common()) == a {
				is = true
			}
		})
	}
	return is
}

// warcCloseCollectionForm: archiver.Stop handles the clients as the collection GetClients() returns — that function
// yields every non-nil client field — and, after the worker wait, a loop over the whole collection waits for the
// writers and a later loop over the whole collection closes them. Returns false when Stop is not written this way.
func warcCloseCollectionForm(r *core.Reporter, stop *ssa.Function, wgWait ssa.Instruction, warcClient string) bool {
	p := r.P
	gcf := p.Func(rel(pkgArch), "GetClients")
	if gcf == nil {
		return false
	}
	var gc *ssa.Call
	allInstrs(stop, func(in ssa.Instruction) {
		if c, ok := in.(*ssa.Call); ok && ir.CalleeOf(c.Common()) == gcf {
			gc = c
		}
	})
	if gc == nil {
		return false
	}
	// no direct Close on the fields besides the loops
	direct := false
	allInstrs(stop, func(in ssa.Instruction) {
		if ir.MethodCall(in, warcClient, "Close") {
			if _, ok := clientFieldLoad(ir.AsCall(in).Args[0]); ok {
				direct = true
			}
		}
	})
	if direct {
		return false
	}
	r.Analysed(gcf)
	// GetClients: both fields are candidates, only nil ones are left out
	fields := map[string]bool{}
	allInstrs(gcf, func(in ssa.Instruction) {
		if u, ok := in.(*ssa.UnOp); ok {
			if f, okf := clientFieldLoad(u); okf {
				fields[f] = true
			}
		}
	})
	var app ssa.Instruction
	allInstrs(gcf, func(in ssa.Instruction) {
		if c, ok := in.(*ssa.Call); ok && ir.CallName(c.Common()) == "builtin.append" {
			app = in
		}
	})
	okGC := fields["Client"] && fields["ClientWithProxy"] && app != nil && loopCoversAll(gcf, app)
	if okGC {
		// the only condition on the append is the nil test of the element
		for _, ii := range ir.Ifs(gcf) {
			for _, t := range []bool{true, false} {
				if isLoopExitEdge(ii, t) || !ir.OnlyVia(ir.Entry(gcf), app, ii.If.Block(), ii.EdgeWhen(t)) {
					continue
				}
				a := ii.Atom
				isNilTest := a.V == nil && a.Op == token.EQL && (ir.IsNilConst(a.X) || ir.IsNilConst(a.Y))
				isLoopTest := a.V == nil && a.Op == token.LSS
				if !isNilTest && !isLoopTest {
					okGC = false
				}
			}
		}
	}
	if !okGC {
		r.Violated("archiver.GetClients", fnPos(p, gcf), "GetClients does not return every existing WARC client (both fields, nil ones left out): Stop would leave one open")
		return true
	}
	r.Held("archiver.GetClients", 2, "returns every non-nil client")
	// loops over the collection
	var waitLoop, closeLoop *ir.IfInfo
	var closeCall ssa.Instruction
	allInstrs(stop, func(in ssa.Instruction) {
		c := ir.AsCall(in)
		if c == nil || len(c.Args) == 0 {
			return
		}
		f := ir.CalleeOf(c)
		if f == nil {
			return
		}
		elemOf := func(v ssa.Value) bool {
			// v is (a field of) an element of the collection
			pth := ir.Path(v)
			return strings.Contains(pth, "GetClients()[")
		}
		switch {
		case ir.MethodCall(in, warcClient, "Close") && elemOf(c.Args[0]):
			if l, ok := loopAround(stop, in); ok && loopCoversAll(stop, in) {
				closeLoop, closeCall = &l, in
			}
		case f.Name() == "Wait" && elemOf(c.Args[0]) && strings.Contains(ir.Path(c.Args[0]), ".WaitGroup"):
			if l, ok := loopAround(stop, in); ok && loopCoversAll(stop, in) {
				waitLoop = &l
			}
		}
	})
	for _, field := range []string{"Client", "ClientWithProxy"} {
		key := "archiver.Stop/" + field
		if closeLoop == nil {
			r.Violated(key+"/close", fnPos(p, stop), "archiver.Stop does not close every client GetClients() returns")
			continue
		}
		if ret, bad := ir.PathExists([]ir.Pt{ir.After(wgWait)}, ir.Opts{Stop: func(in ssa.Instruction) bool { return in == ssa.Instruction(closeLoop.If) }}, ir.IsExit); bad {
			r.Violated(key+"/close", p.InstrPos(ret), "a path through archiver.Stop returns without the loop that closes the WARC clients: their files stay .open")
		} else {
			r.HeldAt(key+"/close", p.InstrPos(closeCall), 1, "closed by the loop over GetClients() on every path")
		}
		if waitLoop == nil {
			r.Violated(key+"/wait-before-close", p.InstrPos(closeCall), "the clients are closed without waiting for their WARC writers (records in flight are lost)")
			continue
		}
		res := ir.Reach([]ir.Pt{ir.After(wgWait)}, ir.Opts{Stop: func(in ssa.Instruction) bool { return in == ssa.Instruction(waitLoop.If) }})
		// the close loop is entered only after the wait loop has run to its end
		early := res.Reached[closeLoop.If] || res.Stopped[closeLoop.If]
		if !early {
			fromBody := ir.Reach([]ir.Pt{ir.EdgePt(waitLoop.If.Block(), waitLoop.EdgeWhen(true))}, ir.Opts{Stop: func(in ssa.Instruction) bool { return in == ssa.Instruction(waitLoop.If) }})
			if fromBody.Reached[closeLoop.If] || fromBody.Stopped[closeLoop.If] {
				early = true
			}
		}
		if early {
			r.Violated(key+"/wait-before-close", p.InstrPos(closeCall), "a client can be closed before every writer has been waited for")
		} else {
			r.Held(key+"/wait-before-close", 1, "the wait loop over all clients completes before the close loop starts")
		}
	}
	return true
}
