package rules

import (
	"golang.org/x/tools/go/ssa"

	"zenocheck/core"
	"zenocheck/ir"
)

// R-STRING-AFTER-NORMALIZE: (*URL).String memoises its result under a sync.Once that nothing resets. Whatever
// evaluates it on a URL before NormalizeURL ran freezes the pre-normalisation spelling: the substring / regex scope
// filters, the seencheck key and the request line then work on a text that is not the canonical one.

func init() {
	register(&core.Rule{ID: "R-STRING-AFTER-NORMALIZE", Props: []string{"C05", "C09"}, Doc: "typestate on models.URL, armed only while (*URL).String memoises under sync.Once (read from its body): (a) in the preprocessor worker nothing that can reach (*URL).String (static calls, depth 3) runs between the receive of a seed and the call of preprocess; (b) in preprocess every such call is preceded on all paths by a NormalizeURL call; (c) no function evaluates String on a URL object it has just allocated itself. A log argument is evaluated even when the level is off, so `\"url\", seed.GetURL().String()` in the wrong place is enough to make an upper-case host or explicit :443 bypass --exclude-string / --exclusion-file", Run: ruleStringAfterNormalize})
}

func ruleStringAfterNormalize(r *core.Reporter) {
	p := r.P
	str := p.Func(rel(pkgModels), "(*URL).String")
	if str == nil {
		r.Undecided("models.URL.String", "", "anchor not found")
		return
	}
	r.Analysed(str)
	memo := false
	for _, f := range withAnon(str) {
		allInstrs(f, func(in ssa.Instruction) {
			if ir.IsCallTo(in, "(*sync.Once).Do") {
				memo = true
			}
		})
	}
	if !memo {
		r.Held("models.URL.String/not-memoised", 0, "String() is recomputed on every call: evaluating it early freezes nothing")
		return
	}
	// S: module functions that can reach String through static calls
	reach := map[*ssa.Function]bool{str: true}
	for round := 0; round < 3; round++ {
		for _, fn := range p.ModFuncs {
			if reach[fn] || !core.InModule(fn) {
				continue
			}
			allInstrs(fn, func(in ssa.Instruction) {
				if cc := ir.AsCall(in); cc != nil {
					if callee := cc.StaticCallee(); callee != nil && reach[callee] {
						if _, isGo := in.(*ssa.Go); !isGo {
							reach[fn] = true
						}
					}
				}
			})
		}
	}
	isS := func(in ssa.Instruction) bool {
		cc := ir.AsCall(in)
		if cc == nil {
			return false
		}
		callee := cc.StaticCallee()
		return callee != nil && reach[callee]
	}
	pre := p.Func(rel(pkgPre), "preprocess")
	worker := p.Func(rel(pkgPre), "(*preprocessor).worker")
	norm := p.Func(rel(pkgPre), "NormalizeURL")
	if pre == nil || worker == nil || norm == nil {
		r.Undecided("preprocessor/anchors", "", "preprocess / worker / NormalizeURL not found")
		return
	}
	r.Analysed(pre)
	r.Analysed(worker)
	// (a) worker: before preprocess
	var preCall ssa.Instruction
	allInstrs(worker, func(in ssa.Instruction) {
		if cc := ir.AsCall(in); cc != nil && cc.StaticCallee() == pre {
			preCall = in
		}
	})
	if preCall == nil {
		r.Undecided("worker/preprocess-call", fnPos(p, worker), "the worker no longer calls preprocess directly")
	} else {
		var bad ssa.Instruction
		dom := worker.DomPreorder()
		_ = dom
		allInstrs(worker, func(in ssa.Instruction) {
			if bad != nil || !isS(in) || in == preCall {
				return
			}
			if in.Block() == preCall.Block() {
				for _, x := range in.Block().Instrs {
					if x == in {
						bad = in
						break
					}
					if x == preCall {
						break
					}
				}
			} else if in.Block().Dominates(preCall.Block()) {
				bad = in
			}
		})
		if bad != nil {
			r.Violated("worker/string-before-preprocess", p.InstrPos(bad), "%s is evaluated on the received seed before preprocess normalises it: String() memoises, so the un-normalised spelling (upper-case host, explicit default port, dot segments) is what the scope filters, the seencheck and the request will see", ir.CallName(ir.AsCall(bad)))
		} else {
			r.Held("worker/string-before-preprocess", 1, "nothing that can reach URL.String runs between the receive and preprocess")
		}
	}
	// (b) preprocess: after NormalizeURL
	isNorm := func(in ssa.Instruction) bool {
		cc := ir.AsCall(in)
		return cc != nil && cc.StaticCallee() == norm
	}
	// only calls that a NormalizeURL can still follow matter (after the gate loop everything at this level is normalised)
	beforeNorm := func(in ssa.Instruction) bool {
		if !isS(in) {
			return false
		}
		_, again := ir.PathExists([]ir.Pt{ir.After(in)}, ir.Opts{}, isNorm)
		return again
	}
	if at, early := ir.PathExists([]ir.Pt{ir.Entry(pre)}, ir.Opts{Stop: isNorm}, beforeNorm); early {
		r.Violated("preprocess/string-before-normalize", p.InstrPos(at), "%s can run in preprocess before any NormalizeURL call: the memoised String() keeps the un-normalised text", ir.CallName(ir.AsCall(at)))
	} else {
		r.Held("preprocess/string-before-normalize", 1, "every call that can reach URL.String is preceded by NormalizeURL")
	}
	// (c) String on a URL allocated in the same function
	sites, fresh := 0, 0
	for _, fn := range p.ModFuncs {
		if !core.InModule(fn) || fn == norm {
			continue
		}
		fn := fn
		allInstrs(fn, func(in ssa.Instruction) {
			cc := ir.AsCall(in)
			if cc == nil || cc.StaticCallee() != str || len(cc.Args) == 0 {
				return
			}
			sites++
			if a, ok := ir.Strip(cc.Args[0]).(*ssa.Alloc); ok && ir.TypeName(a.Type()) == tURL {
				// allowed when NormalizeURL was applied to the same object first
				normed := false
				allInstrs(fn, func(x ssa.Instruction) {
					if xc := ir.AsCall(x); xc != nil && xc.StaticCallee() == norm && len(xc.Args) > 0 && ir.Strip(xc.Args[0]) == ssa.Value(a) {
						if !ir.Reach([]ir.Pt{ir.Entry(fn)}, ir.Opts{Stop: func(y ssa.Instruction) bool { return y == x }}).Reached[in] {
							normed = true
						}
					}
				})
				if !normed {
					fresh++
					r.Violated(core.FuncName(fn)+"/string-on-fresh-url", p.InstrPos(in), "String() is evaluated on a models.URL this function has just built, before any normalisation: the memoised text is the raw spelling")
				}
			}
		})
	}
	if fresh == 0 {
		r.Held("module/string-on-fresh-url", sites, "no String() on a URL object allocated in the same function (%d String call sites)", sites)
	}
}
