package rules

import (
	"go/constant"
	"go/token"
	"go/types"
	"sort"
	"strings"

	"golang.org/x/tools/go/ssa"

	"zenocheck/core"
	"zenocheck/ir"
)

const (
	mod          = core.ModPath
	pkgModels    = mod + "/pkg/models"
	pkgReactor   = mod + "/internal/pkg/reactor"
	pkgPre       = mod + "/internal/pkg/preprocessor"
	pkgArch      = mod + "/internal/pkg/archiver"
	pkgPost      = mod + "/internal/pkg/postprocessor"
	pkgFin       = mod + "/internal/pkg/finisher"
	pkgCtl       = mod + "/internal/pkg/controler"
	pkgPause     = mod + "/internal/pkg/controler/pause"
	pkgWatch     = mod + "/internal/pkg/controler/watchers"
	pkgStats     = mod + "/internal/pkg/stats"
	pkgConfig    = mod + "/internal/pkg/config"
	pkgSeen      = mod + "/internal/pkg/preprocessor/seencheck"
	pkgHQ        = mod + "/internal/pkg/source/hq"
	pkgLQ        = mod + "/internal/pkg/source/lq"
	pkgSqlc      = mod + "/internal/pkg/source/lq/sqlc_model"
	pkgExtractor = mod + "/internal/pkg/postprocessor/extractor"
	pkgDomains   = mod + "/internal/pkg/postprocessor/domainscrawl"
	pkgRL        = mod + "/internal/pkg/archiver/ratelimiter"
	pkgDiscard   = mod + "/internal/pkg/archiver/discard"
	pkgUtils     = mod + "/internal/pkg/utils"

	tItem = pkgModels + ".Item"
	tURL  = pkgModels + ".URL"
)

func rel(pkgpath string) string {
	return strings.TrimPrefix(strings.TrimPrefix(pkgpath, mod), "/")
}

// itemStates returns name→value of the models.ItemState constants.
func itemStates(p *core.Program) (map[string]int64, map[int64]string) {
	byName := map[string]int64{}
	byVal := map[int64]string{}
	pk := p.AllPkgs[pkgModels]
	if pk == nil || pk.Types == nil {
		return byName, byVal
	}
	sc := pk.Types.Scope()
	for _, n := range sc.Names() {
		c, ok := sc.Lookup(n).(*types.Const)
		if !ok {
			continue
		}
		if nt, ok := c.Type().(*types.Named); ok && nt.Obj().Name() == "ItemState" {
			if v, ok := constant.Int64Val(c.Val()); ok {
				byName[n] = v
				byVal[v] = n
			}
		}
	}
	return byName, byVal
}

func isItemChan(t types.Type) bool {
	ch, ok := t.Underlying().(*types.Chan)
	if !ok {
		return false
	}
	return ir.TypeName(ch.Elem()) == tItem
}

// goTargets lists the functions started by `go` statements inside fn and, transitively, inside closures it calls directly.
func goTargets(fn *ssa.Function, depth int, seen map[*ssa.Function]bool) []*ssa.Function {
	if fn == nil || depth < 0 || seen[fn] {
		return nil
	}
	seen[fn] = true
	var out []*ssa.Function
	for _, b := range fn.Blocks {
		for _, in := range b.Instrs {
			switch x := in.(type) {
			case *ssa.Go:
				if f := ir.CalleeOf(x.Common()); f != nil {
					out = append(out, f)
				}
			case *ssa.Call:
				if f := ir.CalleeOf(x.Common()); f != nil && core.InModule(f) {
					out = append(out, goTargets(f, depth-1, seen)...)
				}
				// closures passed as arguments (once.Do(func(){…}))
				for _, a := range x.Common().Args {
					if mc, ok := a.(*ssa.MakeClosure); ok {
						out = append(out, goTargets(mc.Fn.(*ssa.Function), depth-1, seen)...)
					}
				}
			}
		}
	}
	return out
}

// stageWorker describes a pipeline stage worker goroutine found by role:
// a goroutine started from the stage's Start whose main select receives a
// *models.Item from a channel field of its receiver.
type stageWorker struct {
	Stage   string // relative package
	Fn      *ssa.Function
	Sel     ir.SelectInfo
	InArm   ir.SelectArm
	Seed    ssa.Value // the received item
	Ok      ssa.Value // comma-ok of the receive (may be nil)
	InChan  string    // access path of the input channel
	Start   ir.Pt     // first point of the per-seed region
	Header  *ssa.BasicBlock
	StartFn *ssa.Function
}

func findStageWorker(p *core.Program, pkgpath string) *stageWorker {
	start := p.Func(rel(pkgpath), "Start")
	if start == nil {
		return nil
	}
	targets := goTargets(start, 3, map[*ssa.Function]bool{})
	sort.Slice(targets, func(i, j int) bool { return core.FuncName(targets[i]) < core.FuncName(targets[j]) })
	for _, fn := range targets {
		if !core.InModule(fn) {
			continue
		}
		for _, si := range ir.Selects(fn) {
			recvIdx := 0
			for _, arm := range si.Arms {
				st := arm.State
				if st.Dir != types.RecvOnly {
					continue
				}
				myRecv := recvIdx
				recvIdx++
				if !isItemChan(st.Chan.Type()) {
					continue
				}
				w := &stageWorker{Stage: rel(pkgpath), Fn: fn, Sel: si, InArm: arm, InChan: ir.Path(st.Chan), Header: si.Sel.Block(), StartFn: start}
				for _, r := range ir.Referrers(si.Sel) {
					if e, ok := r.(*ssa.Extract); ok {
						if e.Index == 2+myRecv {
							w.Seed = e
						}
						if e.Index == 1 {
							w.Ok = e
						}
					}
				}
				if w.Seed == nil || arm.Body == nil {
					continue
				}
				w.Start = ir.Pt{B: arm.Body, I: 0}
				// region starts on the true side of `if ok`
				if w.Ok != nil {
					for _, r := range ir.Referrers(w.Ok) {
						if ifi, ok := r.(*ssa.If); ok {
							w.Start = ir.EdgePt(ifi.Block(), 0)
						}
					}
				}
				return w
			}
		}
	}
	return nil
}

// sendOf returns (chan, value) when in is a plain channel send.
func sendOf(in ssa.Instruction) (ssa.Value, ssa.Value, bool) {
	if s, ok := in.(*ssa.Send); ok {
		return s.Chan, s.X, true
	}
	return nil, nil, false
}

// forwardingSelect: a select whose only send state sends `seed` on an item
// channel and whose other states are all receives from Done() channels whose
// arms leave the function (stop exits). Such a select counts as "forward the
// seed or stop".
func forwardingSelect(fn *ssa.Function, in ssa.Instruction, seed ssa.Value, header *ssa.BasicBlock) (ssa.Value, bool) {
	sel, ok := in.(*ssa.Select)
	if !ok {
		return nil, false
	}
	var ch ssa.Value
	sends := 0
	for _, st := range sel.States {
		if st.Dir == types.SendOnly {
			sends++
			if !ir.SameValue(st.Send, seed) || !isItemChan(st.Chan.Type()) {
				return nil, false
			}
			ch = st.Chan
		} else {
			if _, isDone := ir.IsDoneChan(st.Chan); !isDone {
				return nil, false
			}
		}
	}
	if sends != 1 || !sel.Blocking {
		return nil, false
	}
	// every Done arm must leave the function without reaching the loop header again
	for _, si := range ir.Selects(fn) {
		if si.Sel != sel {
			continue
		}
		for _, arm := range si.Arms {
			if arm.State.Dir == types.SendOnly || arm.Body == nil {
				continue
			}
			res := ir.Reach([]ir.Pt{{B: arm.Body, I: 0}}, ir.Opts{})
			if len(header.Instrs) > 0 && res.Reached[header.Instrs[0]] {
				return nil, false
			}
		}
	}
	return ch, true
}

func anyCall(names ...string) func(ssa.Instruction) bool {
	return func(in ssa.Instruction) bool { return ir.IsCallTo(in, names...) }
}

// callsWithArg matches a plain call of one of the named functions whose first
// (receiver or positional) argument is v.
func callOn(in ssa.Instruction, v ssa.Value, names ...string) bool {
	if !ir.IsPlainCallTo(in, names...) {
		return false
	}
	c := ir.AsCall(in)
	return len(c.Args) > 0 && ir.SameValue(c.Args[0], v)
}

func fnPos(p *core.Program, fn *ssa.Function) string {
	if fn == nil {
		return ""
	}
	return p.Pos(fn.Pos())
}

// configField matches a load of config.Get().<Field>.
func isConfigField(v ssa.Value, field string) bool {
	return ir.Path(v) == "config.Get()."+field
}

// allInstrs iterates over every instruction of fn.
func allInstrs(fn *ssa.Function, f func(in ssa.Instruction)) {
	if fn == nil {
		return
	}
	for _, b := range fn.Blocks {
		for _, in := range b.Instrs {
			f(in)
		}
	}
}

// withAnon returns fn and all its (transitively) nested anonymous functions.
func withAnon(fn *ssa.Function) []*ssa.Function {
	if fn == nil {
		return nil
	}
	out := []*ssa.Function{fn}
	for _, a := range fn.AnonFuncs {
		out = append(out, withAnon(a)...)
	}
	return out
}

// setStatusConst: in is a call of (*Item).SetStatus with a constant state; returns the value.
func setStatusConst(in ssa.Instruction) (ssa.Value, int64, bool) {
	if !ir.IsPlainCallTo(in, "(*"+pkgModels+".Item).SetStatus") {
		return nil, 0, false
	}
	c := ir.AsCall(in)
	if len(c.Args) != 2 {
		return nil, 0, false
	}
	v, ok := ir.ConstInt(c.Args[1])
	return c.Args[0], v, ok
}

// pruneStopArms returns an EdgeOK that removes the edges into select arms that
// receive from a context's Done() channel and whose body leaves the function
// without looping: those are stop exits, not drops.
func pruneStopArms(fn *ssa.Function) func(*ssa.BasicBlock, int) bool {
	type edge struct {
		b *ssa.BasicBlock
		s int
	}
	cut := map[edge]bool{}
	for _, si := range ir.Selects(fn) {
		for _, arm := range si.Arms {
			if arm.State.Dir != types.RecvOnly || arm.Body == nil || arm.EdgeB == nil {
				continue
			}
			if _, ok := ir.IsDoneChan(arm.State.Chan); !ok {
				continue
			}
			// the arm must end the function: no path back to the select
			res := ir.Reach([]ir.Pt{{B: arm.Body, I: 0}}, ir.Opts{})
			if res.Reached[si.Sel] {
				continue
			}
			cut[edge{arm.EdgeB, arm.EdgeS}] = true
		}
	}
	return func(b *ssa.BasicBlock, s int) bool { return !cut[edge{b, s}] }
}

func ptrTo(t *ssa.Type) types.Type { return types.NewPointer(t.Type()) }

// globalIntTable returns the constant contents of an unexported package-level
// []int / [N]int variable that is initialised once from a literal and never
// written afterwards (only indexed, ranged over or measured). ok=false when
// any use in its package could change an element.
func globalIntTable(p *core.Program, g *ssa.Global) (vals []int64, ok bool) {
	if g == nil || g.Pkg == nil || g.Object() == nil || g.Object().Exported() {
		return nil, false
	}
	var fns []*ssa.Function
	hasInit := false
	for _, fn := range p.ModFuncs {
		if fn.Pkg == g.Pkg || (fn.Parent() != nil && fn.Parent().Pkg == g.Pkg) {
			fns = append(fns, fn)
			if fn == g.Pkg.Func("init") {
				hasInit = true
			}
		}
	}
	if !hasInit && g.Pkg.Func("init") != nil {
		fns = append(fns, g.Pkg.Func("init"))
	}
	var initStore *ssa.Store
	readOnly := true
	var useOK func(v ssa.Value, depth int) bool
	useOK = func(v ssa.Value, depth int) bool {
		if depth > 6 {
			return false
		}
		for _, u := range ir.Referrers(v) {
			switch x := u.(type) {
			case *ssa.DebugRef:
			case *ssa.IndexAddr:
				for _, uu := range ir.Referrers(x) {
					if ld, isLd := uu.(*ssa.UnOp); !isLd || ld.Op != token.MUL {
						if _, isDbg := uu.(*ssa.DebugRef); !isDbg {
							return false
						}
					}
				}
			case *ssa.Index, *ssa.Range:
			case *ssa.Call:
				if b, isB := x.Call.Value.(*ssa.Builtin); isB && (b.Name() == "len" || b.Name() == "cap") {
					continue
				}
				// read-only membership helpers (slices.Contains / slices.Index and the canonicaliser's models of them)
				f := ir.CalleeOf(x.Common())
				if f == nil || !(strings.HasPrefix(f.Name(), "zzcanonContains") || strings.HasPrefix(f.Name(), "zzcanonIndex") ||
					strings.HasPrefix(ir.FullName(f), "slices.Contains[") || strings.HasPrefix(ir.FullName(f), "slices.Index[")) {
					return false
				}
			case *ssa.ChangeType, *ssa.Phi:
				if !useOK(x.(ssa.Value), depth+1) {
					return false
				}
			case *ssa.Store:
				// spilled into a local: follow the local's loads
				al, isAl := x.Addr.(*ssa.Alloc)
				if !isAl || x.Val != v {
					return false
				}
				for _, uu := range ir.Referrers(al) {
					switch y := uu.(type) {
					case *ssa.Store:
						if y.Addr != al {
							return false
						}
					case *ssa.UnOp:
						if !useOK(y, depth+1) {
							return false
						}
					case *ssa.DebugRef:
					default:
						return false
					}
				}
			default:
				return false
			}
		}
		return true
	}
	for _, fn := range fns {
		allInstrs(fn, func(in ssa.Instruction) {
			switch x := in.(type) {
			case *ssa.Store:
				if x.Addr == ssa.Value(g) {
					if fn.Name() == "init" && fn.Synthetic != "" && initStore == nil {
						initStore = x
					} else {
						readOnly = false
					}
				} else if x.Val == ssa.Value(g) {
					readOnly = false // address escapes
				}
			case *ssa.UnOp:
				if x.X == ssa.Value(g) && x.Op == token.MUL {
					if !useOK(x, 0) {
						readOnly = false
					}
				}
			default:
				for _, op := range in.Operands(nil) {
					if *op == ssa.Value(g) {
						if _, isIA := in.(*ssa.IndexAddr); isIA {
							for _, uu := range ir.Referrers(in.(ssa.Value)) {
								if ld, isLd := uu.(*ssa.UnOp); !isLd || ld.Op != token.MUL {
									if _, isDbg := uu.(*ssa.DebugRef); !isDbg {
										readOnly = false
									}
								}
							}
						} else {
							readOnly = false
						}
					}
				}
			}
		})
	}
	if !readOnly {
		return nil, false
	}
	// contents: either g = slice(new [N]int) with constant element stores in init, or
	// element stores straight into the array global
	var backing ssa.Value
	if initStore != nil {
		sl, isSl := initStore.Val.(*ssa.Slice)
		if !isSl || sl.Low != nil || sl.High != nil {
			return nil, false
		}
		backing = sl.X
	} else {
		return nil, false
	}
	arr, isArr := backing.Type().Underlying().(*types.Pointer)
	if !isArr {
		return nil, false
	}
	at, isAT := arr.Elem().Underlying().(*types.Array)
	if !isAT {
		return nil, false
	}
	vals = make([]int64, at.Len())
	set := make([]bool, at.Len())
	for _, u := range ir.Referrers(backing) {
		ia, isIA := u.(*ssa.IndexAddr)
		if !isIA {
			if u == ssa.Instruction(initStore.Val.(*ssa.Slice)) {
				continue
			}
			if _, isDbg := u.(*ssa.DebugRef); isDbg {
				continue
			}
			return nil, false
		}
		idx, okI := ir.ConstInt(ia.Index)
		if !okI || idx < 0 || idx >= at.Len() {
			return nil, false
		}
		for _, uu := range ir.Referrers(ia) {
			st, isSt := uu.(*ssa.Store)
			if !isSt || set[idx] {
				return nil, false
			}
			c, okC := ir.ConstInt(st.Val)
			if !okC {
				return nil, false
			}
			vals[idx], set[idx] = c, true
		}
	}
	for _, s := range set {
		if !s {
			return nil, false
		}
	}
	return vals, true
}
