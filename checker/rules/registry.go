// Package rules holds the repository-specific rules (DESIGN.md §3).
package rules

import (
	"sort"

	"zenocheck/core"
)

var all []*core.Rule

func register(r *core.Rule) { all = append(all, r) }

// For returns the rules serving a property, in registration order.
func For(prop string) []*core.Rule {
	var out []*core.Rule
	for _, r := range all {
		for _, p := range r.Props {
			if p == prop {
				out = append(out, r)
			}
		}
	}
	return out
}

// Properties lists every property that has at least one rule.
func Properties() []string {
	set := map[string]bool{}
	for _, r := range all {
		for _, p := range r.Props {
			set[p] = true
		}
	}
	var out []string
	for p := range set {
		out = append(out, p)
	}
	sort.Strings(out)
	return out
}

// PropertyText gives, per property, what the rules decide and what they do not.
var PropertyText = map[string][2]string{}
