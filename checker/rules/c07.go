package rules

import (
	"fmt"
	"go/token"
	"go/types"
	"strings"

	"golang.org/x/tools/go/ssa"

	"zenocheck/core"
	"zenocheck/ir"
)

func init() {
	PropertyText["C07"] = [2]string{
		"Decides the exhaustiveness of the HTML extractor's tag/attribute table — an attribute nobody reads is never fetched: for img[src|srcset], script[src], link[href], source[src|srcset], video[src], audio[src], url(...) in <style> and in style attributes, and a[href] for outlinks there is a Find over the tag whose callback reads the attribute, the value flows into the returned list (all comma-separated srcset candidates), the only conditions are 'attribute exists', the tag's own --disable-html-tag test (exact match) and, for link, the rel=alternate skip (R-HTML-TABLE); every extracted asset becomes a fresh child and every outlink reaches the returned list unless the hop rule skips it (R-HTML-TO-CHILD); children are resolved against their parent page by NormalizeURL (R-URL-SHAPE resolve-base, R-SCOPE-GATE). The module's own Read loops look at the byte count before acting on the error, so the tail of a document returned together with io.EOF is not dropped (R-READ-CONSUME); the redirect-counting depth decides nothing — a page reached through a redirect is not treated as an asset (R-DEPTH-KIND). References are resolved against the item's own parent (R-NORMALIZE-PARENT); every generic predicate consulted before IsHTML in the dispatch looks at the content type, the sniffed type or the body (R-DISPATCH-BEFORE-HTML); HTML bodies pass ProcessBody's keep-test (R-BODY-KEPT). Whoever reads the shared body rewinds it on every exit (R-BODY-REWIND).",
		"Not decided: resolution 'as a browser would' on runtime strings (ada / net/url semantics), goquery's parsing of malformed HTML, interplay with seen/scope filtering.",
	}
	register(&core.Rule{ID: "R-HTML-TABLE", Props: []string{"C07"}, Doc: "extractor.HTMLAssets / HTMLOutlinks: each required (tag, attribute) pair has a Find whose Each-callback reads the attribute and appends its value (every srcset candidate) to the returned slice, conditional only on the attribute's existence; each tag block is disabled exactly by slices.Contains(DisableHTMLTag, <that tag>)", Run: ruleHTMLTable})
	register(&core.Rule{ID: "R-READ-CONSUME", Props: []string{"C07"}, Doc: "io.Reader contract in the module's own read loops (copyWithTimeout feeds the body every extractor sees): after `n, err := src.Read(buf)` every path to the next Read or out of the function first looks at n (a branch on n or a use of buf[:n]) — a Read may return the last bytes together with io.EOF, acting on err first drops the tail of the document and the references in it", Run: ruleReadConsume})
	register(&core.Rule{ID: "R-DEPTH-KIND", Props: []string{"C07", "C06"}, Doc: "the redirect-counting depth (*Item).GetDepth decides nothing: its result is never compared or returned by another function (only logged) — every depth decision uses GetDepthWithoutRedirections, otherwise a page reached through a redirect is treated as an asset (of an asset) and its requisites are never extracted", Run: ruleDepthKind})
	register(&core.Rule{ID: "R-HTML-TO-CHILD", Props: []string{"C07"}, Doc: "postprocessItem: every non-nil extracted asset is added as a child with ItemGotChildren (loop without early exit besides the nil / reddit-unescape skips); every outlink is appended to the result unless skipped by the domains-crawl hop rule; HTMLAssets/HTMLOutlinks turn every raw string into a URL", Run: ruleHTMLToChild})
}

const tSelection = "github.com/PuerkitoBio/goquery.Selection"

// findBlock is one document.Find(sel).Each(closure) statement.
type findBlock struct {
	find    *ssa.Call
	each    *ssa.Call
	closure *ssa.Function
	tags    map[string]bool // tag tokens of the selector
}

func selectorTags(sel string) map[string]bool {
	out := map[string]bool{}
	for _, part := range strings.Split(sel, ",") {
		part = strings.TrimSpace(part)
		if part == "" {
			continue
		}
		tag := part
		if i := strings.IndexAny(part, "[.#: "); i >= 0 {
			tag = part[:i]
		}
		if tag == "" {
			tag = part // attribute selector like [style]
		}
		out[tag] = true
	}
	return out
}

// constStringsInto collects constant strings stored into / appended to the slice value v (array literal or append chain).
func constStringsInto(v ssa.Value, seen map[ssa.Value]bool, out map[string]bool) {
	if v == nil || seen[v] {
		return
	}
	seen[v] = true
	if s, ok := ir.ConstString(v); ok {
		out[s] = true
		return
	}
	switch x := v.(type) {
	case *ssa.Phi:
		for _, e := range x.Edges {
			constStringsInto(e, seen, out)
		}
	case *ssa.Slice:
		constStringsInto(x.X, seen, out)
	case *ssa.FreeVar:
		constStringsInto(ir.FreeVarBinding(x), seen, out)
	case *ssa.Alloc:
		for _, rr := range ir.Referrers(x) {
			if st, ok := rr.(*ssa.Store); ok && st.Addr == ssa.Value(x) {
				constStringsInto(st.Val, seen, out)
			}
			if ia, ok := rr.(*ssa.IndexAddr); ok {
				for _, r2 := range ir.Referrers(ia) {
					if st, ok := r2.(*ssa.Store); ok {
						constStringsInto(st.Val, seen, out)
					}
				}
			}
		}
	case *ssa.Call:
		n := ir.CallName(x.Common())
		if n == "builtin.append" || n == "strings.Join" {
			for _, a := range x.Call.Args {
				constStringsInto(a, seen, out)
			}
		}
	case *ssa.UnOp:
		if x.Op == token.MUL {
			constStringsInto(x.X, seen, out)
		}
	}
}

func findBlocks(fn *ssa.Function) []findBlock {
	var out []findBlock
	allInstrs(fn, func(in ssa.Instruction) {
		each, ok := in.(*ssa.Call)
		if !ok || !ir.IsCallTo(each, "(*"+tSelection+").Each") {
			return
		}
		find, ok := each.Call.Args[0].(*ssa.Call)
		if !ok || !ir.IsCallTo(find, "(*"+tSelection+").Find") {
			return
		}
		mc, ok := each.Call.Args[1].(*ssa.MakeClosure)
		if !ok {
			return
		}
		sels := map[string]bool{}
		constStringsInto(find.Call.Args[1], map[ssa.Value]bool{}, sels)
		tags := map[string]bool{}
		for s := range sels {
			for t := range selectorTags(s) {
				tags[t] = true
			}
		}
		out = append(out, findBlock{find: find, each: each, closure: mc.Fn.(*ssa.Function), tags: tags})
	})
	return out
}

// disableTagAtom: atom is `<tag> is in config.DisableHTMLTag` — slices.Contains directly, or a module helper that is exactly that.
func disableTagAtom(a ir.Atom) (string, bool) {
	c, ok := a.V.(*ssa.Call)
	if a.V == nil || !ok {
		return "", false
	}
	name := ir.CallName(c.Common())
	if strings.HasPrefix(name, "slices.Contains") && len(c.Call.Args) == 2 && isConfigField(c.Call.Args[0], "DisableHTMLTag") {
		s, okc := ir.ConstString(c.Call.Args[1])
		return s, okc
	}
	if f := ir.CalleeOf(c.Common()); f != nil && core.InModule(f) && len(c.Call.Args) == 1 && len(f.Params) == 1 {
		// helper: every return is slices.Contains(config.DisableHTMLTag, param)
		okH := len(ir.Returns(f)) > 0
		for _, ret := range ir.Returns(f) {
			rc, isC := ir.RetVal(ret, 0).(*ssa.Call)
			if !isC || !strings.HasPrefix(ir.CallName(rc.Common()), "slices.Contains") || !isConfigField(rc.Call.Args[0], "DisableHTMLTag") || !ir.SameValue(rc.Call.Args[1], f.Params[0]) {
				okH = false
			}
		}
		if okH {
			s, okc := ir.ConstString(c.Call.Args[0])
			return s, okc
		}
	}
	return "", false
}

// sinkAppend: in closure cl, value v flows into an append whose result is stored back through a free variable
// (the accumulator of the enclosing function); returns that append instruction.
func flowsToAccumulator(v ssa.Value) (ssa.Instruction, bool) {
	return ir.FlowsTo(v, func(in ssa.Instruction, operand ssa.Value) bool {
		// the (appended) list is stored back into the captured accumulator
		if st, isSt := in.(*ssa.Store); isSt && st.Val == operand {
			if _, isFV := st.Addr.(*ssa.FreeVar); isFV {
				if _, isSlice := st.Val.Type().Underlying().(*types.Slice); isSlice {
					return true
				}
			}
		}
		c, ok := in.(*ssa.Call)
		if !ok || ir.CallName(c.Common()) != "builtin.append" {
			return false
		}
		// append(acc, …) where acc is a load of a free variable (captured accumulator) and the operand is the variadic part
		if len(c.Call.Args) < 2 || c.Call.Args[0] == operand {
			return false
		}
		if u, isU := c.Call.Args[0].(*ssa.UnOp); isU {
			if _, isFV := u.X.(*ssa.FreeVar); isFV {
				return true
			}
		}
		return false
	}, 400)
}

type htmlReq struct {
	tag, attr string // attr "" = element text
	srcset    bool
}

func ruleHTMLTable(r *core.Reporter) {
	p := r.P
	ha := p.Func(rel(pkgExtractor), "HTMLAssets")
	ho := p.Func(rel(pkgExtractor), "HTMLOutlinks")
	if ha == nil || ho == nil {
		r.Undecided("extractor.HTMLAssets", "", "HTMLAssets/HTMLOutlinks not found")
		return
	}
	r.Analysed(ha, ho)
	blocks := findBlocks(ha)
	if !r.Floor("Find(…).Each blocks in HTMLAssets", len(blocks), 5) {
		return
	}
	reqs := []htmlReq{
		{"img", "src", false}, {"img", "srcset", true}, {"script", "src", false}, {"link", "href", false},
		{"source", "src", false}, {"source", "srcset", true}, {"video", "src", false}, {"audio", "src", false},
		{"style", "", false}, {"[style]", "style", false},
	}
	for _, rq := range reqs {
		key := "HTMLAssets/" + rq.tag + "[" + rq.attr + "]"
		if rq.attr == "" {
			key = "HTMLAssets/" + rq.tag + " text"
		}
		var found *findBlock
		var attrCall *ssa.Call
		for i := range blocks {
			b := blocks[i]
			if !b.tags[rq.tag] {
				continue
			}
			allInstrs(b.closure, func(in ssa.Instruction) {
				c, ok := in.(*ssa.Call)
				if !ok {
					return
				}
				if rq.attr != "" && ir.IsCallTo(c, "(*"+tSelection+").Attr") {
					if s, okc := ir.ConstString(c.Call.Args[1]); okc && s == rq.attr {
						found, attrCall = &blocks[i], c
					}
				}
				if rq.attr == "" && ir.IsCallTo(c, "(*"+tSelection+").Text") {
					found, attrCall = &blocks[i], c
				}
			})
		}
		if found == nil {
			r.Violated(key, fnPos(p, ha), "no Find over %q reads %s: such requisites are never extracted", rq.tag, map[bool]string{true: "the element text", false: "attribute " + rq.attr}[rq.attr == ""])
			continue
		}
		r.Analysed(found.closure)
		// value flows into the accumulator
		var val ssa.Value = attrCall
		if rq.attr != "" {
			for _, rr := range ir.Referrers(attrCall) {
				if e, ok := rr.(*ssa.Extract); ok && e.Index == 0 {
					val = e
				}
			}
		}
		sink, ok := flowsToAccumulator(val)
		if !ok {
			r.Violated(key, p.InstrPos(attrCall), "the value read from %s is not appended to the list of assets", key)
			continue
		}
		// guards on the sink inside the closure: only `exists`, loop bounds, and (link) the alternate skip
		var existsV ssa.Value
		for _, rr := range ir.Referrers(attrCall) {
			if e, ok := rr.(*ssa.Extract); ok && e.Index == 1 {
				existsV = e
			}
		}
		extra := ""
		for _, ii := range ir.Ifs(found.closure) {
			for _, t := range []bool{true, false} {
				if !ir.OnlyVia(ir.Entry(found.closure), sink, ii.If.Block(), ii.EdgeWhen(t)) {
					continue
				}
				a := ii.Atom
				switch {
				case a.V != nil && a.V == existsV && t:
				case a.V == nil && a.Op == token.LSS: // loop bound / index
				case rq.tag == "link" && (isConfigAtom(a, "CaptureAlternatePages") || isRelAlternate(a)):
				case rq.tag == "link" && a.V != nil && isAttrExists(a.V, "rel"):
				case rq.attr == "" || rq.tag == "[style]":
					// regexp match loops and the non-URL filters of CSS values: those name specific literals
					// (`strings.HasPrefix(m, "--font")`, `strings.Contains(m, "%")`), never a class of first
					// characters — "starts with a digit" also rejects 2x/hero.png, 1.gif, 2024/03/banner.jpg
					literal := false
					if c, isC := a.V.(*ssa.Call); isC && ir.IsCallTo(c, "strings.HasPrefix", "strings.HasSuffix", "strings.Contains", "strings.EqualFold") && len(c.Call.Args) == 2 {
						if lit, okc := ir.ConstString(c.Call.Args[1]); okc && lit != "" {
							literal = true
						}
					}
					isLen := func(v ssa.Value) bool {
						c, ok := v.(*ssa.Call)
						return ok && ir.CallName(c.Common()) == "builtin.len"
					}
					isCharOf := func(v ssa.Value) bool {
						switch x := ir.Strip(v).(type) {
						case *ssa.Lookup:
							_, isMap := x.X.Type().Underlying().(*types.Map)
							return !isMap
						case *ssa.Index:
							return true
						}
						return false
					}
					switch {
					case literal:
					case a.V == nil && (isLen(a.X) || isLen(a.Y)):
					case a.V == nil && a.Op == token.EQL && !isCharOf(a.X) && !isCharOf(a.Y):
						// whole-string comparisons, nil checks
					case a.V == nil && (isCharOf(a.X) || isCharOf(a.Y)):
						extra = "a character-class test on the matched value: " + describeAtom(a)
					case a.V != nil:
						if _, isC := a.V.(*ssa.Call); isC {
							extra = "a predicate on the matched value that is not a literal prefix/substring test: " + describeAtom(a)
						}
					}
				default:
					extra = describeAtom(a)
				}
			}
		}
		if extra == "" && (rq.attr == "" || rq.tag == "[style]") {
			// the same for conditions that gate the sink only in combination (an inlined `m != "" && m[0] >= '0' && …`)
			var foreign []ir.IfInfo
			for _, ii := range ir.Ifs(found.closure) {
				a := ii.Atom
				charOf := func(v ssa.Value) bool {
					switch x := ir.Strip(v).(type) {
					case *ssa.Lookup:
						_, isMap := x.X.Type().Underlying().(*types.Map)
						return !isMap
					case *ssa.Index:
						return true
					}
					return false
				}
				if a.V == nil && (charOf(a.X) || charOf(a.Y)) {
					foreign = append(foreign, ii)
				}
			}
			if len(foreign) > 0 && len(foreign) <= 6 {
				// the tested string is taken to be non-empty (the emptiness test that protects the index is not the point)
				type edge struct {
					b *ssa.BasicBlock
					s int
				}
				empty := map[edge]bool{}
				for _, ii := range ir.Ifs(found.closure) {
					a := ii.Atom
					if a.V == nil && a.Op == token.EQL {
						for _, side := range []ssa.Value{a.X, a.Y} {
							if str, ok := ir.ConstString(side); ok && str == "" {
								empty[edge{ii.If.Block(), ii.EdgeWhen(true)}] = true
							}
						}
					}
				}
				for mask := 0; mask < 1<<len(foreign) && extra == ""; mask++ {
					cut := map[edge]bool{}
					for k := range empty {
						cut[k] = true
					}
					for i, ii := range foreign {
						truth := mask&(1<<i) != 0
						cut[edge{ii.If.Block(), ii.EdgeWhen(!truth)}] = true
					}
					res := ir.Reach([]ir.Pt{ir.Entry(found.closure)}, ir.Opts{EdgeOK: func(b *ssa.BasicBlock, s int) bool { return !cut[edge{b, s}] }})
					if !res.Reached[sink] {
						var parts []string
						for i, ii := range foreign {
							parts = append(parts, fmt.Sprintf("%s=%v", describeAtom(ii.Atom), mask&(1<<i) != 0))
						}
						extra = "a character-class test on the matched value (" + strings.Join(parts, ", ") + ")"
					}
				}
			}
		}
		if extra != "" {
			r.Violated(key, p.InstrPos(sink), "the attribute value is only extracted under an extra condition (%s): some references (e.g. relative ones) are silently dropped", extra)
			continue
		}
		if rq.srcset {
			// every comma-separated candidate: the sink sits in a loop over strings.Split(value, ",") that covers all elements
			okAll := false
			allInstrs(found.closure, func(in ssa.Instruction) {
				if c, isC := in.(*ssa.Call); isC && ir.IsCallTo(c, "strings.Split") {
					if s, okc := ir.ConstString(c.Call.Args[1]); okc && s == "," && ir.SameValue(c.Call.Args[0], val) {
						at := sink
						if _, isSt := sink.(*ssa.Store); isSt {
							// the list is built in a local and stored back afterwards: the loop is around the append
							if ap, okA := ir.FlowsTo(val, func(in ssa.Instruction, operand ssa.Value) bool {
								ac, isC := in.(*ssa.Call)
								return isC && ir.CallName(ac.Common()) == "builtin.append" && len(ac.Call.Args) >= 2 && ac.Call.Args[0] != operand
							}, 400); okA {
								at = ap
							}
						}
						if loopCoversAll(found.closure, at) {
							okAll = true
						}
					}
				}
			})
			if !okAll {
				r.Violated(key, p.InstrPos(sink), "not every comma-separated srcset candidate is extracted")
				continue
			}
		}
		// the tag's disable test: the Find is reachable only through !Contains(DisableHTMLTag, <this tag>)
		if rq.tag != "[style]" {
			want := rq.tag
			okDis, wrong := false, ""
			for _, ii := range ir.Ifs(ha) {
				tag, isDis := disableTagAtom(ii.Atom)
				if !isDis {
					continue
				}
				// for video/audio the guarded thing is the append of the selector element; accept either the Find itself
				// or the constant selector's append being guarded
				if ir.OnlyVia(ir.Entry(ha), found.find, ii.If.Block(), ii.EdgeWhen(false)) {
					if tag == want {
						okDis = true
					} else {
						wrong = tag
					}
				}
			}
			if !okDis && (rq.tag == "video" || rq.tag == "audio") {
				okDis = selectorElemGuarded(ha, rq.tag)
			}
			if wrong != "" {
				r.Violated(key+"/disable", p.InstrPos(found.find), "extraction of <%s> is switched off by --disable-html-tag %s", want, wrong)
				continue
			}
			if !okDis {
				r.Violated(key+"/disable", p.InstrPos(found.find), "extraction of <%s> is not controlled by an exact --disable-html-tag %s test (missing, or a looser match such as substring comparison)", want, want)
				continue
			}
		}
		r.Held(key, 1, "read in the %v block, flows into the returned list, disabled only by its own tag", keys(found.tags))
	}
	// every block's disable test names one of the block's own tags (no cross-wiring), for all blocks incl. optional ones
	for _, b := range blocks {
		for _, ii := range ir.Ifs(ha) {
			tag, isDis := disableTagAtom(ii.Atom)
			if !isDis {
				continue
			}
			if ir.OnlyVia(ir.Entry(ha), b.find, ii.If.Block(), ii.EdgeWhen(false)) && !b.tags[tag] && len(b.tags) > 0 {
				r.Violated("HTMLAssets/disable-crosswired/"+tag, p.InstrPos(b.find), "the block extracting %v is disabled by --disable-html-tag %s", keys(b.tags), tag)
			}
		}
	}
	// any guard on a Find that looks like a disable test but is not the exact form
	allInstrs(ha, func(in ssa.Instruction) {
		c, ok := in.(*ssa.Call)
		if !ok {
			return
		}
		for _, a := range c.Call.Args {
			if isConfigField(a, "DisableHTMLTag") && !strings.HasPrefix(ir.CallName(c.Common()), "slices.Contains") {
				r.Violated("HTMLAssets/disable-form", p.InstrPos(in), "--disable-html-tag is evaluated with %s instead of an exact membership test", ir.CallName(c.Common()))
			}
		}
	})
	// ---- outlinks: a[href]
	ob := findBlocks(ho)
	var ablock *findBlock
	for i := range ob {
		if ob[i].tags["a"] {
			ablock = &ob[i]
		}
	}
	if ablock == nil {
		r.Violated("HTMLOutlinks/a[href]", fnPos(p, ho), "HTMLOutlinks has no Find over <a>")
		return
	}
	r.Analysed(ablock.closure)
	var attr *ssa.Call
	allInstrs(ablock.closure, func(in ssa.Instruction) {
		if c, ok := in.(*ssa.Call); ok && ir.IsCallTo(c, "(*"+tSelection+").Attr") {
			names := map[string]bool{}
			constStringsInto(c.Call.Args[1], map[ssa.Value]bool{}, names)
			if len(names) == 0 {
				// key ranges over a captured constant list
				if u, isU := c.Call.Args[1].(*ssa.UnOp); isU {
					if ia, isIA := u.X.(*ssa.IndexAddr); isIA {
						constStringsInto(ia.X, map[ssa.Value]bool{}, names)
					}
				}
			}
			if names["href"] {
				attr = c
			}
		}
	})
	if attr == nil {
		r.Violated("HTMLOutlinks/a[href]", fnPos(p, ablock.closure), "the <a> callback no longer reads href")
	} else {
		var val ssa.Value
		for _, rr := range ir.Referrers(attr) {
			if e, ok := rr.(*ssa.Extract); ok && e.Index == 0 {
				val = e
			}
		}
		if _, ok := flowsToAccumulator(val); ok {
			okDis := false
			for _, ii := range ir.Ifs(ho) {
				if tag, isDis := disableTagAtom(ii.Atom); isDis && tag == "a" && ir.OnlyVia(ir.Entry(ho), ablock.find, ii.If.Block(), ii.EdgeWhen(false)) {
					okDis = true
				}
			}
			if okDis {
				r.Held("HTMLOutlinks/a[href]", 1, "anchor href values are collected, disabled only by --disable-html-tag a")
			} else {
				r.Violated("HTMLOutlinks/a[href]", p.InstrPos(ablock.find), "anchor extraction is not controlled by an exact --disable-html-tag a test")
			}
		} else {
			r.Violated("HTMLOutlinks/a[href]", p.InstrPos(attr), "href values are read but not collected")
		}
	}
	allInstrs(ho, func(in ssa.Instruction) {
		c, ok := in.(*ssa.Call)
		if !ok {
			return
		}
		for _, a := range c.Call.Args {
			if isConfigField(a, "DisableHTMLTag") && !strings.HasPrefix(ir.CallName(c.Common()), "slices.Contains") {
				r.Violated("HTMLOutlinks/disable-form", p.InstrPos(in), "--disable-html-tag is evaluated with %s instead of an exact membership test", ir.CallName(c.Common()))
			}
		}
	})
}

func isConfigAtom(a ir.Atom, field string) bool { return a.V != nil && isConfigField(a.V, field) }

func isRelAlternate(a ir.Atom) bool {
	if a.V != nil || a.Op != token.EQL {
		return false
	}
	s, ok := ir.ConstString(a.Y)
	return ok && s == "alternate"
}

func isAttrExists(v ssa.Value, attr string) bool {
	e, ok := v.(*ssa.Extract)
	if !ok || e.Index != 1 {
		return false
	}
	c, ok := e.Tuple.(*ssa.Call)
	if !ok || !ir.IsCallTo(c, "(*"+tSelection+").Attr") {
		return false
	}
	s, okc := ir.ConstString(c.Call.Args[1])
	return okc && s == attr
}

// selectorElemGuarded: the constant selector element "<tag>[…]" is appended to the selector list only under
// !Contains(DisableHTMLTag, tag).
func selectorElemGuarded(fn *ssa.Function, tag string) bool {
	ok := false
	allInstrs(fn, func(in ssa.Instruction) {
		st, isSt := in.(*ssa.Store)
		if !isSt {
			return
		}
		s, isC := ir.ConstString(st.Val)
		if !isC || !strings.HasPrefix(s, tag+"[") {
			return
		}
		for _, ii := range ir.Ifs(fn) {
			if t, isDis := disableTagAtom(ii.Atom); isDis && t == tag && ir.OnlyVia(ir.Entry(fn), in, ii.If.Block(), ii.EdgeWhen(false)) {
				ok = true
			}
		}
	})
	return ok
}

func ruleHTMLToChild(r *core.Reporter) {
	p := r.P
	states, _ := itemStates(p)
	pi := postItemFn(p)
	if pi == nil {
		r.Undecided("postprocessItem", "", "anchor not found")
		return
	}
	r.Analysed(pi)
	sites, owners := addChildSites(p, states["ItemGotChildren"])
	var ac *ssa.Call
	for i, s := range sites {
		if owners[i] == pi {
			ac = s
		}
	}
	var ea *ssa.Call
	allInstrs(pi, func(in ssa.Instruction) {
		if c, ok := in.(*ssa.Call); ok && ir.IsCallTo(c, pkgPost+".extractAssets") {
			ea = c
		}
	})
	var assets ssa.Value
	if ea != nil {
		for _, rr := range ir.Referrers(ea) {
			if e, ok := rr.(*ssa.Extract); ok && e.Index == 0 {
				assets = e
			}
		}
	}
	// the loop may live in a helper that postprocessItem hands the asset list to
	if ac == nil && assets != nil {
		allInstrs(pi, func(in ssa.Instruction) {
			c, ok := in.(*ssa.Call)
			if !ok {
				return
			}
			h := ir.CalleeOf(c.Common())
			if h == nil || !core.InModule(h) || h.Blocks == nil {
				return
			}
			for k, a := range c.Call.Args {
				if k < len(h.Params) && ir.SameValue(a, assets) {
					for i, s := range sites {
						if owners[i] == h {
							ac, pi, assets = s, h, h.Params[k]
							r.Analysed(h)
						}
					}
				}
			}
		})
	}
	if ac == nil || ea == nil {
		r.Violated("postprocessItem/assets-to-children", fnPos(p, pi), "postprocessItem no longer turns extracted assets into children (extractAssets=%v AddChild=%v)", ea != nil, ac != nil)
	} else {
		// the child is NewItem(…, assets[i] (or its reddit rewrite), "")
		child, okc := ac.Call.Args[1].(*ssa.Call)
		okChild := okc && ir.IsCallTo(child, pkgModels+".NewItem")
		loop, okl := loopAround(pi, ac)
		okLoop := false
		if okl {
			// loop ranges over the assets slice and every iteration either adds the child or takes a reviewed skip (nil asset, reddit unescape error)
			if c, isC := loop.Atom.Y.(*ssa.Call); isC && ir.SameValue(c.Call.Args[0], assets) {
				body := ir.EdgePt(loop.If.Block(), loop.EdgeWhen(true))
				hdr := ssa.Instruction(loop.If)
				skipEdges := func(b *ssa.BasicBlock, s int) bool {
					if len(b.Instrs) == 0 {
						return true
					}
					ifi, ok := b.Instrs[len(b.Instrs)-1].(*ssa.If)
					if !ok {
						return true
					}
					a, pol := ir.Decompose(ifi.Cond)
					// asset == nil → skip
					if a.V == nil && a.Op == token.EQL && (ir.IsNilConst(a.X) || ir.IsNilConst(a.Y)) {
						other := a.X
						if ir.IsNilConst(a.X) {
							other = a.Y
						}
						if _, _, isEl := elemLoad(other); isEl {
							e := 0
							if !pol {
								e = 1
							}
							return s != e
						}
						// err != nil of QueryUnescape → skip
						if ex, isE := other.(*ssa.Extract); isE {
							if cc, isC := ex.Tuple.(*ssa.Call); isC && ir.IsCallTo(cc, "net/url.QueryUnescape") {
								e := 1
								if !pol {
									e = 0
								}
								return s != e
							}
						}
					}
					return true
				}
				res := ir.Reach([]ir.Pt{body}, ir.Opts{Stop: func(in ssa.Instruction) bool { return in == hdr || in == ssa.Instruction(ac) }, EdgeOK: skipEdges})
				okLoop = !res.Stopped[hdr] && loopCoversAll(pi, ac)
			}
		}
		if okChild && okLoop {
			r.Held("postprocessItem/assets-to-children", 1, "every non-nil asset returned by extractAssets becomes a child (ItemGotChildren)")
		} else {
			r.Violated("postprocessItem/assets-to-children", p.InstrPos(ac), "some extracted assets are not added as children (a path through the asset loop skips AddChild, or the loop leaves early)")
		}
	}
	// raw strings → URLs in HTMLAssets / HTMLOutlinks
	for _, nm := range []string{"HTMLAssets", "HTMLOutlinks"} {
		fn := p.Func(rel(pkgExtractor), nm)
		if fn == nil {
			continue
		}
		r.Analysed(fn)
		// the final loop: for each raw string, append(&models.URL{Raw: raw}) to the result
		var sink *ssa.Call
		allInstrs(fn, func(in ssa.Instruction) {
			c, ok := in.(*ssa.Call)
			if !ok || ir.CallName(c.Common()) != "builtin.append" {
				return
			}
			if strings.Contains(c.Type().String(), "models.URL") {
				sink = c
			}
		})
		if sink == nil {
			r.Violated(nm+"/raw-to-url", fnPos(p, fn), "%s does not build URL objects from the collected strings", nm)
			continue
		}
		l, okl := loopAround(fn, sink)
		if !okl || !loopCoversAll(fn, sink) {
			r.Violated(nm+"/raw-to-url", p.InstrPos(sink), "the loop that turns collected strings into URLs does not cover all of them")
			continue
		}
		// every iteration appends (HTMLOutlinks: except the reviewed same-as-base/current-URL discard)
		body := ir.EdgePt(l.If.Block(), l.EdgeWhen(true))
		hdr := ssa.Instruction(l.If)
		isAppendURL := func(in ssa.Instruction) bool {
			c, ok := in.(*ssa.Call)
			return ok && ir.CallName(c.Common()) == "builtin.append" && strings.Contains(c.Type().String(), "models.URL")
		}
		discard := func(b *ssa.BasicBlock, s int) bool {
			if len(b.Instrs) == 0 {
				return true
			}
			ifi, ok := b.Instrs[len(b.Instrs)-1].(*ssa.If)
			if !ok {
				return true
			}
			a, pol := ir.Decompose(ifi.Cond)
			if nm == "HTMLOutlinks" && a.V == nil && a.Op == token.EQL {
				px, py := ir.Path(a.X), ir.Path(a.Y)
				if strings.HasSuffix(px, ".GetBase()") || strings.HasSuffix(py, ".GetBase()") || strings.HasSuffix(px, ".GetURL().String()") || strings.HasSuffix(py, ".GetURL().String()") {
					e := 0
					if !pol {
						e = 1
					}
					return s != e
				}
			}
			return true
		}
		res := ir.Reach([]ir.Pt{body}, ir.Opts{Stop: func(in ssa.Instruction) bool { return in == hdr || isAppendURL(in) }, EdgeOK: discard})
		if res.Stopped[hdr] {
			r.Violated(nm+"/raw-to-url", p.InstrPos(sink), "a collected reference can be dropped when the strings are turned into URLs")
		} else {
			r.Held(nm+"/raw-to-url", 1, "every collected string becomes a URL in the result")
		}
	}
}

// ruleReadConsume: see the rule's Doc. The configuration package's readers are covered by R-CONFIG-READ-CONSUME (C05).
func ruleReadConsume(r *core.Reporter) {
	readConsume(r, func(fn *ssa.Function) bool { return core.FuncPkg(fn) == nil || core.FuncPkg(fn).Path() != pkgConfig })
}

func ruleConfigReadConsume(r *core.Reporter) {
	readConsume(r, func(fn *ssa.Function) bool { return core.FuncPkg(fn) != nil && core.FuncPkg(fn).Path() == pkgConfig })
}

func readConsume(r *core.Reporter, inScope func(*ssa.Function) bool) {
	p := r.P
	sites := 0
	for _, fn := range p.ModFuncs {
		if !core.InModule(fn) || !inScope(fn) {
			continue
		}
		allInstrs(fn, func(in ssa.Instruction) {
			c, ok := in.(*ssa.Call)
			if !ok || !isReaderRead(c) {
				return
			}
			sites++
			r.Analysed(fn)
			var n ssa.Value
			for _, ref := range *c.Referrers() {
				if ex, ok := ref.(*ssa.Extract); ok && ex.Index == 0 {
					n = ex
				}
			}
			what := "Read"
			if sc := c.Call.StaticCallee(); sc != nil && sc.Name() != "Read" {
				what = sc.Name()
			}
			key := core.FuncName(fn) + "/" + what
			if n == nil {
				r.Violated(key, p.InstrPos(c), "the data result of %s is discarded: what is returned together with an error (io.EOF) is lost", what)
				return
			}
			isN := func(v ssa.Value) bool {
				for i := 0; i < 3; i++ {
					if v == n {
						return true
					}
					switch x := v.(type) {
					case *ssa.Convert:
						v = x.X
					case *ssa.ChangeType:
						v = x.X
					default:
						return false
					}
				}
				return false
			}
			looksAtN := func(x ssa.Instruction) bool {
				if what != "Read" {
					// ReadString/ReadBytes: any use of the returned data
					for _, op := range x.Operands(nil) {
						if *op == n {
							return true
						}
					}
					return false
				}
				switch x := x.(type) {
				case *ssa.If:
					if b, ok := x.Cond.(*ssa.BinOp); ok && (isN(b.X) || isN(b.Y)) {
						return true
					}
				case *ssa.Slice:
					return x.High != nil && isN(x.High)
				}
				return false
			}
			// returning Read's own error fails the whole copy: nothing is silently truncated there
			var rerr ssa.Value
			for _, ref := range *c.Referrers() {
				if ex, ok := ref.(*ssa.Extract); ok && ex.Index == 1 {
					rerr = ex
				}
			}
			// a return that hands back the read error itself fails the whole operation: nothing is silently truncated
			res := ir.Reach([]ir.Pt{ir.After(c)}, ir.Opts{Stop: looksAtN})
			var at ssa.Instruction
			if res.Reached[c] || res.Stopped[c] {
				at = c
			}
			for _, ret := range ir.Returns(fn) {
				if !res.Reached[ret] {
					continue
				}
				silent := len(res.RetTuples[ret]) == 0
				for _, tuple := range res.RetTuples[ret] {
					own := false
					for _, v := range tuple {
						if rerr != nil && v == rerr {
							own = true
						}
					}
					if !own {
						silent = true
					}
				}
				if silent && at == nil {
					at = ret
				}
			}
			for in := range res.Reached {
				if _, isPanic := in.(*ssa.Panic); isPanic {
					_ = in // a panic is not a silent truncation
				}
			}
			if at != nil {
				r.Violated(key, p.InstrPos(at), "after %s at %s a path reaches %s without looking at the returned data: what comes back together with io.EOF / an error is dropped (the tail of the body, the last line of a file without a trailing newline)", what, p.InstrPos(c), p.InstrPos(at))
			} else {
				r.Held(key, 1, "every path from %s to the next call / return first looks at the returned data", what)
			}
		})
	}
	if sites == 0 {
		r.Held("module/no-direct-read-loops", 0, "no direct io.Reader.Read call in module code (copies go through io.Copy*/ReadAll)")
	}
}

// isReaderRead: call of a method Read([]byte) (int, error) (interface or concrete).
func isReaderRead(c *ssa.Call) bool {
	var f *types.Func
	if c.Call.IsInvoke() {
		f = c.Call.Method
	} else if sc := c.Call.StaticCallee(); sc != nil {
		f, _ = sc.Object().(*types.Func)
	}
	if f != nil && f.Pkg() != nil && f.Pkg().Path() == "bufio" && (f.Name() == "ReadString" || f.Name() == "ReadBytes") {
		return true // documented to return the data read before the error together with the error
	}
	if f == nil || f.Name() != "Read" {
		return false
	}
	sig, _ := f.Type().(*types.Signature)
	if sig == nil || sig.Recv() == nil || sig.Params().Len() != 1 || sig.Results().Len() != 2 {
		return false
	}
	sl, ok := sig.Params().At(0).Type().Underlying().(*types.Slice)
	if !ok {
		return false
	}
	b, ok := sl.Elem().Underlying().(*types.Basic)
	return ok && b.Kind() == types.Byte || ok && b.Kind() == types.Uint8
}

// ruleDepthKind: see the rule's Doc.
func ruleDepthKind(r *core.Reporter) {
	p := r.P
	gd := p.Func(rel(pkgModels), "(*Item).GetDepth")
	if gd == nil {
		r.Held("Item.GetDepth/absent", 0, "no redirect-counting depth function in the module")
		return
	}
	calls, bad := 0, 0
	for _, fn := range p.ModFuncs {
		if !core.InModule(fn) || fn == gd {
			continue
		}
		allInstrs(fn, func(in ssa.Instruction) {
			c, ok := in.(*ssa.Call)
			if !ok || c.Call.StaticCallee() != gd {
				return
			}
			calls++
			r.Analysed(fn)
			seen := map[ssa.Value]bool{}
			var chase func(v ssa.Value, d int) ssa.Instruction
			chase = func(v ssa.Value, d int) ssa.Instruction {
				if seen[v] || d > 6 || v.Referrers() == nil {
					return nil
				}
				seen[v] = true
				for _, ref := range *v.Referrers() {
					switch x := ref.(type) {
					case *ssa.BinOp:
						switch x.Op {
						case token.EQL, token.NEQ, token.LSS, token.LEQ, token.GTR, token.GEQ:
							return x
						}
						if at := chase(x, d+1); at != nil {
							return at
						}
					case *ssa.Convert:
						if at := chase(x, d+1); at != nil {
							return at
						}
					case *ssa.ChangeType:
						if at := chase(x, d+1); at != nil {
							return at
						}
					case *ssa.Phi:
						if at := chase(x, d+1); at != nil {
							return at
						}
					case *ssa.Return:
						return x
					}
				}
				return nil
			}
			if at := chase(c, 0); at != nil {
				bad++
				r.Violated(core.FuncName(fn)+"/GetDepth-decides", p.InstrPos(at), "the redirect-counting depth GetDepth() is used in a decision: an item reached through a redirect counts as one level deeper, so a redirected page is treated as an (HTML) asset and its requisites are not extracted — depth decisions use GetDepthWithoutRedirections()")
			}
		})
	}
	if bad == 0 {
		r.Held("Item.GetDepth/only-logged", calls, "no result of GetDepth() is compared or returned by another function")
	}
}

func init() {
	register(&core.Rule{ID: "R-NORMALIZE-PARENT", Props: []string{"C07", "C09"}, Doc: "every NormalizeURL call in the preprocessor resolves an item's reference against that item's own parent: the second argument is nil, or `X.GetParent().GetURL()` for the very X whose `X.GetURL()` is the first argument (through phis) — relative references of a page reached through a redirect (or of an asset of an asset) are relative to the page they were found on, not to the seed", Run: ruleNormalizeParent})
}

func ruleNormalizeParent(r *core.Reporter) {
	p := r.P
	norm := p.Func(rel(pkgPre), "NormalizeURL")
	if norm == nil {
		r.Undecided("NormalizeURL", "", "anchor not found")
		return
	}
	sites := 0
	for _, fn := range p.FuncsInPkg(rel(pkgPre)) {
		for _, f := range withAnon(fn) {
			f := f
			allInstrs(f, func(in ssa.Instruction) {
				cc := ir.AsCall(in)
				if cc == nil || cc.StaticCallee() != norm || len(cc.Args) != 2 || f == norm {
					return
				}
				sites++
				r.Analysed(f)
				key := fmt.Sprintf("%s/NormalizeURL#%d", core.FuncName(f), sites)
				// first argument: X.GetURL()
				c0, ok := ir.Strip(cc.Args[0]).(*ssa.Call)
				if !ok || !ir.IsCallTo(c0, "(*"+pkgModels+".Item).GetURL") {
					r.Undecided(key, p.InstrPos(in), "the URL being normalised is not an item's GetURL() (%s)", ir.Path(cc.Args[0]))
					return
				}
				want := ir.Path(c0.Call.Args[0]) + ".GetParent().GetURL()"
				var leaves []ssa.Value
				phiLeaves(ir.Strip(cc.Args[1]), map[ssa.Value]bool{}, &leaves)
				for _, l := range leaves {
					if ir.IsNilConst(l) {
						continue
					}
					if got := ir.Path(l); got != want {
						r.Violated(key, p.InstrPos(in), "the reference %s is resolved against %s, not against its own parent (%s): on a page reached through a redirect, or for an asset of an asset, document-relative references end up under the wrong directory or host", ir.Path(cc.Args[0]), got, want)
						return
					}
				}
				r.Held(key, 1, "base is nil or the item's own parent")
			})
		}
	}
	if sites == 0 {
		r.Undecided("preprocessor/NormalizeURL-calls", "", "NormalizeURL is not called from the preprocessor package")
	}
}

func init() {
	register(&core.Rule{ID: "R-DISPATCH-BEFORE-HTML", Props: []string{"C07", "C19"}, Doc: "extractAssets / extractOutlinks try the generic extractors in a fixed order with HTML near the end; every extractor.Is* predicate consulted before extractor.IsHTML must look at what the document is — the Content-Type header, the sniffed MIME type or the body — not only at who served it: a predicate that answers from the Server header (or the URL) alone swallows ordinary HTML pages of that origin, their anchors never become outlinks and their requisites never become assets", Run: ruleDispatchBeforeHTML})
}

func ruleDispatchBeforeHTML(r *core.Reporter) {
	p := r.P
	looksAtDocument := func(fn *ssa.Function) bool {
		seen := map[*ssa.Function]bool{}
		found := false
		var walk func(f *ssa.Function, d int)
		walk = func(f *ssa.Function, d int) {
			if f == nil || seen[f] || d > 2 || found {
				return
			}
			seen[f] = true
			allInstrs(f, func(in ssa.Instruction) {
				cc := ir.AsCall(in)
				if cc == nil {
					return
				}
				switch {
				case ir.IsCallTo(in, "(net/http.Header).Get") && len(cc.Args) == 2:
					if s, ok := ir.ConstString(cc.Args[1]); ok && strings.EqualFold(s, "Content-Type") {
						found = true
					}
				case ir.IsCallTo(in, "(*"+pkgModels+".URL).GetMIMEType", "(*"+pkgModels+".URL).GetBody", "(*"+pkgModels+".URL).GetDocument"):
					found = true
				default:
					if callee := cc.StaticCallee(); callee != nil && core.InModule(callee) {
						walk(callee, d+1)
					}
				}
			})
		}
		walk(fn, 0)
		return found
	}
	for _, nm := range []string{"extractAssets", "extractOutlinks"} {
		fn := p.Func(rel(pkgPost), nm)
		if fn == nil {
			r.Undecided("postprocessor."+nm, "", "dispatch function not found")
			continue
		}
		r.Analysed(fn)
		var html ssa.Instruction
		allInstrs(fn, func(in ssa.Instruction) {
			if ir.IsCallTo(in, pkgExtractor+".IsHTML") {
				html = in
			}
		})
		if html == nil {
			r.Violated(nm+"/html-arm", fnPos(p, fn), "%s no longer has an HTML arm (extractor.IsHTML is not consulted)", nm)
			continue
		}
		n := 0
		allInstrs(fn, func(in ssa.Instruction) {
			cc := ir.AsCall(in)
			if cc == nil || in == html {
				return
			}
			callee := cc.StaticCallee()
			if callee == nil || callee.Pkg == nil || callee.Pkg.Pkg.Path() != pkgExtractor || !strings.HasPrefix(callee.Name(), "Is") {
				return
			}
			before := in.Block().Dominates(html.Block()) && in.Block() != html.Block()
			if in.Block() == html.Block() {
				for _, x := range in.Block().Instrs {
					if x == in {
						before = true
						break
					}
					if x == html {
						break
					}
				}
			}
			if !before {
				return
			}
			n++
			key := nm + "/" + callee.Name()
			if looksAtDocument(callee) {
				r.Held(key, 1, "consulted before IsHTML; decides on the content type / MIME / body")
			} else {
				r.Violated(key, p.InstrPos(in), "extractor.%s is consulted before extractor.IsHTML in %s but does not look at the Content-Type header, the sniffed MIME type or the body: an ordinary HTML page for which it answers true never reaches the HTML extractor (no outlinks, no requisites)", callee.Name(), nm)
			}
		})
		if n == 0 {
			r.Held(nm+"/html-arm", 0, "no generic predicate is consulted before IsHTML")
		}
	}
}
