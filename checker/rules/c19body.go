package rules

import (
	"fmt"
	"go/ast"
	"go/token"
	"go/types"
	"os"
	"sort"
	"strconv"
	"strings"

	"golang.org/x/tools/go/ssa"

	"zenocheck/core"
	"zenocheck/ir"
)

// R-BODY-KEPT: the extractors only ever see a body that archiver.ProcessBody decided to keep, and it decides by the
// type the content sniffer (gabriel-vasile/mimetype) assigns. The dispatch tables of the post-processor and the
// keep-test of ProcessBody must agree: for every kind of document an extractor is dispatched for, the type the
// sniffer gives such a document passes the keep-test. The sniffer's type tree is read from the linked module.

const pkgMimetype = "github.com/gabriel-vasile/mimetype"

func init() {
	register(&core.Rule{ID: "R-BODY-KEPT", Props: []string{"C19", "C07"}, Doc: "writer/reader agreement between archiver.ProcessBody and the extractor dispatch: for every extractor.Is* kind that extractAssets/extractOutlinks dispatch on (M3U8, JSON, XML, sitemap, S3 listing, HTML, PDF), ProcessBody's branch conditions, evaluated on the MIME node the content sniffer assigns to a document of that kind (type tree, aliases and parents read from the linked mimetype module's source), let the path from SetMIMEType to SetBody through; a kind whose sniffed type fails the keep-test has its body discarded and its extractor never runs, whatever the extractor itself does", Run: ruleBodyKept})
}

// sniffedAs: what mimetype.Detect answers for a well-formed document of the kind the predicate stands for.
var sniffedAs = map[string]string{
	"IsM3U8":       "application/vnd.apple.mpegurl", // body starts with #EXTM3U
	"IsJSON":       "application/json",
	"IsXML":        "text/xml",
	"IsSitemapXML": "text/xml",
	"IsS3":         "text/xml", // ListBucketResult document
	"IsHTML":       "text/html",
	"IsPDF":        "application/pdf",
}

type mimeNode struct {
	name     string
	mime     string
	aliases  []string
	children []string
	parent   *mimeNode
}

// mimeTree parses the `x = newMIME("type", ".ext", detector, children...)[.alias(...)]` declarations of the linked module.
func mimeTree(p *core.Program) map[string]*mimeNode {
	pk := p.AllPkgs[pkgMimetype]
	if pk == nil {
		return nil
	}
	nodes := map[string]*mimeNode{}
	for _, f := range pk.Syntax {
		for _, d := range f.Decls {
			gd, ok := d.(*ast.GenDecl)
			if !ok || gd.Tok != token.VAR {
				continue
			}
			for _, sp := range gd.Specs {
				vs, ok := sp.(*ast.ValueSpec)
				if !ok || len(vs.Names) != len(vs.Values) {
					continue
				}
				for i, nm := range vs.Names {
					n := &mimeNode{name: nm.Name}
					e := vs.Values[i]
					okNode := false
					for {
						call, isCall := e.(*ast.CallExpr)
						if !isCall {
							break
						}
						if sel, isSel := call.Fun.(*ast.SelectorExpr); isSel && sel.Sel.Name == "alias" {
							for _, a := range call.Args {
								if bl, isLit := a.(*ast.BasicLit); isLit {
									if s, err := strconv.Unquote(bl.Value); err == nil {
										n.aliases = append(n.aliases, s)
									}
								}
							}
							e = sel.X
							continue
						}
						if id, isId := call.Fun.(*ast.Ident); isId && id.Name == "newMIME" && len(call.Args) >= 3 {
							if bl, isLit := call.Args[0].(*ast.BasicLit); isLit {
								if s, err := strconv.Unquote(bl.Value); err == nil {
									n.mime = s
									okNode = true
								}
							}
							for _, a := range call.Args[3:] {
								if cid, isC := a.(*ast.Ident); isC {
									n.children = append(n.children, cid.Name)
								}
							}
						}
						break
					}
					if okNode {
						nodes[n.name] = n
					}
				}
			}
		}
	}
	for _, n := range nodes {
		for _, c := range n.children {
			if cn := nodes[c]; cn != nil {
				cn.parent = n
			}
		}
	}
	return nodes
}

func (n *mimeNode) is(s string) bool {
	if n == nil {
		return false
	}
	base := func(x string) string {
		if i := strings.IndexByte(x, ';'); i >= 0 {
			x = x[:i]
		}
		return strings.ToLower(strings.TrimSpace(x))
	}
	if base(n.mime) == base(s) {
		return true
	}
	for _, a := range n.aliases {
		if base(a) == base(s) {
			return true
		}
	}
	return false
}

func (n *mimeNode) inHierarchy(s string) bool {
	for x := n; x != nil; x = x.parent {
		if x.is(s) {
			return true
		}
	}
	return false
}

func ruleBodyKept(r *core.Reporter) {
	p := r.P
	nodes := mimeTree(p)
	if len(nodes) < 50 {
		r.Undecided("mimetype/tree", "", "type tree of the linked mimetype module not readable (%d nodes)", len(nodes))
		return
	}
	// several nodes can share a type string (har is "application/json" below json): the shallowest one is the
	// generic document of that type
	depth := func(n *mimeNode) int {
		d := 0
		for x := n.parent; x != nil && d < 64; x = x.parent {
			d++
		}
		return d
	}
	var ordered []*mimeNode
	for _, n := range nodes {
		ordered = append(ordered, n)
	}
	sort.Slice(ordered, func(i, j int) bool {
		if di, dj := depth(ordered[i]), depth(ordered[j]); di != dj {
			return di < dj
		}
		return ordered[i].name < ordered[j].name
	})
	byMime := map[string]*mimeNode{}
	for _, n := range ordered {
		k := strings.ToLower(strings.SplitN(n.mime, ";", 2)[0])
		if byMime[k] == nil {
			byMime[k] = n
		}
	}
	// kinds dispatched on
	kinds := map[string]bool{}
	for _, nm := range []string{"extractAssets", "extractOutlinks"} {
		fn := p.Func(rel(pkgPost), nm)
		if fn == nil {
			r.Undecided("postprocessor."+nm, "", "dispatch function not found")
			return
		}
		r.Analysed(fn)
		allInstrs(fn, func(in ssa.Instruction) {
			cc := ir.AsCall(in)
			if cc == nil {
				return
			}
			callee := cc.StaticCallee()
			if callee == nil || callee.Pkg == nil || callee.Pkg.Pkg.Path() != pkgExtractor || !strings.HasPrefix(callee.Name(), "Is") {
				return
			}
			if res := callee.Signature.Results(); res.Len() != 1 || res.At(0).Type().String() != "bool" {
				return
			}
			kinds[callee.Name()] = true
		})
	}
	if !r.Floor("extractor kinds in the dispatch", len(kinds), 4) {
		return
	}
	pb := p.Func(rel(pkgArch), "ProcessBody")
	if pb == nil {
		r.Undecided("archiver.ProcessBody", "", "function not found")
		return
	}
	r.Analysed(pb)
	var setMIME, setBody []ssa.Instruction
	allInstrs(pb, func(in ssa.Instruction) {
		if ir.IsCallTo(in, "(*"+pkgModels+".URL).SetMIMEType") {
			setMIME = append(setMIME, in)
		}
		if ir.IsCallTo(in, "(*"+pkgModels+".URL).SetBody") {
			setBody = append(setBody, in)
		}
	})
	if len(setMIME) != 1 || len(setBody) == 0 {
		r.Undecided("archiver.ProcessBody/anchors", "", "SetMIMEType ×%d, SetBody ×%d", len(setMIME), len(setBody))
		return
	}
	// mimeRef: v denotes the sniffed MIME (false) or its parent (true)
	var mimeRef func(v ssa.Value) (parent bool, ok bool)
	mimeRef = func(v ssa.Value) (bool, bool) {
		c, isC := v.(*ssa.Call)
		if !isC {
			return false, false
		}
		if ir.IsCallTo(c, "(*"+pkgModels+".URL).GetMIMEType") {
			return false, true
		}
		if ir.IsCallTo(c, "(*"+pkgMimetype+".MIME).Parent") && len(c.Call.Args) == 1 {
			if par, ok := mimeRef(c.Call.Args[0]); ok && !par {
				return true, true
			}
		}
		return false, false
	}
	mentions := func(a ir.Atom) bool {
		var any func(v ssa.Value, d int) bool
		any = func(v ssa.Value, d int) bool {
			if v == nil || d > 4 {
				return false
			}
			if _, ok := mimeRef(v); ok {
				return true
			}
			switch x := v.(type) {
			case *ssa.Call:
				for _, a := range x.Call.Args {
					if any(a, d+1) {
						return true
					}
				}
			case *ssa.BinOp:
				return any(x.X, d+1) || any(x.Y, d+1)
			case *ssa.UnOp:
				return any(x.X, d+1)
			}
			return false
		}
		return any(a.V, 0) || any(a.X, 0) || any(a.Y, 0)
	}
	// eval: truth of the atom for a document sniffed as node n; known=false when the atom is not about the MIME
	eval := func(a ir.Atom, n *mimeNode) (val, known, unknownShape bool) {
		target := func(v ssa.Value) (*mimeNode, bool) {
			par, ok := mimeRef(v)
			if !ok {
				return nil, false
			}
			if par {
				return n.parent, true
			}
			return n, true
		}
		if a.V != nil {
			if c, ok := a.V.(*ssa.Call); ok {
				switch {
				case ir.IsCallTo(c, pkgUtils+".IsMIMETypeInHierarchy") && len(c.Call.Args) == 2:
					if t, ok := target(c.Call.Args[0]); ok {
						if s, okc := ir.ConstString(c.Call.Args[1]); okc {
							return t.inHierarchy(s), true, false
						}
					}
				case ir.IsCallTo(c, "(*"+pkgMimetype+".MIME).Is") && len(c.Call.Args) == 2:
					if t, ok := target(c.Call.Args[0]); ok {
						if s, okc := ir.ConstString(c.Call.Args[1]); okc {
							return t.is(s), true, false
						}
					}
				case ir.IsCallTo(c, "strings.Contains", "strings.HasPrefix") && len(c.Call.Args) == 2:
					if sc, isC := c.Call.Args[0].(*ssa.Call); isC && ir.IsCallTo(sc, "(*"+pkgMimetype+".MIME).String") {
						if t, ok := target(sc.Call.Args[0]); ok && t != nil {
							if s, okc := ir.ConstString(c.Call.Args[1]); okc {
								if ir.IsCallTo(c, "strings.HasPrefix") {
									return strings.HasPrefix(t.mime, s), true, false
								}
								return strings.Contains(t.mime, s), true, false
							}
						}
					}
				}
			}
		} else if a.Op == token.EQL {
			x, y := a.X, a.Y
			if ir.IsNilConst(x) {
				x, y = y, x
			}
			if ir.IsNilConst(y) {
				if t, ok := target(x); ok {
					return t == nil, true, false
				}
			}
		}
		if mentions(a) {
			return false, false, true
		}
		return false, false, false
	}
	var names []string
	for k := range kinds {
		names = append(names, k)
	}
	sort.Strings(names)
	for _, k := range names {
		key := "kind/" + k
		mt, ok := sniffedAs[k]
		if !ok {
			r.Undecided(key, p.InstrPos(setMIME[0]), "the dispatch uses extractor.%s, for which the checker has no sniffed type on record (extend sniffedAs with what mimetype.Detect answers for such a document)", k)
			continue
		}
		n := byMime[mt]
		if n == nil {
			r.Undecided(key, "", "type %q is not a node of the linked mimetype module's tree", mt)
			continue
		}
		type edge struct {
			b *ssa.BasicBlock
			s int
		}
		cut := map[edge]bool{}
		type viaEdge struct {
			via, b *ssa.BasicBlock
			s      int
		}
		cutVia := map[viaEdge]bool{}
		shape := ""
		for _, ii := range ir.Ifs(pb) {
			val, known, unk := eval(ii.Atom, n)
			if unk {
				shape = p.InstrPos(ii.If)
			}
			if known {
				if ii.Via != nil {
					// a materialised condition (`keep := a || b || c; if keep`): decided per incoming edge
					cutVia[viaEdge{ii.Via, ii.If.Block(), ii.EdgeWhen(!val)}] = true
				} else {
					cut[edge{ii.If.Block(), ii.EdgeWhen(!val)}] = true
				}
			}
		}
		if shape != "" {
			r.Undecided(key, shape, "a branch of ProcessBody tests the sniffed type in a form the checker cannot evaluate")
			continue
		}
		isSetBody := func(in ssa.Instruction) bool {
			for _, sb := range setBody {
				if sb == in {
					return true
				}
			}
			return false
		}
		_, reach := ir.PathExists([]ir.Pt{ir.After(setMIME[0])}, ir.Opts{
			EdgeOK:    func(b *ssa.BasicBlock, s int) bool { return !cut[edge{b, s}] },
			EdgeOKVia: func(via, b *ssa.BasicBlock, s int) bool { return via == nil || !cutVia[viaEdge{via, b, s}] },
		}, isSetBody)
		if reach {
			r.Held(key, 1, "a document sniffed as %s passes ProcessBody's keep-test (parent: %s)", n.mime, parentName(n))
		} else {
			r.Violated(key, p.InstrPos(setMIME[0]), "the post-processor dispatches extractor.%s documents to an extractor, but ProcessBody never keeps their body: the sniffer reports %s (parent in the type tree: %s), which fails every keep condition — GetBody() stays nil and the extractor never runs", k, n.mime, parentName(n))
		}
	}
}

func parentName(n *mimeNode) string {
	if n.parent == nil {
		return "none"
	}
	return n.parent.mime
}

func init() {
	register(&core.Rule{ID: "R-DEDUPE-EXACT", Props: []string{"C19"}, Doc: "utils.DedupeStrings, through which extractor.XML passes the URLs found in a text node, merges only identical strings: the key it looks up and records is the slice element itself, not a transformation of it (lower-casing, trimming, parsing) — URL paths and queries are case-sensitive, a folded key silently drops every URL that differs from an earlier one only by case", Run: ruleDedupeExact})
}

func ruleDedupeExact(r *core.Reporter) {
	p := r.P
	fn := p.Func(rel(pkgUtils), "DedupeStrings")
	if fn == nil {
		r.Held("utils.DedupeStrings/absent", 0, "no such helper")
		return
	}
	// only armed while an extractor uses it
	used := false
	for _, f := range p.FuncsInPkg(rel(pkgExtractor)) {
		for _, g := range withAnon(f) {
			allInstrs(g, func(in ssa.Instruction) {
				if cc := ir.AsCall(in); cc != nil && cc.StaticCallee() == fn {
					used = true
				}
			})
		}
	}
	if !used {
		r.Held("utils.DedupeStrings/not-used-by-extractors", 0, "no extractor de-duplicates with it")
		return
	}
	r.Analysed(fn)
	var keys []ssa.Value
	var at ssa.Instruction
	allInstrs(fn, func(in ssa.Instruction) {
		switch x := in.(type) {
		case *ssa.Lookup:
			if _, isMap := x.X.Type().Underlying().(*types.Map); isMap {
				keys = append(keys, x.Index)
				at = in
			}
		case *ssa.MapUpdate:
			keys = append(keys, x.Key)
			at = in
		}
	})
	if len(keys) == 0 {
		r.Undecided("utils.DedupeStrings/key", fnPos(p, fn), "no map lookup/update found: the de-duplication is done in a form the checker does not know")
		return
	}
	for _, k := range keys {
		v := ir.Strip(k)
		isElem := false
		if u, ok := v.(*ssa.UnOp); ok && u.Op == token.MUL {
			if ia, ok := u.X.(*ssa.IndexAddr); ok && len(fn.Params) > 0 && ir.SameValue(ia.X, fn.Params[0]) {
				isElem = true
			}
		}
		if !isElem {
			r.Violated("utils.DedupeStrings/key", p.InstrPos(at), "the de-duplication key is %s, not the string itself: two different URLs that map to the same key (case-folded, trimmed …) are merged and one is lost from the extractor's result", ir.Path(k))
			return
		}
	}
	r.Held("utils.DedupeStrings/key", len(keys), "lookup and record are keyed on the element itself")
}

func init() {
	register(&core.Rule{ID: "R-BODY-REWIND", Props: []string{"C07", "C19"}, Doc: "the spooled body has one read cursor shared by every predicate and extractor that looks at it in turn (IsSitemapXML probes each page before the HTML arm): a module function that hands `X.GetBody()` to a reader or decoder rewinds it — `defer X.RewindBody()` before the read, or an explicit X.RewindBody() on every path from the read to a return. A missed rewind on an error path leaves the next extractor an empty or truncated document", Run: ruleBodyRewind})
}

func ruleBodyRewind(r *core.Reporter) {
	p := r.P
	getBody := p.Func(rel(pkgModels), "(*URL).GetBody")
	rewind := p.Func(rel(pkgModels), "(*URL).RewindBody")
	if getBody == nil || rewind == nil {
		r.Undecided("models.URL.GetBody/RewindBody", "", "anchors not found")
		return
	}
	n := 0
	for _, fn := range p.ModFuncs {
		if !core.InModule(fn) || fn == rewind || core.FuncPkg(fn) == nil {
			continue
		}
		// ProcessBody fills the body and rewinds it itself; closeBody only closes
		fn := fn
		var reads []ssa.Instruction
		var recvs []string
		allInstrs(fn, func(in ssa.Instruction) {
			c, ok := in.(*ssa.Call)
			if !ok || c.Call.StaticCallee() != getBody {
				return
			}
			for _, ref := range ir.Referrers(c) {
				// handed to a call as an argument (decoder, ReadAll, NewDocumentFromReader …), possibly boxed
				consider := func(use ssa.Instruction, v ssa.Value) {
					uc := ir.AsCall(use)
					if uc == nil {
						return
					}
					if uc.IsInvoke() && uc.Value == v {
						if uc.Method.Name() == "Close" || uc.Method.Name() == "Len" || uc.Method.Name() == "Seek" {
							return
						}
						reads = append(reads, use)
						recvs = append(recvs, ir.Path(c.Call.Args[0]))
						return
					}
					for _, a := range uc.Args {
						if a == v {
							if callee := uc.StaticCallee(); callee != nil && callee.Name() == "SetBody" {
								return
							}
							reads = append(reads, use)
							recvs = append(recvs, ir.Path(c.Call.Args[0]))
						}
					}
				}
				if ci, isI := ref.(ssa.Instruction); isI {
					consider(ci, c)
				}
				if mi, isMI := ref.(*ssa.MakeInterface); isMI {
					for _, r2 := range ir.Referrers(mi) {
						consider(r2, mi)
					}
				}
				if ct, isCT := ref.(*ssa.ChangeInterface); isCT {
					for _, r2 := range ir.Referrers(ct) {
						consider(r2, ct)
					}
				}
			}
		})
		for i, rd := range reads {
			n++
			r.Analysed(fn)
			recv := recvs[i]
			key := fmt.Sprintf("%s/rewind#%d", core.FuncName(fn), i+1)
			isRewind := func(x ssa.Instruction) bool {
				xc := ir.AsCall(x)
				if xc == nil || xc.StaticCallee() != rewind {
					return false
				}
				return ir.Path(xc.Args[0]) == recv
			}
			// deferred before the read?
			deferred := false
			allInstrs(fn, func(x ssa.Instruction) {
				if d, isD := x.(*ssa.Defer); isD && isRewind(x) {
					if !ir.Reach([]ir.Pt{ir.Entry(fn)}, ir.Opts{Stop: func(y ssa.Instruction) bool { return y == ssa.Instruction(d) }}).Reached[rd] {
						deferred = true
					}
				}
			})
			if deferred {
				r.Held(key, 1, "body read under a deferred RewindBody()")
				continue
			}
			explicit := func(x ssa.Instruction) bool {
				if _, isD := x.(*ssa.Defer); isD {
					return false
				}
				return isRewind(x)
			}
			// reviewed table: readers whose error does not depend on the content
			//   goquery.NewDocumentFromReader — x/net/html never rejects input, it fails only when the reader fails,
			//   and a spooled body that cannot be read any more has no cursor worth restoring
			type edge struct {
				b *ssa.BasicBlock
				s int
			}
			cut := map[edge]bool{}
			if rc, isC := rd.(*ssa.Call); isC && ir.IsCallTo(rc, "github.com/PuerkitoBio/goquery.NewDocumentFromReader") {
				isNil := errIsNilAtom(rc)
				for _, ii := range ir.Ifs(fn) {
					if isNil(ii.Atom) {
						cut[edge{ii.If.Block(), ii.EdgeWhen(false)}] = true
					}
				}
			}
			ret, bad := ir.PathExists([]ir.Pt{ir.After(rd)}, ir.Opts{Stop: explicit, EdgeOK: func(b *ssa.BasicBlock, s int) bool { return !cut[edge{b, s}] }}, ir.IsExit)
			if bad && len(fn.Params) > 0 && recv == "$"+fn.Params[0].Name() {
				// an accessor on the URL itself (GetDocument): covered when every module caller reads under its own
				// deferred RewindBody() of the same URL
				callers, covered := 0, 0
				for _, cf := range p.ModFuncs {
					if !core.InModule(cf) {
						continue
					}
					cf := cf
					allInstrs(cf, func(x ssa.Instruction) {
						xc := ir.AsCall(x)
						if xc == nil || xc.StaticCallee() != fn || len(xc.Args) == 0 {
							return
						}
						callers++
						want := ir.Path(xc.Args[0])
						ok := false
						allInstrs(cf, func(y ssa.Instruction) {
							if d, isD := y.(*ssa.Defer); isD && d.Call.StaticCallee() == rewind && ir.Path(d.Call.Args[0]) == want {
								if !ir.Reach([]ir.Pt{ir.Entry(cf)}, ir.Opts{Stop: func(z ssa.Instruction) bool { return z == y }}).Reached[x] {
									ok = true
								}
							}
						})
						if ok {
							covered++
						}
					})
				}
				if os.Getenv("ZC_DEBUG_REWIND") != "" {
					fmt.Fprintf(os.Stderr, "rewind debug: %s callers=%d covered=%d\n", core.FuncName(fn), callers, covered)
				}
				if callers > 0 && callers == covered {
					r.Held(key, callers, "an error exit skips the rewind, but all %d caller(s) read under their own deferred RewindBody()", callers)
					continue
				}
			}
			if bad {
				r.Violated(key, p.InstrPos(ret), "%s is read here (%s) and a path returns without RewindBody(): the cursor stays where the reader stopped (at EOF, or at a buffer boundary after a decoder error), and the next predicate or extractor that looks at the same body sees an empty or truncated document", recv+".GetBody()", p.InstrPos(rd))
			} else {
				r.Held(key, 1, "every path from the read to a return rewinds the body")
			}
		}
	}
	r.Floor("body reads in module code", n, 5)
}

func init() {
	register(&core.Rule{ID: "R-S3-FRESH-QUERY", Props: []string{"C19"}, Doc: "every listing link the S3 extractors emit (sub-folder links, next-page link) is the request URL with one parameter replaced: the url.Values a link is encoded from is obtained by a Query() call of its own — after a Set on a Values value no further Set on the same value is reachable without passing its defining Query() again. A parsed query shared across links keeps every earlier replacement: the continuation link of a truncated page then carries the last sub-folder's prefix and the rest of the level is never listed", Run: ruleS3FreshQuery})
}

func ruleS3FreshQuery(r *core.Reporter) {
	p := r.P
	n := 0
	for _, fn := range p.FuncsInPkg(rel(pkgExtractor)) {
		if !strings.HasPrefix(strings.ToLower(fn.Name()), "s3") {
			continue
		}
		for _, f := range withAnon(fn) {
			f := f
			var sets []*ssa.Call
			allInstrs(f, func(in ssa.Instruction) {
				if c, ok := in.(*ssa.Call); ok && ir.IsCallTo(c, "(net/url.Values).Set", "(net/url.Values).Add", "(net/url.Values).Del") {
					sets = append(sets, c)
				}
			})
			for i, sc := range sets {
				n++
				r.Analysed(f)
				key := fmt.Sprintf("%s/values#%d", core.FuncName(f), i+1)
				v := ir.Strip(sc.Call.Args[0])
				def, _ := v.(ssa.Instruction)
				stop := func(x ssa.Instruction) bool { return def != nil && x == def }
				again := false
				res := ir.Reach([]ir.Pt{ir.After(sc)}, ir.Opts{Stop: stop})
				for _, other := range sets {
					if ir.Strip(other.Call.Args[0]) == v && res.Reached[other] {
						again = true
					}
				}
				if again {
					r.Violated(key, p.InstrPos(sc), "the parsed query %s is modified for one link and modified again for another without being re-read from the request URL: the later link keeps the earlier replacement (a continuation link carrying a sub-folder's prefix walks that sub-folder instead of the rest of the level)", ir.Path(v))
				} else {
					r.Held(key, 1, "each link is encoded from its own Query()")
				}
			}
		}
	}
	if n == 0 {
		r.Held("s3/no-query-rewrites", 0, "the S3 extractors do not rewrite query parameters")
	}
}

func init() {
	register(&core.Rule{ID: "R-CONTENT-TYPE-FOLD", Props: []string{"C19", "C07"}, Doc: "extractor.isContentType compares case-insensitively on both sides: the two operands of its substring test are strings.ToLower results, or — for an operand that is not folded — every call site passes a constant that is already lower-case. Content types are case-insensitive and one predicate (IsM3U8) names `application/x-mpegURL` in mixed case: folding only the header makes that playlist type unrecognisable, and the dispatch silently falls through to 'no extractor'", Run: ruleContentTypeFold})
}

func ruleContentTypeFold(r *core.Reporter) {
	p := r.P
	fn := p.Func(rel(pkgExtractor), "isContentType")
	if fn == nil || len(fn.Params) != 2 {
		r.Held("extractor.isContentType/absent", 0, "no such helper (the predicates compare in another way)")
		return
	}
	r.Analysed(fn)
	var cmp *ssa.Call
	allInstrs(fn, func(in ssa.Instruction) {
		if c, ok := in.(*ssa.Call); ok && ir.IsCallTo(c, "strings.Contains", "strings.HasPrefix", "strings.EqualFold") {
			cmp = c
		}
	})
	if cmp == nil {
		r.Undecided("extractor.isContentType/compare", fnPos(p, fn), "no substring / prefix comparison found")
		return
	}
	if ir.IsCallTo(cmp, "strings.EqualFold") {
		r.Held("extractor.isContentType/fold", 1, "compared with strings.EqualFold")
		return
	}
	folded := func(v ssa.Value) (paramIdx int, isFolded bool) {
		if c, ok := ir.Strip(v).(*ssa.Call); ok && ir.IsCallTo(c, "strings.ToLower", "strings.ToUpper") {
			for i, pm := range fn.Params {
				if ir.SameValue(c.Call.Args[0], pm) {
					return i, true
				}
			}
			return -1, true
		}
		for i, pm := range fn.Params {
			if ir.SameValue(v, pm) {
				return i, false
			}
		}
		return -1, false
	}
	for k, a := range cmp.Call.Args[:2] {
		idx, ok := folded(a)
		if ok {
			continue
		}
		if idx < 0 {
			r.Undecided("extractor.isContentType/fold", p.InstrPos(cmp), "operand %d of the comparison is neither a folded nor a plain parameter", k)
			return
		}
		// an unfolded parameter: every call site must pass an already lower-case constant
		bad := ""
		for _, cf := range p.ModFuncs {
			if !core.InModule(cf) {
				continue
			}
			allInstrs(cf, func(in ssa.Instruction) {
				cc := ir.AsCall(in)
				if cc == nil || cc.StaticCallee() != fn || bad != "" {
					return
				}
				s, isConst := ir.ConstString(cc.Args[idx])
				if !isConst {
					bad = "a non-constant argument at " + p.InstrPos(in)
				} else if s != strings.ToLower(s) {
					bad = fmt.Sprintf("the mixed-case literal %q at %s", s, p.InstrPos(in))
				}
			})
		}
		if bad != "" {
			r.Violated("extractor.isContentType/fold", p.InstrPos(cmp), "isContentType no longer folds its %s operand, and %s is compared as is against the lower-cased other side: that content type can never match, the page falls through to 'no extractor' and none of its URLs is discovered", fn.Params[idx].Name(), bad)
			return
		}
	}
	r.Held("extractor.isContentType/fold", 2, "both sides folded (or already lower-case at every call site)")
}
