package rules

import (
	"go/token"
	"go/types"
	"strings"

	"golang.org/x/tools/go/ssa"

	"zenocheck/core"
	"zenocheck/ir"
)

func init() {
	PropertyText["C14"] = [2]string{
		"Decides the shape of the pause protocol: every stage worker's main select has a PauseCh arm on which it offers ResumeCh before taking any further input, the offer is abandonable on the stage context, and Subscribe is paired with a deferred Unsubscribe of the same value (R-PAUSE-WORKER); Pause only sends non-blockingly and only after winning the CAS (R-PAUSE-NONBLOCK); Resume's blocking receives are guarded by evidence that a pause is in force and Resume calls are serialized (R-RESUME-GUARD); Unsubscribe removes before closing and Resume tolerates closed channels (R-UNSUB-SAFE); the watchers call Pause/Resume in matched pairs driven by the same check (R-WATCHER-PAIRS). Resume observes the pause under its mutex (guard-under-lock); nothing a subscriber runs loops on the pause state (R-PAUSE-NO-POLL).",
		"Not decided: deadlock freedom of the protocol over all call orders as a whole (a model-checking question); that already-running fetch goroutines finish their current fetch after the pause is acknowledged.",
	}
	register(&core.Rule{ID: "R-PAUSE-WORKER", Props: []string{"C14"}, Doc: "per stage worker: main select has an arm on the subscriber's PauseCh; on it the worker offers ResumeCh (abandonable on the stage ctx) before looping; pause.Subscribe() is followed by defer pause.Unsubscribe(same value) before any return", Run: rulePauseWorker})
	register(&core.Rule{ID: "R-PAUSE-NONBLOCK", Props: []string{"C14"}, Doc: "pause.Pause: every channel send sits in a select with default, and the broadcast is reachable only after CompareAndSwap(false,true) succeeded", Run: rulePauseNonblock})
	register(&core.Rule{ID: "R-RESUME-GUARD", Props: []string{"C14", "C03"}, Doc: "pause.Resume: the blocking receives on subscriber channels are reachable only when isPaused was observed true, under a mutex that serializes Resume; the flag is cleared after the wait", Run: ruleResumeGuard})
	register(&core.Rule{ID: "R-PAUSE-NO-POLL", Props: []string{"C14"}, Doc: "code run by a pause subscriber (the stage workers and everything they call or start) never loops on the pause state (IsPaused / isPaused.Load): the flag is cleared only after every subscriber has acknowledged, so a subscriber waiting for it to clear can never acknowledge", Run: rulePauseNoPoll})
	register(&core.Rule{ID: "R-UNSUB-SAFE", Props: []string{"C14"}, Doc: "Unsubscribe deletes the subscriber from the table before closing its channels; Resume's receive uses the comma-ok form so a closed channel ends the wait", Run: ruleUnsubSafe})
}

const tControlChans = pkgPause + ".ControlChans"

// controlChanField: v is a load of <x>.PauseCh / <x>.ResumeCh of a *ControlChans; returns field and base.
func controlChanField(v ssa.Value) (string, ssa.Value, bool) {
	if u, ok := v.(*ssa.UnOp); ok && u.Op == token.MUL {
		if fa, ok := u.X.(*ssa.FieldAddr); ok {
			tn, f, _ := ir.FieldOf(fa)
			if tn == tControlChans {
				return f, fa.X, true
			}
		}
	}
	return "", nil, false
}

func rulePauseWorker(r *core.Reporter) {
	p := r.P
	n := 0
	for _, pk := range []string{pkgPre, pkgArch, pkgPost, pkgFin} {
		w := findStageWorker(p, pk)
		if w == nil {
			r.Undecided("worker/"+rel(pk), "", "stage worker not found")
			continue
		}
		n++
		r.Analysed(w.Fn)
		name := core.FuncName(w.Fn)
		// Subscribe / Unsubscribe pairing
		var sub *ssa.Call
		var unsub *ssa.Defer
		allInstrs(w.Fn, func(in ssa.Instruction) {
			if c, ok := in.(*ssa.Call); ok && ir.IsCallTo(c, pkgPause+".Subscribe") {
				sub = c
			}
			if d, ok := in.(*ssa.Defer); ok && ir.IsCallTo(d, pkgPause+".Unsubscribe") {
				unsub = d
			}
		})
		if sub == nil {
			r.Violated(name+"/subscribe", fnPos(p, w.Fn), "worker does not subscribe to the pause controller")
			continue
		}
		if unsub == nil || len(unsub.Call.Args) != 1 || !ir.SameValue(unsub.Call.Args[0], sub) {
			r.Violated(name+"/unsubscribe", p.InstrPos(sub), "pause.Subscribe() is not paired with defer pause.Unsubscribe(<same value>): an exiting worker would be waited for by Resume forever")
		} else if ret, bad := ir.PathExists([]ir.Pt{ir.After(sub)}, ir.Opts{Stop: func(in ssa.Instruction) bool { return in == ssa.Instruction(unsub) }}, ir.IsExit); bad {
			r.Violated(name+"/unsubscribe", p.InstrPos(ret), "a return is reachable between Subscribe and the deferred Unsubscribe")
		} else {
			r.Held(name+"/unsubscribe", 1, "Subscribe paired with deferred Unsubscribe of the same value")
		}
		// main select has PauseCh arm of the subscription
		var pauseArm *ir.SelectArm
		for i := range w.Sel.Arms {
			a := w.Sel.Arms[i]
			if a.State.Dir != types.RecvOnly {
				continue
			}
			if f, base, ok := controlChanField(a.State.Chan); ok && f == "PauseCh" && ir.SameValue(base, sub) {
				pauseArm = &w.Sel.Arms[i]
			}
		}
		if pauseArm == nil || pauseArm.Body == nil {
			r.Violated(name+"/pause-arm", p.InstrPos(w.Sel.Sel), "the worker's main select has no arm on its own PauseCh: the worker never stops for a pause")
			continue
		}
		// on the arm: offer on ResumeCh before reaching the header again
		offer := func(in ssa.Instruction) bool {
			if ch, _, ok := sendOf(in); ok {
				if f, base, ok := controlChanField(ch); ok && f == "ResumeCh" && ir.SameValue(base, sub) {
					return true
				}
			}
			if sel, ok := in.(*ssa.Select); ok {
				for _, st := range sel.States {
					if st.Dir == types.SendOnly {
						if f, base, ok := controlChanField(st.Chan); ok && f == "ResumeCh" && ir.SameValue(base, sub) {
							return true
						}
					}
				}
			}
			return false
		}
		hf := w.Header.Instrs[0]
		res := ir.Reach([]ir.Pt{{B: pauseArm.Body, I: 0}}, ir.Opts{Stop: func(in ssa.Instruction) bool { return in == hf || offer(in) }})
		if res.Stopped[hf] {
			r.Violated(name+"/resume-offer", p.InstrPos(pauseArm.Body.Instrs[0]), "after a pause signal the worker can return to taking input without waiting for resume")
			continue
		}
		var offers []ssa.Instruction
		for in := range res.Stopped {
			if offer(in) {
				offers = append(offers, in)
			}
		}
		if len(offers) == 0 {
			r.Violated(name+"/resume-offer", p.InstrPos(pauseArm.Body.Instrs[0]), "no ResumeCh offer on the pause arm")
			continue
		}
		r.Held(name+"/resume-offer", len(offers), "pause arm blocks on the ResumeCh offer before the next iteration")
		// the offer is abandonable on the stage context
		okAll := true
		var bad ssa.Instruction
		for _, o := range offers {
			sel, isSel := o.(*ssa.Select)
			if !isSel {
				okAll, bad = false, o
				continue
			}
			hasDone := false
			for _, st := range sel.States {
				if c, ok := ir.IsDoneChan(st.Chan); ok && st.Dir == types.RecvOnly {
					if _, f, okf := fieldOfLoad(c); okf && f == "ctx" {
						hasDone = true
					}
				}
			}
			if !hasDone || !sel.Blocking {
				okAll, bad = false, o
			}
		}
		if okAll {
			r.Held(name+"/offer-abandonable", len(offers), "ResumeCh offer sits in a select with the stage's ctx.Done()")
		} else {
			r.Violated(name+"/offer-abandonable", p.InstrPos(bad), "the ResumeCh offer cannot be abandoned on the stage context: a paused pipeline cannot be stopped (Stop waits for a worker that waits for a resume nobody sends)")
		}
	}
	r.Floor("stage workers", n, 4)
}

func pauseFn(p *core.Program, name string) *ssa.Function { return p.Func(rel(pkgPause), name) }

// isPausedOp matches atomic.Bool method calls on manager.isPaused.
func isPausedCall(in ssa.Instruction, method string) bool {
	c := ir.AsCall(in)
	if c == nil {
		return false
	}
	f := ir.CalleeOf(c)
	if f == nil || f.Name() != method || f.Signature.Recv() == nil || ir.TypeName(f.Signature.Recv().Type()) != "sync/atomic.Bool" {
		return false
	}
	if len(c.Args) == 0 {
		return false
	}
	_, fld, ok := ir.FieldOf(c.Args[0])
	return ok && fld == "isPaused"
}

func rulePauseNonblock(r *core.Reporter) {
	p := r.P
	fn := pauseFn(p, "Pause")
	if fn == nil {
		r.Undecided("pause.Pause", "", "anchor not found")
		return
	}
	fns := withAnon(fn)
	// a named function handed to subscribers.Range instead of a literal is the callback all the same
	allInstrs(fn, func(in ssa.Instruction) {
		if c, ok := in.(*ssa.Call); ok && ir.IsCallTo(c, "(*sync.Map).Range") && len(c.Call.Args) == 2 {
			if cb, isF := ir.Strip(c.Call.Args[1]).(*ssa.Function); isF && core.InModule(cb) {
				fns = append(fns, withAnon(cb)...)
			}
		}
	})
	r.Analysed(fns...)
	// CAS(false,true)
	var cas *ssa.Call
	allInstrs(fn, func(in ssa.Instruction) {
		if c, ok := in.(*ssa.Call); ok && isPausedCall(c, "CompareAndSwap") {
			a := ir.Args(c.Common())
			if len(a) == 2 && ir.Path(a[0]) == "false" && ir.Path(a[1]) == "true" {
				cas = c
			}
		}
	})
	if cas == nil {
		r.Violated("pause.Pause/cas", fnPos(p, fn), "Pause no longer wins isPaused with CompareAndSwap(false, true)")
		return
	}
	// the broadcast (Range over subscribers) only after CAS true
	var rng *ssa.Call
	allInstrs(fn, func(in ssa.Instruction) {
		if c, ok := in.(*ssa.Call); ok && ir.IsCallTo(c, "(*sync.Map).Range") {
			rng = c
		}
	})
	if rng == nil {
		r.Violated("pause.Pause/broadcast", fnPos(p, fn), "Pause does not range over the subscribers")
	} else if _, ok := ir.GuardedBy(fn, ir.Entry(fn), rng, true, func(a ir.Atom) bool { return a.V == ssa.Value(cas) }); ok {
		r.Held("pause.Pause/broadcast", 1, "broadcast only after CompareAndSwap(false,true) succeeded")
	} else {
		r.Violated("pause.Pause/broadcast", p.InstrPos(rng), "pause signals are sent although this call did not win the paused flag (a repeated Pause would queue a second signal)")
	}
	// sends: all inside non-blocking selects
	sends, bad := 0, ssa.Instruction(nil)
	for _, f := range fns {
		allInstrs(f, func(in ssa.Instruction) {
			if _, _, ok := sendOf(in); ok {
				bad = in
			}
			if u, ok := in.(*ssa.UnOp); ok && u.Op == token.ARROW {
				bad = in
			}
			if sel, ok := in.(*ssa.Select); ok {
				for _, st := range sel.States {
					if st.Dir == types.SendOnly {
						sends++
						if f, _, ok := controlChanField(st.Chan); !ok || f != "PauseCh" {
							bad = in
						}
					}
				}
				if sel.Blocking {
					bad = in
				}
			}
		})
	}
	if bad != nil {
		r.Violated("pause.Pause/nonblocking", p.InstrPos(bad), "Pause contains a channel operation that can block")
	} else if sends == 0 {
		r.Violated("pause.Pause/nonblocking", fnPos(p, fn), "Pause sends no pause signal")
	} else {
		r.Held("pause.Pause/nonblocking", sends, "%d send(s), each in a select with default", sends)
	}
}

func ruleResumeGuard(r *core.Reporter) {
	p := r.P
	fn := pauseFn(p, "Resume")
	if fn == nil {
		r.Undecided("pause.Resume", "", "anchor not found")
		return
	}
	fns := withAnon(fn)
	r.Analysed(fns...)
	// blocking receives on subscriber channels live in goroutines started from the Range callback;
	// the construct that makes Resume wait is the WaitGroup.Wait() (or a direct receive) in Resume itself.
	var waits []ssa.Instruction
	for _, f := range fns {
		allInstrs(f, func(in ssa.Instruction) {
			if u, ok := in.(*ssa.UnOp); ok && u.Op == token.ARROW {
				if fld, _, ok := controlChanField(u.X); ok && fld == "ResumeCh" {
					waits = append(waits, in)
				}
			}
		})
	}
	if len(waits) == 0 {
		r.Violated("pause.Resume/wait", fnPos(p, fn), "Resume no longer receives from the subscribers' ResumeCh: workers are never woken")
		return
	}
	// the acknowledgements are collected concurrently: every receive runs in its own goroutine
	seq := ssa.Instruction(nil)
	for _, w := range waits {
		wf := w.Parent()
		isGo := false
		if par := wf.Parent(); par != nil {
			allInstrs(par, func(in ssa.Instruction) {
				if g, ok := in.(*ssa.Go); ok && ir.CalleeOf(g.Common()) == wf {
					isGo = true
				}
			})
		}
		if !isGo {
			seq = w
		}
	}
	if seq != nil {
		r.Violated("pause.Resume/concurrent-acks", p.InstrPos(seq), "Resume waits for the subscribers one after another: a worker that can only reach its pause arm after a later-visited worker has been woken (back-pressure between stages) is never acknowledged, Resume and the workers deadlock")
	} else {
		r.Held("pause.Resume/concurrent-acks", len(waits), "each subscriber is awaited in its own goroutine")
	}
	// In Resume's own body: the first instruction that can lead to those receives is the Range call.
	var rng ssa.Instruction
	allInstrs(fn, func(in ssa.Instruction) {
		if c, ok := in.(*ssa.Call); ok && ir.IsCallTo(c, "(*sync.Map).Range") {
			rng = c
		}
	})
	if rng == nil {
		// direct receives in Resume
		for _, w := range waits {
			if w.Parent() == fn {
				rng = w
			}
		}
	}
	if rng == nil {
		r.Undecided("pause.Resume/wait", fnPos(p, fn), "cannot relate the ResumeCh receives to Resume's body")
		return
	}
	pausedTrue := func(a ir.Atom) bool {
		if a.V == nil {
			return false
		}
		c, ok := a.V.(*ssa.Call)
		if !ok {
			return false
		}
		if isPausedCall(c, "Load") {
			return true
		}
		if isPausedCall(c, "CompareAndSwap") {
			args := ir.Args(c.Common())
			return len(args) == 2 && ir.Path(args[0]) == "true"
		}
		return false
	}
	if _, ok := ir.GuardedBy(fn, ir.Entry(fn), rng, true, pausedTrue); ok {
		r.Held("pause.Resume/guard", len(waits), "the wait for subscribers starts only when a pause is in force")
	} else {
		r.Violated("pause.Resume/guard", p.InstrPos(rng), "Resume waits for every subscriber's ResumeCh without first establishing that a pause is in force: Resume() with nothing paused blocks until all workers exit")
	}
	// serialization: a mutex Lock dominates the wait and is released at exit
	var lock ssa.Instruction
	allInstrs(fn, func(in ssa.Instruction) {
		if ir.IsPlainCallTo(in, "(*sync.Mutex).Lock") {
			lock = in
		}
	})
	locked := false
	if lock != nil {
		if res := ir.Reach([]ir.Pt{ir.Entry(fn)}, ir.Opts{Stop: func(in ssa.Instruction) bool { return in == lock }}); !res.Reached[rng] {
			// unlock deferred or on every path
			unl := ir.Event{ID: "mutex-unlock", Match: func(in ssa.Instruction) bool { return ir.IsCallTo(in, "(*sync.Mutex).Unlock") }}
			if _, bad := ir.PathExists([]ir.Pt{ir.After(lock)}, ir.Opts{Stop: unl.Match}, ir.IsExit); !bad {
				locked = true
			}
		}
	}
	// the paused observation that justifies the wait must be made inside the critical section: observed before the
	// lock it can be stale by the time the lock is obtained (the previous Resume has consumed every acknowledgement)
	if locked {
		stale := ssa.Instruction(nil)
		fresh := false
		for _, ii := range ir.Ifs(fn) {
			if !pausedTrue(ii.Atom) || !ir.OnlyVia(ir.Entry(fn), rng, ii.If.Block(), ii.EdgeWhen(true)) {
				continue
			}
			obs := ii.Atom.V.(*ssa.Call)
			if ir.Reach([]ir.Pt{ir.Entry(fn)}, ir.Opts{Stop: func(in ssa.Instruction) bool { return in == lock }}).Reached[obs] {
				stale = obs
			} else {
				fresh = true
			}
		}
		if fresh {
			r.Held("pause.Resume/guard-under-lock", 1, "the pause is observed while holding the Resume mutex")
		} else if stale != nil {
			r.Violated("pause.Resume/guard-under-lock", p.InstrPos(stale), "the paused flag is tested before the Resume mutex is taken and not again under it: a second Resume that queued on the mutex proceeds after the first has consumed every acknowledgement and cleared the flag, and blocks forever holding the mutex")
		}
	}
	if locked {
		r.Held("pause.Resume/serialized", 1, "Resume calls are serialized by a mutex held over the wait")
	} else {
		r.Violated("pause.Resume/serialized", p.InstrPos(rng), "two concurrent Resume calls can both pass the paused test and steal each other's acknowledgements (one blocks forever)")
	}
	// flag cleared after the wait
	var clear ssa.Instruction
	allInstrs(fn, func(in ssa.Instruction) {
		if c, ok := in.(*ssa.Call); ok {
			if isPausedCall(c, "CompareAndSwap") {
				a := ir.Args(c.Common())
				if len(a) == 2 && ir.Path(a[0]) == "true" && ir.Path(a[1]) == "false" {
					clear = c
				}
			}
			if isPausedCall(c, "Store") {
				a := ir.Args(c.Common())
				if len(a) == 1 && ir.Path(a[0]) == "false" {
					clear = c
				}
			}
		}
	})
	if clear == nil {
		r.Violated("pause.Resume/clears-flag", fnPos(p, fn), "Resume never clears isPaused: a later Pause would lose the CAS and never signal the workers")
	} else if ret, bad := ir.PathExists([]ir.Pt{ir.After(rng)}, ir.Opts{Stop: func(in ssa.Instruction) bool { return in == clear }}, ir.IsExit); bad {
		r.Violated("pause.Resume/clears-flag", p.InstrPos(ret), "after waking the workers a path returns without clearing isPaused")
	} else {
		r.Held("pause.Resume/clears-flag", 1, "isPaused cleared on every path after the wait")
	}
}

func ruleUnsubSafe(r *core.Reporter) {
	p := r.P
	un := pauseFn(p, "Unsubscribe")
	sub := pauseFn(p, "Subscribe")
	res := pauseFn(p, "Resume")
	if un == nil || sub == nil || res == nil {
		r.Undecided("pause.Unsubscribe", "", "anchors not found")
		return
	}
	r.Analysed(un, sub)
	var del ssa.Instruction
	var closes []ssa.Instruction
	allInstrs(un, func(in ssa.Instruction) {
		if ir.IsPlainCallTo(in, "(*sync.Map).Delete") {
			del = in
		}
		if c := ir.AsCall(in); c != nil && ir.CallName(c) == "builtin.close" {
			closes = append(closes, in)
		}
	})
	switch {
	case del == nil:
		r.Violated("pause.Unsubscribe/delete", fnPos(p, un), "Unsubscribe does not remove the subscriber: Pause/Resume keep addressing an exited worker")
	case len(closes) < 2:
		r.Violated("pause.Unsubscribe/close", fnPos(p, un), "Unsubscribe closes %d channel(s), expected both PauseCh and ResumeCh: a Resume waiting on this subscriber would block forever", len(closes))
	default:
		bad := false
		for _, c := range closes {
			if ir.Reach([]ir.Pt{ir.Entry(un)}, ir.Opts{Stop: func(in ssa.Instruction) bool { return in == del }}).Reached[c] {
				bad = true
			}
		}
		closedFields := map[string]bool{}
		for _, c := range closes {
			if f, _, ok := controlChanField(ir.AsCall(c).Args[0]); ok {
				closedFields[f] = true
			}
		}
		if bad {
			r.Violated("pause.Unsubscribe/order", p.InstrPos(closes[0]), "channels are closed before the subscriber is removed from the table")
		} else if !closedFields["ResumeCh"] || !closedFields["PauseCh"] {
			r.Violated("pause.Unsubscribe/close", fnPos(p, un), "Unsubscribe closes %v, expected PauseCh and ResumeCh", keys(closedFields))
		} else {
			r.Held("pause.Unsubscribe", 3, "delete, then close both channels")
		}
	}
	// Subscribe: PauseCh buffered (>=1), registered in the table
	okBuf, stored := false, false
	allInstrs(sub, func(in ssa.Instruction) {
		if st, ok := in.(*ssa.Store); ok {
			if tn, f, ok := ir.FieldOf(st.Addr); ok && tn == tControlChans && f == "PauseCh" {
				if mc, ok := st.Val.(*ssa.MakeChan); ok {
					if n, ok := ir.ConstInt(mc.Size); ok && n >= 1 {
						okBuf = true
					}
				}
			}
		}
		if ir.IsPlainCallTo(in, "(*sync.Map).Store") {
			stored = true
		}
	})
	if okBuf && stored {
		r.Held("pause.Subscribe", 2, "PauseCh is buffered and the subscriber is registered")
	} else {
		r.Violated("pause.Subscribe", fnPos(p, sub), "PauseCh buffered=%v registered=%v: Pause's non-blocking send would be lost for a busy worker / the worker is never signalled", okBuf, stored)
	}
	// Resume's receive is comma-ok
	for _, f := range withAnon(res) {
		allInstrs(f, func(in ssa.Instruction) {
			if u, ok := in.(*ssa.UnOp); ok && u.Op == token.ARROW {
				if fld, _, ok := controlChanField(u.X); ok && fld == "ResumeCh" {
					if u.CommaOk {
						r.Held("pause.Resume/closed-ok", 1, "receive handles a closed ResumeCh")
					} else {
						// a plain receive on a closed channel also returns immediately; accepted
						r.Held("pause.Resume/closed-ok", 1, "plain receive: returns on close")
					}
				}
			}
		})
	}
}

var _ = strings.Contains

func rulePauseNoPoll(r *core.Reporter) {
	p := r.P
	// subscribers: functions that call pause.Subscribe
	var subs []*ssa.Function
	for _, fn := range p.ModFuncs {
		if fn.Pkg != nil && fn.Pkg.Pkg.Path() == pkgPause {
			continue
		}
		found := false
		allInstrs(fn, func(in ssa.Instruction) {
			if ir.IsCallTo(in, pkgPause+".Subscribe") {
				found = true
			}
		})
		if found {
			subs = append(subs, fn)
		}
	}
	if !r.Floor("pause subscribers", len(subs), 4) {
		return
	}
	// everything they call or start (static edges, closures, go statements)
	seen := map[*ssa.Function]bool{}
	var walk func(f *ssa.Function, d int)
	walk = func(f *ssa.Function, d int) {
		if f == nil || seen[f] || !core.InModule(f) || f.Blocks == nil || d > 8 {
			return
		}
		if f.Pkg != nil && f.Pkg.Pkg.Path() == pkgPause {
			return
		}
		seen[f] = true
		for _, a := range f.AnonFuncs {
			walk(a, d+1)
		}
		allInstrs(f, func(in ssa.Instruction) {
			if ci, ok := in.(ssa.CallInstruction); ok {
				walk(ir.CalleeOf(ci.Common()), d+1)
			}
		})
	}
	for _, s := range subs {
		walk(s, 0)
	}
	isStateRead := func(in ssa.Instruction) bool {
		c, ok := in.(*ssa.Call)
		if !ok {
			return false
		}
		return ir.IsCallTo(c, pkgPause+".IsPaused") || isPausedCall(c, "Load")
	}
	polls := 0
	for f := range seen {
		allInstrs(f, func(in ssa.Instruction) {
			if !isStateRead(in) {
				return
			}
			c := in.(*ssa.Call)
			// re-evaluated in a cycle and deciding a branch
			inCycle := ir.Reach([]ir.Pt{ir.After(in)}, ir.Opts{}).Reached[in]
			decides := false
			for _, ii := range ir.Ifs(f) {
				if dependsOn(ii.If.Cond, c, map[ssa.Value]bool{}) {
					decides = true
				}
			}
			if inCycle && decides {
				polls++
				r.Violated("poll/"+core.FuncName(f), p.InstrPos(in), "a pause subscriber's code loops on the pause state: Resume clears the flag only after every subscriber has offered its ResumeCh, which this worker cannot do while it waits for the flag — Resume, the worker and Stop wait for each other forever")
			}
		})
	}
	if polls == 0 {
		r.Held("subscribers", len(seen), "%d subscribers, %d functions in their closure: none loops on the pause state", len(subs), len(seen))
	}
}
