package rules

import (
	"fmt"
	"go/token"
	"go/types"

	"golang.org/x/tools/go/ssa"

	"zenocheck/core"
	"zenocheck/ir"
)

// R-NIL-HANDLE: methods of cgo-backed handles dereference their receiver unconditionally (goada.Url reads
// u.cpointer first thing); the handle is nil whenever its constructor failed or has not run yet.

var handleTypes = map[string]bool{"github.com/ada-url/goada.Url": true}

func init() {
	register(&core.Rule{ID: "R-NIL-HANDLE", Props: []string{"C10"}, Doc: "every method call (also deferred / in a deferred closure) on a *goada.Url in module code has a receiver that is provably the result of a successful constructor: the value comes from goada.New/NewWithBase and the call is only reachable with that call's err == nil, or the call is guarded by `handle != nil`; a handle that may still hold its zero value (deferred Free registered before the parse, error path) is a nil dereference in the URL normaliser — fatal for the whole process", Run: ruleNilHandle})
}

func handleRecv(cc *ssa.CallCommon) (string, bool) {
	callee := cc.StaticCallee()
	if callee == nil || callee.Signature == nil || callee.Signature.Recv() == nil || len(cc.Args) == 0 {
		return "", false
	}
	pt, ok := callee.Signature.Recv().Type().(*types.Pointer)
	if !ok {
		return "", false
	}
	nt, ok := pt.Elem().(*types.Named)
	if !ok || nt.Obj().Pkg() == nil {
		return "", false
	}
	name := nt.Obj().Pkg().Path() + "." + nt.Obj().Name()
	return callee.Name(), handleTypes[name]
}

func ruleNilHandle(r *core.Reporter) {
	p := r.P
	sites := 0
	count := map[string]int{}
	for _, fn := range p.ModFuncs {
		if !core.InModule(fn) {
			continue
		}
		fn := fn
		allInstrs(fn, func(in ssa.Instruction) {
			cc := ir.AsCall(in)
			if cc == nil {
				return
			}
			m, ok := handleRecv(cc)
			if !ok {
				return
			}
			sites++
			r.Analysed(fn)
			k := core.FuncName(fn) + "/" + m
			count[k]++
			key := fmt.Sprintf("%s#%d", k, count[k])
			switch pathNilStatus(fn, cc.Args[0], in) {
			case "safe":
				r.Held(key, 1, "receiver is non-nil on every path that reaches the call (constructor error checked; (value, error) convention)")
				return
			case "nil":
				r.Violated(key, p.InstrPos(in), "%s() is reached on a path on which its *goada.Url receiver is nil (zero value or the nil a failed parse hands back): nil pointer dereference inside the cgo wrapper, the process dies (no recover)", m)
				return
			}
			if why := handleUnsafe(fn, cc.Args[0], in, 0); why != "" {
				r.Violated(key, p.InstrPos(in), "%s() is called on a *goada.Url that %s: nil pointer dereference inside the cgo wrapper, the process dies (no recover)", m, why)
			} else {
				r.Held(key, 1, "receiver is the result of a successful goada constructor on every path")
			}
		})
	}
	if sites == 0 {
		r.Held("module/no-handle-calls", 0, "no goada.Url method calls in module code")
	}
}

// handleNilGuarded: `at` executes only when v != nil was tested (v itself, or a reload of the same cell).
func handleNilGuarded(fn *ssa.Function, v ssa.Value, at ssa.Instruction) bool {
	_, g := ir.GuardedBy(fn, ir.Entry(fn), at, false, func(a ir.Atom) bool {
		if a.V != nil || a.Op != token.EQL {
			return false
		}
		x, y := a.X, a.Y
		if ir.IsNilConst(x) {
			x, y = y, x
		}
		if !ir.IsNilConst(y) {
			return false
		}
		if x == v {
			return true
		}
		lx, ok1 := x.(*ssa.UnOp)
		lv, ok2 := v.(*ssa.UnOp)
		return ok1 && ok2 && lx.Op == token.MUL && lv.Op == token.MUL && lx.X == lv.X
	})
	return g
}

// errIsNilAtom builds the matcher "c's error result == nil" (the error itself, or a reload of the variable it was
// stored to — named results live in memory when the function defers).
func errIsNilAtom(c *ssa.Call) func(ir.Atom) bool {
	var errv ssa.Value
	for _, ref := range *c.Referrers() {
		if ex, ok := ref.(*ssa.Extract); ok && ex.Index == 1 {
			errv = ex
		}
	}
	same := func(x ssa.Value) bool {
		if x == errv {
			return true
		}
		if l, ok := x.(*ssa.UnOp); ok && l.Op == token.MUL {
			if a, isA := l.X.(*ssa.Alloc); isA {
				for _, ref := range *a.Referrers() {
					if st, isSt := ref.(*ssa.Store); isSt && st.Addr == ssa.Value(a) && st.Val == errv {
						return true
					}
				}
			}
		}
		return false
	}
	return func(a ir.Atom) bool {
		if errv == nil || a.V != nil || a.Op != token.EQL {
			return false
		}
		return (same(a.X) && ir.IsNilConst(a.Y)) || (same(a.Y) && ir.IsNilConst(a.X))
	}
}

// errNilGuarded: from the constructor call c on, `at` is only reached with c's error result == nil.
func errNilGuarded(fn *ssa.Function, c *ssa.Call, at ssa.Instruction) bool {
	_, g := ir.GuardedBy(fn, ir.After(c), at, true, errIsNilAtom(c))
	return g
}

func errAtom(c *ssa.Call, a ir.Atom) bool { return errIsNilAtom(c)(a) }

// handleUnsafe returns "" when v is provably a live handle at `at`, otherwise the reason.
func handleUnsafe(fn *ssa.Function, v ssa.Value, at ssa.Instruction, depth int) string {
	if depth > 4 {
		return "could not be traced to a constructor"
	}
	if handleNilGuarded(fn, v, at) {
		return ""
	}
	switch x := v.(type) {
	case *ssa.Const:
		return "is nil here (zero value, the constructor has not run yet)"
	case *ssa.Extract:
		c, ok := x.Tuple.(*ssa.Call)
		if !ok || x.Index != 0 {
			return "could not be traced to a constructor"
		}
		if errNilGuarded(fn, c, at) {
			return ""
		}
		return fmt.Sprintf("comes from %s whose error is not checked on every path to the call (nil on failure)", ir.CallName(c.Common()))
	case *ssa.Phi:
		// merged error check: `h, err = A(); … h, err = B(); if err != nil { return }` — the handle and the error are
		// phis of the same block fed edge by edge from the same calls; a nil test of that error phi covers them all
		for _, in := range x.Block().Instrs {
			q, isPhi := in.(*ssa.Phi)
			if !isPhi {
				break
			}
			if q == x || len(q.Edges) != len(x.Edges) {
				continue
			}
			paired := true
			for i := range x.Edges {
				h, ok1 := x.Edges[i].(*ssa.Extract)
				e, ok2 := q.Edges[i].(*ssa.Extract)
				if !ok1 || !ok2 || h.Tuple != e.Tuple || h.Index != 0 || e.Index != 1 {
					paired = false
					break
				}
			}
			if !paired {
				continue
			}
			if _, g := ir.GuardedBy(fn, ir.Entry(fn), at, true, func(a ir.Atom) bool {
				if a.V != nil || a.Op != token.EQL {
					return false
				}
				return (a.X == ssa.Value(q) && ir.IsNilConst(a.Y)) || (a.Y == ssa.Value(q) && ir.IsNilConst(a.X))
			}); g {
				return ""
			}
		}
		for i, e := range x.Edges {
			if ir.IsNilConst(e) {
				return "can still be nil on one path (zero value: no constructor ran)"
			}
			pred := x.Block().Preds[i]
			last := pred.Instrs[len(pred.Instrs)-1]
			if ex, ok := e.(*ssa.Extract); ok && ex.Index == 0 {
				if c, isC := ex.Tuple.(*ssa.Call); isC {
					// the err test may be the terminator of the predecessor itself
					if iff, isIf := last.(*ssa.If); isIf {
						okEdge := false
						for _, ii := range ir.Ifs(fn) {
							if ii.If != iff {
								continue
							}
							for s, succ := range pred.Succs {
								if succ == x.Block() && s == ii.EdgeWhen(true) && ii.Atom.Op == token.EQL && ii.Atom.V == nil {
									okEdge = errAtom(c, ii.Atom)
								}
							}
						}
						if okEdge {
							continue
						}
					}
					if errNilGuarded(fn, c, last) {
						continue
					}
					return fmt.Sprintf("comes from %s whose error is not checked on every path to the call (nil on failure)", ir.CallName(c.Common()))
				}
			}
			if why := handleUnsafe(fn, e, last, depth+1); why != "" {
				return why
			}
		}
		return ""
	case *ssa.UnOp:
		if x.Op != token.MUL {
			break
		}
		switch a := x.X.(type) {
		case *ssa.Alloc:
			return cellUnsafeAt(fn, a, at, depth)
		case *ssa.FreeVar:
			parent := fn.Parent()
			if parent == nil {
				break
			}
			idx := -1
			for i, fv := range fn.FreeVars {
				if fv == a {
					idx = i
				}
			}
			found := false
			var why string
			for _, pf := range withAnon(parent) {
				allInstrs(pf, func(in ssa.Instruction) {
					mc, ok := in.(*ssa.MakeClosure)
					if !ok || mc.Fn != ssa.Value(fn) || idx < 0 || why != "" {
						return
					}
					found = true
					cell, isA := mc.Bindings[idx].(*ssa.Alloc)
					if !isA || pf != parent {
						why = "is a captured variable that could not be traced"
						return
					}
					if w := cellUnsafeAt(parent, cell, mc, depth+1); w != "" {
						why = "is a captured variable that " + w + " when the closure is created (a deferred closure runs on every later return)"
						return
					}
					isStore := func(in ssa.Instruction) bool {
						st, ok := in.(*ssa.Store)
						return ok && st.Addr == ssa.Value(cell)
					}
					if _, again := ir.PathExists([]ir.Pt{ir.After(mc)}, ir.Opts{}, isStore); again {
						why = "is a captured variable that is reassigned after the closure is created"
					}
				})
			}
			if !found && why == "" {
				why = "is a captured variable that could not be traced"
			}
			return why
		}
	}
	return "could not be traced to a constructor"
}

// cellUnsafeAt: the local variable cell may hold something else than a live handle when `at` executes.
func cellUnsafeAt(fn *ssa.Function, cell *ssa.Alloc, at ssa.Instruction, depth int) string {
	var stores []*ssa.Store
	for _, ref := range *cell.Referrers() {
		switch x := ref.(type) {
		case *ssa.Store:
			if x.Addr == ssa.Value(cell) {
				stores = append(stores, x)
			}
		case *ssa.MakeClosure:
			// a closure that writes the cell: give up
			cf, _ := x.Fn.(*ssa.Function)
			for i, b := range x.Bindings {
				if b != ssa.Value(cell) || cf == nil {
					continue
				}
				for _, sub := range withAnon(cf) {
					writes := false
					allInstrs(sub, func(in ssa.Instruction) {
						if st, ok := in.(*ssa.Store); ok && sub == cf && st.Addr == ssa.Value(cf.FreeVars[i]) {
							writes = true
						}
					})
					if writes {
						return "is written by a closure (not traced)"
					}
				}
			}
		}
	}
	isStore := func(in ssa.Instruction) bool {
		st, ok := in.(*ssa.Store)
		return ok && st.Addr == ssa.Value(cell)
	}
	isAt := func(in ssa.Instruction) bool { return in == at }
	if _, zero := ir.PathExists([]ir.Pt{ir.After(cell)}, ir.Opts{Stop: isStore}, isAt); zero {
		return "can still hold its zero value nil (no constructor has run on some path)"
	}
	for _, st := range stores {
		if _, reaches := ir.PathExists([]ir.Pt{ir.After(st)}, ir.Opts{Stop: isStore}, isAt); !reaches {
			continue
		}
		if ir.IsNilConst(st.Val) {
			return "was set to nil"
		}
		if ex, ok := st.Val.(*ssa.Extract); ok && ex.Index == 0 {
			if c, isC := ex.Tuple.(*ssa.Call); isC {
				if errNilGuarded(fn, c, at) {
					continue
				}
				return fmt.Sprintf("comes from %s whose error is not checked on every path to the call (nil on failure)", ir.CallName(c.Common()))
			}
		}
		if why := handleUnsafe(fn, st.Val, st, depth+1); why != "" {
			return why
		}
	}
	return ""
}

// pathNilStatus explores every path from the function's entry to `at` with the path environment (constants and nil
// facts per phi, facts about tested values, err == nil ⇒ value != nil for (value, error) calls) and reports whether
// the receiver is non-nil on all of them ("safe"), nil on one ("nil"), or not decided this way ("unknown").
func pathNilStatus(fn *ssa.Function, recv ssa.Value, at ssa.Instruction) string {
	recv = ir.Strip(recv)
	seen, sawNil, sawUnknown := false, false, false
	ph, isPhi := recv.(*ssa.Phi)
	opts := ir.Opts{ErrNilImpliesValue: true}
	if isPhi {
		var last func(*ssa.Phi) (ssa.Value, bool)
		opts.Observe = func(in ssa.Instruction, phiVal func(*ssa.Phi) (ssa.Value, bool)) {
			if in == at {
				last = phiVal
			}
		}
		opts.ObserveFacts = func(in ssa.Instruction, fact func(ssa.Value) (bool, bool)) {
			if in != at || last == nil {
				return
			}
			seen = true
			v, known := last(ph)
			switch {
			case !known:
				sawUnknown = true
			case ir.IsNilConst(v):
				sawNil = true
			default:
				if nn, ok := fact(v); !ok || !nn {
					if _, isC := v.(*ssa.Const); isC {
						sawNil = true
					} else {
						sawUnknown = true
					}
				}
			}
		}
	} else {
		if _, isLoad := recv.(*ssa.UnOp); isLoad {
			return "unknown"
		}
		if ir.IsNilConst(recv) {
			return "nil"
		}
		opts.ObserveFacts = func(in ssa.Instruction, fact func(ssa.Value) (bool, bool)) {
			if in != at {
				return
			}
			seen = true
			nn, ok := fact(recv)
			switch {
			case !ok:
				sawUnknown = true
			case !nn:
				sawNil = true
			}
		}
	}
	ir.Reach([]ir.Pt{ir.Entry(fn)}, opts)
	switch {
	case sawNil:
		return "nil"
	case !seen || sawUnknown:
		return "unknown"
	}
	return "safe"
}
