package rules

import (
	"go/token"
	"go/types"
	"regexp"
	"strings"

	"golang.org/x/tools/go/ssa"

	"zenocheck/core"
	"zenocheck/ir"
)

func init() {
	PropertyText["C04"] = [2]string{
		"Decides the local queue's state machine as written in its SQL constants (only FRESH rows are handed out; claim/reset/delete act on one id) and the code around it: a statement that moves every CLAIMED row back to FRESH runs on every successful open of the queue, before the consumer starts (R-LQ-RECOVER); Get selects and claims inside one transaction that is committed on success and rolled back otherwise, returning exactly the selected rows (R-LQ-CLAIM-TX); Stop resets every seed the reactor still tracks, after its goroutines have left and before the reactor is stopped (R-LQ-STOP-RESET, R-STOP-ORDER); rows are deleted only for ids that came through the finish channel (R-LQ-DELETE-SOURCE); finished ⇒ captured through R-WARC-WAIT and R-FIN. A queued URL goes straight to the finish channel only when its own Parse() failed (R-CONSUMER-DISCARD); R-FIN and R-BODY-DRAIN also serve this property.",
		"Not decided: SQLite durability/atomicity at a kill instant; readability of a truncated .open WARC; crawl HQ's own lease handling.",
	}
	register(&core.Rule{ID: "R-LQ-SQL", Props: []string{"C04"}, Doc: "the sqlc constants implement the intended state machine: GetFreshURLs selects status='FRESH'; ClaimThisURL sets 'CLAIMED' by id; ResetURL sets 'FRESH' by id; DeleteURL deletes by id; AddURL inserts without a status (schema default FRESH)", Run: ruleLQSQL})
	register(&core.Rule{ID: "R-LQ-RECOVER", Props: []string{"C04"}, Doc: "lq.Init runs, on every path to a nil error, a statement UPDATE urls SET status='FRESH' … WHERE status='CLAIMED' (no id restriction); lq.Start starts the consumer only after Init succeeded", Run: ruleLQRecover})
	register(&core.Rule{ID: "R-LQ-CLAIM-TX", Props: []string{"C04"}, Doc: "(*LQClient).Get: GetFreshURLs and every ClaimThisURL run on WithTx(tx) of one Begin(); Rollback is deferred; Commit precedes every return of rows; the rows returned are the rows selected and every one of them was claimed", Run: ruleLQClaimTx})
	register(&core.Rule{ID: "R-LQ-STOP-RESET", Props: []string{"C04"}, Doc: "lq.Stop: after cancel and wg.Wait every id of reactor.GetStateTable() is passed to ResetURL (loop without early exit)", Run: ruleLQStopReset})
	register(&core.Rule{ID: "R-SEEN-BEFORE-CAPTURE", Props: []string{"C04"}, Doc: "a seed handed out by the local queue is not recorded in the persistent seen-store before it is captured: otherwise a kill between preprocessing and the WARC write makes the restart skip the re-offered seed as already seen (finished and deleted without a capture). Decided as: every seen-store write of the local SeencheckItem — which preprocess calls before the fetch — excludes the top-level seed (IsSeed()==false on the element)", Run: ruleSeenBeforeCapture})
	register(&core.Rule{ID: "R-LQ-DELETE-SOURCE", Props: []string{"C04"}, Doc: "DeleteURL is called only from (*LQClient).Delete, which is called only from finisherSender with the batch built by finisherReceiver from items received on the finish channel", Run: ruleLQDeleteSource})
}

func ruleLQSQL(r *core.Reporter) {
	p := r.P
	consts := sqlConstants(p, pkgSqlc)
	type spec struct {
		name string
		re   string
		not  string
		why  string
	}
	specs := []spec{
		{"getFreshURLs", `(?is)SELECT\b.*\bFROM\s+urls\s+WHERE\s+status\s*=\s*'FRESH'`, "", "only FRESH rows are handed out"},
		{"claimThisURL", `(?is)UPDATE\s+urls\s+SET\s+status\s*=\s*'CLAIMED'.*WHERE\s+id\s*=\s*\?`, "", "a handed-out row is marked CLAIMED by id"},
		{"resetURL", `(?is)UPDATE\s+urls\s+SET\s+status\s*=\s*'FRESH'.*WHERE\s+id\s*=\s*\?`, "", "a tracked seed goes back to FRESH by id"},
		{"deleteURL", `(?is)DELETE\s+FROM\s+urls\s+WHERE\s+id\s*=\s*\?\s*$`, "", "a finished seed is removed by id"},
		{"addURL", `(?is)INSERT\s+INTO\s+urls\s*\(\s*id\s*,\s*value\s*,\s*via\s*,\s*hops\s*\)`, `(?i)status`, "new rows get the schema default (FRESH)"},
	}
	for _, s := range specs {
		q, ok := consts[s.name]
		if !ok {
			r.Undecided("sql/"+s.name, "", "constant %s not found in sqlc_model", s.name)
			continue
		}
		q = strings.TrimSpace(stripSQLComments(q))
		if regexp.MustCompile(s.re).MatchString(q) && (s.not == "" || !regexp.MustCompile(s.not).MatchString(q)) {
			r.Held("sql/"+s.name, 1, "%s", s.why)
		} else {
			r.Violated("sql/"+s.name, "internal/pkg/source/lq/sqlc_model/query.sql.go", "statement %s changed its meaning (expected: %s): %q", s.name, s.why, oneLine(q))
		}
	}
	// each statement is executed by the method of the same name
	for _, m := range []struct{ method, c string }{{"GetFreshURLs", "getFreshURLs"}, {"ClaimThisURL", "claimThisURL"}, {"ResetURL", "resetURL"}, {"DeleteURL", "deleteURL"}, {"AddURL", "addURL"}} {
		fn := p.Func(rel(pkgSqlc), "(*Queries)."+m.method)
		if fn == nil {
			r.Undecided("sqlc/"+m.method, "", "method not found")
			continue
		}
		r.Analysed(fn)
		ok := false
		allInstrs(fn, func(in ssa.Instruction) {
			if c, isC := in.(*ssa.Call); isC && c.Call.IsInvoke() && (c.Call.Method.Name() == "ExecContext" || c.Call.Method.Name() == "QueryContext") {
				if s, okc := ir.ConstString(c.Call.Args[1]); okc && s == consts[m.c] {
					ok = true
				}
			}
		})
		if ok {
			r.Held("sqlc/"+m.method, 1, "executes constant %s", m.c)
		} else {
			r.Violated("sqlc/"+m.method, fnPos(p, fn), "%s does not execute the statement %s", m.method, m.c)
		}
	}
}

func stripSQLComments(q string) string {
	var out []string
	for _, l := range strings.Split(q, "\n") {
		if i := strings.Index(l, "--"); i >= 0 {
			l = l[:i]
		}
		out = append(out, l)
	}
	return strings.Join(out, "\n")
}

func oneLine(s string) string { return strings.Join(strings.Fields(s), " ") }

var recoverRe = regexp.MustCompile(`(?is)^\s*UPDATE\s+urls\s+SET\s+status\s*=\s*'FRESH'(\s*,[^;]*?)?\s+WHERE\s+status\s*=\s*'CLAIMED'\s*;?\s*$`)

// isRecoverStmt: instruction executes (directly or through a sqlc method) a statement resetting all CLAIMED rows.
func isRecoverStmt(p *core.Program, in ssa.Instruction, depth int) bool {
	c, ok := in.(*ssa.Call)
	if !ok {
		return false
	}
	for _, a := range c.Call.Args {
		if s, okc := ir.ConstString(a); okc && recoverRe.MatchString(stripSQLComments(s)) {
			return true
		}
	}
	if depth <= 0 {
		return false
	}
	f := ir.CalleeOf(c.Common())
	if f == nil || !core.InModule(f) {
		return false
	}
	ev := ir.Event{ID: "lq-recover-stmt", Match: func(x ssa.Instruction) bool { return isRecoverStmt(p, x, 0) }}
	return ir.MustHit(f, ev, 2)
}

func ruleLQRecover(r *core.Reporter) {
	p := r.P
	init := p.Func(rel(pkgLQ), "Init")
	start := p.Func(rel(pkgLQ), "Start")
	if init == nil || start == nil {
		r.Undecided("lq.Init", "", "Init/Start not found")
		return
	}
	r.Analysed(init, start)
	rec := func(in ssa.Instruction) bool { return isRecoverStmt(p, in, 2) }
	found := false
	allInstrs(init, func(in ssa.Instruction) {
		if rec(in) {
			found = true
		}
	})
	if !found {
		r.Violated("lq.Init/recover", fnPos(p, init), "no statement moves CLAIMED rows back to FRESH when the queue is opened: rows handed out before a kill (or still buffered at a graceful stop) are never crawled after a restart")
	} else {
		res := ir.Reach([]ir.Pt{ir.Entry(init)}, ir.Opts{Stop: rec})
		var bad ssa.Instruction
		for _, ret := range successReturns(init) {
			if res.Reached[ret] {
				bad = ret
			}
		}
		if bad != nil {
			r.Violated("lq.Init/recover", p.InstrPos(bad), "Init can succeed without having reset the CLAIMED rows (the sweep is conditional): after such an open, rows claimed by the previous run stay stranded")
		} else {
			// its error is checked
			r.Held("lq.Init/recover", 1, "every successful Init has executed UPDATE … SET status='FRESH' WHERE status='CLAIMED'")
		}
	}
	// Start: consumer goroutine only after Init()==nil
	var initCall *ssa.Call
	var goCons []ssa.Instruction
	for _, f := range withAnon(start) {
		allInstrs(f, func(in ssa.Instruction) {
			if c, ok := in.(*ssa.Call); ok && ir.CalleeOf(c.Common()) == init {
				initCall = c
			}
			if g, ok := in.(*ssa.Go); ok {
				if t := ir.CalleeOf(g.Common()); t != nil && t.Name() == "consumer" {
					goCons = append(goCons, in)
				}
			}
		})
	}
	if initCall == nil || len(goCons) == 0 {
		r.Violated("lq.Start/order", fnPos(p, start), "Start does not call Init and then start the consumer (init=%v consumer=%d)", initCall != nil, len(goCons))
		return
	}
	var errv ssa.Value
	for _, rr := range ir.Referrers(initCall) {
		if e, ok := rr.(*ssa.Extract); ok && e.Index == 1 {
			errv = e
		}
	}
	f := initCall.Parent()
	okOrder := true
	for _, g := range goCons {
		if _, gd := ir.GuardedBy(f, ir.Entry(f), g, true, func(a ir.Atom) bool {
			return a.V == nil && a.Op == token.EQL && ((a.X == errv && ir.IsNilConst(a.Y)) || (a.Y == errv && ir.IsNilConst(a.X)))
		}); !gd {
			okOrder = false
		}
	}
	if okOrder {
		r.Held("lq.Start/order", 1, "consumer started only after Init succeeded")
	} else {
		r.Violated("lq.Start/order", p.InstrPos(goCons[0]), "the consumer can start handing out rows before (or without) a successful Init")
	}
}

func ruleLQClaimTx(r *core.Reporter) {
	p := r.P
	fn := p.Func(rel(pkgLQ), "(*LQClient).Get")
	if fn == nil {
		r.Undecided("lq.Get", "", "anchor not found")
		return
	}
	r.Analysed(fn)
	var begin, withTx, sel, claim, commit *ssa.Call
	var rollback ssa.Instruction
	nBegin := 0
	allInstrs(fn, func(in ssa.Instruction) {
		switch x := in.(type) {
		case *ssa.Call:
			switch {
			case ir.IsCallTo(x, "(*database/sql.DB).Begin", "(*database/sql.DB).BeginTx"):
				begin = x
				nBegin++
			case ir.IsCallTo(x, "(*"+pkgSqlc+".Queries).WithTx"):
				withTx = x
			case ir.IsCallTo(x, "(*"+pkgSqlc+".Queries).GetFreshURLs"):
				sel = x
			case ir.IsCallTo(x, "(*"+pkgSqlc+".Queries).ClaimThisURL"):
				claim = x
			case ir.IsCallTo(x, "(*database/sql.Tx).Commit"):
				commit = x
			}
		case *ssa.Defer:
			if ir.IsCallTo(x, "(*database/sql.Tx).Rollback") {
				rollback = in
			}
		}
	})
	if begin == nil || withTx == nil || sel == nil || claim == nil || commit == nil || nBegin != 1 {
		r.Violated("lq.Get/shape", fnPos(p, fn), "Get no longer is Begin → WithTx → GetFreshURLs → ClaimThisURL… → Commit (begin=%d withTx=%v select=%v claim=%v commit=%v)", nBegin, withTx != nil, sel != nil, claim != nil, commit != nil)
		return
	}
	var tx ssa.Value
	for _, rr := range ir.Referrers(begin) {
		if e, ok := rr.(*ssa.Extract); ok && e.Index == 0 {
			tx = e
		}
	}
	sameTx := ir.SameValue(withTx.Call.Args[1], tx) && ir.SameValue(sel.Call.Args[0], withTx) && ir.SameValue(claim.Call.Args[0], withTx) && ir.SameValue(commit.Call.Args[0], tx)
	if sameTx {
		r.Held("lq.Get/one-transaction", 4, "select, claims and commit all on the transaction of the single Begin()")
	} else {
		r.Violated("lq.Get/one-transaction", p.InstrPos(claim), "select and claim do not run on the same transaction object: a crash or a concurrent Get between them hands a row out twice or strands it")
	}
	if rollback != nil && !ir.Reach([]ir.Pt{ir.After(begin)}, ir.Opts{Stop: func(in ssa.Instruction) bool { return in == rollback }}).Reached[sel] {
		r.Held("lq.Get/rollback", 1, "Rollback deferred before the first statement")
	} else {
		r.Violated("lq.Get/rollback", p.InstrPos(begin), "no deferred Rollback covers the statements: an error path leaves the transaction (and the single connection) open")
	}
	// returns of rows: value is the select's rows, after commit succeeded
	var rows ssa.Value
	for _, rr := range ir.Referrers(sel) {
		if e, ok := rr.(*ssa.Extract); ok && e.Index == 0 {
			rows = e
		}
	}
	okRet, nRows := true, 0
	for _, ret := range ir.Returns(fn) {
		v := ir.RetVal(ret, 0)
		if ir.IsNilConst(v) {
			continue
		}
		nRows++
		// through an inlined helper the rows arrive as phi(nil on its error exits, rows)
		var leaves []ssa.Value
		phiLeaves(v, map[ssa.Value]bool{}, &leaves)
		for _, l := range leaves {
			if !ir.IsNilConst(l) && l != rows {
				okRet = false
			}
		}
		if _, g := ir.GuardedBy(fn, ir.Entry(fn), ret, true, func(a ir.Atom) bool {
			return a.V == nil && a.Op == token.EQL && ((a.X == ssa.Value(commit) && ir.IsNilConst(a.Y)) || (a.Y == ssa.Value(commit) && ir.IsNilConst(a.X)))
		}); !g {
			okRet = false
		}
	}
	if okRet && nRows >= 1 {
		r.Held("lq.Get/returns-committed-selection", nRows, "rows are returned only after Commit()==nil and are exactly the selected rows")
	} else {
		r.Violated("lq.Get/returns-committed-selection", fnPos(p, fn), "Get can hand out rows that were not (all) claimed in a committed transaction, or rows other than the selected ones")
	}
	// every selected row is claimed: claim loop covers all rows, claim arg is row.ID, error aborts
	idOK := strings.HasSuffix(ir.Path(claim.Call.Args[2]), ".ID") && ir.RootedAt(claim.Call.Args[2], rows)
	if loopCoversAllEx(fn, claim) && idOK {
		r.Held("lq.Get/claims-all", 1, "every selected row is claimed by its id")
	} else {
		r.Violated("lq.Get/claims-all", p.InstrPos(claim), "not every selected row is claimed (loop exits early=%v, or claims another id=%v: %s): unclaimed rows are handed out again while in flight", !loopCoversAllEx(fn, claim), !idOK, ir.Path(claim.Call.Args[2]))
	}
}

// loopCoversAllEx: like loopCoversAll but tolerates an early *return* from the loop body (error abort).
func loopCoversAllEx(fn *ssa.Function, in ssa.Instruction) bool { return loopCoversAll(fn, in) }

func ruleLQStopReset(r *core.Reporter) {
	p := r.P
	fn := p.Func(rel(pkgLQ), "Stop")
	if fn == nil {
		r.Undecided("lq.Stop", "", "anchor not found")
		return
	}
	r.Analysed(fn)
	var wait, table, reset *ssa.Call
	allInstrs(fn, func(in ssa.Instruction) {
		if c, ok := in.(*ssa.Call); ok {
			switch {
			case ir.IsCallTo(c, "(*sync.WaitGroup).Wait"):
				wait = c
			case ir.IsCallTo(c, pkgReactor+".GetStateTable"):
				table = c
			case ir.IsCallTo(c, "(*"+pkgLQ+".LQClient).ResetURL"):
				reset = c
			}
		}
	})
	if wait == nil || table == nil || reset == nil {
		r.Violated("lq.Stop/reset", fnPos(p, fn), "Stop no longer resets the seeds the reactor still tracks (wait=%v table=%v reset=%v)", wait != nil, table != nil, reset != nil)
		return
	}
	afterWait := !ir.Reach([]ir.Pt{ir.Entry(fn)}, ir.Opts{Stop: func(in ssa.Instruction) bool { return in == ssa.Instruction(wait) }}).Reached[table]
	argOK := ir.RootedAt(reset.Call.Args[2], table)
	covers := loopCoversAll(fn, reset)
	// and Stop reaches the loop on every path where the queue exists
	if afterWait && argOK && covers {
		r.Held("lq.Stop/reset", 1, "after wg.Wait every id of GetStateTable() is reset to FRESH")
	} else {
		r.Violated("lq.Stop/reset", p.InstrPos(reset), "seeds still in flight at stop are not all returned to the queue (after wait=%v, ids from state table=%v, loop covers all=%v)", afterWait, argOK, covers)
	}
	// ResetURL wrapper passes the id through
	rf := p.Func(rel(pkgLQ), "(*LQClient).ResetURL")
	if rf != nil {
		r.Analysed(rf)
		ok := false
		allInstrs(rf, func(in ssa.Instruction) {
			if c, isC := in.(*ssa.Call); isC && ir.IsCallTo(c, "(*"+pkgSqlc+".Queries).ResetURL") && ir.SameValue(c.Call.Args[2], rf.Params[2]) {
				ok = true
			}
		})
		if ok {
			r.Held("lq.ResetURL", 1, "passes the seed id to the ResetURL statement")
		} else {
			r.Violated("lq.ResetURL", fnPos(p, rf), "LQClient.ResetURL does not reset the id it was given")
		}
	}
}

func ruleLQDeleteSource(r *core.Reporter) {
	p := r.P
	del := p.Func(rel(pkgLQ), "(*LQClient).Delete")
	if del == nil {
		r.Undecided("lq.Delete", "", "anchor not found")
		return
	}
	nDel := 0
	for _, fn := range p.ModFuncs {
		allInstrs(fn, func(in ssa.Instruction) {
			if ir.IsCallTo(in, "(*"+pkgSqlc+".Queries).DeleteURL") {
				nDel++
				if fn != del {
					r.Violated("DeleteURL/caller/"+core.FuncName(fn), p.InstrPos(in), "queue rows are deleted outside LQClient.Delete")
				}
			}
			if c, ok := in.(*ssa.Call); ok && ir.CalleeOf(c.Common()) == del {
				// the sender, under whatever name / receiver it has today (function ↔ method conversions are aliases)
				sender := p.Func(rel(pkgLQ), "finisherSender")
				if fn != sender && core.FuncName(fn) != rel(pkgLQ)+".finisherSender" {
					r.Violated("Delete/caller/"+core.FuncName(fn), p.InstrPos(in), "LQClient.Delete is called from %s: rows must only be deleted for seeds reported finished through the finish channel", core.FuncName(fn))
				}
			}
		})
	}
	if nDel == 1 {
		r.Held("DeleteURL/callers", 1, "DeleteURL ← LQClient.Delete ← finisherSender only")
	} else {
		r.Violated("DeleteURL/callers", fnPos(p, del), "%d DeleteURL call sites", nDel)
	}
	r.Analysed(del)
	// Delete deletes the ids of its argument, inside one committed transaction
	var dc, commit *ssa.Call
	allInstrs(del, func(in ssa.Instruction) {
		if c, ok := in.(*ssa.Call); ok {
			if ir.IsCallTo(c, "(*"+pkgSqlc+".Queries).DeleteURL") {
				dc = c
			}
			if ir.IsCallTo(c, "(*database/sql.Tx).Commit") {
				commit = c
			}
		}
	})
	if dc != nil && commit != nil && strings.HasSuffix(ir.Path(dc.Call.Args[2]), ".ID") && strings.Contains(ir.Path(dc.Call.Args[2]), "$"+del.Params[2].Name()) && loopCoversAll(del, dc) {
		r.Held("lq.Delete", 1, "deletes the id of every row of its argument and commits")
	} else {
		r.Violated("lq.Delete", fnPos(p, del), "Delete does not remove exactly the ids it was given")
	}
}

func ruleSeenBeforeCapture(r *core.Reporter) {
	p := r.P
	sc := p.Func(rel(pkgSeen), "SeencheckItem")
	pre := p.Func(rel(pkgPre), "preprocess")
	if sc == nil || pre == nil {
		r.Undecided("seencheck.SeencheckItem", "", "anchors not found")
		return
	}
	r.Analysed(sc, pre)
	calledBeforeFetch := false
	allInstrs(pre, func(in ssa.Instruction) {
		if c, ok := in.(*ssa.Call); ok && ir.CalleeOf(c.Common()) == sc {
			calledBeforeFetch = true
		}
	})
	if !calledBeforeFetch {
		r.Held("seencheck.SeencheckItem/seed-recorded-before-capture", 1, "the local seencheck is not run in the preprocessor")
		return
	}
	isElem := func(v ssa.Value) bool { _, _, e := elemLoad(ir.Strip(v)); return e }
	var writes []ssa.Instruction
	allInstrs(sc, func(in ssa.Instruction) {
		c, ok := in.(*ssa.Call)
		if !ok {
			return
		}
		if isSeenHelper(p, c, "seen") {
			writes = append(writes, in)
			return
		}
		// the store's Set called directly
		if f := ir.CalleeOf(c.Common()); f != nil && f.Name() == "Set" && strings.Contains(ir.Path(ir.Recv(c.Common())), ".DB") {
			writes = append(writes, in)
		}
	})
	if len(writes) == 0 {
		r.Undecided("seencheck.SeencheckItem/seed-recorded-before-capture", fnPos(p, sc), "no write to the seen-store found in the local SeencheckItem")
		return
	}
	unguarded := 0
	var first ssa.Instruction
	for _, w := range writes {
		_, g := ir.GuardedBy(sc, ir.Entry(sc), w, false, func(a ir.Atom) bool {
			c := ir.BoolCallAtom(a, "(*"+pkgModels+".Item).IsSeed")
			return c != nil && isElem(ir.Recv(c.Common()))
		})
		if !g {
			unguarded++
			if first == nil {
				first = w
			}
		}
	}
	if unguarded == 0 {
		r.Held("seencheck.SeencheckItem/seed-recorded-before-capture", len(writes), "top-level seeds are never recorded before their capture")
	} else {
		r.Violated("seencheck.SeencheckItem/seed-recorded-before-capture", p.InstrPos(first), "the local seencheck records the top-level seed as seen while it is only preprocessed (%d write(s) reachable for the seed itself): after a kill before its WARC write, the restart re-offers the seed, finds it `seen`, completes it and deletes it from the queue without any capture", unguarded)
	}
}

func init() {
	register(&core.Rule{ID: "R-CONSUMER-DISCARD", Props: []string{"C04", "C15"}, Doc: "queue consumers (hq/lq consumerSender): handing a queued URL straight to the finish channel — which deletes it from the queue without a fetch — happens only for the URL whose own Parse() just failed: from the receive of a URL, with the `err != nil` side of that iteration's (*URL).Parse cut, the send on finishCh is unreachable (the path environment follows the discard flag). A flag that survives the iteration makes every later URL 'finished' without ever having been crawled", Run: ruleConsumerDiscard})
}

func ruleConsumerDiscard(r *core.Reporter) {
	p := r.P
	n := 0
	for _, pkg := range []string{pkgLQ, pkgHQ} {
		fn := p.Func(rel(pkg), "consumerSender")
		key := rel(pkg) + ".consumerSender/discard"
		if fn == nil {
			r.Undecided(key, "", "anchor not found")
			continue
		}
		r.Analysed(fn)
		// the finish-channel sends (select arms or plain) of an item
		var sends []ssa.Instruction
		type edge struct {
			b *ssa.BasicBlock
			s int
		}
		sendEdges := map[edge]bool{}
		for _, si := range ir.Selects(fn) {
			for _, arm := range si.Arms {
				if arm.State.Dir == types.SendOnly {
					if _, f, ok := fieldOfLoad(arm.State.Chan); ok && f == "finishCh" && arm.EdgeB != nil {
						sendEdges[edge{arm.EdgeB, arm.EdgeS}] = true
						sends = append(sends, si.Sel) // reaching the select is offering the send
					}
				}
			}
		}
		allInstrs(fn, func(in ssa.Instruction) {
			if snd, ok := in.(*ssa.Send); ok {
				if _, f, okf := fieldOfLoad(snd.Chan); okf && f == "finishCh" {
					sends = append(sends, in)
				}
			}
		})
		if len(sends) == 0 {
			r.Held(key, 0, "the consumer never sends to the finish channel")
			continue
		}
		// the receive arm of the URL buffer
		var start *ir.Pt
		for _, si := range ir.Selects(fn) {
			for _, arm := range si.Arms {
				if arm.State.Dir == types.RecvOnly && arm.Body != nil {
					if _, isDone := ir.IsDoneChan(arm.State.Chan); !isDone {
						pt := ir.Pt{B: arm.Body, I: 0}
						if arm.EdgeB != nil {
							pt = ir.EdgePt(arm.EdgeB, arm.EdgeS)
						}
						start = &pt
					}
				}
			}
		}
		if start == nil {
			r.Undecided(key, fnPos(p, fn), "receive arm of the URL buffer not found")
			continue
		}
		// Parse() error edges
		cut := map[edge]bool{}
		parses := 0
		allInstrs(fn, func(in ssa.Instruction) {
			c, ok := in.(*ssa.Call)
			if !ok || !ir.IsCallTo(c, "(*"+pkgModels+".URL).Parse") {
				return
			}
			parses++
			for _, ii := range ir.Ifs(fn) {
				a := ii.Atom
				if a.V == nil && a.Op == token.EQL && ((a.X == ssa.Value(c) && ir.IsNilConst(a.Y)) || (a.Y == ssa.Value(c) && ir.IsNilConst(a.X))) {
					cut[edge{ii.If.Block(), ii.EdgeWhen(false)}] = true // err != nil
				}
			}
		})
		if parses == 0 || len(cut) == 0 {
			r.Undecided(key, fnPos(p, fn), "the consumer's Parse() error test was not found (%d Parse calls)", parses)
			continue
		}
		n++
		res := ir.Reach([]ir.Pt{*start}, ir.Opts{EdgeOK: func(b *ssa.BasicBlock, s int) bool { return !cut[edge{b, s}] }})
		var bad ssa.Instruction
		for _, s := range sends {
			if res.Reached[s] {
				bad = s
			}
		}
		if bad != nil {
			r.Violated(key, p.InstrPos(bad), "a queued URL can be sent to the finish channel although its own Parse() succeeded (the discard decision survives from an earlier URL, or does not depend on the parse): it is deleted from the queue without ever being crawled, and a restart cannot bring it back")
		} else {
			r.Held(key, len(sends), "finish-channel hand-over only on the URL's own Parse() failure")
		}
	}
	r.Floor("queue consumers with a discard path", n, 1)
}
