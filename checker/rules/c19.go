package rules

import (
	"go/token"
	"go/types"
	"strings"

	"golang.org/x/tools/go/ssa"

	"zenocheck/core"
	"zenocheck/ir"
)

func init() {
	PropertyText["C19"] = [2]string{
		"Decides the exhaustiveness and agreement of the structured-document extractors: findURLs has arms for string, array and object, recurses into every element of both containers and tries the embedded-JSON decode for non-URL strings behind a purely syntactic likeness test (R-JSON-KINDS); XML reads every attribute of every start element and every character-data token (R-XML-TOKENS); M3U8 walks all segments, all variants and all alternatives (R-M3U8-KINDS); JSON and XML classify with the same hasFileExtension and put every string in exactly one of assets/outlinks (R-ASSET-OUTLINK-SPLIT); the dispatch switches test the more specific formats first (R-DISPATCH-ORDER); S3 handlers use each content-bearing field of the listing independently of the others, never rewrite the decoded listing, emit object links exactly for Size>0 and the next-page link whenever the page says there is more, changing only the paging parameter (R-S3-FIELDS). JSON embedded in strings is decoded at every depth: the recursion is skipped only for URLs, non-JSON-looking strings and decode errors. The body of every kind of document an extractor is dispatched for passes ProcessBody's keep-test, evaluated on the type the content sniffer assigns to it, read from the linked mimetype module (R-BODY-KEPT). The shared string de-duplicator merges only identical strings (R-DEDUPE-EXACT); predicates consulted before IsHTML look at the document (R-DISPATCH-BEFORE-HTML). Each S3 listing link is encoded from its own Query() (R-S3-FRESH-QUERY); content types are compared case-insensitively on both sides (R-CONTENT-TYPE-FOLD); the shared body is rewound by every reader (R-BODY-REWIND).",
		"Not decided: that pagination terminates (depends on the server and on seencheck), the URL-likeness heuristics themselves (isValidURL, LinkRegexStrict), third-party playlist decoding.",
	}
	register(&core.Rule{ID: "R-JSON-KINDS", Props: []string{"C19"}, Doc: "findURLs: type switch covers string, []interface{} and map[string]interface{}; both container arms recurse on every element; the string arm appends URLs and otherwise decodes embedded JSON when isLikelyJSON, whose tests only look at length, first/last byte and the presence of a double quote", Run: ruleJSONKinds})
	register(&core.Rule{ID: "R-XML-TOKENS", Props: []string{"C19"}, Doc: "XML: the RawToken loop ends only at EOF or on error; StartElement: every attribute value starting with http is collected; CharData: collected when it starts with http, else scanned with the link regexp", Run: ruleXMLTokens})
	register(&core.Rule{ID: "R-M3U8-KINDS", Props: []string{"C19"}, Doc: "M3U8: MEDIA → every segment URI; MASTER → every variant URI and every alternative URI (loops cover all elements, only nil/empty-URI skips)", Run: ruleM3U8Kinds})
	register(&core.Rule{ID: "R-ASSET-OUTLINK-SPLIT", Props: []string{"C19"}, Doc: "GetURLsFromJSON and XML: each discovered string is appended to exactly one of assets/outlinks, decided by hasFileExtension on that string, in a loop covering all strings", Run: ruleAssetOutlinkSplit})
	register(&core.Rule{ID: "R-DISPATCH-ORDER", Props: []string{"C19"}, Doc: "extractAssets tests M3U8 before JSON before XML before HTML, with the site-specific detectors first; extractOutlinks tests S3 before sitemap before HTML", Run: ruleDispatchOrder})
	register(&core.Rule{ID: "R-S3-FIELDS", Props: []string{"C19"}, Doc: "s3Legacy/s3V2: the loop over Contents is not control-dependent on CommonPrefixes (and vice versa); no store rewrites the decoded listing's fields; object links under Size > 0 only; next-page link under len(Contents)>0 (legacy, marker = last key of the unfiltered page) / IsTruncated && token != \"\" (V2), built from the request URL with only marker / continuation-token / prefix replaced", Run: ruleS3Fields})
}

func ruleJSONKinds(r *core.Reporter) {
	p := r.P
	fn := p.Func(rel(pkgExtractor), "findURLs")
	if fn == nil {
		r.Undecided("extractor.findURLs", "", "anchor not found")
		return
	}
	r.Analysed(fn)
	arms := map[string]*ssa.TypeAssert{}
	allInstrs(fn, func(in ssa.Instruction) {
		if ta, ok := in.(*ssa.TypeAssert); ok && ir.SameValue(ta.X, fn.Params[0]) {
			arms[ta.AssertedType.String()] = ta
		}
	})
	for _, want := range []string{"string", "[]interface{}", "map[string]interface{}"} {
		if arms[want] == nil && arms[strings.ReplaceAll(want, "interface{}", "any")] == nil {
			r.Violated("findURLs/kind/"+want, fnPos(p, fn), "findURLs has no arm for JSON values of kind %s: URLs inside such values are never discovered", want)
		} else {
			r.Held("findURLs/kind/"+want, 1, "arm present")
		}
	}
	// recursion in both container arms covers all elements
	var recs []*ssa.Call
	allInstrs(fn, func(in ssa.Instruction) {
		if c, ok := in.(*ssa.Call); ok && ir.CalleeOf(c.Common()) == fn {
			recs = append(recs, c)
		}
	})
	sliceRec, mapRec, strRec := false, false, false
	for _, c := range recs {
		arg := c.Call.Args[0]
		if _, _, isEl := elemLoad(arg); isEl && loopCoversAll(fn, c) {
			sliceRec = true
		}
		if ex, isE := arg.(*ssa.Extract); isE {
			if nx, isNext := ex.Tuple.(*ssa.Next); isNext && !nx.IsString {
				// map range: the loop leaves only when Next says so
				okLoop := true
				for _, ii := range ir.Ifs(fn) {
					if e2, ok2 := ii.Atom.V.(*ssa.Extract); ok2 && e2.Tuple == ssa.Value(nx) {
						body := ir.EdgePt(ii.If.Block(), ii.EdgeWhen(true))
						rs := ir.Reach([]ir.Pt{body}, ir.Opts{Stop: func(x ssa.Instruction) bool { return x == ssa.Instruction(ii.If) }})
						exit := ii.If.Block().Succs[ii.EdgeWhen(false)]
						if len(exit.Instrs) > 0 && rs.Reached[exit.Instrs[0]] {
							okLoop = false
						}
						for x := range rs.Reached {
							if _, isRet := x.(*ssa.Return); isRet {
								okLoop = false
							}
						}
						// the recursion is unconditional in the body
						if _, bad := ir.PathExists([]ir.Pt{body}, ir.Opts{Stop: func(x ssa.Instruction) bool { return x == ssa.Instruction(c) }}, func(x ssa.Instruction) bool { return x == ssa.Instruction(ii.If) }); bad {
							okLoop = false
						}
					}
				}
				if okLoop {
					mapRec = true
				}
			}
		}
		if u, isU := arg.(*ssa.UnOp); isU && u.Op == token.MUL {
			if _, isAl := u.X.(*ssa.Alloc); isAl {
				strRec = true
			}
		}
	}
	if sliceRec && mapRec {
		r.Held("findURLs/containers", 2, "recursion into every array element and every object value")
	} else {
		r.Violated("findURLs/containers", fnPos(p, fn), "findURLs does not recurse into every element of arrays (%v) and objects (%v): nested URLs are missed", sliceRec, mapRec)
	}
	// string arm: isValidURL true → append; else isLikelyJSON → Unmarshal → recurse on err == nil
	var appendURL ssa.Instruction
	allInstrs(fn, func(in ssa.Instruction) {
		if c, ok := in.(*ssa.Call); ok && ir.CallName(c.Common()) == "builtin.append" {
			appendURL = in
		}
	})
	okStr := appendURL != nil && strRec
	if okStr {
		_, g := ir.GuardedBy(fn, ir.Entry(fn), appendURL, true, func(a ir.Atom) bool { return ir.BoolCallAtom(a, pkgExtractor+".isValidURL") != nil })
		okStr = g
	}
	// embedded JSON at any depth: inside the string arm, the recursion on the decoded value is skipped only when the
	// string is a URL, does not look like JSON, or does not decode — no other condition (depth flag, size, …)
	if okStr {
		var strCall *ssa.Call
		for _, c := range recs {
			if u, isU := c.Call.Args[0].(*ssa.UnOp); isU && u.Op == token.MUL {
				if _, isAl := u.X.(*ssa.Alloc); isAl {
					strCall = c
				}
			}
		}
		var armStart *ssa.BasicBlock
		if ta := arms["string"]; ta != nil {
			for _, ii := range ir.Ifs(fn) {
				if e, isE := ii.Atom.V.(*ssa.Extract); isE && e.Tuple == ssa.Value(ta) && e.Index == 1 {
					armStart = ii.If.Block().Succs[ii.EdgeWhen(true)]
				}
			}
		}
		if strCall != nil && armStart != nil {
			skip := map[*ssa.BasicBlock]int{}
			for _, ii := range ir.Ifs(fn) {
				switch {
				case ir.BoolCallAtom(ii.Atom, pkgExtractor+".isValidURL") != nil:
					skip[ii.If.Block()] = ii.EdgeWhen(true)
				case ir.BoolCallAtom(ii.Atom, pkgExtractor+".isLikelyJSON") != nil:
					skip[ii.If.Block()] = ii.EdgeWhen(false)
				case ii.Atom.V == nil && ii.Atom.Op == token.EQL && (ir.IsNilConst(ii.Atom.X) || ir.IsNilConst(ii.Atom.Y)):
					if c, isC := ir.Strip(ii.Atom.X).(*ssa.Call); isC && ir.IsCallTo(c, "encoding/json.Unmarshal") {
						skip[ii.If.Block()] = ii.EdgeWhen(false)
					}
					if c, isC := ir.Strip(ii.Atom.Y).(*ssa.Call); isC && ir.IsCallTo(c, "encoding/json.Unmarshal") {
						skip[ii.If.Block()] = ii.EdgeWhen(false)
					}
				}
			}
			if ret, bad := ir.PathExists([]ir.Pt{{B: armStart, I: 0}}, ir.Opts{Stop: func(in ssa.Instruction) bool { return in == ssa.Instruction(strCall) }, EdgeOK: func(b *ssa.BasicBlock, sidx int) bool {
				e, has := skip[b]
				return !has || e != sidx
			}}, ir.IsExit); bad {
				r.Violated("findURLs/embedded-any-depth", p.InstrPos(ret), "a string that is not a URL, looks like JSON and decodes can still be skipped (an extra condition guards the embedded-JSON recursion): URLs in JSON embedded below that point are lost")
			} else {
				r.Held("findURLs/embedded-any-depth", 1, "the embedded-JSON recursion is skipped only for URLs, non-JSON-looking strings and decode errors")
			}
		}
	}
	if okStr {
		r.Held("findURLs/string", 2, "URL strings are collected; other strings are tried as embedded JSON")
	} else {
		r.Violated("findURLs/string", fnPos(p, fn), "the string arm no longer collects URLs and/or decodes JSON embedded in strings")
	}
	// isLikelyJSON: only syntactic tests
	lj := p.Func(rel(pkgExtractor), "isLikelyJSON")
	if lj == nil {
		r.Undecided("isLikelyJSON", "", "anchor not found")
		return
	}
	r.Analysed(lj)
	bad := ""
	allInstrs(lj, func(in ssa.Instruction) {
		c, ok := in.(*ssa.Call)
		if !ok {
			return
		}
		n := ir.CallName(c.Common())
		switch {
		case n == "builtin.len":
		case n == "strings.Contains":
			if s, okc := ir.ConstString(c.Call.Args[1]); !okc || s != `"` {
				bad = "strings.Contains(…, " + ir.Path(c.Call.Args[1]) + ")"
			}
		default:
			bad = n
		}
	})
	if bad == "" {
		r.Held("isLikelyJSON", 1, "likeness test looks only at length, delimiters and the presence of a double quote")
	} else {
		r.Violated("isLikelyJSON", fnPos(p, lj), "the embedded-JSON pre-filter depends on the content of the string (%s): documents whose inner serialisation differs (escaped slashes, unicode escapes) are no longer decoded and their URLs are lost", bad)
	}
}

func ruleXMLTokens(r *core.Reporter) {
	p := r.P
	fn := p.Func(rel(pkgExtractor), "XML")
	if fn == nil {
		r.Undecided("extractor.XML", "", "anchor not found")
		return
	}
	r.Analysed(fn)
	var rawTok *ssa.Call
	arms := map[string]*ssa.TypeAssert{}
	allInstrs(fn, func(in ssa.Instruction) {
		if c, ok := in.(*ssa.Call); ok && ir.IsCallTo(c, "(*encoding/xml.Decoder).RawToken") {
			rawTok = c
		}
		if ta, ok := in.(*ssa.TypeAssert); ok {
			arms[ta.AssertedType.String()] = ta
		}
	})
	if rawTok == nil || arms["encoding/xml.StartElement"] == nil || arms["encoding/xml.CharData"] == nil {
		r.Violated("XML/tokens", fnPos(p, fn), "the XML extractor no longer walks raw tokens with arms for StartElement and CharData (RawToken=%v start=%v chardata=%v)", rawTok != nil, arms["encoding/xml.StartElement"] != nil, arms["encoding/xml.CharData"] != nil)
		return
	}
	// loop: it iterates
	if !ir.Reach([]ir.Pt{ir.After(rawTok)}, ir.Opts{}).Reached[rawTok] {
		r.Violated("XML/loop", p.InstrPos(rawTok), "RawToken is not called in a loop")
		return
	}
	appends := func(from ssa.Instruction) []ssa.Instruction {
		var out []ssa.Instruction
		rs := ir.Reach([]ir.Pt{ir.After(from)}, ir.Opts{Stop: func(x ssa.Instruction) bool { return x == ssa.Instruction(rawTok) }})
		for x := range rs.Reached {
			if c, ok := x.(*ssa.Call); ok && ir.CallName(c.Common()) == "builtin.append" && strings.Contains(c.Type().String(), "string") {
				out = append(out, x)
			}
		}
		return out
	}
	// StartElement: loop over .Attr covering all, appending attr.Value
	se := arms["encoding/xml.StartElement"]
	okSE := false
	for _, a := range appends(se) {
		if loopCoversAll(fn, a) && strings.Contains(ir.Path(a.(*ssa.Call).Call.Args[1]), ".Attr[") {
			okSE = true
		}
	}
	if !okSE {
		// the appended value is stored through a varargs array: look at the loop's indexed expression instead
		allInstrs(fn, func(in ssa.Instruction) {
			if ia, ok := in.(*ssa.IndexAddr); ok && strings.Contains(ir.Path(ia.X), ".Attr") {
				for _, a := range appends(se) {
					if loopCoversAll(fn, a) && loopCoversAll(fn, ia) {
						okSE = true
					}
				}
			}
		})
	}
	if okSE {
		r.Held("XML/attributes", 1, "every attribute of every start element is examined")
	} else {
		r.Violated("XML/attributes", p.InstrPos(se), "not every attribute of a start element is examined for URLs")
	}
	// CharData: both sides append
	cd := arms["encoding/xml.CharData"]
	if len(appends(cd)) >= 2 {
		r.Held("XML/chardata", len(appends(cd)), "text nodes are collected directly or scanned with the link regexp")
	} else {
		r.Violated("XML/chardata", p.InstrPos(cd), "character data is no longer fully examined (direct http text and regexp scan)")
	}
	// loop exits: break only under tok==nil && err==io.EOF; returns only with err != nil
	for _, ret := range ir.Returns(fn) {
		if !ir.Reach([]ir.Pt{ir.After(rawTok)}, ir.Opts{}).Reached[ret] {
			continue
		}
		_ = ret
	}
	okEOF := false
	for _, ii := range ir.Ifs(fn) {
		a := ii.Atom
		if a.V == nil && a.Op == token.EQL && (ir.Path(a.Y) == "io.EOF" || ir.Path(a.X) == "io.EOF") {
			okEOF = true
		}
	}
	if okEOF {
		r.Held("XML/until-eof", 1, "the token loop ends at io.EOF")
	} else {
		r.Violated("XML/until-eof", p.InstrPos(rawTok), "the token loop no longer runs until io.EOF")
	}
}

func ruleM3U8Kinds(r *core.Reporter) {
	p := r.P
	fn := p.Func(rel(pkgExtractor), "M3U8")
	if fn == nil {
		r.Undecided("extractor.M3U8", "", "anchor not found")
		return
	}
	r.Analysed(fn)
	for _, w := range []struct{ field, what string }{{"Segments", "segment"}, {"Variants", "variant"}, {"Alternatives", "alternative rendition"}} {
		ok := false
		allInstrs(fn, func(in ssa.Instruction) {
			ia, isIA := in.(*ssa.IndexAddr)
			if !isIA || !strings.HasSuffix(ir.Path(ia.X), "."+w.field) {
				return
			}
			if !loopCoversAll(fn, ia) {
				return
			}
			// in that loop body the element's URI is appended (guards: element != nil, URI != "")
			l, okl := loopAround(fn, ia)
			if !okl {
				return
			}
			body := ir.EdgePt(l.If.Block(), l.EdgeWhen(true))
			rs := ir.Reach([]ir.Pt{body}, ir.Opts{Stop: func(x ssa.Instruction) bool { return x == ssa.Instruction(l.If) }})
			for x := range rs.Reached {
				c, isC := x.(*ssa.Call)
				if !isC || ir.CallName(c.Common()) != "builtin.append" {
					continue
				}
				// the appended value's guards
				extra := false
				for _, ii := range ir.Ifs(fn) {
					if !rs.Reached[ii.If] {
						continue
					}
					for _, t := range []bool{true, false} {
						if ir.OnlyVia(body, x, ii.If.Block(), ii.EdgeWhen(t)) {
							a := ii.Atom
							nilTest := a.V == nil && a.Op == token.EQL && (ir.IsNilConst(a.X) || ir.IsNilConst(a.Y))
							emptyTest := false
							if a.V == nil && a.Op == token.EQL {
								if s, okc := ir.ConstString(a.Y); okc && s == "" && strings.HasSuffix(ir.Path(a.X), ".URI") {
									emptyTest = true
								}
							}
							bound := a.V == nil && a.Op == token.LSS
							if !nilTest && !emptyTest && !bound {
								extra = true
							}
						}
					}
				}
				if !extra {
					ok = true
				}
			}
		})
		if ok {
			r.Held("M3U8/"+w.field, 1, "every %s URI is collected", w.what)
		} else {
			r.Violated("M3U8/"+w.field, fnPos(p, fn), "not every %s URI of the playlist is extracted (loop over .%s missing, leaving early, or filtered)", w.what, w.field)
		}
	}
}

func ruleAssetOutlinkSplit(r *core.Reporter) {
	p := r.P
	for _, nm := range []string{"GetURLsFromJSON", "XML"} {
		fn := p.Func(rel(pkgExtractor), nm)
		if fn == nil {
			r.Undecided("extractor."+nm, "", "anchor not found")
			continue
		}
		r.Analysed(fn)
		var split *ir.IfInfo
		for _, ii := range ir.Ifs(fn) {
			if ir.BoolCallAtom(ii.Atom, pkgExtractor+".hasFileExtension") != nil {
				iic := ii
				split = &iic
			}
		}
		key := nm + "/split"
		if split == nil {
			r.Violated(key, fnPos(p, fn), "%s no longer classifies discovered URLs with hasFileExtension (siblings must agree)", nm)
			continue
		}
		call := ir.BoolCallAtom(split.Atom, pkgExtractor+".hasFileExtension")
		l, okl := loopAround(fn, call)
		if !okl || !loopCoversAll(fn, call) {
			r.Violated(key, p.InstrPos(call), "the classification loop does not cover every discovered string")
			continue
		}
		// each side appends exactly once to a different result
		sideAppend := func(t bool) (string, int) {
			start := ir.EdgePt(split.If.Block(), split.EdgeWhen(t))
			rs := ir.Reach([]ir.Pt{start}, ir.Opts{Stop: func(x ssa.Instruction) bool { return x == ssa.Instruction(l.If) }})
			n, target := 0, ""
			for x := range rs.Reached {
				if c, ok := x.(*ssa.Call); ok && ir.CallName(c.Common()) == "builtin.append" {
					n++
					target = ir.Path(c.Call.Args[0])
				}
			}
			return target, n
		}
		ta, na := sideAppend(true)
		to, no := sideAppend(false)
		if na == 1 && no == 1 && ta != to {
			r.Held(key, 2, "extension → assets, otherwise → outlinks; every string lands in exactly one list")
		} else {
			r.Violated(key, p.InstrPos(split.If), "a discovered URL can land in both lists or in none (appends: with extension=%d, without=%d)", na, no)
		}
	}
}

func ruleDispatchOrder(r *core.Reporter) {
	p := r.P
	type order struct {
		fn    string
		chain []string // predicate callee full names, in required order
	}
	ext := pkgExtractor
	orders := []order{
		{"extractAssets", []string{mod + "/internal/pkg/postprocessor/sitespecific/ina.IsAPIURL", mod + "/internal/pkg/postprocessor/sitespecific/truthsocial.NeedExtraction", ext + ".IsM3U8", ext + ".IsJSON", ext + ".IsXML", ext + ".IsHTML"}},
		{"extractOutlinks", []string{ext + ".IsS3", ext + ".IsSitemapXML", ext + ".IsHTML", ext + ".IsPDF"}},
	}
	for _, o := range orders {
		fn := p.Func(rel(pkgPost), o.fn)
		if fn == nil {
			r.Undecided(o.fn+"/order", "", "anchor not found")
			continue
		}
		r.Analysed(fn)
		calls := map[string]*ssa.Call{}
		allInstrs(fn, func(in ssa.Instruction) {
			if c, ok := in.(*ssa.Call); ok {
				for _, n := range o.chain {
					if ir.IsCallTo(c, n) {
						calls[n] = c
					}
				}
			}
		})
		okAll := true
		for i := 0; i+1 < len(o.chain); i++ {
			a, b := calls[o.chain[i]], calls[o.chain[i+1]]
			if a == nil || b == nil {
				okAll = false
				r.Violated(o.fn+"/order/"+shortName(o.chain[i+1]), fnPos(p, fn), "detector %s or %s is no longer consulted", shortName(o.chain[i]), shortName(o.chain[i+1]))
				continue
			}
			// b is evaluated only when a was false
			if _, g := ir.GuardedBy(fn, ir.Entry(fn), b, false, func(at ir.Atom) bool { return at.V == ssa.Value(a) }); !g {
				okAll = false
				r.Violated(o.fn+"/order/"+shortName(o.chain[i+1]), p.InstrPos(b), "%s is tested before (or independently of) %s: a document of the more specific kind is handed to the more general extractor", shortName(o.chain[i+1]), shortName(o.chain[i]))
			}
		}
		if okAll {
			r.Held(o.fn+"/order", len(o.chain), "detectors consulted in the order %v", shortNames(o.chain))
		}
	}
}

func shortNames(l []string) []string {
	var out []string
	for _, s := range l {
		out = append(out, shortName(s))
	}
	return out
}

func ruleS3Fields(r *core.Reporter) {
	p := r.P
	tRes := pkgExtractor + ".S3ListBucketResult"
	// no store rewrites the decoded listing
	for _, fn := range p.FuncsInPkg(rel(pkgExtractor)) {
		allInstrs(fn, func(in ssa.Instruction) {
			if st, ok := in.(*ssa.Store); ok {
				if tn, f, ok := ir.FieldOf(st.Addr); ok && tn == tRes {
					r.Violated("S3/listing-rewritten/"+f, p.InstrPos(in), "the decoded listing's field %s is rewritten in %s before the handlers use it: paging values (marker = last key of the page) are then computed from a filtered page and the walk can stop early", f, core.FuncName(fn))
				}
			}
		})
	}
	sfnTop := p.Func(rel(pkgExtractor), "S3")
	for _, nm := range []string{"s3Legacy", "s3V2"} {
		fn := p.Func(rel(pkgExtractor), nm)
		// the handler may have been folded into S3: it is then the branch of the list-type test
		inRegion := func(ssa.Instruction) bool { return true }
		var entry ir.Pt
		reqRoot := ""
		if fn != nil {
			entry = ir.Entry(fn)
			reqRoot = "$" + fn.Params[0].Name()
			// the request URL is the first *url.URL parameter (the listing may have become the receiver)
			for _, pm := range fn.Params {
				if ir.TypeName(pm.Type()) == "net/url.URL" {
					reqRoot = "$" + pm.Name()
					break
				}
			}
		} else if sfnTop != nil {
			for _, ii := range ir.Ifs(sfnTop) {
				a := ii.Atom
				if a.V == nil && a.Op == token.EQL {
					if sv, okc := ir.ConstString(a.Y); okc && sv == "2" && strings.Contains(ir.Path(a.X), `Get("list-type")`) {
						mine, other := ii.EdgeWhen(nm == "s3V2"), ii.EdgeWhen(nm != "s3V2")
						rm := ir.Reach([]ir.Pt{ir.EdgePt(ii.If.Block(), mine)}, ir.Opts{}).Reached
						ro := ir.Reach([]ir.Pt{ir.EdgePt(ii.If.Block(), other)}, ir.Opts{}).Reached
						inRegion = func(in ssa.Instruction) bool { return rm[in] && !ro[in] }
						entry = ir.EdgePt(ii.If.Block(), mine)
						fn = sfnTop
						reqRoot = "$" + sfnTop.Params[0].Name() + ".GetRequest().URL"
					}
				}
			}
		}
		if fn == nil || entry.B == nil {
			r.Undecided(nm, "", "anchor not found")
			continue
		}
		r.Analysed(fn)
		scopedInstrs := func(f func(ssa.Instruction)) {
			allInstrs(fn, func(in ssa.Instruction) {
				if inRegion(in) {
					f(in)
				}
			})
		}
		scopedIfs := func() []ir.IfInfo {
			var out []ir.IfInfo
			for _, ii := range ir.Ifs(fn) {
				if inRegion(ii.If) {
					out = append(out, ii)
				}
			}
			return out
		}
		fieldOfCond := func(a ir.Atom) string {
			for _, v := range []ssa.Value{a.X, a.Y, a.V} {
				if v == nil {
					continue
				}
				pth := ir.Path(v)
				for _, f := range []string{"CommonPrefixes", "Contents", "IsTruncated", "NextContinuationToken"} {
					if strings.Contains(pth, "."+f) {
						return f
					}
				}
			}
			return ""
		}
		// loops over Contents / CommonPrefixes
		for _, field := range []string{"Contents", "CommonPrefixes"} {
			var ia *ssa.IndexAddr
			owner := fn
			var anchor ssa.Instruction
			scopedInstrs(func(in ssa.Instruction) {
				if x, ok := in.(*ssa.IndexAddr); ok && strings.HasSuffix(ir.Path(x.X), "."+field) {
					if _, isInd := x.Index.(*ssa.BinOp); isInd && loopCoversAll(fn, x) {
						ia = x
					}
				}
			})
			if ia == nil {
				// the loop may live in a helper that is handed the field
				scopedInstrs(func(in ssa.Instruction) {
					c, ok := in.(*ssa.Call)
					if !ok {
						return
					}
					h := ir.CalleeOf(c.Common())
					if h == nil || !core.InModule(h) || h.Blocks == nil {
						return
					}
					for k, a := range c.Call.Args {
						if k >= len(h.Params) || !strings.HasSuffix(ir.Path(a), "."+field) {
							continue
						}
						allInstrs(h, func(hin ssa.Instruction) {
							if x, okx := hin.(*ssa.IndexAddr); okx && ir.SameValue(x.X, h.Params[k]) {
								if _, isInd := x.Index.(*ssa.BinOp); isInd && loopCoversAll(h, x) {
									ia, owner, anchor = x, h, c
									r.Analysed(h)
								}
							}
						})
					}
				})
			}
			if ia == nil {
				if field == "Contents" || nm == "s3V2" {
					r.Violated(nm+"/"+field, fnPos(p, fn), "%s does not walk every entry of %s", nm, field)
				}
				continue
			}
			l, _ := loopAround(owner, ia)
			if owner == fn {
				anchor = l.If
			}
			cross := ""
			for _, ii := range scopedIfs() {
				if ii.If == l.If {
					continue
				}
				for _, t := range []bool{true, false} {
					if isLoopExitEdge(ii, t) {
						continue // sequential composition after an earlier loop, not a condition
					}
					if ir.OnlyVia(entry, anchor, ii.If.Block(), ii.EdgeWhen(t)) {
						if f := fieldOfCond(ii.Atom); f != "" && f != field {
							cross = f
						}
					}
				}
			}
			if owner != fn {
				// inside the helper nothing but the loop itself decides whether the entries are walked
				for _, ii := range ir.Ifs(owner) {
					if ii.If == l.If {
						continue
					}
					for _, t := range []bool{true, false} {
						if !isLoopExitEdge(ii, t) && ir.OnlyVia(ir.Entry(owner), l.If, ii.If.Block(), ii.EdgeWhen(t)) {
							cross = "a condition in " + owner.Name()
						}
					}
				}
			}
			if cross != "" {
				r.Violated(nm+"/"+field, p.InstrPos(ia), "the %s of a page are only processed depending on %s: a page carrying both loses one of them", field, cross)
			} else {
				r.Held(nm+"/"+field, 1, "every entry of %s is processed, independently of the other fields", field)
			}
			if field == "Contents" {
				// object link only under Size > 0, and always then
				var app ssa.Instruction
				body := ir.EdgePt(l.If.Block(), l.EdgeWhen(true))
				rs := ir.Reach([]ir.Pt{body}, ir.Opts{Stop: func(x ssa.Instruction) bool { return x == ssa.Instruction(l.If) }})
				for x := range rs.Reached {
					if c, ok := x.(*ssa.Call); ok && ir.CallName(c.Common()) == "builtin.append" {
						app = x
					}
				}
				okSize := false
				if app != nil {
					for _, ii := range ir.Ifs(owner) {
						a := ii.Atom
						// "Size > 0" established: 0 < Size on the true edge, or Size <= 0 on the false edge
						posTruth, isSizeTest := false, false
						if a.V == nil && a.Op == token.LSS {
							if z, okc := ir.ConstInt(a.X); okc && z == 0 && strings.HasSuffix(ir.Path(a.Y), ".Size") {
								posTruth, isSizeTest = true, true
							}
						}
						if a.V == nil && a.Op == token.LEQ {
							if z, okc := ir.ConstInt(a.Y); okc && z == 0 && strings.HasSuffix(ir.Path(a.X), ".Size") {
								posTruth, isSizeTest = false, true
							}
						}
						if isSizeTest {
							{
								if ir.OnlyVia(body, app, ii.If.Block(), ii.EdgeWhen(posTruth)) {
									// no other condition
									okSize = true
									for _, jj := range ir.Ifs(owner) {
										if jj.If == ii.If || jj.If == l.If || !rs.Reached[jj.If] {
											continue
										}
										for _, t := range []bool{true, false} {
											if ir.OnlyVia(body, app, jj.If.Block(), jj.EdgeWhen(t)) {
												okSize = false
											}
										}
									}
								}
							}
						}
					}
				}
				if okSize {
					r.Held(nm+"/object-links", 1, "an object link is emitted exactly for Size > 0")
				} else {
					r.Violated(nm+"/object-links", p.InstrPos(ia), "object links are not emitted exactly for objects of non-zero size")
				}
			}
		}
		// next-page link
		// paging links: q.Set(name, value) on the request URL's query — directly, or through a helper that is given
		// the request URL, the parameter name and the value
		type pageParam struct {
			at  *ssa.Call // anchor in fn (the Set call or the helper call)
			val ssa.Value // the value, as seen in fn
			set *ssa.Call // the Values.Set call itself
			url ssa.Value // the URL whose query is modified, as seen in fn
		}
		queryURL := func(set *ssa.Call) ssa.Value {
			if qc, isC := set.Call.Args[0].(*ssa.Call); isC && ir.IsCallTo(qc, "(*net/url.URL).Query") {
				return qc.Call.Args[0]
			}
			return nil
		}
		params := map[string]*pageParam{}
		var setCalls []*pageParam
		scopedInstrs(func(in ssa.Instruction) {
			c, ok := in.(*ssa.Call)
			if !ok {
				return
			}
			if ir.IsCallTo(c, "(net/url.Values).Set") {
				pp := &pageParam{at: c, val: c.Call.Args[2], set: c, url: queryURL(c)}
				setCalls = append(setCalls, pp)
				if s, okc := ir.ConstString(c.Call.Args[1]); okc {
					params[s] = pp
				}
				return
			}
			h := ir.CalleeOf(c.Common())
			if h == nil || !core.InModule(h) || h.Blocks == nil || h.Pkg != fn.Pkg {
				return
			}
			allInstrs(h, func(hin ssa.Instruction) {
				hc, okh := hin.(*ssa.Call)
				if !okh || !ir.IsCallTo(hc, "(net/url.Values).Set") {
					return
				}
				ki, vi := paramIndex(resolveParam(hc.Call.Args[1], 0)), paramIndex(resolveParam(hc.Call.Args[2], 0))
				if ki < 0 || vi < 0 || ki >= len(c.Call.Args) || vi >= len(c.Call.Args) {
					return
				}
				// unconditional inside the helper
				if !ir.MustHit(h, ir.Event{ID: "values-set", Match: func(x ssa.Instruction) bool { return x == ssa.Instruction(hc) }}, 0) {
					return
				}
				pp := &pageParam{at: c, val: c.Call.Args[vi], set: hc}
				if u := queryURL(hc); u != nil {
					// the URL is a copy of a helper parameter: bind it to the caller's argument
					for k, hp := range h.Params {
						if k < len(c.Call.Args) && strings.Contains(ir.Path(u), "$"+hp.Name()) {
							pp.url = c.Call.Args[k]
						}
					}
				}
				setCalls = append(setCalls, pp)
				if s, okc := ir.ConstString(c.Call.Args[ki]); okc {
					params[s] = pp
				}
				r.Analysed(h)
			})
		})
		if nm == "s3Legacy" {
			pp := params["marker"]
			if pp == nil {
				r.Violated(nm+"/next-page", fnPos(p, fn), "the marker-paginated walk no longer builds a next-page link")
			} else {
				c := pp.at
				val := ir.Path(pp.val)
				okVal := strings.Contains(val, ".Contents[(builtin.len(") && strings.HasSuffix(val, ".Key")
				_, g := ir.GuardedBy(fn, entry, c, true, func(a ir.Atom) bool {
					if a.V != nil || a.Op != token.LSS {
						return false
					}
					z, okc := ir.ConstInt(a.X)
					cl, isC := a.Y.(*ssa.Call)
					return okc && z == 0 && isC && ir.CallName(cl.Common()) == "builtin.len" && strings.HasSuffix(ir.Path(cl.Call.Args[0]), ".Contents")
				})
				if !g {
					// the fall-through of `if len(Contents) == 0 { return }`, or `len(Contents) >= 1`
					isLenContents := func(v ssa.Value) bool {
						cl, isC := v.(*ssa.Call)
						return isC && ir.CallName(cl.Common()) == "builtin.len" && strings.HasSuffix(ir.Path(cl.Call.Args[0]), ".Contents")
					}
					_, g = ir.GuardedBy(fn, entry, c, false, func(a ir.Atom) bool {
						if a.V != nil || a.Op != token.EQL {
							return false
						}
						zx, okx := ir.ConstInt(a.X)
						zy, oky := ir.ConstInt(a.Y)
						return (okx && zx == 0 && isLenContents(a.Y)) || (oky && zy == 0 && isLenContents(a.X))
					})
					if !g {
						_, g = ir.GuardedBy(fn, entry, c, true, func(a ir.Atom) bool {
							if a.V != nil || a.Op != token.LEQ {
								return false
							}
							o, okx := ir.ConstInt(a.X)
							return okx && o == 1 && isLenContents(a.Y)
						})
					}
				}
				only := onlyGuardFrom(fn, entry, inRegion, c, "Contents")
				if okVal && g && only {
					r.Held(nm+"/next-page", 1, "marker = last key of the page, emitted whenever the page is non-empty")
				} else {
					r.Violated(nm+"/next-page", p.InstrPos(c), "the next-page link of a marker-paginated listing is not `marker = last key` under `page non-empty` only (value ok=%v, guard=%v, no extra condition=%v)", okVal, g, only)
				}
			}
		} else {
			pp := params["continuation-token"]
			if pp == nil {
				r.Violated(nm+"/next-page", fnPos(p, fn), "the list-type=2 walk no longer follows continuation tokens")
			} else {
				c := pp.at
				okVal := strings.HasSuffix(ir.Path(pp.val), ".NextContinuationToken")
				okGuard := true
				for _, ii := range scopedIfs() {
					for _, t := range []bool{true, false} {
						if isLoopExitEdge(ii, t) {
							continue
						}
						if ir.OnlyVia(entry, c, ii.If.Block(), ii.EdgeWhen(t)) {
							f := fieldOfCond(ii.Atom)
							if f != "IsTruncated" && f != "NextContinuationToken" {
								okGuard = false
							}
						}
					}
				}
				if okVal && okGuard {
					r.Held(nm+"/next-page", 1, "continuation-token link whenever the page is truncated and carries a token")
				} else {
					r.Violated(nm+"/next-page", p.InstrPos(c), "the continuation link depends on something other than IsTruncated/NextContinuationToken, or carries another value")
				}
			}
			if pc := params["prefix"]; pc == nil {
				r.Violated(nm+"/prefix-links", fnPos(p, fn), "common prefixes are no longer followed")
			}
		}
		// links reuse the request URL with only that parameter replaced: q := nextURL.Query(); q.Set(k, v); nextURL.RawQuery = q.Encode()
		okReuse := true
		for _, pp := range setCalls {
			// the URL the query is taken from is a copy of reqURL
			if pp.url == nil || !strings.Contains(ir.Path(pp.url), reqRoot) {
				okReuse = false
			}
		}
		nSets := len(setCalls)
		if okReuse && nSets >= 1 {
			r.Held(nm+"/reuse-request-url", nSets, "paging links are the request URL with only the paging parameter replaced")
		} else {
			r.Violated(nm+"/reuse-request-url", fnPos(p, fn), "paging links are not built from the request URL's own query")
		}
	}
	// S(): dispatch on list-type == "2"
	sfn := p.Func(rel(pkgExtractor), "S3")
	if sfn != nil {
		r.Analysed(sfn)
		ok := false
		for _, ii := range ir.Ifs(sfn) {
			a := ii.Atom
			if a.V == nil && a.Op == token.EQL {
				if s, okc := ir.ConstString(a.Y); okc && s == "2" && strings.Contains(ir.Path(a.X), `Get("list-type")`) {
					ok = true
				}
			}
		}
		if ok {
			r.Held("S3/dispatch", 1, "list-type=2 → continuation-token handler, otherwise marker handler")
		} else {
			r.Violated("S3/dispatch", fnPos(p, sfn), "the S3 handler is no longer chosen by the request's list-type parameter")
		}
	}
}

// onlyGuard: all conditions that gate `at` mention the given listing field (or none do).
func onlyGuard(fn *ssa.Function, at ssa.Instruction, field string) bool {
	return onlyGuardFrom(fn, ir.Entry(fn), func(ssa.Instruction) bool { return true }, at, field)
}

func onlyGuardFrom(fn *ssa.Function, entry ir.Pt, inRegion func(ssa.Instruction) bool, at ssa.Instruction, field string) bool {
	for _, ii := range ir.Ifs(fn) {
		if !inRegion(ii.If) {
			continue
		}
		for _, t := range []bool{true, false} {
			if isLoopExitEdge(ii, t) {
				continue
			}
			if ir.OnlyVia(entry, at, ii.If.Block(), ii.EdgeWhen(t)) {
				ok := false
				for _, v := range []ssa.Value{ii.Atom.X, ii.Atom.Y, ii.Atom.V} {
					if v != nil && strings.Contains(ir.Path(v), "."+field) {
						ok = true
					}
				}
				if !ok {
					return false
				}
			}
		}
	}
	return true
}

var _ = types.Typ

// isLoopExitEdge: the edge taken when the atom has truth t leaves a loop whose test is this If
// (the opposite successor leads back to the If).
func isLoopExitEdge(ii ir.IfInfo, t bool) bool {
	other := ii.If.Block().Succs[ii.EdgeWhen(!t)]
	rs := ir.Reach([]ir.Pt{{B: other, I: 0}}, ir.Opts{Stop: func(x ssa.Instruction) bool { return x == ssa.Instruction(ii.If) }})
	if !rs.Stopped[ii.If] {
		return false
	}
	this := ii.If.Block().Succs[ii.EdgeWhen(t)]
	rs2 := ir.Reach([]ir.Pt{{B: this, I: 0}}, ir.Opts{Stop: func(x ssa.Instruction) bool { return x == ssa.Instruction(ii.If) }})
	return !rs2.Stopped[ii.If]
}
