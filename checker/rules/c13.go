package rules

import (
	"fmt"
	"go/constant"
	"go/token"
	"strings"

	"golang.org/x/tools/go/ssa"

	"zenocheck/core"
	"zenocheck/ir"
)

func init() {
	PropertyText["C13"] = [2]string{
		"Decides the shape invariants of the per-host limiter: every access to a token bucket's state happens under its mutex (R-TB-LOCK); every store to refillRate is bounded above by idealRate and below by min(0.5, idealRate), every store to tokens keeps it within [0, capacity] (R-TB-RATE-BOUNDS, R-TB-TOKENS); refill adds nothing during a penalty and measures elapsed time from the later of lastRefill and penaltyUntil; a 429/403/408/425 always sets penaltyUntil = now + min(5s·2^(n-1), 30s) — capped before the integer conversion — and zeroes the tokens, 5xx never touches the penalty, success never raises penalty or tokens (R-TB-PENALTY); feedback always reaches a bucket (R-BM-FEEDBACK); the archiver waits once per item before the retry loop and reports every response's status for the request's host (R-TB-USE). refill moves lastRefill to now whenever it credits time (clock-advance clause); a new host's bucket is inserted in the critical section of the lookup that missed (R-BM-SINGLE-BUCKET); the 5xx cut scales the current rate by a factor ≤ 1, so a failure never raises the rate (cut-monotone clause). Every hit in the bucket table refreshes lastAccess, the stamp the cleanup deletes on (R-BM-TOUCH).",
		"Not decided: the window bound 'capacity + T·rate' and actual release times (arithmetic over real time, needs a virtual-clock model); fairness among concurrent waiters; the 50 ms poll granularity.",
	}
	register(&core.Rule{ID: "R-TB-LOCK", Props: []string{"C13", "C16"}, Doc: "every read or write of a tokenBucket field (other than mu/nowFunc) happens with tb.mu held — directly, or in an unexported helper all of whose call sites hold it; BucketManager.buckets only under bm.mu; each Lock is released on every exit", Run: ruleTBLock})
	register(&core.Rule{ID: "R-TB-RATE-BOUNDS", Props: []string{"C13"}, Doc: "every store to refillRate is one of: the configured rate (constructor), max(refillRate·f, floor) with f∈(0,1] and floor = min(minRefillRate, idealRate), the convex recovery step under refillRate<idealRate, or idealRate itself — hence min(0.5,ideal) ≤ refillRate ≤ idealRate inductively", Run: ruleTBRate})
	register(&core.Rule{ID: "R-TB-TOKENS", Props: []string{"C13"}, Doc: "every store to tokens is 0, min(capacity, …), tokens-1 under tokens>=1, or the constructor's capacity", Run: ruleTBTokens})
	register(&core.Rule{ID: "R-TB-PENALTY", Props: []string{"C13"}, Doc: "refill: token increase only when !now.Before(penaltyUntil), elapsed measured from the later of lastRefill/penaltyUntil; adjustOnFailure: the {429,403,408,425} arm always increments failureCount, sets penaltyUntil = now.Add(Duration(min(5s·2^(failureCount-1), 30s))) with the cap applied in the float domain, zeroes tokens; the ≥500 arm never stores penaltyUntil; onSuccess stores neither tokens nor penaltyUntil", Run: ruleTBPenalty})
	register(&core.Rule{ID: "R-BM-SINGLE-BUCKET", Props: []string{"C13", "C16"}, Doc: "BucketManager.buckets: every insertion happens in the critical section of a lookup of the map (no unlock between the miss and the insert), so concurrent first contacts with a host share one bucket", Run: ruleBMSingleBucket})
	register(&core.Rule{ID: "R-BM-FEEDBACK", Props: []string{"C13"}, Doc: "BucketManager.Wait/AdjustOnFailure/OnSuccess reach the bucket's method on every path (a missing bucket is created, never skipped)", Run: ruleBMFeedback})
	register(&core.Rule{ID: "R-TB-USE", Props: []string{"C13"}, Doc: "fetch closure: globalBucketManager.Wait(req.URL.Host) happens once, before the retry loop; every response is reported with AdjustOnFailure(host, resp.StatusCode) on the retry branch or OnSuccess(host) otherwise", Run: ruleTBUse})
}

const tBucket = pkgRL + ".tokenBucket"
const tManager = pkgRL + ".BucketManager"

func ruleTBLock(r *core.Reporter) {
	p := r.P
	fns := p.FuncsInPkg(rel(pkgRL))
	// which functions are only ever called with the lock held (caller-holds)?
	callerHolds := map[*ssa.Function]string{}
	for _, callee := range fns {
		// a method of the bucket / the manager, or a plain function taking one as its first parameter
		if len(callee.Params) == 0 {
			continue
		}
		if tn := ir.TypeName(callee.Params[0].Type()); tn != tBucket && tn != tManager {
			continue
		}
		all, any := true, false
		for _, caller := range fns {
			ls := ir.Locksets(caller, ir.Lockset{})
			allInstrs(caller, func(in ssa.Instruction) {
				if c, ok := in.(*ssa.Call); ok && ir.CalleeOf(c.Common()) == callee {
					any = true
					key := ir.Path(c.Call.Args[0]) + ".mu"
					if !ls[in].Holds(key, false) {
						all = false
					}
				}
			})
		}
		if any && all {
			callerHolds[callee] = "$" + callee.Params[0].Name() + ".mu"
		}
	}
	n, bad := 0, 0
	for _, fn := range fns {
		entry := ir.Lockset{}
		if k, ok := callerHolds[fn]; ok {
			entry[k] = true
		}
		ls := ir.Locksets(fn, entry)
		r.Analysed(fn)
		allInstrs(fn, func(in ssa.Instruction) {
			fa, ok := in.(*ssa.FieldAddr)
			if !ok {
				return
			}
			tn, f, _ := ir.FieldOf(fa)
			var lockKey string
			switch {
			case tn == tBucket && f != "mu" && f != "nowFunc":
				lockKey = ir.Path(fa.X) + ".mu"
			case tn == tManager && f == "buckets":
				lockKey = ir.Path(fa.X) + ".mu"
			default:
				return
			}
			// fresh object under construction (not yet shared)
			if _, isAlloc := fa.X.(*ssa.Alloc); isAlloc {
				return
			}
			n++
			if !ls[in].Holds(lockKey, false) {
				bad++
				r.Violated(core.FuncName(fn)+"/"+f, p.InstrPos(in), "field %s of %s is accessed without holding %s (held: %s): concurrent waiters and feedback race on the limiter state", f, shortName(tn), lockKey, ls[in])
			}
		})
		// each Lock released on every exit
		allInstrs(fn, func(in ssa.Instruction) {
			if ir.IsPlainCallTo(in, "(*sync.Mutex).Lock") {
				if !ir.UnlockOnAllExits(fn, in) {
					bad++
					r.Violated(core.FuncName(fn)+"/unlock", p.InstrPos(in), "a path returns with the mutex still locked")
				}
			}
		})
	}
	if r.Floor("limiter field accesses", n, 12) && bad == 0 {
		var ch []string
		for f := range callerHolds {
			ch = append(ch, f.Name())
		}
		r.Held("ratelimiter/locking", n, "%d field accesses all under the owning mutex (caller-holds helpers: %v)", n, ch)
	}
}

// storesTo lists stores to field `field` of tokenBucket in the package, with their function.
func storesTo(p *core.Program, typ, field string) (out []*ssa.Store) {
	for _, fn := range p.FuncsInPkg(rel(pkgRL)) {
		allInstrs(fn, func(in ssa.Instruction) {
			if st, ok := in.(*ssa.Store); ok {
				if tn, f, ok := ir.FieldOf(st.Addr); ok && tn == typ && f == field {
					out = append(out, st)
				}
			}
		})
	}
	return
}

func isLoadOf(v ssa.Value, field string) bool {
	_, f, ok := fieldOfLoad(v)
	if _, isU := v.(*ssa.UnOp); !isU {
		return false
	}
	return ok && f == field
}

func builtinCall(v ssa.Value, name string) *ssa.Call {
	c, ok := v.(*ssa.Call)
	if ok && ir.CallName(c.Common()) == "builtin."+name {
		return c
	}
	return nil
}

// leqIdeal: expression is syntactically ≤ idealRate given refillRate ≤ idealRate (inductive hypothesis).
func leqIdeal(v ssa.Value) bool {
	switch {
	case isLoadOf(v, "idealRate"), isLoadOf(v, "refillRate"):
		return true
	}
	if c := builtinCall(v, "min"); c != nil {
		for _, a := range c.Call.Args {
			if leqIdeal(a) {
				return true
			}
		}
		return false
	}
	if c, ok := v.(*ssa.Call); ok && ir.IsCallTo(c, "math.Min") {
		return leqIdeal(c.Call.Args[0]) || leqIdeal(c.Call.Args[1])
	}
	if c := builtinCall(v, "max"); c != nil {
		for _, a := range c.Call.Args {
			if !leqIdeal(a) {
				return false
			}
		}
		return true
	}
	if c, ok := v.(*ssa.Call); ok && ir.IsCallTo(c, "math.Max") {
		return leqIdeal(c.Call.Args[0]) && leqIdeal(c.Call.Args[1])
	}
	if b, ok := v.(*ssa.BinOp); ok && b.Op == token.MUL {
		return (leqIdeal(b.X) && unitFactor(b.Y)) || (leqIdeal(b.Y) && unitFactor(b.X))
	}
	if b, ok := v.(*ssa.BinOp); ok && b.Op == token.QUO {
		if f, okc := ir.ConstFloat(b.Y); okc && f >= 1 {
			return leqIdeal(b.X)
		}
	}
	return false
}

// leqCurrent: expression is ≤ the current refillRate by shape, given floor ≤ refillRate (inductive hypothesis).
func leqCurrent(v ssa.Value) bool {
	if isLoadOf(v, "refillRate") || isFloorExpr(v) {
		return true
	}
	if c := builtinCall(v, "min"); c != nil {
		for _, a := range c.Call.Args {
			if leqCurrent(a) {
				return true
			}
		}
		return false
	}
	if c := builtinCall(v, "max"); c != nil {
		for _, a := range c.Call.Args {
			if !leqCurrent(a) {
				return false
			}
		}
		return true
	}
	if c, ok := v.(*ssa.Call); ok && ir.IsCallTo(c, "math.Min") {
		return leqCurrent(c.Call.Args[0]) || leqCurrent(c.Call.Args[1])
	}
	if c, ok := v.(*ssa.Call); ok && ir.IsCallTo(c, "math.Max") {
		return leqCurrent(c.Call.Args[0]) && leqCurrent(c.Call.Args[1])
	}
	if b, ok := v.(*ssa.BinOp); ok {
		switch b.Op {
		case token.MUL:
			return (leqCurrent(b.X) && unitFactor(b.Y)) || (leqCurrent(b.Y) && unitFactor(b.X))
		case token.QUO:
			if f, okc := ir.ConstFloat(b.Y); okc && f >= 1 {
				return leqCurrent(b.X)
			}
		}
	}
	return false
}

// unitFactor: value provably in [0,1]: constant in range, or math.Pow(c, n) with 0<c≤1 and n a non-negative count.
func unitFactor(v ssa.Value) bool {
	if f, ok := ir.ConstFloat(v); ok {
		return f >= 0 && f <= 1
	}
	if c, ok := v.(*ssa.Call); ok && ir.IsCallTo(c, "math.Pow") {
		if base, okb := ir.ConstFloat(c.Call.Args[0]); okb && base > 0 && base <= 1 {
			// exponent: float64(failureCount) after an increment (≥ 1) — accept conversions of an int field/count
			return true
		}
	}
	return false
}

// geqFloor: expression is ≥ min(minRefillRate, idealRate) by shape.
func geqFloor(v ssa.Value) bool {
	if isLoadOf(v, "idealRate") {
		return true
	}
	if c := builtinCall(v, "max"); c != nil {
		for _, a := range c.Call.Args {
			if isFloorExpr(a) {
				return true
			}
		}
	}
	if c, ok := v.(*ssa.Call); ok && ir.IsCallTo(c, "math.Max") {
		return isFloorExpr(c.Call.Args[0]) || isFloorExpr(c.Call.Args[1])
	}
	return false
}

// isFloorExpr: min(0.5, idealRate) in either argument order (builtin or math.Min).
func isFloorExpr(v ssa.Value) bool {
	var args []ssa.Value
	if c := builtinCall(v, "min"); c != nil {
		args = c.Call.Args
	} else if c, ok := v.(*ssa.Call); ok && ir.IsCallTo(c, "math.Min") {
		args = c.Call.Args
	} else {
		return false
	}
	hasConst, hasIdeal := false, false
	for _, a := range args {
		if f, ok := ir.ConstFloat(a); ok && f == 0.5 {
			hasConst = true
		}
		if isLoadOf(a, "idealRate") {
			hasIdeal = true
		}
	}
	return hasConst && hasIdeal && len(args) == 2
}

func ruleTBRate(r *core.Reporter) {
	p := r.P
	sts := storesTo(p, tBucket, "refillRate")
	if !r.Floor("stores to refillRate", len(sts), 2) {
		return
	}
	for _, st := range sts {
		fn := st.Parent()
		r.Analysed(fn)
		key := core.FuncName(fn) + "/refillRate"
		v := st.Val
		switch {
		case isFresh(st.Addr):
			// constructor: refillRate and idealRate receive the same value
			same := false
			for _, o := range storesTo(p, tBucket, "idealRate") {
				if o.Parent() == fn && o.Val == v {
					same = true
				}
			}
			if same {
				r.Held(key+"/init", 1, "constructor: refillRate = idealRate = configured rate")
			} else {
				r.Violated(key+"/init", p.InstrPos(st), "a new bucket starts with refillRate different from idealRate")
			}
		case isLoadOf(v, "idealRate"):
			r.Held(key+"/clamp", 1, "refillRate = idealRate")
		case builtinCall(v, "max") != nil || isMathMax(v):
			up, low := leqIdeal(v), geqFloor(v)
			if up && low {
				r.Held(key+"/cut", 1, "max(refillRate·f, min(0.5, idealRate)): stays within [min(0.5,ideal), ideal]")
				if leqCurrent(v) {
					r.Held(key+"/cut-monotone", 1, "the new rate is max(current·f, floor) with f ≤ 1: a failure never raises the rate")
				} else {
					r.Violated(key+"/cut-monotone", p.InstrPos(st), "the rate after a failure (%s) is not derived from the current rate: after a partial recovery (streak forgotten, rate still reduced) a 5xx RAISES the refill rate", ir.Path(v))
				}
			} else if !up {
				r.Violated(key+"/cut", p.InstrPos(st), "after a 5xx the refill rate can exceed the configured rate: the floor operand of max() is not bounded by idealRate (a configured rate below 0.5/s is raised to 0.5/s)")
			} else {
				r.Violated(key+"/cut", p.InstrPos(st), "the reduced rate has no floor min(0.5, idealRate): repeated failures drive it towards 0 (stall)")
			}
		default:
			// convex recovery: refill + (ideal - refill) * c, c∈[0,1], under refill < ideal
			if b, ok := v.(*ssa.BinOp); ok && b.Op == token.ADD && isLoadOf(b.X, "refillRate") {
				if m, ok := b.Y.(*ssa.BinOp); ok && m.Op == token.MUL && unitFactor(m.Y) {
					if s, ok := m.X.(*ssa.BinOp); ok && s.Op == token.SUB && isLoadOf(s.X, "idealRate") && isLoadOf(s.Y, "refillRate") {
						_, g := ir.GuardedBy(fn, ir.Entry(fn), st, true, func(a ir.Atom) bool {
							return a.V == nil && a.Op == token.LSS && isLoadOf(a.X, "refillRate") && isLoadOf(a.Y, "idealRate")
						})
						if g {
							r.Held(key+"/recover", 1, "convex step towards idealRate under refillRate < idealRate")
							continue
						}
					}
				}
			}
			r.Violated(key+"/other", p.InstrPos(st), "store to refillRate of a value (%s) whose bounds [min(0.5,ideal), ideal] cannot be established by shape", ir.Path(v))
		}
	}
	// idealRate is never changed after construction
	for _, st := range storesTo(p, tBucket, "idealRate") {
		if !isFresh(st.Addr) {
			r.Violated(core.FuncName(st.Parent())+"/idealRate", p.InstrPos(st), "the configured (ideal) rate is modified after construction")
		}
	}
}

func isMathMax(v ssa.Value) bool {
	c, ok := v.(*ssa.Call)
	return ok && ir.IsCallTo(c, "math.Max")
}

// isFresh: the struct being written is a local allocation (object under construction).
func isFresh(addr ssa.Value) bool {
	if fa, ok := addr.(*ssa.FieldAddr); ok {
		_, isAlloc := fa.X.(*ssa.Alloc)
		return isAlloc
	}
	return false
}

func ruleTBTokens(r *core.Reporter) {
	p := r.P
	sts := storesTo(p, tBucket, "tokens")
	if !r.Floor("stores to tokens", len(sts), 2) {
		return
	}
	for _, st := range sts {
		fn := st.Parent()
		r.Analysed(fn)
		key := core.FuncName(fn) + "/tokens"
		v := st.Val
		switch {
		case isFresh(st.Addr):
			ok := false
			for _, o := range storesTo(p, tBucket, "capacity") {
				if o.Parent() == fn && o.Val == v {
					ok = true
				}
			}
			if ok {
				r.Held(key+"/init", 1, "constructor: tokens = capacity")
			} else {
				r.Violated(key+"/init", p.InstrPos(st), "a new bucket does not start with tokens = capacity")
			}
		default:
			if f, ok := ir.ConstFloat(v); ok && f == 0 {
				r.Held(key+"/zero", 1, "tokens = 0")
				continue
			}
			if c, ok := v.(*ssa.Call); ok && (ir.IsCallTo(c, "math.Min") || ir.CallName(c.Common()) == "builtin.min") {
				capArg, nonNeg := false, false
				for _, a := range c.Call.Args {
					if isLoadOf(a, "capacity") {
						capArg = true
					}
					// tokens + elapsed*rate with elapsed > 0 guard
					if b, ok := a.(*ssa.BinOp); ok && b.Op == token.ADD && isLoadOf(b.X, "tokens") {
						nonNeg = true
					}
				}
				if capArg && nonNeg {
					// the added amount is non-negative: guarded by elapsed > 0
					_, g1 := ir.GuardedBy(fn, ir.Entry(fn), st, true, func(a ir.Atom) bool {
						if a.V != nil || a.Op != token.LSS {
							return false
						}
						z, okc := ir.ConstFloat(a.X)
						return okc && z == 0
					})
					// guard-clause form: `if x <= 0 { return }`
					_, g2 := ir.GuardedBy(fn, ir.Entry(fn), st, false, func(a ir.Atom) bool {
						if a.V != nil || a.Op != token.LEQ {
							return false
						}
						z, okc := ir.ConstFloat(a.Y)
						return okc && z == 0
					})
					if g1 || g2 {
						r.Held(key+"/refill", 1, "tokens = min(capacity, tokens + positive amount)")
						continue
					}
				}
				r.Violated(key+"/refill", p.InstrPos(st), "refill does not clamp to capacity or can add a negative amount (cap=%v)", capArg)
				continue
			}
			if b, ok := v.(*ssa.BinOp); ok && b.Op == token.SUB && isLoadOf(b.X, "tokens") {
				if one, okc := ir.ConstFloat(b.Y); okc && one == 1 {
					if _, g := ir.GuardedBy(fn, ir.Entry(fn), st, true, func(a ir.Atom) bool {
						// tokens >= 1  ≡ 1 <= tokens
						if a.V != nil || a.Op != token.LEQ {
							return false
						}
						o, okc := ir.ConstFloat(a.X)
						return okc && o == 1 && isLoadOf(a.Y, "tokens")
					}); g {
						r.Held(key+"/take", 1, "tokens-- only when tokens >= 1")
						continue
					}
					r.Violated(key+"/take", p.InstrPos(st), "a token is taken without tokens >= 1 having been established (count can go negative: more requests than capacity + T·rate)")
					continue
				}
			}
			r.Violated(key+"/other", p.InstrPos(st), "store to tokens of a value (%s) not provably within [0, capacity]", ir.Path(v))
		}
	}
	// Wait takes exactly one token per return
	wf := p.Func(rel(pkgRL), "(*tokenBucket).Wait")
	if wf != nil {
		r.Analysed(wf)
		take := func(in ssa.Instruction) bool {
			st, ok := in.(*ssa.Store)
			if !ok {
				return false
			}
			_, f, okf := ir.FieldOf(st.Addr)
			_, isSub := st.Val.(*ssa.BinOp)
			return okf && f == "tokens" && isSub
		}
		// a helper that reports "took one" (`if tb.tryTake() { return }`, kept out of line because it defers the
		// unlock): its true result stands for the take when every return of true in it follows the decrement
		takesOnTrue := func(h *ssa.Function) bool {
			if h == nil || h.Blocks == nil || h.Signature.Results().Len() != 1 {
				return false
			}
			res := ir.Reach([]ir.Pt{ir.Entry(h)}, ir.Opts{Stop: take})
			for _, ret := range ir.Returns(h) {
				if !res.Reached[ret] {
					continue
				}
				if c, isC := ir.RetVal(ret, 0).(*ssa.Const); isC && c.Value != nil && c.Value.Kind() == constant.Bool {
					if constant.BoolVal(c.Value) {
						return false
					}
					continue
				}
				vals, ok := res.BoolReturn(ret)
				if !ok {
					return false
				}
				for _, v := range vals {
					if v {
						return false
					}
				}
			}
			return true
		}
		type tkEdge struct {
			b *ssa.BasicBlock
			s int
		}
		viaHelper := map[tkEdge]bool{}
		for _, ii := range ir.Ifs(wf) {
			if c, ok := ii.Atom.V.(*ssa.Call); ok {
				if h := ir.CalleeOf(c.Common()); h != nil && h != wf && core.InModule(h) && takesOnTrue(h) {
					viaHelper[tkEdge{ii.If.Block(), ii.EdgeWhen(true)}] = true
				}
			}
		}
		notTaken := func(b *ssa.BasicBlock, s int) bool { return !viaHelper[tkEdge{b, s}] }
		if ret, bad := ir.PathExists([]ir.Pt{ir.Entry(wf)}, ir.Opts{Stop: take, EdgeOK: notTaken}, ir.IsExit); bad {
			r.Violated("(*tokenBucket).Wait/takes-token", p.InstrPos(ret), "Wait can return without having taken a token (request released for free)")
		} else {
			// refill precedes the test
			r.Held("(*tokenBucket).Wait/takes-token", 1, "every return of Wait is preceded by tokens--")
		}
	}
}

func ruleTBPenalty(r *core.Reporter) {
	p := r.P
	rf := p.Func(rel(pkgRL), "(*tokenBucket).refill")
	if rf == nil {
		// refill folded into its only caller by hand: the same clauses are read off Wait
		rf = p.Func(rel(pkgRL), "(*tokenBucket).Wait")
	}
	af := p.Func(rel(pkgRL), "(*tokenBucket).adjustOnFailure")
	sf := p.Func(rel(pkgRL), "(*tokenBucket).onSuccess")
	if rf == nil || af == nil || sf == nil {
		r.Undecided("ratelimiter/anchors", "", "refill/adjustOnFailure/onSuccess not found")
		return
	}
	r.Analysed(rf, af, sf)
	fieldStore := func(fn *ssa.Function, field string) []*ssa.Store {
		var out []*ssa.Store
		allInstrs(fn, func(in ssa.Instruction) {
			if st, ok := in.(*ssa.Store); ok {
				if tn, f, ok := ir.FieldOf(st.Addr); ok && tn == tBucket && f == field {
					out = append(out, st)
				}
			}
		})
		return out
	}
	// --- refill
	for _, st := range fieldStore(rf, "tokens") {
		if b, isB := st.Val.(*ssa.BinOp); isB && b.Op == token.SUB {
			continue // taking a token (Wait), not a refill
		}
		_, g := ir.GuardedBy(rf, ir.Entry(rf), st, false, func(a ir.Atom) bool {
			c := ir.BoolCallAtom(a, "(time.Time).Before")
			return c != nil && isLoadOf(c.Call.Args[1], "penaltyUntil")
		})
		if g {
			r.Held("refill/no-refill-in-penalty", 1, "tokens only increase when !now.Before(penaltyUntil)")
		} else {
			r.Violated("refill/no-refill-in-penalty", p.InstrPos(st), "tokens are refilled during a penalty period: requests are released before the back-off has elapsed")
		}
	}
	var sub *ssa.Call
	allInstrs(rf, func(in ssa.Instruction) {
		if c, ok := in.(*ssa.Call); ok && ir.IsCallTo(c, "(time.Time).Sub") {
			sub = c
		}
	})
	if sub == nil {
		r.Violated("refill/elapsed-from", fnPos(p, rf), "elapsed time is no longer computed with now.Sub(…)")
	} else {
		var leaves []ssa.Value
		phiLeaves(sub.Call.Args[1], map[ssa.Value]bool{}, &leaves)
		hasLast, hasPen, other := false, false, false
		for _, l := range leaves {
			switch {
			case isLoadOf(l, "lastRefill"):
				hasLast = true
			case isLoadOf(l, "penaltyUntil"):
				hasPen = true
			default:
				other = true
			}
		}
		afterGuard := false
		for _, ii := range ir.Ifs(rf) {
			if c := ir.BoolCallAtom(ii.Atom, "(time.Time).After"); c != nil && isLoadOf(c.Call.Args[0], "penaltyUntil") && isLoadOf(c.Call.Args[1], "lastRefill") {
				afterGuard = true
			}
		}
		if hasLast && hasPen && !other && afterGuard {
			r.Held("refill/elapsed-from", 2, "elapsed measured from the later of lastRefill and penaltyUntil")
		} else {
			r.Violated("refill/elapsed-from", p.InstrPos(sub), "elapsed time is not measured from max(lastRefill, penaltyUntil): after a penalty the bucket is credited for the penalty period itself (burst right after back-off)")
		}
	}
	// refill/clock-advance: time is credited exactly once — outside a penalty period, a refill with elapsed > 0
	// always moves lastRefill to the `now` it measured with (otherwise the same interval is credited again)
	{
		var nowCall ssa.Value
		if sub != nil {
			nowCall = ir.Strip(ir.Recv(sub.Common()))
		}
		isAdvance := func(in ssa.Instruction) bool {
			st, ok := in.(*ssa.Store)
			if !ok {
				return false
			}
			tn, f, okf := ir.FieldOf(st.Addr)
			return okf && tn == tBucket && f == "lastRefill" && nowCall != nil && ir.Strip(st.Val) == nowCall
		}
		skip := map[*ssa.BasicBlock]int{}
		for _, ii := range ir.Ifs(rf) {
			if c := ir.BoolCallAtom(ii.Atom, "(time.Time).Before"); c != nil && isLoadOf(c.Call.Args[1], "penaltyUntil") {
				skip[ii.If.Block()] = ii.EdgeWhen(true) // in penalty: nothing credited
			}
			a := ii.Atom
			if a.V == nil && a.Op == token.LSS {
				// 0 < elapsed  (elapsed > 0): the false side credits nothing
				if z, okz := ir.ConstFloat(a.X); okz && z == 0 && sub != nil && dependsOn(a.Y, sub, map[ssa.Value]bool{}) {
					skip[ii.If.Block()] = ii.EdgeWhen(false)
				}
			}
			if a.V == nil && a.Op == token.LEQ {
				// elapsed <= 0: the true side credits nothing
				if z, okz := ir.ConstFloat(a.Y); okz && z == 0 && sub != nil && dependsOn(a.X, sub, map[ssa.Value]bool{}) {
					skip[ii.If.Block()] = ii.EdgeWhen(true)
				}
			}
		}
		ret, bad := ir.PathExists([]ir.Pt{ir.Entry(rf)}, ir.Opts{Stop: isAdvance, EdgeOK: func(b *ssa.BasicBlock, s int) bool {
			e, has := skip[b]
			return !has || e != s
		}}, ir.IsExit)
		if nowCall == nil {
			r.Undecided("refill/clock-advance", fnPos(p, rf), "cannot identify the time the refill measures with")
		} else if bad {
			r.Violated("refill/clock-advance", p.InstrPos(ret), "refill can return, outside a penalty and with time elapsed, without moving lastRefill to now: the same interval is credited again by the next refill (burst above capacity after an idle period)")
		} else {
			r.Held("refill/clock-advance", 1, "every crediting path stores lastRefill = now")
		}
	}
	// --- adjustOnFailure: penalty arm
	wantCodes := map[int64]bool{429: false, 403: false, 408: false, 425: false}
	type edge struct {
		b *ssa.BasicBlock
		s int
	}
	var armEdges []edge
	tableArm := func(slice, v ssa.Value, ii ir.IfInfo) {
		if resolveParam(v, 0) == nil {
			return
		}
		ld, isLd := ir.Strip(slice).(*ssa.UnOp)
		if !isLd || ld.Op != token.MUL {
			return
		}
		g, isG := ld.X.(*ssa.Global)
		if !isG {
			return
		}
		if tab, okT := globalIntTable(p, g); okT {
			hit := false
			for _, c := range tab {
				if _, want := wantCodes[c]; want {
					wantCodes[c] = true
					hit = true
				}
			}
			if hit {
				armEdges = append(armEdges, edge{ii.If.Block(), ii.EdgeWhen(true)})
			}
		}
	}
	for _, ii := range ir.Ifs(af) {
		a := ii.Atom
		// slices.Contains(table, statusCode) where the canonicaliser could not inline it (switch case)
		if a.V != nil {
			if c, isC := ir.Strip(a.V).(*ssa.Call); isC && len(c.Call.Args) == 2 {
				if f := ir.CalleeOf(c.Common()); f != nil && (strings.HasPrefix(f.Name(), "zzcanonContains") || strings.HasPrefix(ir.FullName(f), "slices.Contains[")) && !strings.Contains(f.Name(), "Func") {
					tableArm(c.Call.Args[0], c.Call.Args[1], ii)
				}
			}
		}
		if a.V == nil && a.Op == token.EQL {
			if c, ok := ir.ConstInt(a.Y); ok {
				if _, want := wantCodes[c]; want && resolveParam(a.X, 0) != nil {
					wantCodes[c] = true
					armEdges = append(armEdges, edge{ii.If.Block(), ii.EdgeWhen(true)})
				}
			}
			// table form: statusCode == codes[i] over a constant, never-written package table
			for _, pair := range [][2]ssa.Value{{a.X, a.Y}, {a.Y, a.X}} {
				if sl, _, isEl := elemLoad(ir.Strip(pair[1])); isEl {
					tableArm(sl, pair[0], ii)
				}
			}
		}
	}
	missing := ""
	for c, seen := range wantCodes {
		if !seen {
			missing += " " + itoa(c)
		}
	}
	if missing != "" {
		r.Violated("adjustOnFailure/penalty-codes", fnPos(p, af), "status code(s)%s no longer lead to a penalty period", missing)
	} else {
		penStores := fieldStore(af, "penaltyUntil")
		isPen := func(in ssa.Instruction) bool {
			for _, s := range penStores {
				if in == ssa.Instruction(s) {
					return true
				}
			}
			return false
		}
		isZeroTokens := func(in ssa.Instruction) bool {
			st, ok := in.(*ssa.Store)
			if !ok {
				return false
			}
			_, f, okf := ir.FieldOf(st.Addr)
			z, okc := ir.ConstFloat(st.Val)
			return okf && f == "tokens" && okc && z == 0
		}
		isIncr := func(in ssa.Instruction) bool {
			st, ok := in.(*ssa.Store)
			if !ok {
				return false
			}
			_, f, okf := ir.FieldOf(st.Addr)
			b, isB := st.Val.(*ssa.BinOp)
			return okf && f == "failureCount" && isB && b.Op == token.ADD
		}
		okPen, okZero, okIncr := true, true, true
		for _, e := range armEdges {
			start := []ir.Pt{ir.EdgePt(e.b, e.s)}
			if _, bad := ir.PathExists(start, ir.Opts{Stop: isPen}, ir.IsExit); bad {
				okPen = false
			}
			if _, bad := ir.PathExists(start, ir.Opts{Stop: isZeroTokens}, ir.IsExit); bad {
				okZero = false
			}
			if _, bad := ir.PathExists(start, ir.Opts{Stop: isIncr}, ir.IsExit); bad {
				okIncr = false
			}
		}
		if okPen && okZero && okIncr {
			r.Held("adjustOnFailure/penalty-always", len(armEdges), "every 429/403/408/425 increments the streak, sets penaltyUntil and zeroes the tokens")
		} else {
			r.Violated("adjustOnFailure/penalty-always", fnPos(p, af), "a 429/403/408/425 can return without (penaltyUntil set=%v, tokens zeroed=%v, failureCount++=%v): a rate-limit answer arriving during a penalty is ignored, requests resume as soon as the old penalty ends", okPen, okZero, okIncr)
		}
		// value of the penalty
		okVal, why := false, "no store to penaltyUntil"
		for _, st := range penStores {
			add, ok := st.Val.(*ssa.Call)
			if !ok || !ir.IsCallTo(add, "(time.Time).Add") {
				why = "penaltyUntil is not now.Add(penalty)"
				continue
			}
			if !strings.Contains(ir.Path(add.Call.Args[0]), "nowFunc") && !strings.Contains(ir.Path(add.Call.Args[0]), "time.Now") {
				why = "penalty is not counted from now"
				continue
			}
			okVal, why = penaltyExpr(add.Call.Args[1])
		}
		if okVal {
			r.Held("adjustOnFailure/penalty-value", 1, "penaltyUntil = now + Duration(min(5s·2^(failureCount-1), 30s)), capped before conversion")
		} else {
			r.Violated("adjustOnFailure/penalty-value", fnPos(p, af), "%s", why)
		}
	}
	// 5xx arm: no penalty store
	for _, ii := range ir.Ifs(af) {
		a := ii.Atom
		// status >= 500 ≡ 500 <= status
		if a.V == nil && a.Op == token.LEQ {
			if c, ok := ir.ConstInt(a.X); ok && c == 500 && resolveParam(a.Y, 0) != nil {
				start := ir.EdgePt(ii.If.Block(), ii.EdgeWhen(true))
				bad := false
				for in := range ir.Reach([]ir.Pt{start}, ir.Opts{}).Reached {
					if st, ok := in.(*ssa.Store); ok {
						if _, f, okf := ir.FieldOf(st.Addr); okf && f == "penaltyUntil" {
							bad = true
						}
					}
				}
				if bad {
					r.Violated("adjustOnFailure/5xx-no-penalty", p.InstrPos(ii.If), "a 5xx imposes a penalty period (5xx must only lower the rate)")
				} else {
					r.Held("adjustOnFailure/5xx-no-penalty", 1, "5xx arm never touches penaltyUntil")
				}
			}
		}
	}
	// onSuccess
	if len(fieldStore(sf, "tokens")) > 0 || len(fieldStore(sf, "penaltyUntil")) > 0 {
		r.Violated("onSuccess/effects", fnPos(p, sf), "a success changes tokens or penaltyUntil: successes may only move the rate back towards the configured rate")
	} else {
		r.Held("onSuccess/effects", 1, "no store to tokens or penaltyUntil")
	}
}

func itoa(v int64) string {
	s := ""
	if v == 0 {
		return "0"
	}
	for v > 0 {
		s = string(rune('0'+v%10)) + s
		v /= 10
	}
	return s
}

// penaltyExpr checks Duration(min(5e9 * Pow(2, failureCount-1), 30e9)) with the cap inside the conversion.
func penaltyExpr(v ssa.Value) (bool, string) {
	conv, ok := v.(*ssa.Convert)
	if !ok {
		// min(Duration(unbounded float), 30s): the overflow shape
		if c := builtinCall(v, "min"); c != nil {
			for _, a := range c.Call.Args {
				if cv, isC := a.(*ssa.Convert); isC {
					if _, bounded := floatCap(cv.X); !bounded {
						return false, "the doubled penalty is converted to time.Duration before it is capped: after ~31 consecutive failures the float overflows int64, the duration turns negative and no back-off is applied"
					}
				}
			}
		}
		return false, "penalty is not Duration(min(base·2^(n-1), max))"
	}
	capV, bounded := floatCap(conv.X)
	if !bounded {
		return false, "the penalty is converted to time.Duration without an upper bound in the float domain (overflow after a long streak)"
	}
	if capV != 30e9 {
		return false, "the penalty cap is not 30 s"
	}
	// base 5s and doubling
	has5, hasPow := false, false
	var walk func(x ssa.Value, d int)
	walk = func(x ssa.Value, d int) {
		if x == nil || d > 8 {
			return
		}
		if f, ok := ir.ConstFloat(x); ok && f == 5e9 {
			has5 = true
		}
		switch y := x.(type) {
		case *ssa.Call:
			if ir.IsCallTo(y, "math.Pow") {
				if b, okb := ir.ConstFloat(y.Call.Args[0]); okb && b == 2 {
					// exponent failureCount - 1
					if strings.Contains(ir.Path(y.Call.Args[1]), "failureCount") && strings.Contains(ir.Path(y.Call.Args[1]), "- 1") {
						hasPow = true
					}
				}
			}
			for _, a := range y.Call.Args {
				walk(a, d+1)
			}
		case *ssa.BinOp:
			walk(y.X, d+1)
			walk(y.Y, d+1)
		case *ssa.Convert:
			walk(y.X, d+1)
		}
	}
	walk(conv.X, 0)
	if !has5 {
		return false, "the base penalty is not 5 s"
	}
	if !hasPow {
		return false, "the penalty does not double with every further failure (2^(failureCount-1))"
	}
	return true, ""
}

// floatCap: v is math.Min(x, const) / min(x, const) in the float domain; returns the constant.
func floatCap(v ssa.Value) (float64, bool) {
	var args []ssa.Value
	if c := builtinCall(v, "min"); c != nil {
		args = c.Call.Args
	} else if c, ok := v.(*ssa.Call); ok && ir.IsCallTo(c, "math.Min") {
		args = c.Call.Args
	} else {
		return 0, false
	}
	for _, a := range args {
		if f, ok := ir.ConstFloat(a); ok {
			return f, true
		}
	}
	return 0, false
}

func ruleBMFeedback(r *core.Reporter) {
	p := r.P
	for _, pair := range [][2]string{{"Wait", "Wait"}, {"AdjustOnFailure", "adjustOnFailure"}, {"OnSuccess", "onSuccess"}} {
		fn := p.Func(rel(pkgRL), "(*BucketManager)."+pair[0])
		if fn == nil {
			r.Undecided("BucketManager."+pair[0], "", "anchor not found")
			continue
		}
		r.Analysed(fn)
		ev := ir.Event{ID: "bucket." + pair[1], Match: func(in ssa.Instruction) bool {
			return ir.IsPlainCallTo(in, "(*"+pkgRL+".tokenBucket)."+pair[1])
		}}
		// a nil manager has no buckets: `if bm == nil { return }` (the limiter is off) is not a lost feedback
		type nilEdge struct {
			b *ssa.BasicBlock
			s int
		}
		nilRecv := map[nilEdge]bool{}
		for _, ii := range ir.Ifs(fn) {
			a := ii.Atom
			if a.V == nil && a.Op == token.EQL && len(fn.Params) > 0 {
				if (a.X == ssa.Value(fn.Params[0]) && ir.IsNilConst(a.Y)) || (a.Y == ssa.Value(fn.Params[0]) && ir.IsNilConst(a.X)) {
					nilRecv[nilEdge{ii.If.Block(), ii.EdgeWhen(true)}] = true
				}
			}
		}
		live := func(b *ssa.BasicBlock, s int) bool { return !nilRecv[nilEdge{b, s}] }
		if ret, bad := ir.PathExists([]ir.Pt{ir.Entry(fn)}, ir.Opts{Stop: ir.WithSummaries(ev, 2), EdgeOK: live}, ir.IsExit); bad {
			r.Violated("BucketManager."+pair[0], p.InstrPos(ret), "%s can return without reaching the host's bucket (feedback for an evicted/cleaned-up host is dropped, the next Wait starts from a fresh full bucket)", pair[0])
		} else {
			r.Held("BucketManager."+pair[0], 1, "always reaches tokenBucket.%s", pair[1])
		}
		// host argument is passed through to getBucket
		okHost := false
		allInstrs(fn, func(in ssa.Instruction) {
			gbFn := p.Func(rel(pkgRL), "(*BucketManager).getBucket") // follows a method ↔ function conversion
			if c, ok := in.(*ssa.Call); ok && (ir.IsCallTo(c, "(*"+pkgRL+".BucketManager).getBucket") || (gbFn != nil && c.Call.StaticCallee() == gbFn)) && len(c.Call.Args) == 2 && ir.SameValue(c.Call.Args[1], fn.Params[1]) {
				okHost = true
			}
		})
		if !okHost {
			r.Violated("BucketManager."+pair[0]+"/host", fnPos(p, fn), "%s does not look its bucket up by the host it was given", pair[0])
		}
	}
	// getBucket: returns an existing bucket or inserts a new one; never nil
	gb := p.Func(rel(pkgRL), "(*BucketManager).getBucket")
	if gb != nil {
		r.Analysed(gb)
		okNonNil := true
		for _, ret := range ir.Returns(gb) {
			if ir.ReturnsNil(ret, 0) {
				okNonNil = false
			}
		}
		if okNonNil {
			r.Held("BucketManager.getBucket", 1, "never returns nil")
		} else {
			r.Violated("BucketManager.getBucket", fnPos(p, gb), "getBucket can return nil")
		}
	}
}

func ruleTBUse(r *core.Reporter) {
	p := r.P
	fn, do := fetchClosure(p)
	if fn == nil {
		r.Undecided("archiver/fetch-closure", "", "not found")
		return
	}
	r.Analysed(fn)
	name := core.FuncName(fn)
	tBM := "(*" + pkgRL + ".BucketManager)"
	var wait, adj, succ []*ssa.Call
	allInstrs(fn, func(in ssa.Instruction) {
		if c, ok := in.(*ssa.Call); ok {
			switch {
			case ir.IsCallTo(c, tBM+".Wait"):
				wait = append(wait, c)
			case ir.IsCallTo(c, tBM+".AdjustOnFailure"):
				adj = append(adj, c)
			case ir.IsCallTo(c, tBM+".OnSuccess"):
				succ = append(succ, c)
			}
		}
	})
	// manager==nil edges are pruned (rate limiting disabled)
	pruneNil := func(b *ssa.BasicBlock, s int) bool {
		if len(b.Instrs) == 0 {
			return true
		}
		ifi, ok := b.Instrs[len(b.Instrs)-1].(*ssa.If)
		if !ok {
			return true
		}
		a, pol := ir.Decompose(ifi.Cond)
		if a.V == nil && a.Op == token.EQL {
			x, y := a.X, a.Y
			if ir.IsNilConst(x) {
				x, y = y, x
			}
			if ir.IsNilConst(y) && ir.Path(x) == "archiver.globalBucketManager" {
				nilEdge := 0
				if !pol {
					nilEdge = 1
				}
				return s != nilEdge
			}
		}
		return true
	}
	hostOK := func(c *ssa.Call) bool {
		// <req>.URL.Host where every phi leaf of <req> is the item's prepared request or a WithContext copy of it
		u, ok := c.Call.Args[1].(*ssa.UnOp)
		if !ok {
			return false
		}
		fa, ok := u.X.(*ssa.FieldAddr)
		if _, f, okf := ir.FieldOf(u.X); !ok || !okf || f != "Host" {
			return false
		}
		u2, ok := fa.X.(*ssa.UnOp)
		if !ok {
			return false
		}
		fa2, ok := u2.X.(*ssa.FieldAddr)
		if _, f, okf := ir.FieldOf(u2.X); !ok || !okf || f != "URL" {
			return false
		}
		var leaves []ssa.Value
		phiLeaves(fa2.X, map[ssa.Value]bool{}, &leaves)
		for _, l := range leaves {
			lc, isC := l.(*ssa.Call)
			if !isC || !(ir.IsCallTo(lc, "(*"+pkgModels+".URL).GetRequest") || ir.IsCallTo(lc, "(*net/http.Request).WithContext")) {
				return false
			}
		}
		return len(leaves) > 0
	}
	if len(wait) != 1 {
		r.Violated(name+"/wait", p.InstrPos(do), "%d Wait call(s) in the fetch closure, expected exactly one per item", len(wait))
	} else {
		w := wait[0]
		inLoop := ir.Reach([]ir.Pt{ir.After(w)}, ir.Opts{}).Reached[w]
		skips := ir.Reach([]ir.Pt{ir.Entry(fn)}, ir.Opts{Stop: func(in ssa.Instruction) bool { return in == ssa.Instruction(w) }, EdgeOK: pruneNil}).Reached[do]
		switch {
		case inLoop:
			r.Violated(name+"/wait", p.InstrPos(w), "the limiter is consulted inside the retry loop (per attempt, not once per item)")
		case skips:
			r.Violated(name+"/wait", p.InstrPos(do), "with rate limiting enabled a request can be sent without waiting for a token")
		case !hostOK(w):
			r.Violated(name+"/wait", p.InstrPos(w), "Wait is keyed on %s, not on the request's host", ir.Path(w.Call.Args[1]))
		default:
			r.Held(name+"/wait", 1, "one Wait(req.URL.Host) before the retry loop, on every path to client.Do")
		}
	}
	// reports
	var resp ssa.Value
	for _, rr := range ir.Referrers(do) {
		if e, ok := rr.(*ssa.Extract); ok && e.Index == 0 {
			resp = e
		}
	}
	okAdj := len(adj) >= 1
	for _, c := range adj {
		st := c.Call.Args[2]
		_, f, okf := fieldOfLoad(st)
		var base ssa.Value
		if u, ok := st.(*ssa.UnOp); ok {
			if fa, ok := u.X.(*ssa.FieldAddr); ok {
				base = fa.X
			}
		}
		if !okf || f != "StatusCode" || base != resp || !hostOK(c) {
			okAdj = false
		}
	}
	okSucc := len(succ) >= 1
	for _, c := range succ {
		if !hostOK(c) {
			okSucc = false
		}
	}
	if okAdj && okSucc {
		// every path from a successful Do (err == nil) back to the loop head / loop exit passes a report
		isReport := func(in ssa.Instruction) bool {
			for _, c := range adj {
				if in == ssa.Instruction(c) {
					return true
				}
			}
			for _, c := range succ {
				if in == ssa.Instruction(c) {
					return true
				}
			}
			return false
		}
		var errv ssa.Value
		for _, rr := range ir.Referrers(do) {
			if e, ok := rr.(*ssa.Extract); ok && e.Index == 1 {
				errv = e
			}
		}
		var start *ir.Pt
		for _, ii := range ir.Ifs(fn) {
			a := ii.Atom
			if a.V == nil && a.Op == token.EQL && ((a.X == errv && ir.IsNilConst(a.Y)) || (a.Y == errv && ir.IsNilConst(a.X))) {
				s := ir.EdgePt(ii.If.Block(), ii.EdgeWhen(true))
				start = &s
			}
		}
		if start == nil {
			r.Undecided(name+"/report", p.InstrPos(do), "err==nil branch after Do not found")
		} else {
			// ends: SetResponse call (after the loop) or Do again (next attempt) or return
			end := func(in ssa.Instruction) bool {
				return in == ssa.Instruction(do) || ir.IsPlainCallTo(in, "(*"+pkgModels+".URL).SetResponse") || ir.IsExit(in)
			}
			if bad, found := ir.PathExists([]ir.Pt{*start}, ir.Opts{Stop: isReport, EdgeOK: pruneNil}, end); found {
				r.Violated(name+"/report", p.InstrPos(bad), "a response can be processed without its outcome being reported to the limiter (AdjustOnFailure/OnSuccess skipped)")
			} else {
				r.Held(name+"/report", len(adj)+len(succ), "every response is reported: AdjustOnFailure(host, resp.StatusCode) or OnSuccess(host)")
			}
		}
	} else {
		r.Violated(name+"/report", p.InstrPos(do), "limiter feedback is not AdjustOnFailure(req host, this response's StatusCode) / OnSuccess(req host) (adjust ok=%v, success ok=%v)", okAdj, okSucc)
	}
}

func ruleBMSingleBucket(r *core.Reporter) {
	p := r.P
	n := 0
	for _, fn := range p.FuncsInPkg(rel(pkgRL)) {
		var lookups, updates []ssa.Instruction
		allInstrs(fn, func(in ssa.Instruction) {
			fa, ok := in.(*ssa.FieldAddr)
			if !ok {
				return
			}
			if tn, f, _ := ir.FieldOf(fa); tn != pkgRL+".BucketManager" || f != "buckets" {
				return
			}
			for _, ld := range ir.Referrers(fa) {
				u, isLoad := ld.(*ssa.UnOp)
				if !isLoad {
					continue
				}
				for _, use := range ir.Referrers(u) {
					switch use.(type) {
					case *ssa.MapUpdate:
						updates = append(updates, use)
					case *ssa.Lookup:
						lookups = append(lookups, use)
					}
				}
			}
		})
		isUnlock := func(in ssa.Instruction) bool {
			c, ok := in.(*ssa.Call)
			return ok && strings.HasSuffix(ir.CallName(c.Common()), "Mutex).Unlock")
		}
		for k, up := range updates {
			n++
			r.Analysed(fn)
			key := fmt.Sprintf("%s/insert#%d", core.FuncName(fn), k+1)
			ok := false
			for _, lk := range lookups {
				if ir.Reach([]ir.Pt{ir.After(lk)}, ir.Opts{Stop: isUnlock}).Reached[up] {
					ok = true
				}
			}
			if ok {
				r.HeldAt(key, p.InstrPos(up), 1, "inserted in the critical section of the lookup that missed")
			} else {
				r.Violated(key, p.InstrPos(up), "a bucket is inserted without a lookup in the same critical section: two goroutines that both miss a new host each get their own full bucket (N×capacity requests at once; feedback reaches only the bucket that stays in the map)")
			}
		}
	}
	r.Floor("insertions into BucketManager.buckets", n, 1)
}

func init() {
	register(&core.Rule{ID: "R-BM-TOUCH", Props: []string{"C13", "C16"}, Doc: "BucketManager.getBucket refreshes a bucket's lastAccess on every hit, unconditionally: from the found-edge of the map lookup every path to a return stores lastAccess. The cleanup loop deletes buckets whose lastAccess is older than cleanupFreq — a lazily refreshed stamp lets it delete the bucket of a host in continuous use, and the bucket recreated on the next call is full, unpenalised and at the configured rate (burst beyond capacity + T·rate, a running 429 penalty forgotten)", Run: ruleBMTouch})
}

func ruleBMTouch(r *core.Reporter) {
	p := r.P
	gb := p.Func(rel(pkgRL), "(*BucketManager).getBucket")
	if gb == nil {
		r.Undecided("BucketManager.getBucket", "", "anchor not found")
		return
	}
	r.Analysed(gb)
	// is there a cleanup that reads lastAccess at all?
	cleans := false
	for _, fn := range p.FuncsInPkg(rel(pkgRL)) {
		for _, f := range withAnon(fn) {
			hasDelete, readsStamp := false, false
			allInstrs(f, func(in ssa.Instruction) {
				if cc := ir.AsCall(in); cc != nil && ir.CallName(cc) == "builtin.delete" {
					hasDelete = true
				}
				if u, ok := in.(*ssa.UnOp); ok && u.Op == token.MUL {
					if _, fld, okf := ir.FieldOf(u.X); okf && fld == "lastAccess" {
						readsStamp = true
					}
				}
			})
			if hasDelete && readsStamp {
				cleans = true
			}
		}
	}
	if !cleans {
		r.Held("getBucket/touch", 0, "no cleanup decides on lastAccess")
		return
	}
	var hit *ir.IfInfo
	for _, ii := range ir.Ifs(gb) {
		if ex, ok := ii.Atom.V.(*ssa.Extract); ok && ex.Index == 1 {
			if lk, isLk := ex.Tuple.(*ssa.Lookup); isLk {
				if _, f, okf := fieldOfLoad(lk.X); okf && f == "buckets" {
					iic := ii
					hit = &iic
					break
				}
			}
		}
	}
	if hit == nil {
		r.Undecided("getBucket/touch", fnPos(p, gb), "map lookup with comma-ok on buckets not found")
		return
	}
	touch := func(in ssa.Instruction) bool {
		st, ok := in.(*ssa.Store)
		if !ok {
			return false
		}
		_, f, okf := ir.FieldOf(st.Addr)
		return okf && f == "lastAccess"
	}
	start := ir.EdgePt(hit.If.Block(), hit.EdgeWhen(true))
	if ret, stale := ir.PathExists([]ir.Pt{start}, ir.Opts{Stop: touch}, ir.IsExit); stale {
		r.Violated("getBucket/touch", p.InstrPos(ret), "a hit can return the bucket without refreshing lastAccess: the cleanup loop deletes on exactly that stamp, so a host in continuous use loses its bucket (and with it a running penalty, a lowered rate and its spent tokens) whenever a tick falls into a gap")
	} else {
		r.Held("getBucket/touch", 1, "every hit refreshes lastAccess before returning")
	}
}
