package rules

import (
	"go/token"
	"go/types"
	"strings"

	"golang.org/x/tools/go/ssa"

	"zenocheck/core"
	"zenocheck/ir"
)

func init() {
	PropertyText["C17"] = [2]string{
		"Decides the discipline that makes the counters exact under any interleaving: the plain integer fields of counter/mean are touched only through sync/atomic, atomic.* typed fields only through their methods (R-ATOMIC); the cumulative total of a rate has incr as its only writer, with the same step as the window count (R-RATE-TOTAL); the per-key map is read and written under the bucket's lock and create-or-increment happens inside one critical section (R-BUCKET-LOCK); each stage worker increments its gauge once and defers the decrement immediately, with single call sites (R-GAUGE-PAIR); URLsCrawledIncr is deferred at the top of every fetch goroutine, the status-code counter is bumped with this response's code on every path to ItemArchived, SeedsFinishedIncr exactly on finish paths (R-EVENT-ONCE, R-FIN); mean = sum/count with 0 for an empty mean (R-MEAN-DEF). Every exported wrapper updates the in-process counter on every path (R-STATS-UNCONDITIONAL).",
		"Not decided: a reader racing a writer may see count and sum from different instants (the property speaks of totals after a burst); Prometheus client internals.",
	}
	register(&core.Rule{ID: "R-ATOMIC", Props: []string{"C17"}, Doc: "counter.count, mean.count, mean.sum are only ever passed by address to sync/atomic functions; fields of atomic.* type are only used as method receivers (never copied, never assigned)", Run: ruleAtomic})
	register(&core.Rule{ID: "R-RATE-TOTAL", Props: []string{"C17"}, Doc: "rate.total is written only by rate.incr (total.Add(step) with the step also added to the window count); readers only Load it", Run: ruleRateTotal})
	register(&core.Rule{ID: "R-BUCKET-LOCK", Props: []string{"C17"}, Doc: "every access to rateBucket.data holds the bucket's mutex; an insertion into the map is reachable from its miss lookup without the lock being released in between", Run: ruleBucketLock})
	register(&core.Rule{ID: "R-GAUGE-PAIR", Props: []string{"C17"}, Doc: "each stage worker calls XRoutinesIncr() once and registers defer XRoutinesDecr() before anything that can return; each Incr/Decr has that single call site; the gauge functions are counter.incr(1)/decr(1)", Run: ruleGaugePair})
	register(&core.Rule{ID: "R-EVENT-ONCE", Props: []string{"C17"}, Doc: "URLsCrawledIncr is deferred before any return of the fetch goroutine; HTTPReturnCodesIncr(strconv.Itoa(resp.StatusCode)) lies on every path from client.Do to ItemArchived with resp being that Do's response; the event functions add exactly 1", Run: ruleEventOnce})
	register(&core.Rule{ID: "R-MEAN-DEF", Props: []string{"C17"}, Doc: "mean.add adds 1 to count and the value to sum; mean.get returns float(sum)/float(count) of the loaded values and 0 when count is 0; counter.decr adds the two's complement of the step", Run: ruleMeanDef})
}

func ruleAtomic(r *core.Reporter) {
	p := r.P
	plain := map[string]bool{pkgStats + ".counter.count": true, pkgStats + ".mean.count": true, pkgStats + ".mean.sum": true}
	n := 0
	seenFields := map[string]bool{}
	for _, fn := range p.ModFuncs {
		allInstrs(fn, func(in ssa.Instruction) {
			fa, ok := in.(*ssa.FieldAddr)
			if !ok {
				return
			}
			tn, f, _ := ir.FieldOf(fa)
			full := tn + "." + f
			ft := fieldType(fa)
			isAtomicTyped := strings.HasPrefix(ir.TypeName(ft), "sync/atomic.")
			if !plain[full] && !(isAtomicTyped && strings.HasPrefix(tn, core.ModPath)) {
				return
			}
			// object under construction: zero-value literal, fine
			n++
			seenFields[full] = true
			r.Analysed(fn)
			for _, use := range ir.Referrers(fa) {
				okUse := false
				switch u := use.(type) {
				case *ssa.Call:
					name := ir.CallName(u.Common())
					if plain[full] {
						okUse = strings.HasPrefix(name, "sync/atomic.")
					} else {
						okUse = strings.HasPrefix(name, "(*sync/atomic.") && len(u.Call.Args) > 0 && u.Call.Args[0] == ssa.Value(fa)
					}
				case *ssa.Defer:
					name := ir.CallName(u.Common())
					okUse = strings.HasPrefix(name, "sync/atomic.") || strings.HasPrefix(name, "(*sync/atomic.")
				case *ssa.DebugRef:
					okUse = true
				}
				if !okUse {
					r.Violated("atomic/"+shortName(full), p.InstrPos(use), "field %s is accessed without sync/atomic in %s (plain read-modify-write loses concurrent events)", shortName(full), core.FuncName(fn))
				}
			}
		})
	}
	want := []string{pkgStats + ".counter.count", pkgStats + ".mean.count", pkgStats + ".mean.sum", pkgStats + ".rate.total", pkgStats + ".rate.count", pkgStats + ".stats.Paused", pkgStats + ".stats.WARCWritingQueueSize"}
	missing := 0
	for _, w := range want {
		if !seenFields[w] {
			missing++
			r.Undecided("atomic/"+shortName(w), "", "no access to %s found: field renamed or its type changed away from an atomic discipline", shortName(w))
		}
	}
	if missing == 0 && r.Floor("atomic field accesses", n, 10) {
		r.Held("atomic-discipline", n, "%d accesses to %d atomic fields, all through sync/atomic", n, len(seenFields))
	}
	// the field types themselves
	pk := p.AllPkgs[pkgStats]
	if pk != nil {
		for _, tname := range []string{"counter", "mean"} {
			if obj := pk.Types.Scope().Lookup(tname); obj != nil {
				if st, ok := obj.Type().Underlying().(*types.Struct); ok {
					for i := 0; i < st.NumFields(); i++ {
						b, isB := st.Field(i).Type().Underlying().(*types.Basic)
						if !(isB && (b.Kind() == types.Uint64 || b.Kind() == types.Int64)) && !strings.HasPrefix(ir.TypeName(st.Field(i).Type()), "sync/atomic.") {
							r.Violated("atomic-type/"+tname+"."+st.Field(i).Name(), "", "field type %s cannot be updated atomically", st.Field(i).Type())
						}
					}
				}
			}
		}
	}
}

func fieldType(fa *ssa.FieldAddr) types.Type {
	if pt, ok := fa.Type().Underlying().(*types.Pointer); ok {
		return pt.Elem()
	}
	return fa.Type()
}

func ruleRateTotal(r *core.Reporter) {
	p := r.P
	tRate := pkgStats + ".rate"
	writers := map[string]int{}
	var incr *ssa.Function
	for _, fn := range p.FuncsInPkg(rel(pkgStats)) {
		allInstrs(fn, func(in ssa.Instruction) {
			c, ok := in.(*ssa.Call)
			if !ok || len(c.Call.Args) == 0 {
				return
			}
			fa, isFA := c.Call.Args[0].(*ssa.FieldAddr)
			if !isFA {
				return
			}
			tn, f, _ := ir.FieldOf(fa)
			if tn != tRate || f != "total" {
				return
			}
			m := ir.CallName(c.Common())
			if strings.HasSuffix(m, ".Load") {
				return
			}
			writers[core.FuncName(fn)]++
			if core.FuncName(fn) == rel(pkgStats)+".(*rate).incr" && strings.HasSuffix(m, ".Add") {
				incr = fn
			} else {
				r.Violated("rate.total/writer/"+core.FuncName(fn), p.InstrPos(in), "rate.total is modified by %s in %s: the cumulative total must only grow by the step of each incr (folding it in lazily from the window counter loses or double-counts events that race the fold)", m, core.FuncName(fn))
			}
		})
	}
	if incr == nil {
		r.Violated("rate.total/incr", "", "rate.incr no longer adds the step to the cumulative total")
		return
	}
	r.Analysed(incr)
	// both Adds use the parameter step, on every path
	for _, field := range []string{"total", "count"} {
		ev := func(in ssa.Instruction) bool {
			c, ok := in.(*ssa.Call)
			if !ok || len(c.Call.Args) != 2 {
				return false
			}
			fa, isFA := c.Call.Args[0].(*ssa.FieldAddr)
			if !isFA {
				return false
			}
			_, f, _ := ir.FieldOf(fa)
			return f == field && strings.HasSuffix(ir.CallName(c.Common()), ".Add") && ir.SameValue(c.Call.Args[1], incr.Params[1])
		}
		if ret, bad := ir.PathExists([]ir.Pt{ir.Entry(incr)}, ir.Opts{Stop: ev}, ir.IsExit); bad {
			r.Violated("rate.incr/"+field, p.InstrPos(ret), "rate.incr can return without adding the step to %s", field)
		} else {
			r.Held("rate.incr/"+field, 1, "%s.Add(step) on every path", field)
		}
	}
	if len(writers) == 1 {
		r.Held("rate.total/writers", 1, "only rate.incr writes the cumulative total")
	}
	// getTotal returns total.Load()
	gt := p.Func(rel(pkgStats), "(*rate).getTotal")
	if gt != nil {
		r.Analysed(gt)
		ok := false
		for _, ret := range ir.Returns(gt) {
			if c, isC := ir.RetVal(ret, 0).(*ssa.Call); isC && strings.HasSuffix(ir.CallName(c.Common()), ".Load") {
				if fa, isFA := c.Call.Args[0].(*ssa.FieldAddr); isFA {
					if _, f, _ := ir.FieldOf(fa); f == "total" {
						ok = true
					}
				}
			}
		}
		if ok {
			r.Held("rate.getTotal", 1, "returns total.Load()")
		} else {
			r.Violated("rate.getTotal", fnPos(p, gt), "getTotal is not a plain atomic load of the cumulative total")
		}
	}
}

func ruleBucketLock(r *core.Reporter) {
	p := r.P
	tRB := pkgStats + ".rateBucket"
	n, bad := 0, 0
	for _, fn := range p.FuncsInPkg(rel(pkgStats)) {
		ls := ir.Locksets(fn, ir.Lockset{})
		var lookups, updates []ssa.Instruction
		allInstrs(fn, func(in ssa.Instruction) {
			fa, ok := in.(*ssa.FieldAddr)
			if !ok {
				return
			}
			tn, f, _ := ir.FieldOf(fa)
			if tn != tRB || f != "data" {
				return
			}
			if _, isAlloc := fa.X.(*ssa.Alloc); isAlloc {
				return // constructor
			}
			n++
			r.Analysed(fn)
			base := ir.Path(fa.X)
			// classify the uses of the loaded map
			for _, ld := range ir.Referrers(fa) {
				u, isLoad := ld.(*ssa.UnOp)
				if !isLoad {
					continue
				}
				for _, use := range ir.Referrers(u) {
					write := false
					switch use.(type) {
					case *ssa.MapUpdate:
						write = true
						updates = append(updates, use)
					case *ssa.Lookup:
						lookups = append(lookups, use)
					}
					held := ls[use].Holds(base+".Mutex", false) || ls[use].Holds(base+".RWMutex", !write) || ls[use].Holds(base+".mu", !write)
					if !held {
						bad++
						r.Violated("rateBucket.data/"+core.FuncName(fn), p.InstrPos(use), "the per-key counter map is %s without the bucket's lock (held: %s)", map[bool]string{true: "written", false: "read"}[write], ls[use])
					}
				}
			}
		})
		// create-or-increment in one critical section
		isUnlock := func(in ssa.Instruction) bool {
			c, ok := in.(*ssa.Call)
			if !ok {
				return false
			}
			nm := ir.CallName(c.Common())
			return strings.HasSuffix(nm, "Mutex).Unlock") || strings.HasSuffix(nm, "Mutex).RUnlock")
		}
		for _, up := range updates {
			if len(lookups) == 0 {
				bad++
				r.Violated("rateBucket.incr/check-then-insert", p.InstrPos(up), "a key is inserted without looking it up first")
				continue
			}
			reach := false
			for _, lk := range lookups {
				if ir.Reach([]ir.Pt{ir.After(lk)}, ir.Opts{Stop: isUnlock}).Reached[up] {
					reach = true
				}
			}
			if !reach {
				bad++
				r.Violated("rateBucket.incr/check-then-insert", p.InstrPos(up), "the lock is released between the lookup that found the key missing and the insertion: two goroutines that both miss each insert their own counter, the later insert discards the earlier one's events")
			}
		}
	}
	if r.Floor("rateBucket.data accesses", n, 3) && bad == 0 {
		r.Held("rateBucket/locking", n, "%d map accesses under the lock; insertion in the same critical section as its lookup", n)
	}
}

func ruleGaugePair(r *core.Reporter) {
	p := r.P
	for _, g := range []struct{ pkg, name string }{{pkgPre, "Preprocessor"}, {pkgArch, "Archiver"}, {pkgPost, "Postprocessor"}} {
		incr := pkgStats + "." + g.name + "RoutinesIncr"
		decr := pkgStats + "." + g.name + "RoutinesDecr"
		w := findStageWorker(p, g.pkg)
		if w == nil {
			r.Undecided("gauge/"+g.name, "", "stage worker not found")
			continue
		}
		r.Analysed(w.Fn)
		nIncr, nDecr := 0, 0
		var incrSite, decrSite ssa.Instruction
		var decrOwner *ssa.Function
		for _, fn := range p.ModFuncs {
			allInstrs(fn, func(in ssa.Instruction) {
				if ir.IsCallTo(in, incr) {
					nIncr++
					if fn == w.Fn {
						incrSite = in
					}
				}
				if ir.IsCallTo(in, decr) {
					nDecr++
					decrSite = in
					decrOwner = fn
				}
			})
		}
		key := "gauge/" + g.name
		switch {
		case nIncr != 1 || nDecr != 1 || incrSite == nil || decrOwner != w.Fn:
			r.Violated(key, fnPos(p, w.Fn), "%sRoutinesIncr has %d call site(s), Decr %d; expected exactly one each, both in the stage worker", g.name, nIncr, nDecr)
		default:
			_, isDefer := decrSite.(*ssa.Defer)
			if !isDefer {
				r.Violated(key, p.InstrPos(decrSite), "the gauge decrement is not deferred: a worker leaving through another exit (stop while paused, stop while sending) keeps the gauge above the number of live workers")
				continue
			}
			if _, isCall := incrSite.(*ssa.Call); !isCall {
				r.Violated(key, p.InstrPos(incrSite), "the gauge increment is deferred or started as a goroutine")
				continue
			}
			// no return between Incr and the defer registration; Incr not in a loop
			_, gap := ir.PathExists([]ir.Pt{ir.After(incrSite)}, ir.Opts{Stop: func(in ssa.Instruction) bool { return in == decrSite }}, ir.IsExit)
			_, before := ir.PathExists([]ir.Pt{ir.Entry(w.Fn)}, ir.Opts{Stop: func(in ssa.Instruction) bool { return in == incrSite }}, func(in ssa.Instruction) bool { return in == decrSite })
			loop := ir.Reach([]ir.Pt{ir.After(incrSite)}, ir.Opts{}).Reached[incrSite]
			if gap || before || loop {
				r.Violated(key, p.InstrPos(incrSite), "Incr and the deferred Decr are not paired (return between them=%v, Decr registered without Incr=%v, Incr in loop=%v)", gap, before, loop)
			} else {
				r.Held(key, 2, "one Incr immediately followed by defer Decr, single call sites")
			}
		}
		// the functions themselves
		for _, nm := range []struct {
			fn, method string
		}{{g.name + "RoutinesIncr", "incr"}, {g.name + "RoutinesDecr", "decr"}} {
			f := p.Func(rel(pkgStats), nm.fn)
			if f == nil {
				continue
			}
			r.Analysed(f)
			ok := false
			allInstrs(f, func(in ssa.Instruction) {
				if c, isC := in.(*ssa.Call); isC && ir.IsCallTo(c, "(*"+pkgStats+".counter)."+nm.method) {
					if one, okc := ir.ConstInt(c.Call.Args[1]); okc && one == 1 && strings.HasSuffix(ir.Path(c.Call.Args[0]), "."+g.name+"Routines") {
						// unconditional
						if !ir.Reach([]ir.Pt{ir.Entry(f)}, ir.Opts{Stop: func(x ssa.Instruction) bool { return x == ssa.Instruction(c) }}).Reached[firstReturn(f)] {
							ok = true
						}
					}
				}
			})
			if ok {
				r.Held("gauge-fn/"+nm.fn, 1, "%sRoutines.%s(1) unconditionally", g.name, nm.method)
			} else {
				r.Violated("gauge-fn/"+nm.fn, fnPos(p, f), "%s does not unconditionally %s its own gauge by 1", nm.fn, nm.method)
			}
		}
	}
}

func firstReturn(f *ssa.Function) ssa.Instruction {
	for _, ret := range ir.Returns(f) {
		return ret
	}
	return nil
}

func ruleEventOnce(r *core.Reporter) {
	p := r.P
	states, _ := itemStates(p)
	fn, do := fetchClosure(p)
	if fn == nil {
		r.Undecided("archiver/fetch-closure", "", "not found")
		return
	}
	r.Analysed(fn)
	name := core.FuncName(fn)
	// URLsCrawledIncr deferred before any return
	var d ssa.Instruction
	nSites := 0
	for _, f := range p.ModFuncs {
		allInstrs(f, func(in ssa.Instruction) {
			if ir.IsCallTo(in, pkgStats+".URLsCrawledIncr") {
				nSites++
				if f == fn {
					d = in
				}
			}
		})
	}
	if _, isDefer := d.(*ssa.Defer); d == nil || !isDefer || nSites != 1 {
		r.Violated(name+"/urls-crawled", p.InstrPos(do), "URLsCrawledIncr is not a single deferred call in the fetch goroutine (sites=%d)", nSites)
	} else if ret, bad := ir.PathExists([]ir.Pt{ir.Entry(fn)}, ir.Opts{Stop: func(in ssa.Instruction) bool { return in == d }}, ir.IsExit); bad {
		r.Violated(name+"/urls-crawled", p.InstrPos(ret), "a fetch goroutine can return before URLsCrawledIncr is registered")
	} else if ir.Reach([]ir.Pt{ir.After(d)}, ir.Opts{}).Reached[d] {
		r.Violated(name+"/urls-crawled", p.InstrPos(d), "URLsCrawledIncr is registered in a loop (counted per attempt)")
	} else {
		r.Held(name+"/urls-crawled", 1, "deferred once per fetch goroutine, before any return")
	}
	// HTTPReturnCodesIncr(strconv.Itoa(resp.StatusCode)) on every path Do → ItemArchived
	var archived []ssa.Instruction
	var codes []*ssa.Call
	allInstrs(fn, func(in ssa.Instruction) {
		if _, v, ok := setStatusConst(in); ok && v == states["ItemArchived"] {
			archived = append(archived, in)
		}
		if c, ok := in.(*ssa.Call); ok && ir.IsCallTo(c, pkgStats+".HTTPReturnCodesIncr") {
			codes = append(codes, c)
		}
	})
	isCode := func(in ssa.Instruction) bool {
		for _, c := range codes {
			if in == ssa.Instruction(c) {
				return true
			}
		}
		return false
	}
	if len(codes) == 0 {
		r.Violated(name+"/status-codes", p.InstrPos(do), "the per-status-code counter is never incremented")
	} else {
		res := ir.Reach([]ir.Pt{ir.After(do)}, ir.Opts{Stop: isCode})
		skipped := false
		for _, a := range archived {
			if res.Reached[a] {
				skipped = true
			}
		}
		argOK := true
		for _, c := range codes {
			it, ok := c.Call.Args[0].(*ssa.Call)
			if !ok || !ir.IsCallTo(it, "strconv.Itoa") {
				argOK = false
				continue
			}
			_, f, okf := fieldOfLoad(it.Call.Args[0])
			var base ssa.Value
			if u, isU := it.Call.Args[0].(*ssa.UnOp); isU {
				if fa, isFA := u.X.(*ssa.FieldAddr); isFA {
					base = fa.X
				}
			}
			var leaves []ssa.Value
			phiLeaves(base, map[ssa.Value]bool{}, &leaves)
			fromDo := false
			for _, l := range leaves {
				if e, isE := l.(*ssa.Extract); isE && e.Tuple == ssa.Value(do) {
					fromDo = true
				}
			}
			if !okf || f != "StatusCode" || !fromDo {
				argOK = false
			}
		}
		once := ir.AtMostOnce(ir.Region{Start: ir.After(do)}, isCode, ir.Opts{Stop: func(in ssa.Instruction) bool { return in == ssa.Instruction(do) }})
		switch {
		case skipped:
			r.Violated(name+"/status-codes", p.InstrPos(codes[0]), "an archived response is not counted in the per-status-code totals on some path")
		case !argOK:
			r.Violated(name+"/status-codes", p.InstrPos(codes[0]), "the status-code counter is not keyed by strconv.Itoa(resp.StatusCode) of this request's response")
		case !once.OK:
			r.Violated(name+"/status-codes", p.InstrPos(once.Second), "one response is counted twice in the per-status-code totals")
		default:
			r.Held(name+"/status-codes", len(codes), "counted once, keyed by this response's status, on every path to ItemArchived")
		}
	}
	// event functions add exactly 1 to their own rate
	for _, ev := range []struct{ fn, field string }{{"URLsCrawledIncr", "URLsCrawled"}, {"SeedsFinishedIncr", "SeedsFinished"}} {
		f := p.Func(rel(pkgStats), ev.fn)
		if f == nil {
			r.Undecided("event-fn/"+ev.fn, "", "not found")
			continue
		}
		r.Analysed(f)
		ok := false
		allInstrs(f, func(in ssa.Instruction) {
			if c, isC := in.(*ssa.Call); isC && ir.IsCallTo(c, "(*"+pkgStats+".rate).incr") {
				if one, okc := ir.ConstInt(c.Call.Args[1]); okc && one == 1 && strings.HasSuffix(ir.Path(c.Call.Args[0]), "."+ev.field) {
					if !ir.Reach([]ir.Pt{ir.Entry(f)}, ir.Opts{Stop: func(x ssa.Instruction) bool { return x == ssa.Instruction(c) }}).Reached[firstReturn(f)] {
						ok = true
					}
				}
			}
		})
		if ok {
			r.Held("event-fn/"+ev.fn, 1, "%s.incr(1) unconditionally", ev.field)
		} else {
			r.Violated("event-fn/"+ev.fn, fnPos(p, f), "%s does not unconditionally add 1 to %s", ev.fn, ev.field)
		}
	}
	// HTTPReturnCodesIncr → bucket incr(key,1)
	if f := p.Func(rel(pkgStats), "HTTPReturnCodesIncr"); f != nil {
		r.Analysed(f)
		ok := false
		allInstrs(f, func(in ssa.Instruction) {
			if c, isC := in.(*ssa.Call); isC && ir.IsCallTo(c, "(*"+pkgStats+".rateBucket).incr") {
				if one, okc := ir.ConstInt(c.Call.Args[2]); okc && one == 1 && ir.SameValue(c.Call.Args[1], f.Params[0]) {
					if !ir.Reach([]ir.Pt{ir.Entry(f)}, ir.Opts{Stop: func(x ssa.Instruction) bool { return x == ssa.Instruction(c) }}).Reached[firstReturn(f)] {
						ok = true
					}
				}
			}
		})
		if ok {
			r.Held("event-fn/HTTPReturnCodesIncr", 1, "HTTPReturnCodes.incr(key, 1) unconditionally")
		} else {
			r.Violated("event-fn/HTTPReturnCodesIncr", fnPos(p, f), "HTTPReturnCodesIncr does not unconditionally add 1 under its key")
		}
	}
}

func ruleMeanDef(r *core.Reporter) {
	p := r.P
	add := p.Func(rel(pkgStats), "(*mean).add")
	get := p.Func(rel(pkgStats), "(*mean).get")
	decr := p.Func(rel(pkgStats), "(*counter).decr")
	incr := p.Func(rel(pkgStats), "(*counter).incr")
	if add == nil || get == nil || decr == nil || incr == nil {
		r.Undecided("stats/mean-counter", "", "anchors not found")
		return
	}
	r.Analysed(add, get, decr, incr)
	atomicAdd := func(fn *ssa.Function, field string, val func(ssa.Value) bool) bool {
		ok := false
		allInstrs(fn, func(in ssa.Instruction) {
			c, isC := in.(*ssa.Call)
			if !isC || !strings.HasPrefix(ir.CallName(c.Common()), "sync/atomic.Add") || len(c.Call.Args) != 2 {
				return
			}
			if _, f, okf := ir.FieldOf(c.Call.Args[0]); okf && f == field && val(c.Call.Args[1]) {
				if !ir.Reach([]ir.Pt{ir.Entry(fn)}, ir.Opts{Stop: func(x ssa.Instruction) bool { return x == ssa.Instruction(c) }}).Reached[firstReturn(fn)] {
					ok = true
				}
			}
		})
		return ok
	}
	isOne := func(v ssa.Value) bool { c, ok := ir.ConstInt(v); return ok && c == 1 }
	if atomicAdd(add, "count", isOne) && atomicAdd(add, "sum", func(v ssa.Value) bool { return ir.SameValue(v, add.Params[1]) }) {
		r.Held("mean.add", 2, "count += 1 and sum += value, atomically, on every call")
	} else {
		r.Violated("mean.add", fnPos(p, add), "mean.add no longer adds 1 to count and the value to sum on every call")
	}
	// get
	okGet, zeroOK := false, false
	for _, ret := range ir.Returns(get) {
		v := ir.RetVal(ret, 0)
		if b, ok := v.(*ssa.BinOp); ok && b.Op == token.QUO {
			num, den := ir.Strip(b.X), ir.Strip(b.Y)
			nc, ok1 := num.(*ssa.Call)
			dc, ok2 := den.(*ssa.Call)
			if ok1 && ok2 && strings.HasPrefix(ir.CallName(nc.Common()), "sync/atomic.Load") && strings.HasPrefix(ir.CallName(dc.Common()), "sync/atomic.Load") {
				_, nf, _ := ir.FieldOf(nc.Call.Args[0])
				_, df, _ := ir.FieldOf(dc.Call.Args[0])
				if nf == "sum" && df == "count" {
					okGet = true
					// the division is guarded by count != 0
					if _, g := ir.GuardedBy(get, ir.Entry(get), ret, false, func(a ir.Atom) bool {
						if a.V != nil || a.Op != token.EQL {
							return false
						}
						z, okz := ir.ConstInt(a.Y)
						return a.X == ssa.Value(dc) && okz && z == 0
					}); g {
						zeroOK = true
					}
				}
			}
		}
	}
	if okGet && zeroOK {
		r.Held("mean.get", 1, "sum/count of the atomically loaded values, 0 for an empty mean")
	} else {
		r.Violated("mean.get", fnPos(p, get), "mean.get is not float(sum)/float(count) guarded by count != 0 (div ok=%v, zero guard=%v)", okGet, zeroOK)
	}
	// counter.incr / decr
	if atomicAdd(incr, "count", func(v ssa.Value) bool { return ir.SameValue(v, incr.Params[1]) }) {
		r.Held("counter.incr", 1, "AddUint64(&count, step)")
	} else {
		r.Violated("counter.incr", fnPos(p, incr), "counter.incr does not atomically add its step")
	}
	if atomicAdd(decr, "count", func(v ssa.Value) bool {
		// ^(step-1)
		u, ok := v.(*ssa.UnOp)
		if !ok || u.Op != token.XOR {
			return false
		}
		b, okb := u.X.(*ssa.BinOp)
		if !okb || b.Op != token.SUB || !ir.SameValue(b.X, decr.Params[1]) {
			return false
		}
		one, okc := ir.ConstInt(b.Y)
		return okc && one == 1
	}) {
		r.Held("counter.decr", 1, "AddUint64(&count, ^(step-1)) = minus step")
	} else {
		r.Violated("counter.decr", fnPos(p, decr), "counter.decr does not atomically subtract its step (two's complement add)")
	}
}

func init() {
	register(&core.Rule{ID: "R-STATS-UNCONDITIONAL", Props: []string{"C17"}, Doc: "the exported counter wrappers of package stats update the in-process counter on every path: in each exported function that calls a method on a field of globalStats (incr, decr, add, set, reset …), every path from the entry to a return passes such a call — the Prometheus mirror next to it is optional (nil when --prometheus is off) and must not gate, reorder before an early return, or replace the in-process update", Run: ruleStatsUnconditional})
}

func ruleStatsUnconditional(r *core.Reporter) {
	p := r.P
	n := 0
	for _, fn := range p.FuncsInPkg(rel(pkgStats)) {
		if fn.Parent() != nil || fn.Object() == nil || !fn.Object().Exported() || fn.Signature.Recv() != nil {
			continue
		}
		onStats := func(in ssa.Instruction) bool {
			cc := ir.AsCall(in)
			if cc == nil || len(cc.Args) == 0 {
				return false
			}
			callee := cc.StaticCallee()
			if callee == nil || callee.Signature.Recv() == nil {
				return false
			}
			return strings.Contains(ir.Path(cc.Args[0]), "stats.globalStats.")
		}
		has := false
		allInstrs(fn, func(in ssa.Instruction) {
			if onStats(in) {
				has = true
			}
		})
		if !has {
			continue
		}
		n++
		r.Analysed(fn)
		key := core.FuncName(fn) + "/unconditional"
		if ret, skip := ir.PathExists([]ir.Pt{ir.Entry(fn)}, ir.Opts{Stop: onStats}, ir.IsExit); skip {
			r.Violated(key, p.InstrPos(ret), "%s can return without touching the in-process counter (an early return, typically in the optional Prometheus branch): that event is missing from the totals the crawler reports", fn.Name())
		} else {
			r.Held(key, 1, "in-process counter updated on every path")
		}
	}
	r.Floor("exported stats wrappers", n, 20)
}
