package rules

import (
	"fmt"
	"go/token"
	"go/types"
	"os"
	"sort"
	"strings"

	"golang.org/x/tools/go/ssa"

	"zenocheck/core"
	"zenocheck/ir"
)

func init() {
	PropertyText["C05"] = [2]string{
		"Decides: in preprocess every item that is not rejected in its loop iteration has passed NormalizeURL and every include/exclude predicate, evaluated on that very item, and the rejecting sides really reject (R-SCOPE-GATE); a request object is only built in preprocess, after the gate loop, for items that stayed Fresh (R-REQUEST-ONLY-AFTER-GATE, R-DELETE-ADVANCE); NormalizeURL accepts only http/https, non-loopback, dotted hosts on every success path, through helpers if any (R-URL-SHAPE); the only HTTP egress in the pipeline is the archiver's client.Do on the item's prepared request, and the WARC client never follows redirects itself (R-HTTP-EGRESS, R-NO-AUTO-REDIRECT); archive.org and archive-it.org are always appended to the excluded hosts (R-DEFAULT-EXCLUDES); all items pass the preprocessor before the archiver (R-WIRE). Every --exclusion-file contributes its compiled regexes (R-EXCLUSION-FILES). URL.String, which memoises, is not evaluated on a URL before NormalizeURL ran on it (R-STRING-AFTER-NORMALIZE); URL.Parse always re-derives the parsed form from Raw (R-PARSE-REFRESHES); the exclusion-file readers do not drop a last line that comes back together with io.EOF (R-CONFIG-READ-CONSUME).",
		"Not decided: that strings.Contains/regex semantics equal the operator's intent for every URL text; URL-parser differentials between net/url, ada and the HTTP stack (which host a crafted URL really connects to).",
	}
	register(&core.Rule{ID: "R-SCOPE-GATE", Props: []string{"C05"}, Doc: "preprocess gate loop: every path through an iteration that does not reject the item (RemoveChild+continue / SetStatus(Failed|Completed)+return) has taken the nil-error side of NormalizeURL(item), the pass side of the include test (when configured) and the false side of the exclude-host, exclude-string and regex predicates, all on that item; the other sides reach only rejections", Run: ruleScopeGate})
	register(&core.Rule{ID: "R-REQUEST-ONLY-AFTER-GATE", Props: []string{"C05", "C08"}, Doc: "(*URL).SetRequest has one call site, in preprocess, reachable only past the gate loop; the request URL is the item's canonical string; the request loop only sees items whose status is still Fresh", Run: ruleRequestAfterGate})
	register(&core.Rule{ID: "R-DELETE-ADVANCE", Props: []string{"C05", "C08", "C10"}, Doc: "a loop that deletes element i of the slice it iterates (append(s[:i], s[i+1:]...) or slices.Delete(s,i,i+1)) must not advance the index past the element that moved into slot i", Run: ruleDeleteAdvance})
	register(&core.Rule{ID: "R-URL-SHAPE", Props: []string{"C05", "C09", "C07"}, Doc: "NormalizeURL: every return that can carry a nil error has passed the scheme test against {http:, https:}, the host tests against localhost and 127.0.0.1, the dotted-host test and SetHash(\"\") — directly or through a module helper whose nil result implies them", Run: ruleURLShape})
	register(&core.Rule{ID: "R-HTTP-EGRESS", Props: []string{"C05"}, Doc: "calls that send HTTP requests from module code are confined to the archiver fetch closure (client.Do on the request prepared by preprocess) and the reviewed start-up/queue exemptions; anything else reachable from the pipeline is reported", Run: ruleHTTPEgress})
	register(&core.Rule{ID: "R-NO-AUTO-REDIRECT", Props: []string{"C05", "C06"}, Doc: "no code stores HTTPClientSettings.FollowRedirects: the warc client returns 3xx responses instead of following them, so redirect targets are only fetched as gated child items", Run: ruleNoAutoRedirect})
	register(&core.Rule{ID: "R-CONFIG-READ-CONSUME", Props: []string{"C05"}, Doc: "the configuration readers (exclusion files, local or remote) obey the reader contract: after Read / bufio.Reader.ReadString / ReadBytes every path to the next call or to a return that does not hand back the read error first looks at the returned data — the last line of an exclusion file without a trailing newline comes back together with io.EOF, dropping it silently removes that regex from the scope gate", Run: ruleConfigReadConsume})
	register(&core.Rule{ID: "R-EXCLUSION-FILES", Props: []string{"C05"}, Doc: "GenerateCrawlConfig: the lines read from each --exclusion-file are compiled and appended to config.ExclusionRegexes before the next file is read (nothing is overwritten between iterations); compileRegexes compiles every line", Run: ruleExclusionFiles})
	register(&core.Rule{ID: "R-DEFAULT-EXCLUDES", Props: []string{"C05"}, Doc: "GenerateCrawlConfig stores into ExcludeHosts, on every path to return nil, a value built from an append containing archive.org and archive-it.org; nothing else writes ExcludeHosts afterwards", Run: ruleDefaultExcludes})
}

// ---------------------------------------------------------------------------

// gateLoop describes the first per-item loop of preprocess.
type gateLoop struct {
	fn       *ssa.Function
	head     ir.IfInfo // idx < len(items)
	bodyPt   ir.Pt
	itemPath string
}

func findGateLoop(fn *ssa.Function) *gateLoop {
	// candidate loops: If `i < len(X)` (range loops); pick the first (in block order) whose body calls NormalizeURL
	for _, ii := range ir.Ifs(fn) {
		a := ii.Atom
		if a.V != nil || a.Op != token.LSS || !isInduction(a.X) {
			continue
		}
		c, ok := a.Y.(*ssa.Call)
		if !ok || ir.CallName(c.Common()) != "builtin.len" {
			continue
		}
		body := ir.EdgePt(ii.If.Block(), ii.EdgeWhen(true))
		res := ir.Reach([]ir.Pt{body}, ir.Opts{Stop: func(in ssa.Instruction) bool { return in == ssa.Instruction(ii.If) }})
		hasNorm := false
		itemPath := ""
		for in := range res.Reached {
			if ir.IsPlainCallTo(in, pkgPre+".NormalizeURL") {
				hasNorm = true
			}
		}
		if !hasNorm {
			continue
		}
		// the item expression: items[idx]
		slicePath := ir.Path(c.Call.Args[0])
		itemPath = slicePath + "[" + ir.Path(a.X) + "]"
		return &gateLoop{fn: fn, head: ii, bodyPt: body, itemPath: itemPath}
	}
	return nil
}

func ruleScopeGate(r *core.Reporter) {
	p := r.P
	states, _ := itemStates(p)
	fn := p.Func(rel(pkgPre), "preprocess")
	if fn == nil {
		r.Undecided("preprocessor.preprocess", "", "anchor not found")
		return
	}
	r.Analysed(fn)
	g := findGateLoop(fn)
	if g == nil {
		r.Undecided("preprocess/gate-loop", fnPos(p, fn), "no per-item loop calling NormalizeURL found in preprocess")
		return
	}
	item := g.itemPath
	hdrIf := ssa.Instruction(g.head.If)
	isItem := func(v ssa.Value) bool { return ir.Path(v) == item }
	// reject events
	reject := func(in ssa.Instruction) bool {
		if ir.IsPlainCallTo(in, "(*"+pkgModels+".Item).RemoveChild") {
			c := ir.AsCall(in)
			return len(c.Args) == 2 && isItem(c.Args[1])
		}
		if recv, v, ok := setStatusConst(in); ok && isItem(recv) && (v == states["ItemFailed"] || v == states["ItemCompleted"]) {
			return true
		}
		if ir.IsPlainCallTo(in, mod+"/internal/pkg/log/dumper.PanicWithDump") {
			return true
		}
		return false
	}
	type edge struct {
		b *ssa.BasicBlock
		s int
	}
	// passEdges(name) = set of edges whose union every non-rejected path must cross
	utilsContains := pkgUtils + ".StringContainsSliceElements"
	predCall := func(a ir.Atom, subject string, cfgField string) bool {
		c := ir.BoolCallAtom(a, utilsContains)
		if c == nil || len(c.Call.Args) != 2 {
			return false
		}
		return ir.Path(c.Call.Args[0]) == item+subject && isConfigField(c.Call.Args[1], cfgField)
	}
	inIter := ir.Reach([]ir.Pt{g.bodyPt}, ir.Opts{Stop: func(in ssa.Instruction) bool { return in == hdrIf }})
	var ifs []ir.IfInfo
	for _, ii := range ir.Ifs(fn) {
		if inIter.Reached[ii.If] {
			ifs = append(ifs, ii)
		}
	}
	type req struct {
		name  string
		pass  []edge // crossing any of these counts as "checked and passed"
		fail  []edge // sides that must lead to rejection only
		found int
	}
	var reqs []*req
	add := func(name string) *req { q := &req{name: name}; reqs = append(reqs, q); return q }
	qNorm := add("NormalizeURL(item)==nil")
	qExH := add("!ExcludeHosts(item host)")
	qExS := add("!ExcludeString(item url)")
	qExR := add("!ExclusionRegexes(item)")
	qInc := add("include filters (when configured)")
	var incCfgIfs []ir.IfInfo
	var incHost, incStr *ir.IfInfo
	foldedRegexScan := false
	for i := range ifs {
		ii := ifs[i]
		a := ii.Atom
		e := func(t bool) edge { return edge{ii.If.Block(), ii.EdgeWhen(t)} }
		// NormalizeURL(item.GetURL(), …) == nil
		if a.V == nil && a.Op == token.EQL {
			x, y := a.X, a.Y
			if ir.IsNilConst(x) {
				x, y = y, x
			}
			if c, ok := x.(*ssa.Call); ok && ir.IsNilConst(y) && ir.IsCallTo(c, pkgPre+".NormalizeURL") && len(c.Call.Args) == 2 && ir.Path(c.Call.Args[0]) == item+".GetURL()" {
				qNorm.pass = append(qNorm.pass, e(true))
				qNorm.fail = append(qNorm.fail, e(false))
				qNorm.found++
			}
			// len(config.IncludeX) > 0  ≡ 0 < len(...)
		}
		if a.V == nil && a.Op == token.LSS {
			if c, ok := a.Y.(*ssa.Call); ok && ir.CallName(c.Common()) == "builtin.len" {
				if z, okc := ir.ConstInt(a.X); okc && z == 0 && (isConfigField(c.Call.Args[0], "IncludeHosts") || isConfigField(c.Call.Args[0], "IncludeString")) {
					incCfgIfs = append(incCfgIfs, ii)
				}
			}
		}
		switch {
		case predCall(a, ".GetURL().GetParsed().Host", "ExcludeHosts"):
			qExH.pass = append(qExH.pass, e(false))
			qExH.fail = append(qExH.fail, e(true))
			qExH.found++
		case predCall(a, ".GetURL().String()", "ExcludeString"):
			qExS.pass = append(qExS.pass, e(false))
			qExS.fail = append(qExS.fail, e(true))
			qExS.found++
		case predCall(a, ".GetURL().GetParsed().Host", "IncludeHosts"):
			qInc.pass = append(qInc.pass, e(true))
			iicopy := ii
			incHost = &iicopy
			qInc.found++
		case predCall(a, ".GetURL().String()", "IncludeString"):
			qInc.pass = append(qInc.pass, e(true))
			iicopy := ii
			incStr = &iicopy
			qInc.found++
		}
		if c := ir.BoolCallAtom(a, pkgPre+".matchRegexExclusion"); c != nil && len(c.Call.Args) == 1 && isItem(c.Call.Args[0]) {
			qExR.pass = append(qExR.pass, e(false))
			qExR.fail = append(qExR.fail, e(true))
			qExR.found++
		}
		// the helper folded into the loop by hand: a scan of config.ExclusionRegexes matching the item's URL —
		// a match is the failing side, the natural end of the scan the passing one
		if c := ir.BoolCallAtom(a, "(*regexp.Regexp).MatchString"); c != nil && len(c.Call.Args) == 2 && ir.Path(c.Call.Args[1]) == item+".GetURL().String()" && strings.Contains(ir.Path(c.Call.Args[0]), "config.Get().ExclusionRegexes") {
			if l, okl := loopAround(fn, ii.If); okl {
				qExR.pass = append(qExR.pass, edge{l.If.Block(), l.EdgeWhen(false)})
				qExR.fail = append(qExR.fail, e(true))
				qExR.found++
				foldedRegexScan = true
			}
		}
	}
	// include: "not configured" escape = false edges of the len tests from which no include predicate is reachable in the iteration
	for _, ci := range incCfgIfs {
		succ := ci.If.Block().Succs[ci.EdgeWhen(false)]
		res := ir.Reach([]ir.Pt{{B: succ, I: 0}}, ir.Opts{Stop: func(in ssa.Instruction) bool { return in == hdrIf }})
		reachesPred := false
		if incHost != nil && res.Reached[incHost.If] {
			reachesPred = true
		}
		if incStr != nil && res.Reached[incStr.If] {
			reachesPred = true
		}
		for _, other := range incCfgIfs {
			if other.If != ci.If && res.Reached[other.If] {
				reachesPred = true
			}
		}
		if !reachesPred {
			qInc.pass = append(qInc.pass, edge{ci.If.Block(), ci.EdgeWhen(false)})
		}
	}
	// include fail side: string predicate false after host predicate false (both false)
	if incHost != nil && incStr != nil {
		// the edge(s) where both are known false: false edge of whichever is evaluated last
		for _, cand := range []*ir.IfInfo{incHost, incStr} {
			succ := cand.If.Block().Succs[cand.EdgeWhen(false)]
			res := ir.Reach([]ir.Pt{{B: succ, I: 0}}, ir.Opts{Stop: func(in ssa.Instruction) bool { return in == hdrIf }})
			otherIf := incStr
			if cand == incStr {
				otherIf = incHost
			}
			if !res.Reached[otherIf.If] {
				qInc.fail = append(qInc.fail, edge{cand.If.Block(), cand.EdgeWhen(false)})
			}
		}
	}
	if len(incCfgIfs) < 2 {
		qInc.found = 0
	}
	cut := func(es []edge) func(*ssa.BasicBlock, int) bool {
		return func(b *ssa.BasicBlock, s int) bool {
			for _, e := range es {
				if e.b == b && e.s == s {
					return false
				}
			}
			return true
		}
	}
	for _, q := range reqs {
		key := "preprocess/" + q.name
		if q.found == 0 || len(q.pass) == 0 {
			r.Violated(key, p.InstrPos(g.head.If), "the per-item gate loop of preprocess no longer evaluates %s on the item", q.name)
			continue
		}
		r.Paths++
		// (1) skip check: iteration end reachable without rejecting and without crossing a pass edge
		res := ir.Reach([]ir.Pt{g.bodyPt}, ir.Opts{Stop: func(in ssa.Instruction) bool { return in == hdrIf || reject(in) }, EdgeOK: cut(q.pass)})
		if res.Stopped[hdrIf] {
			if os.Getenv("ZC_DEBUG_GATE") != "" {
				for in := range res.Reached {
					if ifi, ok := in.(*ssa.If); ok {
						fmt.Fprintf(os.Stderr, "GATE %s reached if %s cond=%s\n", q.name, p.InstrPos(ifi), ir.Path(ifi.Cond))
					}
				}
				for _, e := range q.pass {
					fmt.Fprintf(os.Stderr, "GATE %s pass edge block %d succ %d\n", q.name, e.b.Index, e.s)
				}
			}
			r.Violated(key, p.InstrPos(g.head.If), "an item can finish its gate iteration un-rejected without having passed %s (a path skips the test: early continue, cached verdict, or a different subject)", q.name)
			continue
		}
		// (2) fail sides reach only rejections
		bad := false
		for _, fe := range q.fail {
			start := ir.EdgePt(fe.b, fe.s)
			rs := ir.Reach([]ir.Pt{start}, ir.Opts{Stop: func(in ssa.Instruction) bool { return in == hdrIf || reject(in) }})
			if rs.Stopped[hdrIf] {
				bad = true
			}
			for in := range rs.Reached {
				if _, isRet := in.(*ssa.Return); isRet {
					bad = true
				}
			}
		}
		if bad {
			r.Violated(key, p.InstrPos(g.head.If), "an item failing %s is not removed/terminated on every path (rejecting branch lost its RemoveChild+continue or SetStatus+return)", q.name)
			continue
		}
		r.Held(key, q.found, "checked on the item on every non-rejecting path; failing side only rejects")
	}
	// rejected seeds: SetStatus(item, Failed|Completed) is followed by return (not by falling into request building)
	okRet := true
	var badIn ssa.Instruction
	for in := range inIter.Reached {
		if recv, v, ok := setStatusConst(in); ok && isItem(recv) && (v == states["ItemFailed"] || v == states["ItemCompleted"]) {
			rs := ir.Reach([]ir.Pt{ir.After(in)}, ir.Opts{})
			for x := range rs.Reached {
				if ir.IsPlainCallTo(x, "(*"+pkgModels+".URL).SetRequest") {
					okRet, badIn = false, in
				}
			}
		}
	}
	if okRet {
		r.Held("preprocess/rejected-seed-returns", 1, "a rejected seed leaves preprocess without reaching the request loop")
	} else {
		r.Violated("preprocess/rejected-seed-returns", p.InstrPos(badIn), "after rejecting the seed, control can still reach the request-building loop")
	}
	// matchRegexExclusion consults every configured regex on the item's canonical URL
	mre := p.Func(rel(pkgPre), "matchRegexExclusion")
	if mre == nil && foldedRegexScan {
		r.Held("matchRegexExclusion", 1, "folded into the gate loop: every configured regex is matched against the item's canonical URL")
	} else if mre == nil {
		r.Undecided("matchRegexExclusion", "", "anchor not found")
	} else {
		r.Analysed(mre)
		var ms *ssa.Call
		allInstrs(mre, func(in ssa.Instruction) {
			if c, ok := in.(*ssa.Call); ok && ir.IsCallTo(c, "(*regexp.Regexp).MatchString") {
				ms = c
			}
		})
		ok := ms != nil && ir.Path(ms.Call.Args[1]) == "$"+mre.Params[0].Name()+".GetURL().String()" && loopCoversAll(mre, ms) && strings.Contains(ir.Path(ms.Call.Args[0]), "config.Get().ExclusionRegexes")
		trueOK := false
		if ok {
			for _, ii := range ir.Ifs(mre) {
				if ii.Atom.V == ssa.Value(ms) {
					start := ir.EdgePt(ii.If.Block(), ii.EdgeWhen(true))
					trueOK = true
					rres := ir.Reach([]ir.Pt{start}, ir.Opts{Stop: func(x ssa.Instruction) bool { return x == ssa.Instruction(ii.If) }})
					for in := range rres.Reached {
						if ret, isRet := in.(*ssa.Return); isRet {
							if vals, okc := rres.BoolReturn(ret); !okc || !allTrue(vals) {
								trueOK = false
							}
						}
					}
				}
			}
		}
		if ok && trueOK {
			r.Held("matchRegexExclusion", 1, "every configured regex is matched against the item's canonical URL; a match returns true")
		} else {
			r.Violated("matchRegexExclusion", fnPos(p, mre), "matchRegexExclusion does not test every ExclusionRegexes entry against item.GetURL().String()")
		}
	}
	// StringContainsSliceElements: true iff some element is contained
	sc := p.Func(rel(pkgUtils), "StringContainsSliceElements")
	if sc != nil {
		r.Analysed(sc)
		var cc *ssa.Call
		allInstrs(sc, func(in ssa.Instruction) {
			if c, ok := in.(*ssa.Call); ok && ir.IsCallTo(c, "strings.Contains") {
				cc = c
			}
		})
		if cc != nil && ir.Path(cc.Call.Args[0]) == "$"+sc.Params[0].Name() && loopCoversAll(sc, cc) {
			r.Held("StringContainsSliceElements", 1, "every slice element is tested with strings.Contains(target, elem)")
		} else {
			r.Violated("StringContainsSliceElements", fnPos(p, sc), "the filter helper no longer tests every element against the target")
		}
	}
}

func ruleRequestAfterGate(r *core.Reporter) {
	p := r.P
	states, _ := itemStates(p)
	fn := p.Func(rel(pkgPre), "preprocess")
	if fn == nil {
		r.Undecided("preprocessor.preprocess", "", "anchor not found")
		return
	}
	var sites []ssa.Instruction
	var owners []*ssa.Function
	for _, f := range p.ModFuncs {
		allInstrs(f, func(in ssa.Instruction) {
			if ir.IsCallTo(in, "(*"+pkgModels+".URL).SetRequest") {
				sites = append(sites, in)
				owners = append(owners, f)
			}
		})
	}
	if len(sites) != 1 || owners[0] != fn {
		pos := ""
		if len(sites) > 0 {
			pos = p.InstrPos(sites[len(sites)-1])
		}
		r.Violated("SetRequest/sites", pos, "%d call site(s) of URL.SetRequest; expected exactly one, in preprocess (a request built elsewhere bypasses the scope gate)", len(sites))
		return
	}
	sr := sites[0]
	r.Held("SetRequest/sites", 1, "single call site, in preprocess")
	g := findGateLoop(fn)
	if g == nil {
		r.Undecided("SetRequest/after-gate", fnPos(p, fn), "gate loop not found")
		return
	}
	if ir.OnlyVia(ir.Entry(fn), sr, g.head.If.Block(), g.head.EdgeWhen(false)) {
		r.Held("SetRequest/after-gate", 1, "reachable only through the gate loop's exit")
	} else {
		r.Violated("SetRequest/after-gate", p.InstrPos(sr), "a request can be built without the item list having gone through the gate loop")
	}
	// NewRequest URL argument = <item>.GetURL().String() of the same item SetRequest is applied to
	var nr *ssa.Call
	allInstrs(fn, func(in ssa.Instruction) {
		if c, ok := in.(*ssa.Call); ok && ir.IsCallTo(c, "net/http.NewRequest", "net/http.NewRequestWithContext") {
			nr = c
		}
	})
	srRecv := ir.Path(ir.AsCall(sr).Args[0]) // <item>.GetURL()
	if nr == nil {
		r.Violated("SetRequest/url", p.InstrPos(sr), "no http.NewRequest in preprocess")
	} else {
		urlArg := ir.Path(nr.Call.Args[len(nr.Call.Args)-2])
		reqOK := false
		if v := ir.AsCall(sr).Args[1]; v != nil {
			for _, rr := range ir.Referrers(nr) {
				if e, ok := rr.(*ssa.Extract); ok && e.Index == 0 && ir.SameValue(v, e) {
					reqOK = true
				}
			}
		}
		if urlArg == srRecv+".String()" && reqOK {
			r.Held("SetRequest/url", 1, "request URL is the item's canonical string (the text the filters inspected)")
		} else {
			r.Violated("SetRequest/url", p.InstrPos(nr), "the request is built for %s but attached to %s: the fetched URL is not the one the filters saw", urlArg, srRecv)
		}
	}
	// seencheck before the request loop: DedupeItems and a SeencheckItem on every path from the gate loop exit to SetRequest
	exit := ir.EdgePt(g.head.If.Block(), g.head.EdgeWhen(false))
	dedupe := func(in ssa.Instruction) bool { return ir.IsPlainCallTo(in, "(*"+pkgModels+".Item).DedupeItems") }
	seen := func(in ssa.Instruction) bool {
		return ir.IsPlainCallTo(in, pkgSeen+".SeencheckItem", pkgHQ+".SeencheckItem")
	}
	if ir.Reach([]ir.Pt{exit}, ir.Opts{Stop: dedupe}).Reached[sr] {
		r.Violated("SetRequest/after-dedupe", p.InstrPos(sr), "requests can be built without DedupeItems having run on the tree")
	} else {
		r.Held("SetRequest/after-dedupe", 1, "DedupeItems precedes request building")
	}
	// the only way around it is the operator's: the false side of a `config.Get().UseSeencheck` test ("with seencheck enabled")
	type cfgEdge struct {
		b *ssa.BasicBlock
		s int
	}
	off := map[cfgEdge]bool{}
	for _, ii := range ir.Ifs(fn) {
		if ii.Atom.V != nil && ir.Path(ii.Atom.V) == "config.Get().UseSeencheck" {
			off[cfgEdge{ii.If.Block(), ii.EdgeWhen(false)}] = true
		}
	}
	notDisabled := func(b *ssa.BasicBlock, s int) bool { return !off[cfgEdge{b, s}] }
	if ir.Reach([]ir.Pt{exit}, ir.Opts{Stop: seen, EdgeOK: notDisabled}).Reached[sr] {
		r.Violated("SetRequest/after-seencheck", p.InstrPos(sr), "requests can be built without a seencheck pass although seencheck is enabled")
	} else {
		r.Held("SetRequest/after-seencheck", 1, "a SeencheckItem call precedes request building on every path on which seencheck is enabled (%d disabled-by-configuration edge(s))", len(off))
	}
	// only-Fresh filter: between the last GetNodesAtLevel and SetRequest, a loop removes items whose status != Fresh
	filterOK := false
	for _, ii := range ir.Ifs(fn) {
		a := ii.Atom
		if a.V != nil || a.Op != token.EQL {
			continue
		}
		c, ok := a.X.(*ssa.Call)
		if !ok || !ir.IsCallTo(c, "(*"+pkgModels+".Item).GetStatus") {
			continue
		}
		if v, okc := ir.ConstInt(a.Y); !okc || v != states["ItemFresh"] {
			continue
		}
		// on the != Fresh edge an in-place delete (append of two slices of the same slice) happens
		start := ir.EdgePt(ii.If.Block(), ii.EdgeWhen(false))
		rs := ir.Reach([]ir.Pt{start}, ir.Opts{Stop: func(in ssa.Instruction) bool { return in == ssa.Instruction(ii.If) }})
		for in := range rs.Reached {
			if cc, isC := in.(*ssa.Call); isC && ir.CallName(cc.Common()) == "builtin.append" {
				if _, isSl := cc.Call.Args[0].(*ssa.Slice); isSl {
					// and the filter runs before SetRequest
					if ir.Reach([]ir.Pt{ir.After(cc)}, ir.Opts{}).Reached[sr] && !ir.Reach([]ir.Pt{ir.After(sr)}, ir.Opts{}).Reached[cc] {
						filterOK = true
					}
				}
			}
		}
	}
	isFreshCmp := func(v ssa.Value) (eqFresh bool, ok bool) {
		a, pol := ir.Decompose(v)
		if a.V != nil || a.Op != token.EQL {
			return false, false
		}
		x, y := a.X, a.Y
		if _, isC := x.(*ssa.Const); isC {
			x, y = y, x
		}
		c, isCall := x.(*ssa.Call)
		val, okc := ir.ConstInt(y)
		if !isCall || !okc || !ir.IsCallTo(c, "(*"+pkgModels+".Item).GetStatus") || val != states["ItemFresh"] {
			return false, false
		}
		return pol, true
	}
	if !filterOK {
		// forward filter: on the == Fresh edge the item is appended to the list that is used afterwards
		for _, ii := range ir.Ifs(fn) {
			if eq, ok := isFreshCmp(ii.If.Cond); ok {
				start := ir.EdgePt(ii.If.Block(), ii.EdgeWhen(eq == ii.Pol))
				_ = start
				keepEdge := 0
				if !eq {
					keepEdge = 1
				}
				st := ir.EdgePt(ii.If.Block(), keepEdge)
				rs := ir.Reach([]ir.Pt{st}, ir.Opts{Stop: func(in ssa.Instruction) bool { return in == ssa.Instruction(ii.If) }})
				for in := range rs.Reached {
					if cc, isC := in.(*ssa.Call); isC && ir.CallName(cc.Common()) == "builtin.append" && strings.HasSuffix(cc.Type().String(), "models.Item") {
						if ir.Reach([]ir.Pt{ir.After(cc)}, ir.Opts{}).Reached[sr] && !ir.Reach([]ir.Pt{ir.After(sr)}, ir.Opts{}).Reached[cc] && loopCoversAll(fn, cc) {
							filterOK = true
						}
					}
				}
			}
		}
	}
	if !filterOK {
		// library filter: slices.DeleteFunc(list, func(it) bool { return it.GetStatus() != Fresh }) before the requests
		allInstrs(fn, func(in ssa.Instruction) {
			c, ok := in.(*ssa.Call)
			if !ok || !strings.HasPrefix(ir.CallName(c.Common()), "slices.DeleteFunc") || len(c.Call.Args) != 2 {
				return
			}
			var pred *ssa.Function
			switch x := ir.Strip(c.Call.Args[1]).(type) {
			case *ssa.Function:
				pred = x
			case *ssa.MakeClosure:
				pred, _ = x.Fn.(*ssa.Function)
			}
			if pred == nil {
				return
			}
			okPred := len(ir.Returns(pred)) > 0
			for _, ret := range ir.Returns(pred) {
				if eq, okc := isFreshCmp(ir.RetVal(ret, 0)); !okc || eq {
					okPred = false
				}
			}
			if okPred && ir.Reach([]ir.Pt{ir.After(c)}, ir.Opts{}).Reached[sr] && !ir.Reach([]ir.Pt{ir.After(sr)}, ir.Opts{}).Reached[c] {
				filterOK = true
			}
		})
	}
	if filterOK {
		r.Held("SetRequest/fresh-only", 1, "non-Fresh items (seen, failed, completed) are removed from the list before requests are built")
	} else {
		// alternative accepted shape: SetRequest itself guarded by status==Fresh
		if _, ok := ir.GuardedBy(fn, ir.Entry(fn), sr, true, func(a ir.Atom) bool {
			if a.V != nil || a.Op != token.EQL {
				return false
			}
			c, ok := a.X.(*ssa.Call)
			v, okc := ir.ConstInt(a.Y)
			return ok && okc && ir.IsCallTo(c, "(*"+pkgModels+".Item).GetStatus") && v == states["ItemFresh"]
		}); ok {
			r.Held("SetRequest/fresh-only", 1, "request building guarded by status==Fresh")
		} else {
			r.Violated("SetRequest/fresh-only", p.InstrPos(sr), "items that are no longer Fresh (marked seen) are not filtered out before requests are built")
		}
	}
}

// ruleDeleteAdvance: module-wide scan of index loops that delete the current element in place.
func ruleDeleteAdvance(r *core.Reporter) {
	p := r.P
	n := 0
	for _, fn := range p.ModFuncs {
		allInstrs(fn, func(in ssa.Instruction) {
			c, ok := in.(*ssa.Call)
			if !ok {
				return
			}
			var idx ssa.Value
			name := ir.CallName(c.Common())
			switch {
			case name == "builtin.append" && len(c.Call.Args) == 2:
				lo, ok1 := c.Call.Args[0].(*ssa.Slice)
				hi, ok2 := c.Call.Args[1].(*ssa.Slice)
				if !ok1 || !ok2 || lo.High == nil || hi.Low == nil || lo.Low != nil {
					return
				}
				if ir.Path(lo.X) != ir.Path(hi.X) {
					return
				}
				b, isB := hi.Low.(*ssa.BinOp)
				if !isB || b.Op != token.ADD || b.X != lo.High {
					return
				}
				if one, okc := ir.ConstInt(b.Y); !okc || one != 1 {
					return
				}
				idx = lo.High
			case strings.HasPrefix(name, "slices.Delete") && len(c.Call.Args) == 3:
				b, isB := c.Call.Args[2].(*ssa.BinOp)
				if !isB || b.Op != token.ADD || b.X != c.Call.Args[1] {
					return
				}
				idx = c.Call.Args[1]
			default:
				return
			}
			ph, isPhi := idx.(*ssa.Phi)
			if !isPhi {
				return // index is not a loop variable: single deletion
			}
			n++
			r.Analysed(fn)
			key := core.FuncName(fn) + "/delete@" + types.TypeString(c.Call.Args[0].Type(), func(pk *types.Package) string { return pk.Name() })
			// values flowing into the index phi along back edges reachable from the deletion
			back := ir.Reach([]ir.Pt{ir.After(c)}, ir.Opts{Stop: func(x ssa.Instruction) bool { return x == ssa.Instruction(ph) }})
			bad := false
			for i, pred := range ph.Block().Preds {
				if len(pred.Instrs) == 0 || !back.Reached[pred.Instrs[len(pred.Instrs)-1]] {
					continue
				}
				e := ph.Edges[i]
				if b, isB := e.(*ssa.BinOp); isB && b.Op == token.ADD && b.X == ssa.Value(ph) {
					if one, okc := ir.ConstInt(b.Y); okc && one >= 1 {
						bad = true
					}
				}
			}
			if bad {
				r.Violated(key, p.InstrPos(c), "element i is deleted in place and the loop then advances to i+1: the element that moved into slot i is never examined (every second item of a run is skipped)")
			} else {
				r.Held(key, 1, "index does not advance past the shifted element (downward loop or continue without increment)")
			}
		})
	}
	if n == 0 {
		// nothing deletes from a slice while iterating over it (filters that build a new slice, slices.DeleteFunc):
		// the hazard this rule is about cannot occur
		r.Held("no-in-place-delete-loops", 1, "no loop deletes from the slice it iterates over")
	}
}

// ---------------------------------------------------------------------------
// R-URL-SHAPE

type shapeCheck struct {
	name  string
	edges func(fn *ssa.Function) [][2]any // (block, succ) pass edges in fn
	instr func(in ssa.Instruction) bool   // or an instruction event
}

func goadaCall(v ssa.Value, method string) bool {
	c, ok := v.(*ssa.Call)
	return ok && ir.IsCallTo(c, "(*github.com/ada-url/goada.Url)."+method)
}

func strEqAtom(a ir.Atom, method, lit string) bool {
	if a.V != nil || a.Op != token.EQL {
		return false
	}
	x, y := a.X, a.Y
	if s, ok := ir.ConstString(x); ok && s == lit {
		x, y = y, x
	}
	s, ok := ir.ConstString(y)
	return ok && s == lit && goadaCall(x, method)
}

func shapeChecks() []shapeCheck {
	eqEdges := func(method, lit string, truth bool) func(fn *ssa.Function) [][2]any {
		return func(fn *ssa.Function) [][2]any {
			var out [][2]any
			for _, ii := range ir.Ifs(fn) {
				if strEqAtom(ii.Atom, method, lit) {
					out = append(out, [2]any{ii.If.Block(), ii.EdgeWhen(truth)})
				}
			}
			return out
		}
	}
	return []shapeCheck{
		{name: "scheme ∈ {http:, https:}", edges: func(fn *ssa.Function) [][2]any {
			a := eqEdges("Protocol", "http:", true)(fn)
			b := eqEdges("Protocol", "https:", true)(fn)
			if len(a) == 0 || len(b) == 0 {
				return nil
			}
			return append(a, b...)
		}},
		{name: "host != localhost", edges: eqEdges("Hostname", "localhost", false)},
		{name: "host != 127.0.0.1", edges: eqEdges("Hostname", "127.0.0.1", false)},
		{name: "host contains a dot", edges: func(fn *ssa.Function) [][2]any {
			var out [][2]any
			for _, ii := range ir.Ifs(fn) {
				if c := ir.BoolCallAtom(ii.Atom, "strings.Contains"); c != nil && goadaCall(c.Call.Args[0], "Hostname") {
					if s, ok := ir.ConstString(c.Call.Args[1]); ok && s == "." {
						out = append(out, [2]any{ii.If.Block(), ii.EdgeWhen(true)})
					}
				}
			}
			return out
		}},
		{name: "fragment removed (SetHash(\"\"))", instr: func(in ssa.Instruction) bool {
			if !ir.IsPlainCallTo(in, "(*github.com/ada-url/goada.Url).SetHash") {
				return false
			}
			s, ok := ir.ConstString(ir.AsCall(in).Args[1])
			return ok && s == ""
		}},
	}
}

// successReturns: returns whose error result is not provably non-nil.
func successReturns(fn *ssa.Function) []*ssa.Return {
	var out []*ssa.Return
	sig := fn.Signature.Results()
	ei := -1
	for i := 0; i < sig.Len(); i++ {
		if ir.TypeName(sig.At(i).Type()) == "error" {
			ei = i
		}
	}
	if ei < 0 {
		return nil
	}
	for _, ret := range ir.Returns(fn) {
		v := ir.RetVal(ret, ei)
		if v == nil {
			continue
		}
		// load of a package-level error variable: failing
		if u, ok := v.(*ssa.UnOp); ok && u.Op == token.MUL {
			if _, isG := u.X.(*ssa.Global); isG {
				continue
			}
		}
		// value known non-nil at this return (guarded by v != nil)
		if !ir.IsNilConst(v) {
			if _, g := ir.GuardedBy(fn, ir.Entry(fn), ret, false, func(a ir.Atom) bool {
				return a.V == nil && a.Op == token.EQL && ((a.X == v && ir.IsNilConst(a.Y)) || (a.Y == v && ir.IsNilConst(a.X)))
			}); g {
				continue
			}
			// fmt.Errorf / errors.New results
			if c, ok := v.(*ssa.Call); ok && ir.IsCallTo(c, "fmt.Errorf", "errors.New") {
				continue
			}
		}
		out = append(out, ret)
	}
	return out
}

var shapeMemo = map[string]int{}

// passesShape: every success return of fn is unreachable once the check's pass edges (direct, or err==nil edges of
// calls to helpers that themselves pass the check) and instruction events are removed.
func passesShape(fn *ssa.Function, sc shapeCheck, depth int) bool {
	if fn == nil || len(fn.Blocks) == 0 || depth < 0 {
		return false
	}
	key := core.FuncName(fn) + "|" + sc.name
	switch shapeMemo[key] {
	case 1, 2:
		return false
	case 3:
		return true
	}
	shapeMemo[key] = 1
	var cutEdges [][2]any
	if sc.edges != nil {
		cutEdges = append(cutEdges, sc.edges(fn)...)
	}
	// helper calls
	for _, ii := range ir.Ifs(fn) {
		a := ii.Atom
		if a.V != nil || a.Op != token.EQL {
			continue
		}
		x, y := a.X, a.Y
		if ir.IsNilConst(x) {
			x, y = y, x
		}
		c, ok := x.(*ssa.Call)
		if !ok || !ir.IsNilConst(y) {
			continue
		}
		if callee := ir.CalleeOf(c.Common()); callee != nil && core.InModule(callee) && callee != fn && passesShape(callee, sc, depth-1) {
			cutEdges = append(cutEdges, [2]any{ii.If.Block(), ii.EdgeWhen(true)})
		}
	}
	stop := func(in ssa.Instruction) bool {
		if sc.instr != nil && sc.instr(in) {
			return true
		}
		// a helper that unconditionally performs the instruction event
		if sc.instr != nil {
			if c, ok := in.(*ssa.Call); ok {
				if callee := ir.CalleeOf(c.Common()); callee != nil && core.InModule(callee) && callee != fn {
					if ir.MustHit(callee, ir.Event{ID: sc.name, Match: sc.instr}, 2) {
						return true
					}
				}
			}
		}
		return false
	}
	res := ir.Reach([]ir.Pt{ir.Entry(fn)}, ir.Opts{Stop: stop, EdgeOK: func(b *ssa.BasicBlock, s int) bool {
		for _, e := range cutEdges {
			if e[0].(*ssa.BasicBlock) == b && e[1].(int) == s {
				return false
			}
		}
		return true
	}})
	ok := true
	succ := successReturns(fn)
	if len(succ) == 0 {
		ok = false
	}
	for _, ret := range succ {
		if res.Reached[ret] {
			ok = false
		}
	}
	if ok {
		shapeMemo[key] = 3
	} else {
		shapeMemo[key] = 2
	}
	return ok
}

func ruleURLShape(r *core.Reporter) {
	p := r.P
	fn := p.Func(rel(pkgPre), "NormalizeURL")
	if fn == nil {
		r.Undecided("preprocessor.NormalizeURL", "", "anchor not found")
		return
	}
	r.Analysed(fn)
	for _, sc := range shapeChecks() {
		key := "NormalizeURL/" + sc.name
		if passesShape(fn, sc, 3) {
			r.Held(key, 1, "on every return that can carry a nil error")
		} else {
			r.Violated(key, fnPos(p, fn), "NormalizeURL can return a nil error for a URL that did not pass the check %q (a branch — e.g. the relative-reference branch — skips it)", sc.name)
		}
	}
	// the accepted text is the ada href: URL.Raw = adaParse.Href() precedes the final Parse
	okHref := false
	allInstrs(fn, func(in ssa.Instruction) {
		if st, ok := in.(*ssa.Store); ok {
			if tn, f, ok := ir.FieldOf(st.Addr); ok && tn == tURL && f == "Raw" && goadaCall(st.Val, "Href") {
				okHref = true
			}
		}
	})
	if okHref {
		r.Held("NormalizeURL/raw=href", 1, "URL.Raw is replaced by the checked parser's Href()")
	} else {
		r.Violated("NormalizeURL/raw=href", fnPos(p, fn), "the accepted URL text is not the Href() of the object whose scheme and host were checked")
	}
	// R-RESOLVE-BASE: the with-base resolution is chosen exactly by `parent != nil && !IsAbs()`
	var withBase []ssa.Instruction
	allInstrs(fn, func(in ssa.Instruction) {
		if ir.IsPlainCallTo(in, "github.com/ada-url/goada.NewWithBase") {
			withBase = append(withBase, in)
		}
	})
	if len(withBase) == 0 {
		r.Violated("NormalizeURL/resolve-base", fnPos(p, fn), "relative references are no longer resolved against the parent (no goada.NewWithBase)")
		return
	}
	allowed := func(a ir.Atom) string {
		if a.V == nil && a.Op == token.EQL {
			x, y := a.X, a.Y
			if ir.IsNilConst(x) {
				x, y = y, x
			}
			if ir.IsNilConst(y) {
				if pm := resolveParam(x, 0); pm != nil && paramIndex(pm) == 1 {
					return "parent==nil"
				}
				return "err==nil"
			}
			if s, ok := ir.ConstString(y); ok && s == "" {
				if _, f, okf := fieldOfLoad(x); okf && f == "Scheme" {
					return "scheme==\"\""
				}
			}
		}
		if c := ir.BoolCallAtom(a, "(*net/url.URL).IsAbs"); c != nil {
			return "IsAbs()"
		}
		if c := ir.BoolCallAtom(a, "strings.HasPrefix"); c != nil {
			return "path-prefix (base choice)"
		}
		return ""
	}
	bad := ""
	for _, wb := range withBase {
		for _, ii := range ir.Ifs(fn) {
			for _, t := range []bool{true, false} {
				if ir.OnlyVia(ir.Entry(fn), wb, ii.If.Block(), ii.EdgeWhen(t)) {
					if allowed(ii.Atom) == "" {
						bad = fmt.Sprintf("resolution against the parent is additionally conditional on %s", describeAtom(ii.Atom))
					}
				}
			}
		}
		// must be guarded by IsAbs()==false (or scheme=="")
		if _, g := ir.GuardedBy(fn, ir.Entry(fn), wb, false, func(a ir.Atom) bool { return allowed(a) == "IsAbs()" }); !g {
			if _, g2 := ir.GuardedBy(fn, ir.Entry(fn), wb, true, func(a ir.Atom) bool { return allowed(a) == "scheme==\"\"" }); !g2 {
				bad = "the choice to resolve against the parent is not made by `reference has no scheme` (IsAbs()==false)"
			}
		}
	}
	// and conversely: the no-base parse is reached only when parent==nil or IsAbs()
	var noBase []ssa.Instruction
	allInstrs(fn, func(in ssa.Instruction) {
		if ir.IsPlainCallTo(in, "github.com/ada-url/goada.New") {
			noBase = append(noBase, in)
		}
	})
	for _, nb := range noBase {
		var es [][2]any
		for _, ii := range ir.Ifs(fn) {
			switch allowed(ii.Atom) {
			case "parent==nil":
				es = append(es, [2]any{ii.If.Block(), ii.EdgeWhen(true)})
			case "IsAbs()":
				es = append(es, [2]any{ii.If.Block(), ii.EdgeWhen(true)})
			case "scheme==\"\"":
				// not an escape
			}
		}
		res := ir.Reach([]ir.Pt{ir.Entry(fn)}, ir.Opts{EdgeOK: func(b *ssa.BasicBlock, s int) bool {
			for _, e := range es {
				if e[0].(*ssa.BasicBlock) == b && e[1].(int) == s {
					return false
				}
			}
			return true
		}})
		if res.Reached[nb] {
			bad = "a scheme-less reference with a parent can be parsed without the parent as base (scheme-relative //host/path would get a default scheme instead of the page's)"
		}
	}
	// the base handed to the resolver is the parent's serialised URL (or its origin): rebuilding it from decoded
	// components (url.URL.Path, .Fragment, .RawQuery-less) is lossy (%2F, %3F, %23 in the page's own path)
	for _, wb := range withBase {
		c := wb.(*ssa.Call)
		var lossy string
		var walk func(v ssa.Value, d int)
		walk = func(v ssa.Value, d int) {
			if v == nil || d > 8 {
				return
			}
			switch x := v.(type) {
			case *ssa.BinOp:
				walk(x.X, d+1)
				walk(x.Y, d+1)
			case *ssa.Phi:
				for _, e := range x.Edges {
					walk(e, d+1)
				}
			case *ssa.UnOp:
				if tn, f, ok := ir.FieldOf(x.X); ok && tn == "net/url.URL" && (f == "Path" || f == "Fragment" || f == "Opaque") {
					lossy = f
				}
			case *ssa.Call:
				// String() of a url.URL assembled field by field in this function: without RawPath the path is
				// re-escaped from its decoded form
				if ir.IsCallTo(x, "(*net/url.URL).String") && len(x.Call.Args) == 1 {
					if al, isA := ir.Strip(x.Call.Args[0]).(*ssa.Alloc); isA {
						fields := map[string]bool{}
						var collect func(a *ssa.Alloc, d int)
						collect = func(a *ssa.Alloc, d int) {
							if d > 2 {
								return
							}
							for _, rr := range ir.Referrers(a) {
								if fa, isFA := rr.(*ssa.FieldAddr); isFA {
									for _, r2 := range ir.Referrers(fa) {
										if _, isSt := r2.(*ssa.Store); isSt {
											if _, f, okf := ir.FieldOf(fa); okf {
												fields[f] = true
											}
										}
									}
								}
								// `*base = *complit`: the literal is assembled in a temporary
								if st, isSt := rr.(*ssa.Store); isSt && st.Addr == ssa.Value(a) {
									if ld, isLd := st.Val.(*ssa.UnOp); isLd && ld.Op == token.MUL {
										if src, isSrc := ld.X.(*ssa.Alloc); isSrc {
											collect(src, d+1)
										}
									}
								}
							}
						}
						collect(al, 0)
						if fields["Path"] && !fields["RawPath"] {
							lossy = "Path (copied into a new url.URL without RawPath)"
						}
					}
				}
			}
		}
		walk(c.Call.Args[1], 0)
		if lossy != "" {
			bad = "the base URL for resolving relative references is rebuilt from the parent's decoded ." + lossy + " instead of its serialised form: a page whose own path contains escaped delimiters (%2F, %3F, %23) resolves its relative requisites to the wrong URL"
		}
	}
	if bad == "" {
		r.Held("NormalizeURL/resolve-base", len(withBase), "references without a scheme are resolved against the parent whenever there is one")
	} else {
		r.Violated("NormalizeURL/resolve-base", p.InstrPos(withBase[0]), "%s", bad)
	}
}

func describeAtom(a ir.Atom) string {
	if a.V != nil {
		return ir.Path(a.V)
	}
	return ir.Path(a.X) + " " + a.Op.String() + " " + ir.Path(a.Y)
}

// ---------------------------------------------------------------------------

var httpSenders = []string{
	"(*net/http.Client).Do", "(*net/http.Client).Get", "(*net/http.Client).Head", "(*net/http.Client).Post", "(*net/http.Client).PostForm",
	"net/http.Get", "net/http.Head", "net/http.Post", "net/http.PostForm",
	"(*net/http.Transport).RoundTrip",
	"(*github.com/CorentinB/warc.CustomHTTPClient).Do", "(*github.com/CorentinB/warc.CustomHTTPClient).Get",
}

func ruleHTTPEgress(r *core.Reporter) {
	p := r.P
	fetch, do := fetchClosure(p)
	// reviewed exemptions (function → reason)
	exempt := map[string]string{
		"internal/pkg/config.readRemoteExclusionFile": "operator-supplied exclusion-file URL fetched once at start-up",
		"cmd.getURLCmd": "",
	}
	// reachable set from the pipeline entry points (stage Start functions), over static+CHA edges inside the module
	reach := pipelineReachable(p)
	n := 0
	for _, fn := range p.ModFuncs {
		allInstrs(fn, func(in ssa.Instruction) {
			if !ir.IsCallTo(in, httpSenders...) {
				// interface RoundTripper / Doer invokes
				c := ir.AsCall(in)
				if c == nil || !c.IsInvoke() || !(c.Method.Name() == "RoundTrip" || (c.Method.Name() == "Do" && strings.Contains(c.Value.Type().String(), "http"))) {
					return
				}
			}
			n++
			r.Calls++
			name := core.FuncName(fn)
			key := "egress/" + name
			switch {
			case fn == fetch && in == ssa.Instruction(do):
				// the request must be the item's prepared request
				var leaves []ssa.Value
				phiLeaves(do.Call.Args[len(do.Call.Args)-1], map[ssa.Value]bool{}, &leaves)
				ok := false
				for _, l := range leaves {
					if strings.HasSuffix(ir.Path(l), ".GetURL().GetRequest()") {
						ok = true
					}
				}
				if ok {
					r.Held(key, 1, "client.Do on item.GetURL().GetRequest() (prepared by preprocess)")
				} else {
					r.Violated(key, p.InstrPos(in), "the request sent by the archiver is not the one preprocess prepared for the item")
				}
			case exempt[name] != "":
				r.Held(key, 1, "exempt: %s", exempt[name])
			case !reach[fn]:
				r.Held(key, 1, "not reachable from the pipeline (dead helper); wiring it in will be reported")
			default:
				r.Violated(key, p.InstrPos(in), "HTTP request sent outside the archiver's gated fetch, reachable from the pipeline: it bypasses scope filters, rate limiting and WARC recording")
			}
		})
	}
	r.Floor("HTTP send sites", n, 2)
}

// pipelineReachable: module functions reachable from the stage Start functions and goroutines they start (static calls,
// closures, and CHA-resolved interface calls restricted to module implementations).
func pipelineReachable(p *core.Program) map[*ssa.Function]bool {
	cg, _ := p.CallGraph()
	seen := map[*ssa.Function]bool{}
	var work []*ssa.Function
	for _, pk := range []string{pkgReactor, pkgPre, pkgArch, pkgPost, pkgFin, pkgHQ, pkgLQ} {
		if f := p.Func(rel(pk), "Start"); f != nil {
			work = append(work, f)
		}
	}
	for len(work) > 0 {
		fn := work[len(work)-1]
		work = work[:len(work)-1]
		if seen[fn] {
			continue
		}
		seen[fn] = true
		if n := cg.Nodes[fn]; n != nil {
			for _, e := range n.Out {
				if e.Callee != nil && e.Callee.Func != nil && core.InModule(e.Callee.Func) {
					work = append(work, e.Callee.Func)
				}
			}
		}
		for _, a := range fn.AnonFuncs {
			work = append(work, a)
		}
	}
	return seen
}

func ruleNoAutoRedirect(r *core.Reporter) {
	p := r.P
	n := 0
	for _, fn := range p.ModFuncs {
		allInstrs(fn, func(in ssa.Instruction) {
			if st, ok := in.(*ssa.Store); ok {
				if tn, f, ok := ir.FieldOf(st.Addr); ok && tn == "github.com/CorentinB/warc.HTTPClientSettings" {
					n++
					if f == "FollowRedirects" {
						if c, isC := st.Val.(*ssa.Const); !(isC && c.Value != nil && c.Value.ExactString() == "false") {
							r.Violated("HTTPClientSettings.FollowRedirects", p.InstrPos(in), "the WARC client is configured to follow redirects itself: redirect targets would be fetched without passing the scope gate or the redirect bound")
						}
					}
				}
			}
			// CheckRedirect overrides on the embedded http.Client
			if st, ok := in.(*ssa.Store); ok {
				if tn, f, ok := ir.FieldOf(st.Addr); ok && tn == "net/http.Client" && f == "CheckRedirect" && core.InModule(fn) {
					r.Violated("http.Client.CheckRedirect", p.InstrPos(in), "module code overrides the client's redirect policy")
				}
			}
		})
	}
	if r.Floor("HTTPClientSettings field stores", n, 3) {
		r.Held("HTTPClientSettings.FollowRedirects", n, "never enabled (%d settings field stores inspected)", n)
	}
}

func ruleDefaultExcludes(r *core.Reporter) {
	p := r.P
	fn := p.Func(rel(pkgConfig), "GenerateCrawlConfig")
	if fn == nil {
		r.Undecided("config.GenerateCrawlConfig", "", "anchor not found")
		return
	}
	r.Analysed(fn)
	tCfg := pkgConfig + ".Config"
	isExcludeStore := func(in ssa.Instruction) (*ssa.Store, bool) {
		st, ok := in.(*ssa.Store)
		if !ok {
			return nil, false
		}
		tn, f, ok := ir.FieldOf(st.Addr)
		return st, ok && tn == tCfg && f == "ExcludeHosts"
	}
	// the good store: value derives from an append whose variadic slice holds both constants
	good := func(in ssa.Instruction) bool {
		st, ok := isExcludeStore(in)
		if !ok {
			return false
		}
		found := map[string]bool{}
		var walk func(v ssa.Value, d int)
		walk = func(v ssa.Value, d int) {
			if d > 8 || v == nil {
				return
			}
			switch x := v.(type) {
			case *ssa.Call:
				for _, a := range x.Call.Args {
					walk(a, d+1)
				}
			case *ssa.Slice:
				walk(x.X, d+1)
			case *ssa.Alloc:
				for _, rr := range ir.Referrers(x) {
					if ia, ok := rr.(*ssa.IndexAddr); ok {
						for _, r2 := range ir.Referrers(ia) {
							if s2, ok := r2.(*ssa.Store); ok {
								if s, ok := ir.ConstString(s2.Val); ok {
									found[s] = true
								}
							}
						}
					}
				}
			case *ssa.Phi:
				for _, e := range x.Edges {
					walk(e, d+1)
				}
			case *ssa.UnOp:
				// a package-level list that is assigned once, in the package initialiser
				if g, isG := x.X.(*ssa.Global); isG && x.Op == token.MUL && g.Pkg != nil {
					var initVal ssa.Value
					stores := 0
					for _, m := range g.Pkg.Members {
						f, isF := m.(*ssa.Function)
						if !isF {
							continue
						}
						for _, ff := range withAnon(f) {
							allInstrs(ff, func(gi ssa.Instruction) {
								if gs, isSt := gi.(*ssa.Store); isSt && gs.Addr == ssa.Value(g) {
									stores++
									if f.Name() == "init" {
										initVal = gs.Val
									}
								}
							})
						}
					}
					if stores == 1 && initVal != nil {
						walk(initVal, d+1)
					}
				}
			}
		}
		walk(st.Val, 0)
		return found["archive.org"] && found["archive-it.org"]
	}
	var bad ssa.Instruction
	res := ir.Reach([]ir.Pt{ir.Entry(fn)}, ir.Opts{Stop: good})
	for _, ret := range ir.Returns(fn) {
		if ir.ReturnsNil(ret, 0) && res.Reached[ret] {
			bad = ret
		}
	}
	if bad != nil {
		r.Violated("GenerateCrawlConfig/default-excludes", p.InstrPos(bad), "GenerateCrawlConfig can succeed without adding archive.org and archive-it.org to ExcludeHosts")
	} else {
		r.Held("GenerateCrawlConfig/default-excludes", 1, "archive.org and archive-it.org appended on every successful path")
	}
	// the helper that post-processes the list keeps every distinct element
	// who-may-write
	var writers []string
	for _, f := range p.ModFuncs {
		allInstrs(f, func(in ssa.Instruction) {
			if _, ok := isExcludeStore(in); ok {
				writers = append(writers, core.FuncName(f))
				if f != fn {
					r.Violated("ExcludeHosts/writer/"+core.FuncName(f), p.InstrPos(in), "ExcludeHosts is overwritten outside GenerateCrawlConfig (the default exclusions could be dropped)")
				} else if !good(in) {
					// a later store in GenerateCrawlConfig that does not carry the defaults
					if ir.Reach([]ir.Pt{ir.After(in)}, ir.Opts{Stop: good}).Reached[in] || true {
						after := ir.Reach([]ir.Pt{ir.After(in)}, ir.Opts{Stop: good})
						for _, ret := range ir.Returns(fn) {
							if after.Reached[ret] {
								r.Violated("ExcludeHosts/overwrite", p.InstrPos(in), "a store to ExcludeHosts without the default exclusions can be the last one before return")
							}
						}
					}
				}
			}
		})
	}
	sort.Strings(writers)
	if len(writers) > 0 {
		r.Held("ExcludeHosts/writers", len(writers), "written only in %v", writers)
	} else {
		r.Undecided("ExcludeHosts/writers", "", "no store to ExcludeHosts found")
	}
}

func ruleExclusionFiles(r *core.Reporter) {
	p := r.P
	fn := p.Func(rel(pkgConfig), "GenerateCrawlConfig")
	if fn == nil {
		r.Undecided("config.GenerateCrawlConfig", "", "anchor not found")
		return
	}
	r.Analysed(fn)
	var reads []*ssa.Call
	allInstrs(fn, func(in ssa.Instruction) {
		if c, ok := in.(*ssa.Call); ok && ir.IsCallTo(c, pkgConfig+".readLocalExclusionFile", pkgConfig+".readRemoteExclusionFile") {
			reads = append(reads, c)
		}
	})
	if !r.Floor("exclusion file readers", len(reads), 2) {
		return
	}
	for _, rd := range reads {
		key := "GenerateCrawlConfig/" + shortName(ir.FullName(ir.CalleeOf(rd.Common())))
		l, okl := loopAround(fn, rd)
		if !okl {
			r.Violated(key, p.InstrPos(rd), "exclusion files are no longer read in a loop over config.ExclusionFile")
			continue
		}
		var lines ssa.Value
		for _, rr := range ir.Referrers(rd) {
			if e, ok := rr.(*ssa.Extract); ok && e.Index == 0 {
				lines = e
			}
		}
		// the lines of this file reach an append to config.ExclusionRegexes before the next iteration
		accumulate := func(in ssa.Instruction) bool {
			st, ok := in.(*ssa.Store)
			if !ok {
				return false
			}
			if tn, f, okf := ir.FieldOf(st.Addr); !okf || tn != pkgConfig+".Config" || f != "ExclusionRegexes" {
				return false
			}
			ap, isAp := st.Val.(*ssa.Call)
			if !isAp || ir.CallName(ap.Common()) != "builtin.append" {
				return false
			}
			// first arg is the old list; variadic arg derives from this iteration's lines
			if !isConfigFieldOrGlobal(ap.Call.Args[0], "ExclusionRegexes") {
				return false
			}
			_, flows := ir.FlowsTo(lines, func(x ssa.Instruction, _ ssa.Value) bool { return x == ssa.Instruction(ap) }, 200)
			return flows
		}
		res := ir.Reach([]ir.Pt{ir.After(rd)}, ir.Opts{Stop: func(in ssa.Instruction) bool { return in == ssa.Instruction(l.If) || accumulate(in) }})
		if res.Stopped[l.If] {
			r.Violated(key, p.InstrPos(rd), "the regexes read from one --exclusion-file can be replaced by the next file's before they are added to config.ExclusionRegexes: only the last file is enforced")
		} else {
			r.Held(key, 1, "each file's lines are compiled and appended before the next file is read")
		}
	}
	cr := p.Func(rel(pkgConfig), "compileRegexes")
	if cr != nil {
		r.Analysed(cr)
		var mc *ssa.Call
		allInstrs(cr, func(in ssa.Instruction) {
			if c, ok := in.(*ssa.Call); ok && ir.IsCallTo(c, "regexp.MustCompile", "regexp.Compile") {
				mc = c
			}
		})
		if mc != nil && loopCoversAll(cr, mc) {
			r.Held("compileRegexes", 1, "every line is compiled")
		} else {
			r.Violated("compileRegexes", fnPos(p, cr), "not every exclusion line is compiled")
		}
	}
}

func isConfigFieldOrGlobal(v ssa.Value, field string) bool {
	pth := ir.Path(v)
	return strings.HasSuffix(pth, "."+field)
}

func allTrue(vs []bool) bool {
	for _, v := range vs {
		if !v {
			return false
		}
	}
	return len(vs) > 0
}
