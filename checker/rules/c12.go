package rules

import (
	"go/token"
	"go/types"
	"strings"

	"golang.org/x/tools/go/ssa"

	"zenocheck/core"
	"zenocheck/ir"
)

func init() {
	PropertyText["C12"] = [2]string{
		"Decides the token-accounting shape of the reactor: token pool and input buffer have the same capacity (R-REACT-CAP); a state-table entry can only be created after a token was taken (R-REACT-INSERT) and every taken token leads to the entry plus the input send, or is given back (R-REACT-ACCEPT); a token is released only after LoadAndDelete reported the entry, and always then (R-REACT-RELEASE); inserts and feedback pass a dedicated closed-check of both contexts before any accepting effect (R-REACT-CLOSED-GATE); feedback takes no token and its send is abandonable (R-REACT-NONBLOCK); run forwards every item (R-REACT-RUN). The run loop does not listen to the context Freeze cancels: a frozen reactor still delivers the seeds it accepted (R-REACT-RUN/lifetime).",
		"Not decided: linearizability of the API under concurrent callers; liveness of the consumer side.",
	}
	register(&core.Rule{ID: "R-REACT-CAP", Props: []string{"C12"}, Doc: "tokenPool and input are made with the same capacity value — the fact that makes the post-token input send and the feedback send non-blocking", Run: ruleReactCap})
	register(&core.Rule{ID: "R-REACT-INSERT", Props: []string{"C12", "C16"}, Doc: "every sync.Map call on stateTable that can create a key (Store, LoadOrStore, Swap) is reachable only after a successful send on tokenPool in the same function", Run: ruleReactInsert})
	register(&core.Rule{ID: "R-REACT-ACCEPT", Props: []string{"C12", "C16"}, Doc: "after a token is taken every path to a normal return creates the table entry and sends the item on input (or gives the token back); exactly one token per insert", Run: ruleReactAccept})
	register(&core.Rule{ID: "R-REACT-RELEASE", Props: []string{"C12", "C16"}, Doc: "every receive from tokenPool is guarded by LoadAndDelete(...) loaded==true, every loaded==true path receives exactly once, and LoadAndDelete is the only deleting call on stateTable", Run: ruleReactRelease})
	register(&core.Rule{ID: "R-REACT-CLOSED-GATE", Props: []string{"C12"}, Doc: "in ReceiveInsert and ReceiveFeedback every accepting effect (token send, table write, input send) is reachable only past a dedicated check that both ctx.Err() and freezeCtx.Err() are nil", Run: ruleReactGate})
	register(&core.Rule{ID: "R-REACT-NONBLOCK", Props: []string{"C12"}, Doc: "ReceiveFeedback never touches tokenPool and offers its input send in a select with both Done arms; it replaces an entry only if one is present", Run: ruleReactNonblock})
	register(&core.Rule{ID: "R-REACT-RUN", Props: []string{"C12"}, Doc: "reactor.run forwards every received item to output exactly once or stops", Run: ruleReactRun})
}

const tReactor = pkgReactor + ".reactor"

func isReactorField(v ssa.Value, field string) bool {
	// v is a load of (or address of) reactor.<field>
	if u, ok := v.(*ssa.UnOp); ok && u.Op == token.MUL {
		v = u.X
	}
	tn, f, ok := ir.FieldOf(v)
	return ok && tn == tReactor && f == field
}

func reactorFuncs(p *core.Program) []*ssa.Function { return p.FuncsInPkg(rel(pkgReactor)) }

// tokenTake: instruction takes a token: plain send on tokenPool, or a select with a send state on tokenPool.
func tokenSendPlain(in ssa.Instruction) bool {
	if ch, _, ok := sendOf(in); ok {
		return isReactorField(ch, "tokenPool")
	}
	return false
}

type selArm struct {
	sel *ssa.Select
	arm ir.SelectArm
}

func tokenSendArms(fn *ssa.Function) []selArm {
	var out []selArm
	for _, si := range ir.Selects(fn) {
		for _, a := range si.Arms {
			if a.State.Dir == types.SendOnly && isReactorField(a.State.Chan, "tokenPool") {
				out = append(out, selArm{si.Sel, a})
			}
		}
	}
	return out
}

func stateTableCall(in ssa.Instruction) (string, bool) {
	c := ir.AsCall(in)
	if c == nil {
		return "", false
	}
	f := ir.CalleeOf(c)
	if f == nil || f.Signature.Recv() == nil || ir.TypeName(f.Signature.Recv().Type()) != "sync.Map" {
		return "", false
	}
	if len(c.Args) == 0 || !isReactorField(c.Args[0], "stateTable") {
		return "", false
	}
	return f.Name(), true
}

func ruleReactCap(r *core.Reporter) {
	p := r.P
	sizes := map[string]ssa.Value{}
	var pos ssa.Instruction
	for _, fn := range reactorFuncs(p) {
		allInstrs(fn, func(in ssa.Instruction) {
			st, ok := in.(*ssa.Store)
			if !ok {
				return
			}
			tn, f, ok := ir.FieldOf(st.Addr)
			if !ok || tn != tReactor || (f != "tokenPool" && f != "input") {
				return
			}
			if mc, ok := st.Val.(*ssa.MakeChan); ok {
				sizes[f] = mc.Size
				pos = in
				r.Analysed(fn)
			} else {
				sizes[f] = nil
			}
		})
	}
	a, okA := sizes["tokenPool"]
	b, okB := sizes["input"]
	switch {
	case !okA || !okB:
		r.Undecided("reactor/capacities", "", "construction of tokenPool/input not found")
	case a == nil || b == nil:
		r.Undecided("reactor/capacities", p.InstrPos(pos), "tokenPool/input are not made in place; capacity unknown")
	case ir.Path(a) == ir.Path(b) && resolveParam(a, 0) != nil:
		r.HeldAt("reactor/capacities", p.InstrPos(pos), 2, "cap(tokenPool) == cap(input) == %s", ir.Path(a))
	case ir.Path(a) == ir.Path(b):
		if _, isConst := ir.ConstInt(a); isConst {
			r.HeldAt("reactor/capacities", p.InstrPos(pos), 2, "cap(tokenPool) == cap(input) == constant %s", ir.Path(a))
		} else {
			r.Undecided("reactor/capacities", p.InstrPos(pos), "capacities have equal paths (%s) but are not a single parameter/constant", ir.Path(a))
		}
	default:
		r.Violated("reactor/capacities", p.InstrPos(pos), "tokenPool capacity (%s) differs from input capacity (%s): a feedback or post-token send can block", ir.Path(a), ir.Path(b))
	}
}

func ruleReactInsert(r *core.Reporter) {
	p := r.P
	n := 0
	for _, fn := range reactorFuncs(p) {
		arms := tokenSendArms(fn)
		allInstrs(fn, func(in ssa.Instruction) {
			name, ok := stateTableCall(in)
			if !ok {
				return
			}
			r.Calls++
			if name != "Store" && name != "LoadOrStore" && name != "Swap" {
				return
			}
			n++
			r.Analysed(fn)
			key := core.FuncName(fn) + "/sync.Map." + name
			// reachable from entry without a token?
			res := ir.Reach([]ir.Pt{ir.Entry(fn)}, ir.Opts{
				Stop: tokenSendPlain,
				EdgeOK: func(b *ssa.BasicBlock, s int) bool {
					for _, a := range arms {
						if a.arm.EdgeB == b && a.arm.EdgeS == s {
							return false
						}
					}
					return true
				},
			})
			if res.Reached[in] {
				r.Violated(key, p.InstrPos(in), "stateTable.%s can create an entry on a path that took no token: tracked seeds would exceed tokens in use", name)
			} else {
				r.Held(key, 1, "entry creation only after a token was taken")
			}
		})
	}
	r.Floor("creating stateTable calls", n, 1)
}

func ruleReactAccept(r *core.Reporter) {
	p := r.P
	n := 0
	for _, fn := range reactorFuncs(p) {
		for _, a := range tokenSendArms(fn) {
			n++
			r.Analysed(fn)
			key := core.FuncName(fn) + "/token-arm"
			if a.arm.Body == nil {
				r.Undecided(key, p.InstrPos(a.sel), "select arm body not found")
				continue
			}
			start := ir.Pt{B: a.arm.Body, I: 0}
			creates := func(in ssa.Instruction) bool {
				nm, ok := stateTableCall(in)
				return ok && (nm == "LoadOrStore" || nm == "Store" || nm == "Swap")
			}
			release := func(in ssa.Instruction) bool {
				if u, ok := in.(*ssa.UnOp); ok && u.Op == token.ARROW && isReactorField(u.X, "tokenPool") {
					return true
				}
				return false
			}
			inputSend := func(in ssa.Instruction) bool {
				ch, x, ok := sendOf(in)
				return ok && isReactorField(ch, "input") && len(fn.Params) > 0 && ir.SameValue(x, fn.Params[0])
			}
			ret1, bad1 := ir.PathExists([]ir.Pt{start}, ir.Opts{Stop: func(in ssa.Instruction) bool { return creates(in) || release(in) }}, ir.IsExit)
			ret2, bad2 := ir.PathExists([]ir.Pt{start}, ir.Opts{Stop: func(in ssa.Instruction) bool { return inputSend(in) || release(in) }}, ir.IsExit)
			switch {
			case bad1:
				r.Violated(key, p.InstrPos(ret1), "a path returns after taking a token without tracking the seed in stateTable or giving the token back (token leak)")
			case bad2:
				r.Violated(key, p.InstrPos(ret2), "a path returns after taking a token without sending the seed on input (accepted seed never reaches the output)")
			default:
				// one token per call: the select is not re-executable
				if ir.Reach([]ir.Pt{start}, ir.Opts{}).Reached[a.sel] {
					r.Violated(key, p.InstrPos(a.sel), "the token-taking select can run again for the same insert (second token)")
				} else {
					r.Held(key, 1, "token ⇒ entry created and item sent on input, once")
				}
			}
		}
		allInstrs(fn, func(in ssa.Instruction) {
			if tokenSendPlain(in) {
				r.Violated(core.FuncName(fn)+"/plain-token-send", p.InstrPos(in), "token taken by a plain (blocking, un-abandonable) send on tokenPool")
			}
		})
	}
	r.Floor("token-taking selects", n, 1)
}

func ruleReactRelease(r *core.Reporter) {
	p := r.P
	nRecv, nDel := 0, 0
	for _, fn := range reactorFuncs(p) {
		// deleting calls
		var lads []*ssa.Call
		allInstrs(fn, func(in ssa.Instruction) {
			name, ok := stateTableCall(in)
			if !ok {
				return
			}
			switch name {
			case "Delete", "CompareAndDelete", "Clear":
				r.Violated(core.FuncName(fn)+"/sync.Map."+name, p.InstrPos(in), "stateTable entry removed by %s, which does not say whether an entry existed: a token could be released for nothing or not at all", name)
			case "LoadAndDelete":
				nDel++
				if c, ok := in.(*ssa.Call); ok {
					lads = append(lads, c)
				}
			}
		})
		loadedOf := func(c *ssa.Call) ssa.Value {
			for _, rr := range ir.Referrers(c) {
				if e, ok := rr.(*ssa.Extract); ok && e.Index == 1 {
					return e
				}
			}
			return nil
		}
		isLoadedAtom := func(a ir.Atom) bool {
			if a.V == nil {
				return false
			}
			for _, c := range lads {
				if a.V == loadedOf(c) {
					return true
				}
			}
			return false
		}
		// receives from tokenPool
		isRecv := func(in ssa.Instruction) bool {
			u, ok := in.(*ssa.UnOp)
			return ok && u.Op == token.ARROW && isReactorField(u.X, "tokenPool")
		}
		allInstrs(fn, func(in ssa.Instruction) {
			if sel, ok := in.(*ssa.Select); ok {
				for _, st := range sel.States {
					if st.Dir == types.RecvOnly && isReactorField(st.Chan, "tokenPool") {
						nRecv++
						r.Violated(core.FuncName(fn)+"/token-recv-select", p.InstrPos(in), "token released inside a select: release must be unconditional after LoadAndDelete reported the entry")
					}
				}
			}
			if !isRecv(in) {
				return
			}
			nRecv++
			r.Analysed(fn)
			key := core.FuncName(fn) + "/token-release"
			if _, ok := ir.GuardedBy(fn, ir.Entry(fn), in, true, isLoadedAtom); ok {
				r.Held(key, 1, "token released only when LoadAndDelete found the seed")
			} else {
				r.Violated(key, p.InstrPos(in), "a token is released on a path where LoadAndDelete did not report the seed as present (double finish would free a token twice)")
			}
		})
		for _, c := range lads {
			key := core.FuncName(fn) + "/loaded-releases"
			ld := loadedOf(c)
			if ld == nil {
				r.Violated(key, p.InstrPos(c), "result `loaded` of LoadAndDelete is ignored")
				continue
			}
			done := false
			for _, ii := range ir.Ifs(fn) {
				if ii.Atom.V != ld {
					continue
				}
				done = true
				start := ir.EdgePt(ii.If.Block(), ii.EdgeWhen(true))
				if ret, bad := ir.PathExists([]ir.Pt{start}, ir.Opts{Stop: isRecv}, ir.IsExit); bad {
					r.Violated(key, p.InstrPos(ret), "the seed was removed from stateTable but a path returns without releasing its token")
				} else if once := ir.AtMostOnce(ir.Region{Start: start}, isRecv, ir.Opts{}); !once.OK {
					r.Violated(key, p.InstrPos(once.Second), "two tokens released for one finished seed")
				} else {
					r.Held(key, 1, "loaded==true ⇒ exactly one token released")
				}
				// not-found side returns a non-nil error
				other := ir.EdgePt(ii.If.Block(), ii.EdgeWhen(false))
				res := ir.Reach([]ir.Pt{other}, ir.Opts{})
				okErr := true
				for in := range res.Reached {
					if ret, isRet := in.(*ssa.Return); isRet && len(ret.Results) == 1 && ir.ReturnsNil(ret, 0) {
						// a nil return reachable from the not-found side that is not also reachable… it is reachable only if shared
						if !ir.Reach([]ir.Pt{start}, ir.Opts{}).Reached[in] {
							okErr = false
						}
					}
				}
				if okErr {
					r.Held(core.FuncName(fn)+"/not-found-is-error", 1, "finish of an untracked seed returns an error")
				} else {
					r.Violated(core.FuncName(fn)+"/not-found-is-error", p.InstrPos(c), "finishing a seed that is not tracked returns nil: a repeated finish is not rejected")
				}
			}
			if !done {
				r.Violated(key, p.InstrPos(c), "no branch on LoadAndDelete's `loaded` result")
			}
		}
	}
	r.Floor("tokenPool receives", nRecv, 1)
	r.Floor("LoadAndDelete sites", nDel, 1)
}

// closedCheckFor reports whether callee fn returns nil only when ctxField's Err() is nil.
func closedCheckFor(fn *ssa.Function, ctxField string) bool {
	if fn == nil || len(fn.Blocks) == 0 {
		return false
	}
	var gates []ir.IfInfo
	for _, ii := range ir.Ifs(fn) {
		if errNilAtomOn(ii.Atom, ctxField) {
			gates = append(gates, ii)
		}
	}
	if len(gates) == 0 {
		return false
	}
	for _, ret := range ir.Returns(fn) {
		if len(ret.Results) != 1 || !ir.ReturnsNil(ret, 0) {
			continue
		}
		ok := false
		for _, g := range gates {
			if ir.OnlyVia(ir.Entry(fn), ret, g.If.Block(), g.EdgeWhen(true)) {
				ok = true
			}
		}
		if !ok {
			return false
		}
	}
	return true
}

// errNilAtomOn: atom is `<reactor>.<ctxField>.Err() == nil`.
func errNilAtomOn(a ir.Atom, ctxField string) bool {
	if a.V != nil || a.Op != token.EQL {
		return false
	}
	x, y := a.X, a.Y
	if ir.IsNilConst(x) {
		x, y = y, x
	}
	if !ir.IsNilConst(y) {
		return false
	}
	c, ok := x.(*ssa.Call)
	if !ok || !c.Call.IsInvoke() || c.Call.Method.Name() != "Err" {
		return false
	}
	return isReactorField(c.Call.Value, ctxField)
}

func ruleReactGate(r *core.Reporter) {
	p := r.P
	for _, name := range []string{"ReceiveInsert", "ReceiveFeedback"} {
		fn := p.Func(rel(pkgReactor), name)
		if fn == nil {
			r.Undecided("reactor."+name, "", "anchor not found")
			continue
		}
		r.Analysed(fn)
		// accepting effects
		var effects []ssa.Instruction
		allInstrs(fn, func(in ssa.Instruction) {
			if nm, ok := stateTableCall(in); ok && (nm == "Store" || nm == "LoadOrStore" || nm == "Swap" || nm == "CompareAndSwap") {
				effects = append(effects, in)
			}
			if ch, _, ok := sendOf(in); ok && (isReactorField(ch, "input") || isReactorField(ch, "tokenPool")) {
				effects = append(effects, in)
			}
			if sel, ok := in.(*ssa.Select); ok {
				for _, st := range sel.States {
					if st.Dir == types.SendOnly && (isReactorField(st.Chan, "input") || isReactorField(st.Chan, "tokenPool")) {
						effects = append(effects, in)
					}
				}
			}
		})
		if len(effects) == 0 {
			r.Undecided("reactor."+name+"/effects", fnPos(p, fn), "no accepting effect found")
			continue
		}
		for _, ctxField := range []string{"ctx", "freezeCtx"} {
			key := "reactor." + name + "/" + ctxField
			// gate edges: If on X==nil where X = Err() on the ctx, or X = call of a closed-check function
			type edge struct {
				b *ssa.BasicBlock
				s int
			}
			var gates []edge
			for _, ii := range ir.Ifs(fn) {
				if errNilAtomOn(ii.Atom, ctxField) {
					gates = append(gates, edge{ii.If.Block(), ii.EdgeWhen(true)})
					continue
				}
				a := ii.Atom
				if a.V == nil && a.Op == token.EQL {
					x, y := a.X, a.Y
					if ir.IsNilConst(x) {
						x, y = y, x
					}
					if c, ok := x.(*ssa.Call); ok && ir.IsNilConst(y) {
						if callee := ir.CalleeOf(c.Common()); callee != nil && core.InModule(callee) && closedCheckFor(callee, ctxField) {
							gates = append(gates, edge{ii.If.Block(), ii.EdgeWhen(true)})
						}
					}
				}
			}
			// non-blocking select with a Done arm on the ctx: the default edge is the gate
			for _, si := range ir.Selects(fn) {
				if si.Sel.Blocking {
					continue
				}
				onlyDone := true
				hasCtx := false
				for _, a := range si.Arms {
					if a.State.Dir != types.RecvOnly {
						onlyDone = false
						continue
					}
					c, ok := ir.IsDoneChan(a.State.Chan)
					if !ok {
						onlyDone = false
						continue
					}
					if isReactorField(c, ctxField) {
						hasCtx = true
					}
				}
				if onlyDone && hasCtx {
					// default: the last dispatch If's false edge
					var last *ssa.BasicBlock
					for _, a := range si.Arms {
						if a.EdgeB != nil {
							last = a.EdgeB
						}
					}
					if last != nil {
						gates = append(gates, edge{last, 1})
					}
				}
			}
			if len(gates) == 0 {
				r.Violated(key, p.InstrPos(effects[0]), "no dedicated %s.Err()/Done check before the accepting effects: a select that offers the accepting send next to the Done cases accepts at random once the reactor is closed", ctxField)
				continue
			}
			bad := ssa.Instruction(nil)
			for _, e := range effects {
				ok := false
				for _, g := range gates {
					if ir.OnlyVia(ir.Entry(fn), e, g.b, g.s) {
						ok = true
						break
					}
				}
				if !ok {
					bad = e
					break
				}
			}
			if bad != nil {
				r.Violated(key, p.InstrPos(bad), "an accepting effect is reachable without passing the %s closed-check", ctxField)
			} else {
				r.Held(key, len(effects), "%d accepting effect(s) all behind the %s closed-check", len(effects), ctxField)
			}
		}
	}
}

func ruleReactNonblock(r *core.Reporter) {
	p := r.P
	fn := p.Func(rel(pkgReactor), "ReceiveFeedback")
	if fn == nil {
		r.Undecided("reactor.ReceiveFeedback", "", "anchor not found")
		return
	}
	r.Analysed(fn)
	touches := false
	allInstrs(fn, func(in ssa.Instruction) {
		for _, op := range in.Operands(nil) {
			if op != nil && *op != nil && isReactorField(*op, "tokenPool") {
				touches = true
			}
		}
		if sel, ok := in.(*ssa.Select); ok {
			for _, st := range sel.States {
				if isReactorField(st.Chan, "tokenPool") {
					touches = true
				}
			}
		}
	})
	if touches {
		r.Violated("reactor.ReceiveFeedback/no-token", fnPos(p, fn), "feedback touches the token pool: feeding a tracked seed back must cost no token")
	} else {
		r.Held("reactor.ReceiveFeedback/no-token", 1, "no tokenPool operation")
	}
	// input send form
	nSel := 0
	allInstrs(fn, func(in ssa.Instruction) {
		if ch, _, ok := sendOf(in); ok && isReactorField(ch, "input") {
			r.Violated("reactor.ReceiveFeedback/send", p.InstrPos(in), "plain blocking send on input in the feedback path")
		}
		sel, ok := in.(*ssa.Select)
		if !ok {
			return
		}
		hasSend, ctxs := false, map[string]bool{}
		for _, st := range sel.States {
			if st.Dir == types.SendOnly && isReactorField(st.Chan, "input") {
				hasSend = true
			}
			if c, ok := ir.IsDoneChan(st.Chan); ok {
				if isReactorField(c, "ctx") {
					ctxs["ctx"] = true
				}
				if isReactorField(c, "freezeCtx") {
					ctxs["freezeCtx"] = true
				}
			}
		}
		if hasSend {
			nSel++
			if ctxs["ctx"] && ctxs["freezeCtx"] {
				r.Held("reactor.ReceiveFeedback/send", 1, "input send offered together with ctx.Done and freezeCtx.Done")
			} else {
				r.Violated("reactor.ReceiveFeedback/send", p.InstrPos(in), "feedback send is not abandonable on both stop and freeze (%v)", keys(ctxs))
			}
		}
	})
	if nSel == 0 {
		r.Violated("reactor.ReceiveFeedback/send", fnPos(p, fn), "feedback no longer sends the item on input")
	}
	// presence: the replacing write must be guarded by a successful Load / LoadOrStore-loaded / CompareAndSwap
	var writes []ssa.Instruction
	allInstrs(fn, func(in ssa.Instruction) {
		if nm, ok := stateTableCall(in); ok && (nm == "Store" || nm == "Swap" || nm == "LoadOrStore") {
			writes = append(writes, in)
		}
	})
	if len(writes) == 0 {
		r.Held("reactor.ReceiveFeedback/no-create", 1, "feedback cannot create a table entry (no Store/Swap/LoadOrStore)")
	}
	// error on absent
	var loads []*ssa.Call
	allInstrs(fn, func(in ssa.Instruction) {
		if nm, ok := stateTableCall(in); ok && (nm == "Load" || nm == "CompareAndSwap") {
			if c, ok := in.(*ssa.Call); ok {
				loads = append(loads, c)
			}
		}
	})
	if len(loads) == 0 {
		r.Violated("reactor.ReceiveFeedback/presence", fnPos(p, fn), "feedback does not check that the seed is tracked")
	} else {
		// every nil return must be behind `loaded`==true of a Load
		ok := false
		for _, c := range loads {
			var ld ssa.Value
			for _, rr := range ir.Referrers(c) {
				if e, isE := rr.(*ssa.Extract); isE && e.Index == 1 {
					ld = e
				}
			}
			if ld == nil {
				ld = c // CompareAndSwap returns bool directly
			}
			all := true
			cnt := 0
			for _, ret := range ir.Returns(fn) {
				if len(ret.Results) == 1 && ir.ReturnsNil(ret, 0) {
					cnt++
					if _, g := ir.GuardedBy(fn, ir.Entry(fn), ret, true, func(a ir.Atom) bool { return a.V == ld }); !g {
						all = false
					}
				}
			}
			if all && cnt > 0 {
				ok = true
			}
		}
		if ok {
			r.Held("reactor.ReceiveFeedback/presence", len(loads), "nil is returned only when the seed was found in stateTable")
		} else {
			r.Violated("reactor.ReceiveFeedback/presence", fnPos(p, fn), "feedback can succeed for a seed that is not tracked")
		}
	}
}

func ruleReactRun(r *core.Reporter) {
	p := r.P
	run := findReactorRun(p)
	if run == nil {
		r.Undecided("reactor.run", "", "goroutine started by reactor.Start not found")
		return
	}
	r.Analysed(run.Fn)
	name := core.FuncName(run.Fn)
	// the run loop lives until Stop, not until Freeze: a frozen reactor accepts nothing new but still hands the seeds
	// it accepted to the output. The context Freeze cancels (paired with the cancel function Freeze calls through
	// context.WithCancel in Start) must not end the loop.
	if fz := p.Func(rel(pkgReactor), "Freeze"); fz != nil {
		frozen := map[string]bool{} // context field names cancelled by Freeze
		cancelFields := map[string]bool{}
		allInstrs(fz, func(in ssa.Instruction) {
			if c, ok := in.(*ssa.Call); ok && ir.TypeName(c.Call.Value.Type()) == "context.CancelFunc" {
				if _, f, okf := fieldOfLoad(c.Call.Value); okf {
					cancelFields[f] = true
				}
			}
		})
		// pairing: composite literal / stores in Start: ctx field ← Extract#0, cancel field ← Extract#1 of the same WithCancel
		for _, fn := range p.FuncsInPkg(rel(pkgReactor)) {
			for _, f := range withAnon(fn) {
				byCall := map[*ssa.Call][2]string{}
				allInstrs(f, func(in ssa.Instruction) {
					st, ok := in.(*ssa.Store)
					if !ok {
						return
					}
					ex, ok := st.Val.(*ssa.Extract)
					if !ok {
						return
					}
					wc, ok := ex.Tuple.(*ssa.Call)
					if !ok || !ir.IsCallTo(wc, "context.WithCancel") {
						return
					}
					if _, fld, okf := ir.FieldOf(st.Addr); okf {
						pr := byCall[wc]
						pr[ex.Index] = fld
						byCall[wc] = pr
					}
				})
				for _, pr := range byCall {
					if cancelFields[pr[1]] && pr[0] != "" {
						frozen[pr[0]] = true
					}
				}
			}
		}
		bad := false
		for _, si := range ir.Selects(run.Fn) {
			for _, arm := range si.Arms {
				cv, ok := ir.IsDoneChan(arm.State.Chan)
				if !ok {
					continue
				}
				if _, fld, okf := fieldOfLoad(cv); okf && frozen[fld] {
					bad = true
					r.Violated(name+"/lifetime", p.InstrPos(si.Sel), "the run loop has an arm on %s.Done(), the context reactor.Freeze cancels: at Freeze the goroutine that drains the input exits (dropping the seed in hand), so seeds accepted before the freeze never reach the output although a consumer reads it — their tokens and table entries stay", fld)
				}
			}
		}
		if !bad {
			r.Held(name+"/lifetime", len(frozen), "no arm of the run loop listens to the context Freeze cancels (%v)", keys(frozen))
		}
	}
	outs := map[string]bool{}
	res := ir.ExactlyOnce(ir.Region{Start: run.Start, Header: run.Header}, forwardEvent(run, outs), ir.Opts{EdgeOK: pruneStopArms(run.Fn)})
	switch {
	case res.OK && len(outs) == 1 && strings.HasSuffix(keys(outs)[0], ".output") && strings.HasSuffix(run.InChan, ".input"):
		r.Held(name, 1, "item received from input forwarded exactly once on output")
	case res.OK:
		r.Violated(name, fnPos(p, run.Fn), "items flow %s → %v, expected input → output", run.InChan, keys(outs))
	case res.Missing != nil:
		r.Violated(name, p.InstrPos(res.Missing), "a received item can be dropped (reaches %s without forwarding)", describeEnd(res.Missing))
	default:
		r.Violated(name, p.InstrPos(res.Second), "item can be forwarded twice")
	}
}
