package rules

import (
	"fmt"
	"go/token"
	"go/types"
	"regexp"
	"sort"
	"strings"

	"golang.org/x/tools/go/ssa"

	"zenocheck/core"
	"zenocheck/ir"
)

func init() {
	PropertyText["C10"] = [2]string{
		"Decides, over every module function reachable from body processing, post-processing, extraction, seencheck and URL normalisation (scope S): calls into the third-party decoders that have been seen to panic on malformed input are wrapped by a deferred recover that turns the panic into the extractor's error (R-PANIC-CONTAIN); every index, slice and single-result type assertion is discharged by a dominating length/discriminator guard, a range bound, a Split-family non-emptiness fact or the capture-group count of the resolved constant regexp — anything else must be in the reviewed table (R-INDEX, R-ASSERT); explicit panics are conditioned on pipeline invariants, not on server-derived values (R-PANIC-SITES); every loop whose condition reads loop-carried variables changes one of them on every path back to its head, and recursion descends into strictly smaller structure (R-LOOP-PROGRESS, R-DELETE-ADVANCE, R-QUERY-PAIRWISE progress); every method call on the cgo URL handle — also deferred or inside a deferred closure — has a receiver that is the result of a successful parse on every path (R-NIL-HANDLE). Loops driven by a decoder or reader leave on its error — no way round without `err == nil` (reader-loop clause).",
		"Not decided: panics, quadratic blow-ups or hangs inside the trusted decoders (std-lib, x/net/html, goquery, fasturl, xurls — fuzzed once without findings) and the cgo URL parser; memory exhaustion; regexp backtracking (Go's RE2 is linear).",
	}
	register(&core.Rule{ID: "R-PANIC-CONTAIN", Props: []string{"C10"}, Doc: "every call from scope S into pdfcpu or grafov/m3u8 (decoders with known panics on malformed input) sits in a function that defers a closure calling recover() and assigning its error result; other third-party packages called from S with body-derived data must be in the reviewed trusted table", Run: rulePanicContain})
	register(&core.Rule{ID: "R-INDEX", Props: []string{"C10"}, Doc: "every IndexAddr/Index/Slice/string index in S is discharged by: loop bound on the same slice, constant index into a fixed array, dominating len guard, strings.Split*/Fields non-emptiness, Index*-result != -1 guard, capture-group count of the constant regexp; residue must match the reviewed table", Run: ruleIndex})
	register(&core.Rule{ID: "R-ASSERT", Props: []string{"C10"}, Doc: "single-result type assertions in S are dominated by the discriminator the decoder documents (listType == MEDIA/MASTER) or are assertions on module-internal values", Run: ruleAssert})
	register(&core.Rule{ID: "R-PANIC-SITES", Props: []string{"C10"}, Doc: "explicit panic() calls in S: the branch conditions that lead to them do not test values read from the response (status, headers, body bytes, URL text); reviewed invariant panics are tabulated", Run: rulePanicSites})
	register(&core.Rule{ID: "R-LOOP-PROGRESS", Props: []string{"C10"}, Doc: "every loop in S whose continuation test reads loop-carried variables updates at least one of them on every path back to the test; recursive functions recurse only on elements of a decoded container or on the decode of their string argument", Run: ruleLoopProgress})
}

// scopeS: module functions reachable (static calls, closures, method values) from the input-processing entry points.
func scopeS(p *core.Program) []*ssa.Function {
	seen := map[*ssa.Function]bool{}
	var out []*ssa.Function
	var visit func(fn *ssa.Function)
	visit = func(fn *ssa.Function) {
		if fn == nil || seen[fn] || !core.InModule(fn) {
			return
		}
		seen[fn] = true
		out = append(out, fn)
		allInstrs(fn, func(in ssa.Instruction) {
			if c := ir.AsCall(in); c != nil {
				visit(ir.CalleeOf(c))
				for _, a := range c.Args {
					switch x := a.(type) {
					case *ssa.MakeClosure:
						visit(x.Fn.(*ssa.Function))
					case *ssa.Function:
						visit(x)
					}
				}
			}
			if mc, ok := in.(*ssa.MakeClosure); ok {
				visit(mc.Fn.(*ssa.Function))
			}
		})
	}
	entries := [][2]string{
		{pkgArch, "ProcessBody"}, {pkgPost, "postprocessItem"}, {pkgPost, "extractAssets"}, {pkgPost, "extractOutlinks"}, {pkgPost, "closeBodies"},
		{pkgPre, "NormalizeURL"}, {pkgPre, "preprocess"}, {pkgSeen, "SeencheckItem"}, {pkgHQ, "SeencheckItem"}, {pkgModels, "(*URL).String"},
	}
	for _, e := range entries {
		visit(p.Func(rel(e[0]), e[1]))
	}
	sort.Slice(out, func(i, j int) bool { return core.FuncName(out[i]) < core.FuncName(out[j]) })
	return out
}

var riskyDecoders = map[string]string{
	"github.com/pdfcpu/pdfcpu/pkg/api": "pdfcpu (slice-bounds panic on a 330-byte PDF)",
	"github.com/grafov/m3u8":           "grafov/m3u8 (nil dereference on '#EXT-X-KEY:\\n0')",
}

var trustedThirdParty = map[string]string{
	"github.com/PuerkitoBio/goquery":                 "HTML parser front-end over x/net/html; fuzzed without findings",
	"github.com/ImVexed/fasturl":                     "ragel URL scanner; fuzzed without findings",
	"mvdan.cc/xurls/v2":                              "regexp-based; RE2",
	"github.com/ada-url/goada":                       "cgo WHATWG parser; returns errors",
	"github.com/gabriel-vasile/mimetype":             "sniffs a bounded prefix",
	"github.com/CorentinB/warc/pkg/spooledtempfile":  "buffer/file abstraction, no parsing",
	"github.com/google/uuid":                         "no input",
	"github.com/davecgh/go-spew/spew":                "debug dump before a panic",
	"github.com/philippgille/gokv/leveldb":           "local store",
	"github.com/internetarchive/gocrawlhq":           "queue API client",
	"github.com/pdfcpu/pdfcpu/pkg/pdfcpu/model":      "type definitions only (constants, structs)",
	"golang.org/x/net/idna":                          "x/ repository, returns errors",
	"github.com/spf13/viper":                         "configuration",
	"github.com/prometheus/client_golang/prometheus": "metrics",
}

func hasRecoverDefer(fn *ssa.Function) bool {
	ok := false
	allInstrs(fn, func(in ssa.Instruction) {
		d, isD := in.(*ssa.Defer)
		if !isD {
			return
		}
		cl := ir.CalleeOf(d.Common())
		if cl == nil {
			return
		}
		recovers, assignsErr := false, false
		allInstrs(cl, func(x ssa.Instruction) {
			if c := ir.AsCall(x); c != nil && ir.CallName(c) == "builtin.recover" {
				recovers = true
			}
			if st, isSt := x.(*ssa.Store); isSt {
				if fv, isFV := st.Addr.(*ssa.FreeVar); isFV {
					if al, isAl := ir.FreeVarBinding(fv).(*ssa.Alloc); isAl && ir.TypeName(al.Type().(*types.Pointer).Elem()) == "error" {
						// the stored error must be non-nil on the recover path: built by fmt.Errorf / errors.New or a conversion of r
						if !ir.IsNilConst(st.Val) {
							assignsErr = true
						}
					}
				}
			}
		})
		if recovers && assignsErr {
			// registered before the risky call: checked by the caller
			ok = true
		}
	})
	return ok
}

func rulePanicContain(r *core.Reporter) {
	p := r.P
	S := scopeS(p)
	if !r.Floor("functions in scope S", len(S), 40) {
		return
	}
	risky, untriaged := 0, map[string]bool{}
	for _, fn := range S {
		allInstrs(fn, func(in ssa.Instruction) {
			c := ir.AsCall(in)
			if c == nil {
				return
			}
			callee := ir.CalleeOf(c)
			var pk string
			if callee != nil {
				if cp := core.FuncPkg(callee); cp != nil {
					pk = cp.Path()
				}
			} else if c.IsInvoke() {
				if n, ok := c.Value.Type().(*types.Named); ok && n.Obj().Pkg() != nil {
					pk = n.Obj().Pkg().Path()
				}
			}
			if pk == "" || strings.HasPrefix(pk, core.ModPath) || !strings.Contains(pk, ".") {
				return // module or std-lib
			}
			if strings.HasPrefix(pk, "golang.org/x/") {
				return
			}
			if why, isRisky := riskyDecoders[pk]; isRisky {
				// package-level configuration calls (no input) are fine
				if len(c.Args) == 0 {
					return
				}
				risky++
				r.Analysed(fn)
				key := core.FuncName(fn) + "/" + shortName(pk)
				// recover registered before the call on every path
				var deferIn ssa.Instruction
				allInstrs(fn, func(x ssa.Instruction) {
					if d, isD := x.(*ssa.Defer); isD {
						if cl := ir.CalleeOf(d.Common()); cl != nil {
							rec := false
							allInstrs(cl, func(y ssa.Instruction) {
								if cc := ir.AsCall(y); cc != nil && ir.CallName(cc) == "builtin.recover" {
									rec = true
								}
							})
							if rec {
								deferIn = x
							}
						}
					}
				})
				switch {
				case !hasRecoverDefer(fn) || deferIn == nil:
					r.Violated(key, p.InstrPos(in), "call into %s without a deferred recover() that turns a decoder panic into the function's error: one malformed body crashes the whole crawler", why)
				case ir.Reach([]ir.Pt{ir.Entry(fn)}, ir.Opts{Stop: func(x ssa.Instruction) bool { return x == deferIn }}).Reached[in]:
					r.Violated(key, p.InstrPos(in), "the decoder is called on a path where the recovering defer has not been registered yet")
				default:
					r.Held(key, 1, "decoder call covered by defer/recover → error")
				}
				return
			}
			if _, ok := trustedThirdParty[pk]; !ok {
				untriaged[pk+" (from "+core.FuncName(fn)+")"] = true
			}
		})
	}
	for u := range untriaged {
		r.Undecided("third-party/"+u, "", "scope S calls a third-party package that is in neither the panic-prone nor the trusted table: triage it (does it parse server-controlled bytes? can it panic?)")
	}
	r.Floor("panic-prone decoder call sites", risky, 2)
}

// ---------------------------------------------------------------------------
// R-INDEX

var globalRegexSrc = map[string]string{}

// regexSource: the constant pattern a package-level *regexp.Regexp variable is compiled from (resolved from init).
func regexSource(p *core.Program, g *ssa.Global) (string, bool) {
	key := g.Pkg.Pkg.Path() + "." + g.Name()
	if s, ok := globalRegexSrc[key]; ok {
		return s, s != ""
	}
	globalRegexSrc[key] = ""
	init := g.Pkg.Func("init")
	allInstrs(init, func(in ssa.Instruction) {
		if st, ok := in.(*ssa.Store); ok && st.Addr == ssa.Value(g) {
			if c, isC := st.Val.(*ssa.Call); isC && ir.IsCallTo(c, "regexp.MustCompile") {
				if s, okc := ir.ConstString(c.Call.Args[0]); okc {
					globalRegexSrc[key] = s
				}
			}
		}
	})
	s := globalRegexSrc[key]
	return s, s != ""
}

// lenGuardAtLeast: instruction `at` executes only when len(s) >= n (n ≥ 1), judged from dominating guards.
func lenGuardAtLeast(fn *ssa.Function, at ssa.Instruction, s ssa.Value, n int64) bool {
	sp := ir.Path(s)
	for _, ii := range ir.Ifs(fn) {
		a := ii.Atom
		if a.V != nil {
			continue
		}
		lenOf := func(v ssa.Value) bool {
			c, ok := v.(*ssa.Call)
			return ok && ir.CallName(c.Common()) == "builtin.len" && ir.Path(c.Call.Args[0]) == sp
		}
		for _, t := range []bool{true, false} {
			if !ir.OnlyVia(ir.Entry(fn), at, ii.If.Block(), ii.EdgeWhen(t)) {
				continue
			}
			// forms (with truth t): k < len  (t) ⇒ len ≥ k+1 ; k <= len (t) ⇒ len ≥ k ; len < k (¬t) ⇒ len ≥ k ; len <= k (¬t) ⇒ len ≥ k+1 ; len == 0 (¬t) ⇒ len ≥ 1
			if k, okc := ir.ConstInt(a.X); okc && lenOf(a.Y) && t {
				if (a.Op == token.LSS && k+1 >= n) || (a.Op == token.LEQ && k >= n) {
					return true
				}
			}
			if k, okc := ir.ConstInt(a.Y); okc && lenOf(a.X) && !t {
				if (a.Op == token.LSS && k >= n) || (a.Op == token.LEQ && k+1 >= n) || (a.Op == token.EQL && k == 0 && n <= 1) {
					return true
				}
			}
			if k, okc := ir.ConstInt(a.Y); okc && lenOf(a.X) && t && a.Op == token.EQL && k >= n {
				return true
			}
		}
	}
	return false
}

// loopBounded: idx is compared `idx < len(s)` (same slice value) on the edge that leads to `at`.
func loopBounded(fn *ssa.Function, at ssa.Instruction, s, idx ssa.Value) bool {
	for _, ii := range ir.Ifs(fn) {
		a := ii.Atom
		if a.V != nil || a.Op != token.LSS || a.X != idx {
			continue
		}
		c, ok := a.Y.(*ssa.Call)
		if !ok || ir.CallName(c.Common()) != "builtin.len" {
			continue
		}
		if !(c.Call.Args[0] == s || ir.Path(c.Call.Args[0]) == ir.Path(s)) {
			continue
		}
		// idx ≥ 0: induction from 0/-1 upwards, or guarded by 0 <= idx
		if !isInduction(idx) && !nonNegative(fn, at, idx) {
			continue
		}
		if ir.OnlyVia(ir.Entry(fn), at, ii.If.Block(), ii.EdgeWhen(true)) {
			return true
		}
	}
	return false
}

func nonNegative(fn *ssa.Function, at ssa.Instruction, v ssa.Value) bool {
	if k, ok := ir.ConstInt(v); ok {
		return k >= 0
	}
	if ex, ok := v.(*ssa.Extract); ok {
		if _, isNext := ex.Tuple.(*ssa.Next); isNext && ex.Index == 1 {
			return true // key of a range over a string / map of ints is a valid index ≥ 0
		}
	}
	if ph, ok := v.(*ssa.Phi); ok {
		for _, e := range ph.Edges {
			if k, okc := ir.ConstInt(e); okc && k >= 0 {
				continue
			}
			if b, isB := e.(*ssa.BinOp); isB && b.Op == token.ADD && b.X == ssa.Value(ph) {
				continue
			}
			if e == ssa.Value(ph) {
				continue
			}
			if ex, isE := e.(*ssa.Extract); isE {
				if _, isNext := ex.Tuple.(*ssa.Next); isNext && ex.Index == 1 {
					continue
				}
			}
			return false
		}
		return true
	}
	return false
}

// notMinusOne: `at` executes only when v != -1 (v = strings.Index*-style result).
func notMinusOne(fn *ssa.Function, at ssa.Instruction, v ssa.Value) bool {
	_, g := ir.GuardedBy(fn, ir.Entry(fn), at, false, func(a ir.Atom) bool {
		if a.V != nil || a.Op != token.EQL {
			return false
		}
		k, okc := ir.ConstInt(a.Y)
		return okc && k == -1 && a.X == v
	})
	return g
}

func splitNonEmpty(v ssa.Value) bool {
	c, ok := v.(*ssa.Call)
	if !ok {
		return false
	}
	if ir.IsCallTo(c, "strings.Split", "strings.SplitN", "strings.SplitAfter", "strings.SplitAfterN") {
		// non-empty separator ⇒ at least one element (for SplitN/AfterN: n != 0)
		if s, okc := ir.ConstString(c.Call.Args[1]); okc && s != "" {
			if len(c.Call.Args) == 3 {
				if n, okn := ir.ConstInt(c.Call.Args[2]); !okn || n == 0 {
					return false
				}
			}
			return true
		}
	}
	return false
}

type indexSite struct {
	fn    *ssa.Function
	in    ssa.Instruction
	x     ssa.Value
	idx   ssa.Value // nil for slices
	lo    ssa.Value
	hi    ssa.Value
	shape string
}

func ruleIndex(r *core.Reporter) {
	p := r.P
	S := scopeS(p)
	// reviewed residue: function → shape substring → reason
	reviewed := map[string][]struct{ shape, why string }{
		"internal/pkg/postprocessor/extractor.sortURLs$1": {{"$urls[$", "indices supplied by sort.Slice within [0,len)"}},
		"internal/pkg/archiver.copyWithTimeout":           {{"[:$src.Read(", "n ≤ len(buf) by the io.Reader contract"}},
		"pkg/models.(*Item).GetShortID":                   {{"$i.id[:", "upper bound clamped to len(i.id) on the preceding branch; ids come from the queue, not from servers"}},
	}
	n, discharged, tabled := 0, 0, 0
	for _, fn := range S {
		allInstrs(fn, func(in ssa.Instruction) {
			var site *indexSite
			switch x := in.(type) {
			case *ssa.IndexAddr:
				site = &indexSite{fn: fn, in: in, x: x.X, idx: x.Index}
			case *ssa.Index:
				site = &indexSite{fn: fn, in: in, x: x.X, idx: x.Index}
			case *ssa.Lookup:
				if b, ok := x.X.Type().Underlying().(*types.Basic); ok && b.Info()&types.IsString != 0 {
					site = &indexSite{fn: fn, in: in, x: x.X, idx: x.Index}
				}
			case *ssa.Slice:
				if x.Low != nil || x.High != nil {
					site = &indexSite{fn: fn, in: in, x: x.X, lo: x.Low, hi: x.High}
				}
			}
			if site == nil {
				return
			}
			n++
			r.Analysed(fn)
			if why, ok := dischargeIndex(p, site); ok {
				discharged++
				_ = why
				return
			}
			shape := ir.Path(in.(ssa.Value))
			for _, rv := range reviewed[core.FuncName(fn)] {
				if strings.Contains(shape, rv.shape) {
					tabled++
					return
				}
			}
			r.Violated(core.FuncName(fn)+"/index", p.InstrPos(in), "index/slice expression %s is not covered by a bounds guard, loop bound, Split/regexp fact or the reviewed table: a crafted document can make it panic (index out of range)", shape)
		})
	}
	if r.Floor("index/slice sites in S", n, 40) {
		r.Held("index-safety", n, "%d index/slice sites in %d functions: %d discharged by rule, %d by the reviewed table", n, len(S), discharged, tabled)
	}
}

// onceWrittenCell: v is a load of a local cell of `owner` (directly, or through a capture) that is written exactly
// once, by owner itself and by none of its literals; the stored value is returned. The per-iteration loop variable
// of a loop whose body makes a closure, and a slice that is never reassigned, are such cells.
func onceWrittenCell(v ssa.Value, owner *ssa.Function) ssa.Value {
	u, ok := v.(*ssa.UnOp)
	if !ok || u.Op != token.MUL {
		return nil
	}
	var al *ssa.Alloc
	switch x := u.X.(type) {
	case *ssa.FreeVar:
		al, _ = ir.FreeVarBinding(x).(*ssa.Alloc)
	case *ssa.Alloc:
		al = x
	}
	if al == nil || al.Parent() != owner {
		return nil
	}
	var val ssa.Value
	n := 0
	for _, rf := range ir.Referrers(al) {
		if st, isSt := rf.(*ssa.Store); isSt && st.Addr == ssa.Value(al) {
			n++
			val = st.Val
		}
	}
	for _, lit := range withAnon(owner) {
		for _, fv2 := range lit.FreeVars {
			if ir.FreeVarBinding(fv2) == ssa.Value(al) {
				for _, rf := range ir.Referrers(fv2) {
					if st, isSt := rf.(*ssa.Store); isSt && st.Addr == ssa.Value(fv2) {
						n++
					}
				}
			}
		}
	}
	if n != 1 {
		return nil
	}
	return val
}

func dischargeIndex(p *core.Program, s *indexSite) (string, bool) {
	fn := s.fn
	// fixed-size arrays (varargs / composite literals): constant index below the length
	if at, ok := derefArray(s.x.Type()); ok {
		if s.idx != nil {
			if k, okc := ir.ConstInt(s.idx); okc && k >= 0 && k < at.Len() {
				return "constant index into fixed array", true
			}
		} else {
			lo, hi := int64(0), at.Len()
			okc := true
			if s.lo != nil {
				lo, okc = ir.ConstInt(s.lo)
			}
			if s.hi != nil && okc {
				hi, okc = ir.ConstInt(s.hi)
			}
			if okc && 0 <= lo && lo <= hi && hi <= at.Len() {
				return "constant slice of fixed array", true
			}
		}
	}
	if s.idx != nil {
		// loop bound on the same slice
		if loopBounded(fn, s.in, s.x, s.idx) {
			return "loop bound", true
		}
		// the loop variable lives in a cell because a literal in the body captures it
		if iv := onceWrittenCell(s.idx, fn); iv != nil && loopBounded(fn, s.in, s.x, iv) {
			return "loop bound (captured loop variable)", true
		}
		if descendingDelete(fn, s) {
			return "descending in-place filter loop", true
		}
		// inside a function literal: slice and index are both captured cells that are written once (the
		// per-iteration loop variable, a slice never reassigned) and the literal is created inside the loop
		// that bounds the index by the slice's length — the bound holds whenever the literal runs
		if parent := fn.Parent(); parent != nil {
			captured := func(v ssa.Value) ssa.Value { return onceWrittenCell(v, parent) }
			if ps, pi := captured(s.x), captured(s.idx); ps != nil && pi != nil {
				var site ssa.Instruction
				nsites := 0
				allInstrs(parent, func(in ssa.Instruction) {
					if mc, ok := in.(*ssa.MakeClosure); ok && mc.Fn == ssa.Value(fn) {
						site = in
						nsites++
					}
				})
				if nsites == 1 && loopBounded(parent, site, ps, pi) {
					return "captured loop index of the enclosing bounded loop", true
				}
			}
		}
		// constant index
		if k, okc := ir.ConstInt(s.idx); okc && k >= 0 {
			if k == 0 && splitNonEmpty(s.x) {
				return "Split non-empty", true
			}
			if lenGuardAtLeast(fn, s.in, s.x, k+1) {
				return "len guard", true
			}
			// regexp submatch: m[k] with k ≤ NumSubexp of the constant pattern
			if src, ok := submatchRegex(p, s.x); ok {
				if re, err := regexp.Compile(src); err == nil && int(k) <= re.NumSubexp() {
					return "capture-group count", true
				}
			}
		}
		// x[len(x)-1] under len(x) ≥ 1
		if b, ok := s.idx.(*ssa.BinOp); ok && b.Op == token.SUB {
			if one, okc := ir.ConstInt(b.Y); okc && one >= 1 {
				if c, isC := b.X.(*ssa.Call); isC && ir.CallName(c.Common()) == "builtin.len" && ir.Path(c.Call.Args[0]) == ir.Path(s.x) {
					if lenGuardAtLeast(fn, s.in, s.x, one) {
						return "len-1 under len guard", true
					}
				}
			}
		}
		// string/byte index with constant 0 under len guard handled above; map range / Next values are not indexes
		return "", false
	}
	// slices
	// s[:0] of a fresh make / s[:k] with k ≤ constant cap
	if mk, ok := s.x.(*ssa.MakeSlice); ok {
		if c, okc := ir.ConstInt(mk.Cap); okc {
			hi := c
			if s.hi != nil {
				if h, okh := ir.ConstInt(s.hi); okh {
					hi = h
				} else {
					hi = -1
				}
			}
			if hi >= 0 && hi <= c && s.lo == nil {
				return "slice of fresh make", true
			}
		}
	}
	// s[:i] / s[i+1:] with i = strings.Index*-result guarded != -1
	idxLike := func(v ssa.Value) (ssa.Value, bool) {
		if c, ok := v.(*ssa.Call); ok && (strings.HasPrefix(ir.CallName(c.Common()), "strings.Index") || strings.HasPrefix(ir.CallName(c.Common()), "strings.LastIndex")) {
			return v, ir.Path(c.Call.Args[0]) == ir.Path(s.x)
		}
		if b, ok := v.(*ssa.BinOp); ok && b.Op == token.ADD {
			if one, okc := ir.ConstInt(b.Y); okc && one == 1 {
				if c, isC := b.X.(*ssa.Call); isC && (strings.HasPrefix(ir.CallName(c.Common()), "strings.Index") || strings.HasPrefix(ir.CallName(c.Common()), "strings.LastIndex")) {
					return b.X, ir.Path(c.Call.Args[0]) == ir.Path(s.x)
				}
			}
		}
		return nil, false
	}
	okLo, okHi := s.lo == nil, s.hi == nil
	// bounds that are the loop index (or index+1) of a loop bounded by len of the same slice
	idxOrNext := func(v ssa.Value) bool {
		if loopBounded(fn, s.in, s.x, v) {
			return true
		}
		if b, ok := v.(*ssa.BinOp); ok && b.Op == token.ADD {
			if one, okc := ir.ConstInt(b.Y); okc && one == 1 && loopBounded(fn, s.in, s.x, b.X) {
				return true
			}
		}
		return false
	}
	if s.lo != nil && idxOrNext(s.lo) {
		okLo = true
	}
	if s.hi != nil && idxOrNext(s.hi) {
		okHi = true
	}
	if s.lo != nil {
		if k, okc := ir.ConstInt(s.lo); okc && k >= 0 && ((k <= 1 && splitNonEmpty(s.x)) || lenGuardAtLeast(fn, s.in, s.x, k)) {
			okLo = true
		}
	}
	if s.hi != nil {
		if k, okc := ir.ConstInt(s.hi); okc && k >= 0 && lenGuardAtLeast(fn, s.in, s.x, k) {
			okHi = true
		}
	}
	if descendingDelete(fn, s) {
		return "descending in-place filter loop", true
	}
	plusOneOfIndex := func(v ssa.Value) bool {
		b, ok := v.(*ssa.BinOp)
		if !ok || b.Op != token.ADD {
			return false
		}
		one, okc := ir.ConstInt(b.Y)
		if !okc || one != 1 {
			return false
		}
		_, same := idxLike(v)
		return same // strings.(Last)Index*(x, …)+1 ∈ [0, len(x)] whatever was found
	}
	if s.lo != nil && plusOneOfIndex(s.lo) {
		okLo = true
	}
	if s.hi != nil && plusOneOfIndex(s.hi) {
		okHi = true
	}
	// a position found by a search loop over the same slice, −1 when absent, used only after `pos < 0 → leave`
	foundPos := func(v ssa.Value) bool {
		ph, ok := v.(*ssa.Phi)
		if !ok {
			return false
		}
		for _, e := range ph.Edges {
			if k, okc := ir.ConstInt(e); okc {
				if k >= 0 {
					return false
				}
				continue
			}
			// induction variable of a loop bounded by len of the same slice
			bounded := false
			for _, ii := range ir.Ifs(fn) {
				a := ii.Atom
				if a.V != nil || a.Op != token.LSS || a.X != e {
					continue
				}
				if c, isC := a.Y.(*ssa.Call); isC && ir.CallName(c.Common()) == "builtin.len" && ir.Path(c.Call.Args[0]) == ir.Path(s.x) && isInduction(e) {
					bounded = true
				}
			}
			if !bounded {
				return false
			}
		}
		_, g := ir.GuardedBy(fn, ir.Entry(fn), s.in, false, func(a ir.Atom) bool {
			if a.V != nil || a.Op != token.LSS || a.X != v {
				return false
			}
			z, okc := ir.ConstInt(a.Y)
			return okc && z == 0
		})
		return g
	}
	posOrNext := func(v ssa.Value) bool {
		if foundPos(v) {
			return true
		}
		if b, ok := v.(*ssa.BinOp); ok && b.Op == token.ADD {
			if one, okc := ir.ConstInt(b.Y); okc && one == 1 && foundPos(b.X) {
				return true
			}
		}
		return false
	}
	if s.lo != nil && posOrNext(s.lo) {
		okLo = true
	}
	if s.hi != nil && posOrNext(s.hi) {
		okHi = true
	}
	if s.lo != nil {
		if base, ok := idxLike(s.lo); ok && notMinusOne(fn, s.in, base) {
			okLo = true
		}
		if k, okc := ir.ConstInt(s.lo); okc && k == 0 {
			okLo = true
		}
	}
	if s.hi != nil {
		if base, ok := idxLike(s.hi); ok && notMinusOne(fn, s.in, base) {
			okHi = true
		}
		// s[:pos+1] where pos is a range index over s (extractFromScriptContent) guarded by len(s) > pos
		if b, ok := s.hi.(*ssa.BinOp); ok && b.Op == token.ADD {
			if one, okc := ir.ConstInt(b.Y); okc && one == 1 {
				if _, g := ir.GuardedBy(fn, ir.Entry(fn), s.in, true, func(a ir.Atom) bool {
					// pos < len(s)
					if a.V != nil || a.Op != token.LSS || a.X != b.X {
						return false
					}
					c, isC := a.Y.(*ssa.Call)
					return isC && ir.CallName(c.Common()) == "builtin.len" && ir.Path(c.Call.Args[0]) == ir.Path(s.x)
				}); g && nonNegative(fn, s.in, b.X) {
					okHi = true
				} else if _, g := ir.GuardedBy(fn, ir.Entry(fn), s.in, false, func(a ir.Atom) bool {
					// the fall-through of `if len(s) <= pos { return }`
					if a.V != nil || a.Op != token.LEQ || a.Y != b.X {
						return false
					}
					c, isC := a.X.(*ssa.Call)
					return isC && ir.CallName(c.Common()) == "builtin.len" && ir.Path(c.Call.Args[0]) == ir.Path(s.x)
				}); g && nonNegative(fn, s.in, b.X) {
					okHi = true
				}
			}
		}
	}
	if okLo && okHi {
		return "guarded slice bounds", true
	}
	return "", false
}

// descendingDelete: the classic `for i := len(s)-1; i >= 0; i-- { if … { s = append(s[:i], s[i+1:]...) } }` shape:
// index phi = {len(S0)-1, i-1}, guarded by 0 <= i; the slice phi = {S0, itself, append(s[:i], s[i+1:]...)}.
func descendingDelete(fn *ssa.Function, s *indexSite) bool {
	var idx ssa.Value = s.idx
	if idx == nil {
		if s.hi != nil {
			idx = s.hi
		} else {
			idx = s.lo
		}
		if b, ok := idx.(*ssa.BinOp); ok && b.Op == token.ADD {
			if one, okc := ir.ConstInt(b.Y); okc && one == 1 {
				idx = b.X
			}
		}
	}
	iph, ok := idx.(*ssa.Phi)
	if !ok {
		return false
	}
	sph, ok := s.x.(*ssa.Phi)
	if !ok {
		return false
	}
	var s0 ssa.Value
	for _, e := range iph.Edges {
		b, isB := e.(*ssa.BinOp)
		if !isB || b.Op != token.SUB {
			return false
		}
		one, okc := ir.ConstInt(b.Y)
		if !okc || one != 1 {
			return false
		}
		if b.X == ssa.Value(iph) {
			continue
		}
		c, isC := b.X.(*ssa.Call)
		if !isC || ir.CallName(c.Common()) != "builtin.len" {
			return false
		}
		s0 = c.Call.Args[0]
	}
	if s0 == nil {
		return false
	}
	for _, e := range sph.Edges {
		if e == s0 || e == ssa.Value(sph) {
			continue
		}
		// nested phi of the same things
		if ph2, isP := e.(*ssa.Phi); isP {
			okp := true
			for _, e2 := range ph2.Edges {
				if e2 != ssa.Value(sph) && !isDeleteAt(e2, sph, iph) {
					okp = false
				}
			}
			if okp {
				continue
			}
		}
		if !isDeleteAt(e, sph, iph) {
			return false
		}
	}
	// 0 <= i dominates
	_, g := ir.GuardedBy(fn, ir.Entry(fn), s.in, true, func(a ir.Atom) bool {
		if a.V != nil || a.Op != token.LEQ || a.Y != ssa.Value(iph) {
			return false
		}
		z, okc := ir.ConstInt(a.X)
		return okc && z == 0
	})
	return g
}

func isDeleteAt(v ssa.Value, sph, iph *ssa.Phi) bool {
	c, ok := v.(*ssa.Call)
	if !ok || ir.CallName(c.Common()) != "builtin.append" || len(c.Call.Args) != 2 {
		return false
	}
	lo, ok1 := c.Call.Args[0].(*ssa.Slice)
	hi, ok2 := c.Call.Args[1].(*ssa.Slice)
	if !ok1 || !ok2 || lo.X != ssa.Value(sph) || hi.X != ssa.Value(sph) || lo.High != ssa.Value(iph) {
		return false
	}
	b, isB := hi.Low.(*ssa.BinOp)
	return isB && b.Op == token.ADD && b.X == ssa.Value(iph)
}

func derefArray(t types.Type) (*types.Array, bool) {
	if pt, ok := t.Underlying().(*types.Pointer); ok {
		t = pt.Elem()
	}
	at, ok := t.Underlying().(*types.Array)
	return at, ok
}

// submatchRegex: v is an element of FindAllStringSubmatch / the result of FindStringSubmatch on a package-level regexp.
func submatchRegex(p *core.Program, v ssa.Value) (string, bool) {
	// element load of the outer [][]string
	if sl, _, ok := elemLoad(v); ok {
		v = sl
	}
	c, ok := v.(*ssa.Call)
	if !ok || !(ir.IsCallTo(c, "(*regexp.Regexp).FindAllStringSubmatch") || ir.IsCallTo(c, "(*regexp.Regexp).FindStringSubmatch")) {
		return "", false
	}
	recv := c.Call.Args[0]
	if u, isU := recv.(*ssa.UnOp); isU {
		if g, isG := u.X.(*ssa.Global); isG {
			return regexSource(p, g)
		}
	}
	if rc, isC := recv.(*ssa.Call); isC && ir.IsCallTo(rc, "regexp.MustCompile") {
		return ir.ConstString(rc.Call.Args[0])
	}
	return "", false
}

func ruleAssert(r *core.Reporter) {
	p := r.P
	n := 0
	// decoder discriminators: listType constants of grafov/m3u8
	want := map[string]string{"*github.com/grafov/m3u8.MediaPlaylist": "MEDIA", "*github.com/grafov/m3u8.MasterPlaylist": "MASTER"}
	consts := map[string]int64{}
	if pk := p.AllPkgs["github.com/grafov/m3u8"]; pk != nil {
		for _, nm := range []string{"MEDIA", "MASTER"} {
			if c, ok := pk.Types.Scope().Lookup(nm).(*types.Const); ok {
				if v, okv := constInt64(c); okv {
					consts[nm] = v
				}
			}
		}
	}
	for _, fn := range scopeS(p) {
		allInstrs(fn, func(in ssa.Instruction) {
			ta, ok := in.(*ssa.TypeAssert)
			if !ok || ta.CommaOk {
				return
			}
			n++
			r.Analysed(fn)
			key := core.FuncName(fn) + "/assert " + types.TypeString(ta.AssertedType, func(pk *types.Package) string { return pk.Name() })
			disc, isDec := want[ta.AssertedType.String()]
			if !isDec {
				// assertion on a value whose dynamic type is chosen by module code (e.g. sync.Map contents) is an invariant
				if strings.Contains(ir.Path(ta.X), "stateTable") || strings.Contains(ta.AssertedType.String(), core.ModPath) {
					r.Held(key, 1, "module-internal dynamic type")
					return
				}
				r.Violated(key, p.InstrPos(in), "single-result type assertion on a value whose dynamic type depends on decoded input and no discriminator guard is known for it")
				return
			}
			_, g := ir.GuardedBy(fn, ir.Entry(fn), in, true, func(a ir.Atom) bool {
				if a.V != nil || a.Op != token.EQL {
					return false
				}
				k, okc := ir.ConstInt(a.Y)
				return okc && k == consts[disc]
			})
			if g {
				r.Held(key, 1, "guarded by listType == m3u8.%s", disc)
			} else {
				r.Violated(key, p.InstrPos(in), "the playlist is asserted to %s without listType == m3u8.%s having been established: the other playlist kind panics here", ta.AssertedType, disc)
			}
		})
	}
	r.Floor("single-result assertions in S", n, 1)
}

func constInt64(c *types.Const) (int64, bool) {
	v := c.Val()
	if v == nil {
		return 0, false
	}
	s := v.ExactString()
	var out int64
	_, err := fmt.Sscan(s, &out)
	return out, err == nil
}

// taintedSource: value is read from the response / URL text.
func taintedSource(v ssa.Value) bool {
	pth := ir.Path(v)
	for _, s := range []string{".GetResponse()", ".GetBody()", ".StatusCode", ".Header", ".Raw", ".GetMIMEType()", "io.ReadAll(", ".GetDocument()"} {
		if strings.Contains(pth, s) {
			return true
		}
	}
	return false
}

// taintedRead: v is (arithmetic / length / conversion of) a value read from the response or the URL text.
func taintedRead(v ssa.Value, d int) bool {
	if v == nil || d > 5 {
		return false
	}
	switch x := v.(type) {
	case *ssa.UnOp:
		if x.Op == token.MUL {
			if tn, f, ok := ir.FieldOf(x.X); ok {
				if tn == "net/http.Response" && (f == "StatusCode" || f == "ContentLength" || f == "Status" || f == "Proto") {
					return true
				}
				if tn == tURL && f == "Raw" {
					return true
				}
			}
			return false
		}
		return taintedRead(x.X, d+1)
	case *ssa.BinOp:
		return taintedRead(x.X, d+1) || taintedRead(x.Y, d+1)
	case *ssa.Convert:
		return taintedRead(x.X, d+1)
	case *ssa.Extract:
		return taintedRead(x.Tuple, d+1)
	case *ssa.Call:
		n := ir.CallName(x.Common())
		switch {
		case n == "(net/http.Header).Get", n == "io.ReadAll", strings.HasSuffix(n, ".GetMIMEType"):
			return true
		case n == "builtin.len", strings.HasPrefix(n, "strings."), strings.HasPrefix(n, "bytes."), strings.HasPrefix(n, "strconv."):
			for _, a := range x.Call.Args {
				if taintedRead(a, d+1) {
					return true
				}
			}
		case strings.HasPrefix(n, "("+"*"+pkgModels+".URL).String"):
			return true
		}
		// results of module predicates over tainted data (isStatusCodeRedirect(resp.StatusCode), IsHTML(URL))
		if f := ir.CalleeOf(x.Common()); f != nil && core.InModule(f) && f.Signature.Results().Len() == 1 {
			if b, ok := f.Signature.Results().At(0).Type().Underlying().(*types.Basic); ok && b.Kind() == types.Bool {
				for _, a := range x.Call.Args {
					if taintedRead(a, d+1) {
						return true
					}
				}
			}
		}
	}
	return false
}

func rulePanicSites(r *core.Reporter) {
	p := r.P
	n := 0
	for _, fn := range scopeS(p) {
		ord := 0
		allInstrs(fn, func(in ssa.Instruction) {
			isPanic := false
			if _, ok := in.(*ssa.Panic); ok {
				isPanic = true
			}
			if c, ok := in.(*ssa.Call); ok && ir.IsCallTo(c, mod+"/internal/pkg/log/dumper.PanicWithDump") {
				isPanic = true
			}
			if !isPanic {
				return
			}
			// compiler-generated select fallthrough
			if pi, ok := in.(*ssa.Panic); ok {
				if s, okc := ir.ConstString(pi.X); okc && strings.HasPrefix(s, "blocking select matched no case") {
					return
				}
			}
			n++
			ord++
			r.Analysed(fn)
			key := fmt.Sprintf("%s/panic#%d", core.FuncName(fn), ord)
			// the innermost condition that leads to it (the guard closest to the panic decides whether a server can trigger it)
			tainted := ""
			var inner *ir.IfInfo
			for _, ii := range ir.Ifs(fn) {
				for _, t := range []bool{true, false} {
					if ir.OnlyVia(ir.Entry(fn), in, ii.If.Block(), ii.EdgeWhen(t)) {
						iic := ii
						if inner == nil || inner.If.Block().Dominates(ii.If.Block()) {
							inner = &iic
						}
					}
				}
			}
			if inner != nil {
				for _, v := range []ssa.Value{inner.Atom.X, inner.Atom.Y, inner.Atom.V} {
					if v != nil && taintedRead(v, 0) {
						tainted = describeAtom(inner.Atom)
					}
				}
			}
			if tainted != "" {
				r.Violated(key, p.InstrPos(in), "panic conditioned on a value the remote server controls (%s): a crafted response crashes the crawler", tainted)
			} else {
				r.HeldAt(key, p.InstrPos(in), 1, "panic on an internal invariant (no server-derived value in its conditions)")
			}
		})
	}
	r.Floor("explicit panic sites in S", n, 3)
}

func ruleLoopProgress(r *core.Reporter) {
	p := r.P
	loops, n := 0, 0
	for _, fn := range scopeS(p) {
		for _, ii := range ir.Ifs(fn) {
			// is this If a loop test? (one of its successors reaches it again)
			var bodyEdge = -1
			for s := 0; s < 2; s++ {
				rs := ir.Reach([]ir.Pt{ir.EdgePt(ii.If.Block(), s)}, ir.Opts{Stop: func(x ssa.Instruction) bool { return x == ssa.Instruction(ii.If) }})
				if rs.Stopped[ii.If] {
					// a loop test has exactly one looping successor
					if bodyEdge >= 0 {
						bodyEdge = -2
					} else {
						bodyEdge = s
					}
				}
			}
			if bodyEdge < 0 {
				continue
			}
			// loop-carried variables read by the condition: phis located in blocks that are part of the cycle and dominate the If
			var phis []*ssa.Phi
			seen := map[ssa.Value]bool{}
			var walk func(v ssa.Value, d int)
			walk = func(v ssa.Value, d int) {
				if v == nil || d > 6 || seen[v] {
					return
				}
				seen[v] = true
				switch x := v.(type) {
				case *ssa.Phi:
					phis = append(phis, x)
				case *ssa.BinOp:
					walk(x.X, d+1)
					walk(x.Y, d+1)
				case *ssa.UnOp:
					walk(x.X, d+1)
				case *ssa.Convert:
					walk(x.X, d+1)
				case *ssa.Call:
					if n := ir.CallName(x.Common()); n == "builtin.len" {
						walk(x.Call.Args[0], d+1)
					}
				}
			}
			walk(ii.If.Cond, 0)
			// keep phis that are loop-carried: their block is reachable from the loop body
			body := ir.Reach([]ir.Pt{ir.EdgePt(ii.If.Block(), bodyEdge)}, ir.Opts{Stop: func(x ssa.Instruction) bool { return x == ssa.Instruction(ii.If) }})
			var carried []*ssa.Phi
			for _, ph := range phis {
				isCarried := false
				for _, pred := range ph.Block().Preds {
					if len(pred.Instrs) > 0 && body.Reached[pred.Instrs[len(pred.Instrs)-1]] {
						isCarried = true
					}
				}
				if isCarried {
					carried = append(carried, ph)
				}
			}
			if len(carried) == 0 {
				continue // reader/iterator-driven loop (RawToken, Next, Scan …) or an invariant condition
			}
			loops++
			r.Analysed(fn)
			// every back edge must change at least one carried phi
			hdr := carried[0].Block()
			stuck := false
			for i, pred := range hdr.Preds {
				if len(pred.Instrs) == 0 || !body.Reached[pred.Instrs[len(pred.Instrs)-1]] {
					continue
				}
				changed := false
				for _, ph := range carried {
					if ph.Block() != hdr {
						changed = true // nested header: handled when that loop is visited
						continue
					}
					if ph.Edges[i] != ssa.Value(ph) {
						changed = true
					}
				}
				if !changed {
					stuck = true
				}
			}
			if stuck {
				r.Violated(core.FuncName(fn)+"/loop", p.InstrPos(ii.If), "a path goes round the loop without changing any variable its continuation test reads (%s): on the input that takes this path the crawler spins forever", describeAtom(ii.Atom))
			} else {
				n++
			}
		}
	}
	// reader-driven loops: after an error from the token source the loop is left — xml/json decoders and bufio
	// readers keep returning the same error, a `continue` on error spins for ever
	for _, fn := range scopeS(p) {
		allInstrs(fn, func(in ssa.Instruction) {
			c, ok := in.(*ssa.Call)
			if !ok || !isTokenSource(c) {
				return
			}
			if !ir.Reach([]ir.Pt{ir.After(c)}, ir.Opts{}).Reached[c] {
				return // not in a loop
			}
			r.Analysed(fn)
			isNil := errIsNilAtom(c)
			type edge struct {
				b *ssa.BasicBlock
				s int
			}
			nilEdges := map[edge]bool{}
			tested := false
			for _, ii := range ir.Ifs(fn) {
				if isNil(ii.Atom) {
					tested = true
					nilEdges[edge{ii.If.Block(), ii.EdgeWhen(true)}] = true
				}
			}
			key := core.FuncName(fn) + "/reader-loop@" + ir.CallName(c.Common())
			if !tested {
				r.Violated(key, p.InstrPos(c), "the error of %s is never compared with nil inside the loop that calls it", ir.CallName(c.Common()))
				return
			}
			again := ir.Reach([]ir.Pt{ir.After(c)}, ir.Opts{EdgeOK: func(b *ssa.BasicBlock, s int) bool { return !nilEdges[edge{b, s}] }}).Reached[c]
			if again {
				r.Violated(key, p.InstrPos(c), "the loop can call %s again after it returned an error (no path through `err == nil`): the decoder/reader returns the same error from then on, so a malformed or truncated document makes this loop spin for ever", ir.CallName(c.Common()))
			} else {
				n++
				r.Held(key, 1, "every way round the loop passes `err == nil` of the token source")
			}
		})
	}
	if r.Floor("loops with loop-carried conditions in S", loops, 15) {
		r.Held("loop-progress", n, "%d loops: every back edge updates a variable of the continuation test", n)
	}
	// recursion
	for _, fn := range scopeS(p) {
		ord := 0
		allInstrs(fn, func(in ssa.Instruction) {
			c, ok := in.(*ssa.Call)
			if !ok || ir.CalleeOf(c.Common()) != fn || fn.Signature.Recv() != nil {
				return
			}
			if len(c.Call.Args) == 0 || len(fn.Params) == 0 {
				return
			}
			r.Analysed(fn)
			arg := c.Call.Args[0]
			okArg := false
			// element of a container obtained from the parameter by type assertion
			if sl, _, isEl := elemLoad(arg); isEl {
				if ex, isE := sl.(*ssa.Extract); isE {
					if ta, isTA := ex.Tuple.(*ssa.TypeAssert); isTA && ir.SameValue(ta.X, fn.Params[0]) {
						okArg = true
					}
				}
			}
			if ex, isE := arg.(*ssa.Extract); isE {
				if _, isNext := ex.Tuple.(*ssa.Next); isNext {
					okArg = true // map range value
				}
			}
			// decode of the string argument: load of a local filled by json.Unmarshal([]byte(v))
			if u, isU := arg.(*ssa.UnOp); isU {
				if al, isAl := u.X.(*ssa.Alloc); isAl {
					for _, rr := range ir.Referrers(al) {
						if cc, isC := rr.(*ssa.Call); isC && ir.IsCallTo(cc, "encoding/json.Unmarshal") {
							okArg = true
						}
						if mi, isMI := rr.(*ssa.MakeInterface); isMI {
							for _, r2 := range ir.Referrers(mi) {
								if cc, isC := r2.(*ssa.Call); isC && ir.IsCallTo(cc, "encoding/json.Unmarshal") {
									okArg = true
								}
							}
						}
					}
				}
			}
			// walking up a static hierarchy owned by a library (mimetype.MIME.Parent())
			if cc, isC := arg.(*ssa.Call); isC && ir.IsCallTo(cc, "(*github.com/gabriel-vasile/mimetype.MIME).Parent") {
				okArg = true
			}
			// tree recursion over children (models): some argument descends to a child (or climbs to the parent) of a node
			for _, a := range c.Call.Args {
				if pa := ir.Path(a); strings.Contains(pa, "GetChildren()") || strings.Contains(pa, ".children") || strings.Contains(pa, ".parent") {
					okArg = true
				}
			}
			ord++
			key := fmt.Sprintf("%s/recursion#%d", core.FuncName(fn), ord)
			if okArg {
				r.HeldAt(key, p.InstrPos(in), 1, "recurses into a strictly smaller structure")
			} else {
				r.Violated(key, p.InstrPos(in), "recursive call on %s, which is not an element of the decoded container nor the decode of the string argument: unbounded recursion (stack exhaustion) on crafted input", ir.Path(arg))
			}
		})
	}
}

// isTokenSource: a call that pulls the next piece from a stateful decoder/reader and reports failure as its second result.
func isTokenSource(c *ssa.Call) bool {
	var f *types.Func
	if c.Call.IsInvoke() {
		f = c.Call.Method
	} else if sc := c.Call.StaticCallee(); sc != nil {
		f, _ = sc.Object().(*types.Func)
	}
	if f == nil {
		return false
	}
	sig, _ := f.Type().(*types.Signature)
	if sig == nil || sig.Recv() == nil || sig.Results().Len() != 2 || sig.Results().At(1).Type().String() != "error" {
		return false
	}
	switch f.Name() {
	case "RawToken", "Token", "Read", "ReadString", "ReadBytes", "ReadRune", "ReadLine", "ReadSlice":
		return true
	}
	return false
}
