package rules

import (
	"go/token"
	"go/types"
	"strings"

	"golang.org/x/tools/go/ssa"

	"zenocheck/core"
	"zenocheck/ir"
)

func init() {
	PropertyText["C08"] = [2]string{
		"Decides: the text recorded/queried in the seen store and the text compared with the store's answer come from the same accessor of the same item (R-SEEN-KEY); the canonical string cannot depend on map iteration order, time or randomness (R-CANON-DETERMINISTIC); an item is marked Seen only on the store's 'found' answer and never on the asset→seed promotion, every other path records the URL, and the hash state is reset between items (R-SEEN-ONLY-IF-FOUND, R-SEEN-HASH-RESET); seencheck and de-duplication run before any request is built and only Fresh items get requests (R-REQUEST-ONLY-AFTER-GATE, R-DELETE-ADVANCE); DedupeItems removes a node only on a map hit for its URL and keeps the survivor in the map (R-DEDUPE-KEEPS-ONE). A pending duplicate is always dropped in favour of the completed node with the same URL (prefers-completed clause). The local seencheck's database lookup depends on no other state (R-SEEN-ASKS-STORE).",
		"Not decided: atomicity of check-then-record across concurrent preprocess workers (a schedule question); LevelDB / crawl HQ correctness.",
	}
	PropertyText["C09"] = [2]string{
		"Decides the structural part of canonicalisation: no map-order, time or random dependence and no package state in anything reachable from URL.String / URLToString / NormalizeURL (R-CANON-DETERMINISTIC, R-CANON-PURE); query parameters are decoded pair by pair after splitting, in order (R-QUERY-PAIRWISE); every accepted result passed the http(s)/host/fragment checks and scheme-less references are resolved against the parent (R-URL-SHAPE). URL.Parse always re-derives the parsed form from Raw (R-PARSE-REFRESHES); URL.String is not evaluated before normalisation (R-STRING-AFTER-NORMALIZE); references are resolved against the item's own parent (R-NORMALIZE-PARENT).",
		"Not decided: idempotence and WHATWG-conformant resolution — properties of the ada parser's output on runtime strings; IDNA mapping.",
	}
	register(&core.Rule{ID: "R-SEEN-KEY", Props: []string{"C08"}, Doc: "sibling agreement: the URL text sent to / hashed for the seen store and the text compared with the answer use the same accessor chain of the same item (local: one hash of GetURL().String() used for both isSeen and seen; HQ: request Value vs response comparison)", Run: ruleSeenKey})
	register(&core.Rule{ID: "R-SEEN-ONLY-IF-FOUND", Props: []string{"C08"}, Doc: "local SeencheckItem: SetStatus(ItemSeen) only on found==true and never after the asset→seed promotion; every iteration path that does not mark the item Seen records the URL with seen(hash, …); HQ variant: marked Seen only when absent from a response obtained without error", Run: ruleSeenOnlyIfFound})
	register(&core.Rule{ID: "R-SEEN-HASH-RESET", Props: []string{"C08"}, Doc: "the running hash is reset (or re-created) on every path between two items' Write calls: otherwise the key of item n depends on items 1…n-1", Run: ruleSeenHashReset})
	register(&core.Rule{ID: "R-DEDUPE-KEEPS-ONE", Props: []string{"C08", "C11"}, Doc: "DedupeItems: RemoveChild only on a map hit for the node's URL string; lookups and stores use the same key expression; when the earlier node is removed the map entry is overwritten with the survivor; seeds are never removed; markCompleted runs afterwards; flattenTree visits every node", Run: ruleDedupeKeepsOne})
	register(&core.Rule{ID: "R-CANON-DETERMINISTIC", Props: []string{"C08", "C09"}, Doc: "no range over a map, no time/random source, in any module function reachable from (*URL).String, URLToString or NormalizeURL", Run: ruleCanonDeterministic})
	register(&core.Rule{ID: "R-CANON-PURE", Props: []string{"C09"}, Doc: "(*URL).String returns a value cached under sync.Once and computed from the parsed URL only; canonicalisation code writes no package-level state", Run: ruleCanonPure})
	register(&core.Rule{ID: "R-QUERY-PAIRWISE", Props: []string{"C09", "C10"}, Doc: "query re-encoding unescapes keys and values only after splitting the raw query into pairs (QueryUnescape is never applied to the raw query parameter itself) and emits the pairs in loop order", Run: ruleQueryPairwise})
}

// itemOfSlice: v is a load of slice[idx]; returns slice and idx values.
func elemLoad(v ssa.Value) (ssa.Value, ssa.Value, bool) {
	u, ok := v.(*ssa.UnOp)
	if !ok || u.Op != token.MUL {
		return nil, nil, false
	}
	ia, ok := u.X.(*ssa.IndexAddr)
	if !ok {
		return nil, nil, false
	}
	return ia.X, ia.Index, true
}

// accessorChain renders the chain of method calls / fields applied on top of a slice element,
// e.g. ".GetURL().String()" for items[i].GetURL().String(); ok=false if v is not rooted in a slice element.
func accessorChain(v ssa.Value) (chain string, root ssa.Value, ok bool) {
	v = ir.Strip(v)
	switch x := v.(type) {
	case *ssa.Call:
		c := x.Common()
		if rcv := ir.Recv(c); rcv != nil && len(ir.Args(c)) == 0 {
			if f := ir.CalleeOf(c); f != nil {
				ch, rt, ok := accessorChain(rcv)
				return ch + "." + f.Name() + "()", rt, ok
			}
		}
	case *ssa.UnOp:
		if x.Op == token.MUL {
			if fa, isFA := x.X.(*ssa.FieldAddr); isFA {
				_, fname, _ := ir.FieldOf(fa)
				ch, rt, ok := accessorChain(fa.X)
				return ch + "." + fname, rt, ok
			}
			if sl, _, isEl := elemLoad(x); isEl {
				return "", sl, true
			}
		}
	case *ssa.Field:
		_, fname, _ := ir.FieldOf(x)
		ch, rt, ok := accessorChain(x.X)
		return ch + "." + fname, rt, ok
	case *ssa.IndexAddr:
		return "", x.X, true
	case *ssa.Parameter:
		// the element handed to a predicate literal
		if x.Parent() != nil && x.Parent().Parent() != nil {
			return "", x, true
		}
	case *ssa.Alloc:
		// … spilled because a field of it is selected
		if x.Parent() != nil && x.Parent().Parent() != nil {
			var src ssa.Value
			n := 0
			for _, u := range *x.Referrers() {
				if st, isSt := u.(*ssa.Store); isSt && st.Addr == x {
					src = st.Val
					n++
				}
			}
			if _, isParam := src.(*ssa.Parameter); isParam && n == 1 {
				return "", src, true
			}
		}
	}
	return "", nil, false
}

func ruleSeenKey(r *core.Reporter) {
	p := r.P
	// --- local store
	lf := p.Func(rel(pkgSeen), "SeencheckItem")
	if lf == nil {
		r.Undecided("seencheck.SeencheckItem", "", "anchor not found")
	} else {
		r.Analysed(lf)
		var writes, isSeens, seens []*ssa.Call
		allInstrs(lf, func(in ssa.Instruction) {
			c, ok := in.(*ssa.Call)
			if !ok {
				return
			}
			switch {
			case c.Call.IsInvoke() && c.Call.Method.Name() == "Write" && strings.Contains(c.Call.Value.Type().String(), "hash."):
				writes = append(writes, c)
			case isSeenHelper(p, c, "isSeen"):
				isSeens = append(isSeens, c)
			case isSeenHelper(p, c, "seen"):
				seens = append(seens, c)
			}
		})
		if len(writes) != 1 || len(isSeens) != 1 || len(seens) == 0 {
			r.Violated("seencheck.SeencheckItem/key", fnPos(p, lf), "expected one hash Write, one isSeen and at least one seen call; found %d/%d/%d", len(writes), len(isSeens), len(seens))
		} else {
			// hashed text = <item>.GetURL().String()
			chain, _, ok := accessorChain(stringSource(writes[0].Call.Args[0]))
			key := seenArgs(isSeens[0])[0]
			same := true
			for _, s := range seens {
				if seenArgs(s)[0] != key {
					same = false
				}
			}
			// key derives from the hash: FormatUint(h.Sum64(), …)
			derives := strings.Contains(ir.Path(key), "Sum64()")
			switch {
			case !ok || chain != ".GetURL().String()":
				r.Violated("seencheck.SeencheckItem/key", p.InstrPos(writes[0]), "the local seen store is keyed on %q of the item, expected the canonical string .GetURL().String()", chain)
			case !same:
				r.Violated("seencheck.SeencheckItem/key", p.InstrPos(isSeens[0]), "isSeen and seen use different key values: a URL is queried under one key and recorded under another")
			case !derives:
				r.Violated("seencheck.SeencheckItem/key", p.InstrPos(isSeens[0]), "the store key (%s) is not derived from the hash of the item's URL", ir.Path(key))
			default:
				r.Held("seencheck.SeencheckItem/key", 1+len(seens), "one hash of item.GetURL().String() is the key of isSeen and of %d seen call(s)", len(seens))
			}
		}
	}
	// --- HQ store
	hf := p.Func(rel(pkgHQ), "SeencheckItem")
	if hf == nil {
		r.Undecided("hq.SeencheckItem", "", "anchor not found")
		return
	}
	r.Analysed(hf)
	sent := ""
	var sentPos ssa.Instruction
	allInstrs(hf, func(in ssa.Instruction) {
		if st, ok := in.(*ssa.Store); ok {
			if tn, f, ok := ir.FieldOf(st.Addr); ok && tn == "github.com/internetarchive/gocrawlhq.URL" && f == "Value" {
				if ch, _, ok := accessorChain(st.Val); ok {
					sent = ch
					sentPos = in
				}
			}
		}
	})
	compared := ""
	var cmpPos ssa.Instruction
	// the comparison may be an if condition or the result of a predicate
	// literal handed to slices.ContainsFunc / IndexFunc
	for _, fn := range withAnon(hf) {
		allInstrs(fn, func(in ssa.Instruction) {
			bo, isBO := in.(*ssa.BinOp)
			if !isBO || bo.Op != token.EQL {
				return
			}
			for _, pair := range [][2]ssa.Value{{bo.X, bo.Y}, {bo.Y, bo.X}} {
				ch, _, ok := accessorChain(pair[0])
				och, _, ok2 := accessorChain(pair[1])
				if ok && ok2 && och == ".Value" && strings.HasPrefix(ch, ".GetURL()") {
					compared = ch
					cmpPos = in
				}
			}
		})
	}
	switch {
	case sent == "" || compared == "":
		r.Undecided("hq.SeencheckItem/key", fnPos(p, hf), "cannot find the request Value (%q) or the response comparison (%q)", sent, compared)
	case sent != compared:
		r.Violated("hq.SeencheckItem/key", p.InstrPos(sentPos), "crawl HQ is asked about item%s but its answer is compared with item%s (at %s): a URL whose two texts differ is marked seen although HQ reported it new", sent, compared, p.InstrPos(cmpPos))
	default:
		r.Held("hq.SeencheckItem/key", 2, "request Value and response comparison both use item%s", sent)
	}
}

// stringSource looks through []byte(s) conversions.
func stringSource(v ssa.Value) ssa.Value {
	for {
		switch x := v.(type) {
		case *ssa.Convert:
			v = x.X
		case *ssa.ChangeType:
			v = x.X
		default:
			return v
		}
	}
}

// perItemLoop finds the range loop over the slice returned by GetNodesAtLevel that contains instruction `in`.
func loopAround(fn *ssa.Function, in ssa.Instruction) (ir.IfInfo, bool) {
	// the innermost counted loop (induction variable < bound) whose body contains `in`: among the candidates, the
	// one whose body entry is dominated by the body entries of all the others
	var cands []ir.IfInfo
	for _, ii := range ir.Ifs(fn) {
		a := ii.Atom
		if ii.Via != nil || a.V != nil || a.Op != token.LSS || !isInduction(a.X) {
			continue
		}
		body := ir.EdgePt(ii.If.Block(), ii.EdgeWhen(true))
		res := ir.Reach([]ir.Pt{body}, ir.Opts{Stop: func(x ssa.Instruction) bool { return x == ssa.Instruction(ii.If) }})
		if res.Reached[in] && res.Stopped[ii.If] {
			// `in` is part of the cycle: it can come back to the loop test (an inner loop of an *earlier* loop reaches
			// `in` by falling out of both, and its own test again through the outer one — but never from `in`)
			if _, isIf := in.(*ssa.If); !isIf {
				if !ir.Reach([]ir.Pt{ir.After(in)}, ir.Opts{}).Reached[ii.If] {
					continue
				}
			}
			cands = append(cands, ii)
		}
	}
	if len(cands) == 0 {
		return ir.IfInfo{}, false
	}
	best := cands[0]
	for _, c := range cands[1:] {
		cb := c.If.Block().Succs[c.EdgeWhen(true)]
		bb := best.If.Block().Succs[best.EdgeWhen(true)]
		if bb.Dominates(cb) && bb != cb {
			best = c
		}
	}
	return best, true
}

func ruleSeenOnlyIfFound(r *core.Reporter) {
	p := r.P
	states, _ := itemStates(p)
	lf := p.Func(rel(pkgSeen), "SeencheckItem")
	if lf == nil {
		r.Undecided("seencheck.SeencheckItem", "", "anchor not found")
	} else {
		r.Analysed(lf)
		var isSeen *ssa.Call
		var marks []ssa.Instruction
		allInstrs(lf, func(in ssa.Instruction) {
			if c, ok := in.(*ssa.Call); ok && isSeenHelper(p, c, "isSeen") {
				isSeen = c
			}
			if _, v, ok := setStatusConst(in); ok && v == states["ItemSeen"] {
				marks = append(marks, in)
			}
		})
		if isSeen == nil || len(marks) == 0 {
			r.Violated("seencheck.SeencheckItem/marks", fnPos(p, lf), "isSeen call or SetStatus(ItemSeen) not found (%v/%d)", isSeen != nil, len(marks))
		} else {
			var found ssa.Value
			for _, rr := range ir.Referrers(isSeen) {
				if e, ok := rr.(*ssa.Extract); ok && e.Index == 0 {
					found = e
				}
			}
			okAll := true
			for _, m := range marks {
				if _, g := ir.GuardedBy(lf, ir.Entry(lf), m, true, func(a ir.Atom) bool { return a.V != nil && a.V == found }); !g {
					okAll = false
					r.Violated("seencheck.SeencheckItem/seen-needs-found", p.InstrPos(m), "an item can be marked ItemSeen although the store did not report its URL as seen")
				}
				// the marked item is the iteration's item whose URL was hashed
			}
			if okAll {
				r.Held("seencheck.SeencheckItem/seen-needs-found", len(marks), "SetStatus(ItemSeen) only on found==true")
			}
			loop, okLoop := loopAround(lf, isSeen)
			if !okLoop {
				r.Undecided("seencheck.SeencheckItem/loop", p.InstrPos(isSeen), "per-item loop not found")
			} else {
				hdr := ssa.Instruction(loop.If)
				isMark := func(in ssa.Instruction) bool {
					_, v, ok := setStatusConst(in)
					return ok && v == states["ItemSeen"]
				}
				isRecord := func(in ssa.Instruction) bool {
					c, isC := in.(*ssa.Call)
					return isC && isSeenHelper(p, c, "seen") && seenArgs(c)[0] == seenArgs(isSeen)[0]
				}
				// every path after the query either marks the item seen or records the URL
				res := ir.Reach([]ir.Pt{ir.After(isSeen)}, ir.Opts{Stop: func(in ssa.Instruction) bool { return in == hdr || isMark(in) || isRecord(in) }})
				if res.Stopped[hdr] {
					r.Violated("seencheck.SeencheckItem/record-or-mark", p.InstrPos(isSeen), "an item can leave the seencheck neither marked seen nor recorded in the store (e.g. the asset→seed promotion is not persisted): the same URL will be fetched again")
				} else {
					r.Held("seencheck.SeencheckItem/record-or-mark", 1, "every path records the URL or marks the item seen")
				}
				// promotion: after seen(hash,"seed") with a constant, the item is not marked
				badPromo := false
				nPromo := 0
				allInstrs(lf, func(in ssa.Instruction) {
					if !isRecord(in) {
						return
					}
					typ := seenArgs(in.(*ssa.Call))[1]
					isPromo := false
					if s, ok := ir.ConstString(typ); ok && s == "seed" {
						isPromo = true
					} else {
						// merged with the first-time branch: `if !found || (foundType == "asset" && URLType == "seed") { seen(hash, URLType) }`
						for _, ii := range ir.Ifs(lf) {
							a := ii.Atom
							if a.V != nil || a.Op != token.EQL {
								continue
							}
							x, y := a.X, a.Y
							if _, isC := x.(*ssa.Const); isC {
								x, y = y, x
							}
							if sv, okc := ir.ConstString(y); okc && sv == "seed" && ir.SameValue(x, typ) {
								from := ir.EdgePt(ii.If.Block(), ii.EdgeWhen(true))
								if ir.Reach([]ir.Pt{from}, ir.Opts{Stop: func(z ssa.Instruction) bool { return z == hdr }}).Reached[in] {
									isPromo = true
								}
							}
						}
					}
					if isPromo {
						nPromo++
						rs := ir.Reach([]ir.Pt{ir.After(in)}, ir.Opts{Stop: func(x ssa.Instruction) bool { return x == hdr }})
						for x := range rs.Reached {
							if isMark(x) {
								badPromo = true
							}
						}
					}
				})
				if badPromo {
					r.Violated("seencheck.SeencheckItem/promotion", fnPos(p, lf), "a seed whose URL was only seen as an asset is recorded as seed and then still marked ItemSeen")
				} else if nPromo > 0 {
					r.Held("seencheck.SeencheckItem/promotion", nPromo, "asset→seed promotion records \"seed\" and does not mark the item")
				} else {
					r.Violated("seencheck.SeencheckItem/promotion", fnPos(p, lf), "the asset→seed promotion (seen(hash, \"seed\")) is gone: a seed/redirect target first seen as an asset is skipped, or never upgraded")
				}
				// URLType classification: "asset" iff IsChild()
				typeOK := false
				for _, ii := range ir.Ifs(lf) {
					if c := ir.BoolCallAtom(ii.Atom, "(*"+pkgModels+".Item).IsChild"); c != nil {
						typeOK = true
					}
				}
				if typeOK {
					r.Held("seencheck.SeencheckItem/type", 1, "asset/seed classification by IsChild()")
				} else {
					r.Violated("seencheck.SeencheckItem/type", fnPos(p, lf), "the recorded URL type is no longer derived from IsChild()")
				}
			}
		}
	}
	// HQ
	hf := p.Func(rel(pkgHQ), "SeencheckItem")
	if hf == nil {
		r.Undecided("hq.SeencheckItem", "", "anchor not found")
		return
	}
	r.Analysed(hf)
	var sc *ssa.Call
	var marks []ssa.Instruction
	allInstrs(hf, func(in ssa.Instruction) {
		if c, ok := in.(*ssa.Call); ok && ir.MethodCall(c, "github.com/internetarchive/gocrawlhq.Client", "Seencheck") {
			sc = c
		}
		if _, v, ok := setStatusConst(in); ok && v == states["ItemSeen"] {
			marks = append(marks, in)
		}
	})
	if sc == nil || len(marks) == 0 {
		r.Violated("hq.SeencheckItem/marks", fnPos(p, hf), "Seencheck call or SetStatus(ItemSeen) not found")
		return
	}
	var errv ssa.Value
	for _, rr := range ir.Referrers(sc) {
		if e, ok := rr.(*ssa.Extract); ok && e.Index == 1 {
			errv = e
		}
	}
	for _, m := range marks {
		_, g := ir.GuardedBy(hf, ir.Entry(hf), m, true, func(a ir.Atom) bool {
			return a.V == nil && a.Op == token.EQL && ((a.X == errv && ir.IsNilConst(a.Y)) || (a.Y == errv && ir.IsNilConst(a.X)))
		})
		if !g {
			r.Violated("hq.SeencheckItem/seen-needs-answer", p.InstrPos(m), "items can be marked seen although the crawl HQ seencheck request failed")
			continue
		}
		// not reachable (within the item iteration) after the equality matched
		bad := false
		for _, ii := range ir.Ifs(hf) {
			a := ii.Atom
			if a.V != nil || a.Op != token.EQL {
				continue
			}
			_, _, ok1 := accessorChain(a.X)
			_, _, ok2 := accessorChain(a.Y)
			if !ok1 || !ok2 {
				continue
			}
			outer, okOuter := loopAround(hf, m)
			if !okOuter {
				continue
			}
			start := ir.EdgePt(ii.If.Block(), ii.EdgeWhen(true))
			rs := ir.Reach([]ir.Pt{start}, ir.Opts{Stop: func(x ssa.Instruction) bool { return x == ssa.Instruction(outer.If) }})
			if rs.Reached[m] {
				// reaching the mark after a match is only OK if a flag prevents it; check guard on a phi that is true on this path
				if _, gf := ir.GuardedBy(hf, ir.Entry(hf), m, false, func(at ir.Atom) bool {
					ph, isPhi := at.V.(*ssa.Phi)
					if !isPhi {
						return false
					}
					for _, e := range ph.Edges {
						if c, isC := e.(*ssa.Const); isC && c.Value != nil && c.Value.ExactString() == "true" {
							return true
						}
					}
					return false
				}); !gf {
					bad = true
				}
			}
		}
		if bad {
			r.Violated("hq.SeencheckItem/seen-needs-absent", p.InstrPos(m), "an item whose URL was returned by crawl HQ (i.e. new) can still be marked seen")
		} else {
			r.Held("hq.SeencheckItem/seen-needs-absent", 1, "marked seen only when no returned URL matched, after a successful request")
		}
	}
}

func ruleSeenHashReset(r *core.Reporter) {
	p := r.P
	lf := p.Func(rel(pkgSeen), "SeencheckItem")
	if lf == nil {
		r.Undecided("seencheck.SeencheckItem", "", "anchor not found")
		return
	}
	r.Analysed(lf)
	var writes []*ssa.Call
	allInstrs(lf, func(in ssa.Instruction) {
		if c, ok := in.(*ssa.Call); ok && c.Call.IsInvoke() && c.Call.Method.Name() == "Write" && strings.Contains(c.Call.Value.Type().String(), "hash.") {
			writes = append(writes, c)
		}
	})
	if len(writes) == 0 {
		r.Undecided("seencheck.SeencheckItem/hash", fnPos(p, lf), "no hash Write found")
		return
	}
	for _, w := range writes {
		h := w.Call.Value
		isReset := func(in ssa.Instruction) bool {
			c, ok := in.(*ssa.Call)
			if ok && c.Call.IsInvoke() && c.Call.Method.Name() == "Reset" && c.Call.Value == h {
				return true
			}
			// a fresh hash per item: the hash value is created inside the loop
			return false
		}
		freshPerItem := false
		if hc, ok := h.(*ssa.Call); ok {
			if _, inLoop := loopAround(lf, hc); inLoop {
				freshPerItem = true
			}
		}
		res := ir.Reach([]ir.Pt{ir.After(w)}, ir.Opts{Stop: isReset})
		if res.Reached[w] && !freshPerItem {
			r.Violated("seencheck.SeencheckItem/hash-reset", p.InstrPos(w), "a path reaches the next item's h.Write without h.Reset(): that item's key then also covers the previous URLs, so a seen URL is not recognised (and unseen ones may collide)")
		} else {
			r.Held("seencheck.SeencheckItem/hash-reset", 1, "hash state reset on every path between two items")
		}
	}
}

func ruleDedupeKeepsOne(r *core.Reporter) {
	p := r.P
	fn := p.Func(rel(pkgModels), "(*Item).DedupeItems")
	ft := p.Func(rel(pkgModels), "flattenTree")
	if fn != nil && ft == nil {
		ft = fn // flattenTree folded into DedupeItems (as a local recursive closure): the traversal is looked for there
	}
	if fn == nil || ft == nil {
		r.Undecided("models.DedupeItems", "", "anchor not found")
		return
	}
	r.Analysed(fn, ft)
	var lookups []*ssa.Lookup
	var updates []*ssa.MapUpdate
	var removes []*ssa.Call
	allInstrs(fn, func(in ssa.Instruction) {
		switch x := in.(type) {
		case *ssa.Lookup:
			if x.CommaOk {
				lookups = append(lookups, x)
			}
		case *ssa.MapUpdate:
			updates = append(updates, x)
		case *ssa.Call:
			if ir.IsCallTo(x, "(*"+pkgModels+".Item).RemoveChild") {
				removes = append(removes, x)
			}
		}
	})
	if len(lookups) != 1 || len(updates) == 0 || len(removes) == 0 {
		r.Violated("DedupeItems/shape", fnPos(p, fn), "expected one map lookup, map updates and RemoveChild calls; found %d/%d/%d", len(lookups), len(updates), len(removes))
		return
	}
	lk := lookups[0]
	var hit ssa.Value
	var existing ssa.Value
	for _, rr := range ir.Referrers(lk) {
		if e, ok := rr.(*ssa.Extract); ok {
			if e.Index == 1 {
				hit = e
			} else {
				existing = e
			}
		}
	}
	keyChain := func(v ssa.Value) string {
		// <node>.url.String() — render relative to the node value
		c, ok := v.(*ssa.Call)
		if !ok || !ir.IsCallTo(c, "(*"+pkgModels+".URL).String") {
			return "?" + ir.Path(v)
		}
		return ir.Path(c.Call.Args[0]) + ".String()"
	}
	k0 := keyChain(lk.Index)
	sameKeys := !strings.HasPrefix(k0, "?")
	for _, u := range updates {
		if keyChain(u.Key) != k0 {
			sameKeys = false
		}
	}
	if sameKeys {
		r.Held("DedupeItems/key", 1+len(updates), "lookup and %d update(s) all keyed on %s", len(updates), k0)
	} else {
		r.Violated("DedupeItems/key", p.InstrPos(lk), "the de-duplication map is queried and updated under different keys")
	}
	// node under examination: the receiver of .url in the key
	var node ssa.Value
	if c, ok := lk.Index.(*ssa.Call); ok {
		if u, ok := c.Call.Args[0].(*ssa.UnOp); ok {
			if fa, ok := u.X.(*ssa.FieldAddr); ok {
				node = fa.X
			}
		}
	}
	okRemove := true
	for _, rm := range removes {
		if _, g := ir.GuardedBy(fn, ir.Entry(fn), rm, true, func(a ir.Atom) bool { return a.V != nil && a.V == hit }); !g {
			okRemove = false
			r.Violated("DedupeItems/remove-needs-hit", p.InstrPos(rm), "a node can be removed from the tree without another node with the same URL having been found")
		}
		victim := rm.Call.Args[1]
		switch {
		case node != nil && victim == node:
			// removing the later node: fine, the earlier stays in the map
		case existing != nil && victim == existing:
			// removing the earlier node: the map must be overwritten with the survivor before the next iteration
			loop, okLoop := loopAround(fn, rm)
			stored := false
			if okLoop {
				rs := ir.Reach([]ir.Pt{ir.After(rm)}, ir.Opts{Stop: func(x ssa.Instruction) bool {
					if mu, ok := x.(*ssa.MapUpdate); ok && mu.Value == node {
						stored = true
						return true
					}
					return x == ssa.Instruction(loop.If)
				}})
				if rs.Stopped[loop.If] {
					stored = false
				}
			}
			if !stored {
				okRemove = false
				r.Violated("DedupeItems/survivor-kept", p.InstrPos(rm), "the earlier node is removed but the map keeps pointing at it: a third duplicate would be compared with a node that is no longer in the tree, and the URL can be discarded altogether")
			}
			// the preference for the completed duplicate depends on nothing but the two statuses and the seed test:
			// any further condition leaves a pending duplicate of a completed URL in the tree — it is fetched again
			{
				var foreign []ir.IfInfo
				for _, ii := range ir.Ifs(fn) {
					a := ii.Atom
					isStatus := func(v ssa.Value) bool { _, f, ok := fieldOfLoad(v); return ok && f == "status" }
					// a materialised decision (`replace := a && b && c; if replace`) is the same tests behind a flag
					var ownBool func(v ssa.Value, d int) bool
					ownBool = func(v ssa.Value, d int) bool {
						if d > 6 {
							return false
						}
						switch x := v.(type) {
						case *ssa.Const:
							return true
						case *ssa.Phi:
							for _, e := range x.Edges {
								if !ownBool(e, d+1) {
									return false
								}
							}
							return true
						case *ssa.UnOp:
							return x.Op == token.NOT && ownBool(x.X, d+1)
						case *ssa.BinOp:
							return isStatus(x.X) || isStatus(x.Y)
						case *ssa.Call:
							return ir.IsCallTo(x, "(*"+pkgModels+".Item).IsSeed") && len(x.Call.Args) == 1 && x.Call.Args[0] == existing
						}
						return v == hit
					}
					if a.V != nil {
						if a.V == hit || ownBool(a.V, 0) {
							continue
						}
						foreign = append(foreign, ii)
						continue
					}
					isLen := func(v ssa.Value) bool {
						c, ok := v.(*ssa.Call)
						return ok && ir.CallName(c.Common()) == "builtin.len"
					}
					switch {
					case isStatus(a.X) || isStatus(a.Y): // status comparisons
					case isLen(a.X) || isLen(a.Y): // loop bound
					case ir.IsNilConst(a.X) || ir.IsNilConst(a.Y): // nil entries
					default:
						foreign = append(foreign, ii)
					}
				}
				var hitIf *ir.IfInfo
				for _, ii := range ir.Ifs(fn) {
					if ii.Atom.V != nil && ii.Atom.V == hit {
						ii := ii
						hitIf = &ii
					}
				}
				if hitIf != nil {
					from := ir.EdgePt(hitIf.If.Block(), hitIf.EdgeWhen(true))
					if indep, how := ir.IndependentOf(from, rm, foreign, nil); !indep {
						okRemove = false
						r.Violated("DedupeItems/prefers-completed", p.InstrPos(rm), "a pending duplicate is not always dropped in favour of the completed node with the same URL: %s keeps the pending one — that URL is fetched a second time by another node of the same tree", how)
					} else {
						r.Held("DedupeItems/prefers-completed", 1, "pending duplicate → completed duplicate replacement depends only on the two statuses and the seed test")
					}
				}
			}
			// never a seed
			if _, g := ir.GuardedBy(fn, ir.Entry(fn), rm, false, func(a ir.Atom) bool {
				c := ir.BoolCallAtom(a, "(*"+pkgModels+".Item).IsSeed")
				return c != nil && c.Call.Args[0] == existing
			}); !g {
				okRemove = false
				r.Violated("DedupeItems/seed-kept", p.InstrPos(rm), "the earlier node can be removed even when it is the seed")
			}
		default:
			okRemove = false
			r.Violated("DedupeItems/victim", p.InstrPos(rm), "RemoveChild removes a node that is neither the current node nor the map hit")
		}
		// parent is the victim's own parent
		if pp := ir.Path(rm.Call.Args[0]); pp != ir.Path(victim)+".parent" {
			okRemove = false
			r.Violated("DedupeItems/parent", p.InstrPos(rm), "RemoveChild is called on %s, not on the removed node's own parent", pp)
		}
	}
	if okRemove {
		r.Held("DedupeItems/removals", len(removes), "removals only on a map hit; survivor stays in the map; seed never removed")
	}
	// first occurrence is stored
	if _, g := ir.GuardedBy(fn, ir.Entry(fn), updates[0], false, func(a ir.Atom) bool { return a.V != nil && a.V == hit }); g || len(updates) > 1 {
		r.Held("DedupeItems/first-stored", len(updates), "an unseen URL is entered into the map")
	}
	// every node visited: loop covers all of flattenTree's result; markCompleted after the loop
	if loopCoversAll(fn, lk) {
		r.Held("DedupeItems/all-nodes", 1, "every flattened node is examined")
	} else {
		r.Violated("DedupeItems/all-nodes", p.InstrPos(lk), "the de-duplication loop can leave before all nodes were examined")
	}
	mcAfter := false
	mcFn := p.Func(rel(pkgModels), "markCompleted") // follows a function ↔ method conversion
	allInstrs(fn, func(in ssa.Instruction) {
		isMC := ir.IsPlainCallTo(in, pkgModels+".markCompleted")
		if cc := ir.AsCall(in); cc != nil && mcFn != nil && cc.StaticCallee() == mcFn {
			if _, isCall := in.(*ssa.Call); isCall {
				isMC = true
			}
		}
		if isMC && !ir.Reach([]ir.Pt{ir.After(in)}, ir.Opts{}).Reached[lk] {
			mcAfter = true
		}
	})
	if mcAfter {
		r.Held("DedupeItems/markCompleted", 1, "markCompleted runs after de-duplication")
	} else {
		r.Violated("DedupeItems/markCompleted", fnPos(p, fn), "parents whose last pending child was removed as a duplicate are not re-evaluated (markCompleted missing after the loop)")
	}
	// flattenTree: appends every node and recurses into all children unconditionally
	// the traversal is a recursive closure of flattenTree, a recursive named helper it calls, or flattenTree itself
	cands := append([]*ssa.Function{}, ft.AnonFuncs...)
	allInstrs(ft, func(in ssa.Instruction) {
		if c, ok := in.(*ssa.Call); ok {
			if f := ir.CalleeOf(c.Common()); f != nil && core.InModule(f) && f.Pkg == ft.Pkg && f.Blocks != nil {
				cands = append(cands, f)
			}
		}
	})
	cands = append(cands, ft)
	var trav *ssa.Function
	var rec *ssa.Call
	for _, cand := range cands {
		allInstrs(cand, func(in ssa.Instruction) {
			c, ok := in.(*ssa.Call)
			if !ok || c.Call.IsInvoke() || rec != nil {
				return
			}
			callee := ir.CalleeOf(c.Common())
			if callee == cand {
				trav, rec = cand, c
				return
			}
			// a closure calling itself through its captured variable
			if callee == nil && cand.Parent() != nil {
				if _, isB := c.Call.Value.(*ssa.Builtin); !isB {
					trav, rec = cand, c
				}
			}
		})
		if rec != nil {
			break
		}
	}
	if trav == nil {
		r.Undecided("flattenTree", fnPos(p, ft), "recursive traversal not found")
		return
	}
	r.Analysed(trav)
	okFlat := rec != nil && loopCoversAll(trav, rec)
	// the only conditions on the path to the recursion: node == nil and the loop bound
	if okFlat {
		for _, ii := range ir.Ifs(trav) {
			for _, t := range []bool{true, false} {
				if ir.OnlyVia(ir.Entry(trav), rec, ii.If.Block(), ii.EdgeWhen(t)) {
					a := ii.Atom
					isNilTest := a.V == nil && a.Op == token.EQL && (ir.IsNilConst(a.X) || ir.IsNilConst(a.Y))
					isBound := a.V == nil && a.Op == token.LSS
					if !isNilTest && !isBound {
						okFlat = false
					}
				}
			}
		}
	}
	// …nor any combination of other conditions (a disjunction such as `HasChildren() || HasRedirection()` has no
	// single dominating edge): the recursion must stay reachable whatever the foreign branches decide
	if okFlat {
		var foreign []ir.IfInfo
		for _, ii := range ir.Ifs(trav) {
			a := ii.Atom
			isNilTest := a.V == nil && a.Op == token.EQL && (ir.IsNilConst(a.X) || ir.IsNilConst(a.Y))
			isBound := a.V == nil && a.Op == token.LSS
			isRangeNext := false
			if e, ok := a.V.(*ssa.Extract); ok {
				_, isRangeNext = e.Tuple.(*ssa.Next)
			}
			if !isNilTest && !isBound && !isRangeNext {
				foreign = append(foreign, ii)
			}
		}
		if ok, why := ir.IndependentOf(ir.Entry(trav), rec, foreign, nil); !ok {
			okFlat = false
			_ = why
		}
	}
	if okFlat {
		r.Held("flattenTree", 1, "every node's children are visited unconditionally")
	} else {
		r.Violated("flattenTree", fnPos(p, ft), "flattenTree skips part of the tree (a subtree is pruned by a condition other than nil): URLs in that subtree never take part in de-duplication")
	}
}

// canonFuncs: module functions reachable through static calls from the canonicalisation entry points.
func canonFuncs(p *core.Program) []*ssa.Function {
	seen := map[*ssa.Function]bool{}
	var out []*ssa.Function
	var visit func(fn *ssa.Function)
	visit = func(fn *ssa.Function) {
		if fn == nil || seen[fn] || !core.InModule(fn) {
			return
		}
		seen[fn] = true
		out = append(out, fn)
		for _, f := range withAnon(fn) {
			if f != fn {
				visit(f)
			}
			allInstrs(f, func(in ssa.Instruction) {
				if c := ir.AsCall(in); c != nil {
					visit(ir.CalleeOf(c))
					for _, a := range c.Args {
						if mc, ok := a.(*ssa.MakeClosure); ok {
							visit(mc.Fn.(*ssa.Function))
						}
					}
				}
			})
		}
	}
	visit(p.Func(rel(pkgModels), "(*URL).String"))
	visit(p.Func(rel(pkgModels), "URLToString"))
	visit(p.Func(rel(pkgPre), "NormalizeURL"))
	return out
}

func ruleCanonDeterministic(r *core.Reporter) {
	p := r.P
	fns := canonFuncs(p)
	if !r.Floor("canonicalisation functions", len(fns), 4) {
		return
	}
	bad := 0
	for _, fn := range fns {
		r.Analysed(fn)
		allInstrs(fn, func(in ssa.Instruction) {
			if rg, ok := in.(*ssa.Range); ok {
				if _, isMap := rg.X.Type().Underlying().(*types.Map); isMap {
					bad++
					r.Violated(core.FuncName(fn)+"/map-range", p.InstrPos(in), "canonicalisation ranges over a map (%s): Go randomises map iteration, so the same URL can get different canonical strings (seen/dedupe keys differ between evaluations)", ir.Path(rg.X))
				}
			}
			if c := ir.AsCall(in); c != nil {
				n := ir.CallName(c)
				if n == "time.Now" || strings.HasPrefix(n, "math/rand") || strings.HasPrefix(n, "crypto/rand") || n == "time.Since" {
					bad++
					r.Violated(core.FuncName(fn)+"/nondeterministic-source", p.InstrPos(in), "canonicalisation calls %s", n)
				}
			}
		})
	}
	if bad == 0 {
		var names []string
		for _, f := range fns {
			names = append(names, core.FuncName(f))
		}
		r.Held("canonicalisation", len(fns), "no map range, clock or random source in %v", names)
	}
}

func ruleCanonPure(r *core.Reporter) {
	p := r.P
	for _, fn := range canonFuncs(p) {
		allInstrs(fn, func(in ssa.Instruction) {
			if st, ok := in.(*ssa.Store); ok {
				if g, isG := st.Addr.(*ssa.Global); isG {
					r.Violated(core.FuncName(fn)+"/global-store", p.InstrPos(in), "canonicalisation writes package-level state %s", g.Name())
				}
			}
			if mu, ok := in.(*ssa.MapUpdate); ok {
				if strings.Contains(ir.Path(mu.Map), ".") && !strings.Contains(ir.Path(mu.Map), "$") && !strings.Contains(ir.Path(mu.Map), "@") {
					r.Violated(core.FuncName(fn)+"/global-map", p.InstrPos(in), "canonicalisation updates a shared map %s", ir.Path(mu.Map))
				}
			}
		})
	}
	// NormalizeURL may write through its first argument (the URL being normalised) and locals only:
	// a store through the parent URL (or the *url.URL it hands out) makes the result of later siblings
	// depend on the order in which they were normalised.
	if nu := p.Func(rel(pkgPre), "NormalizeURL"); nu != nil && len(nu.Params) == 2 {
		parent := nu.Params[1]
		bad := ssa.Instruction(nil)
		allInstrs(nu, func(in ssa.Instruction) {
			st, ok := in.(*ssa.Store)
			if !ok {
				return
			}
			v := st.Addr
			for i := 0; i < 12 && v != nil; i++ {
				if v == ssa.Value(parent) {
					bad = in
					return
				}
				switch x := v.(type) {
				case *ssa.FieldAddr:
					v = x.X
				case *ssa.IndexAddr:
					v = x.X
				case *ssa.UnOp:
					v = x.X
				case *ssa.Phi:
					var only ssa.Value
					for _, e := range x.Edges {
						if e != ssa.Value(x) {
							only = e
						}
					}
					v = only
				case *ssa.Call:
					// accessor on the parent that hands out its internal pointer
					if len(x.Call.Args) > 0 && ir.SameValue(x.Call.Args[0], parent) {
						v = parent
					} else {
						v = nil
					}
				default:
					v = nil
				}
			}
		})
		if bad != nil {
			r.Violated("NormalizeURL/parent-untouched", p.InstrPos(bad), "NormalizeURL writes through its parent argument (the parent's own parsed URL is modified): siblings normalised later resolve against a different base, so the result depends on processing order")
		} else {
			r.Held("NormalizeURL/parent-untouched", 1, "no store through the parent URL")
		}
	}
	str := p.Func(rel(pkgModels), "(*URL).String")
	if str == nil {
		r.Undecided("(*URL).String", "", "anchor not found")
		return
	}
	r.Analysed(str)
	// result is the cached field; the only store to the cache is in the once closure with URLToString(u.parsed)
	retOK := false
	for _, ret := range ir.Returns(str) {
		if _, f, ok := fieldOfLoad(ir.RetVal(ret, 0)); ok && f == "stringCache" {
			retOK = true
		}
	}
	stores, good := 0, 0
	for _, fn := range p.ModFuncs {
		allInstrs(fn, func(in ssa.Instruction) {
			if st, ok := in.(*ssa.Store); ok {
				if tn, f, ok := ir.FieldOf(st.Addr); ok && tn == tURL && f == "stringCache" {
					stores++
					if c, isC := st.Val.(*ssa.Call); isC && ir.IsCallTo(c, pkgModels+".URLToString") && fn.Parent() == str {
						if _, pf, okp := fieldOfLoad(c.Call.Args[0]); okp && pf == "parsed" {
							good++
						}
					}
				}
			}
		})
	}
	onceDo := false
	allInstrs(str, func(in ssa.Instruction) {
		if ir.IsPlainCallTo(in, "(*sync.Once).Do") {
			onceDo = true
		}
	})
	if retOK && stores == 1 && good == 1 && onceDo {
		r.Held("(*URL).String", 1, "returns the value cached once from URLToString(u.parsed)")
	} else {
		r.Violated("(*URL).String", fnPos(p, str), "URL.String is no longer `once.Do(cache = URLToString(parsed)); return cache` (ret=%v stores=%d good=%d once=%v)", retOK, stores, good, onceDo)
	}
}

func ruleQueryPairwise(r *core.Reporter) {
	p := r.P
	n := 0
	for _, fn := range canonFuncs(p) {
		var unesc []*ssa.Call
		allInstrs(fn, func(in ssa.Instruction) {
			if c, ok := in.(*ssa.Call); ok && ir.IsCallTo(c, "net/url.QueryUnescape", "net/url.PathUnescape") {
				unesc = append(unesc, c)
			}
		})
		if len(unesc) == 0 {
			continue
		}
		r.Analysed(fn)
		for _, c := range unesc {
			n++
			fromSplit, raw := classifyPiece(c.Call.Args[0], map[ssa.Value]bool{})
			key := core.FuncName(fn) + "/unescape"
			if raw || !fromSplit {
				r.Violated(key, p.InstrPos(c), "the query is percent-decoded before it is split into pairs: an escaped & or = inside a value becomes a separator, so parameters are split, truncated or invented")
			} else {
				r.Held(key, 1, "unescape applied to one side of a key=value split")
			}
		}
		// pairs are emitted inside the same loop that splits them (order kept): the builder writes are in a cycle with the Cut
		var cut *ssa.Call
		allInstrs(fn, func(in ssa.Instruction) {
			if c, ok := in.(*ssa.Call); ok && ir.IsCallTo(c, "strings.Cut") {
				if s, okc := ir.ConstString(c.Call.Args[1]); okc && s == "&" {
					cut = c
				}
			}
		})
		if cut != nil {
			writes := 0
			rs := ir.Reach([]ir.Pt{ir.After(cut)}, ir.Opts{Stop: func(x ssa.Instruction) bool { return x == ssa.Instruction(cut) }})
			for in := range rs.Reached {
				if ir.IsPlainCallTo(in, "(*strings.Builder).WriteString") {
					writes++
				}
			}
			// progress: the loop's remainder is the cut's "after" result
			prog := false
			for _, rr := range ir.Referrers(cut) {
				if e, ok := rr.(*ssa.Extract); ok && e.Index == 1 {
					var lv []ssa.Value
					phiLeaves(cut.Call.Args[0], map[ssa.Value]bool{}, &lv)
					for _, l := range lv {
						if l == ssa.Value(e) {
							prog = true
						}
					}
				}
			}
			if writes >= 2 && rs.Stopped[cut] && prog {
				r.Held(core.FuncName(fn)+"/in-order", writes, "pairs are written as they are cut, the remainder shrinks every iteration")
			} else if !prog {
				r.Violated(core.FuncName(fn)+"/progress", p.InstrPos(cut), "the query-splitting loop does not always continue with the remainder after the cut: on some input it spins forever or re-reads the same pair")
			} else {
				r.Violated(core.FuncName(fn)+"/in-order", p.InstrPos(cut), "pairs are not emitted in the order in which they are split")
			}
		}
	}
	r.Floor("unescape sites", n, 1)
}

// classifyPiece follows a string value back to where it was cut out of the raw query: fromSplit when every
// origin is one pair (left part of a Cut on "&", an element of a Split) or a part of a pair (Cut on "=", a sub-slice
// of a pair); raw when some origin is the function's parameter or the still-unsplit remainder.
func classifyPiece(v ssa.Value, seen map[ssa.Value]bool) (fromSplit, raw bool) {
	if v == nil || seen[v] {
		return false, false
	}
	seen[v] = true
	switch x := v.(type) {
	case *ssa.Parameter:
		return false, true
	case *ssa.Phi:
		any := false
		for _, e := range x.Edges {
			fs, rw := classifyPiece(e, seen)
			if rw {
				return false, true
			}
			any = any || fs
		}
		return any, false
	case *ssa.Slice:
		return classifyPiece(x.X, seen)
	case *ssa.Extract:
		if c, ok := x.Tuple.(*ssa.Call); ok && ir.IsCallTo(c, "strings.Cut") {
			sep, _ := ir.ConstString(c.Call.Args[1])
			if sep == "&" {
				if x.Index == 0 {
					return true, false // one pair
				}
				return false, true // the remainder is still the raw query
			}
			return classifyPiece(c.Call.Args[0], seen)
		}
	case *ssa.UnOp:
		if x.Op == token.MUL {
			if ia, ok := x.X.(*ssa.IndexAddr); ok {
				if c, isC := ia.X.(*ssa.Call); isC && ir.IsCallTo(c, "strings.Split", "strings.SplitN") {
					return true, false
				}
			}
			if al, ok := x.X.(*ssa.Alloc); ok {
				// local variable assigned on several paths (var key, value string)
				any := false
				for _, rr := range ir.Referrers(al) {
					if st, isSt := rr.(*ssa.Store); isSt && st.Addr == ssa.Value(al) {
						fs, rw := classifyPiece(st.Val, seen)
						if rw {
							return false, true
						}
						any = any || fs
					}
				}
				return any, false
			}
		}
	case *ssa.Const:
		return false, false
	}
	return false, false
}

// isSeenHelper: c calls the seencheck helper known on the reference tree as function `name` (isSeen / seen), under
// whatever form it has today (a function ↔ method conversion is followed through the alias table).
func isSeenHelper(p *core.Program, c *ssa.Call, name string) bool {
	if ir.IsCallTo(c, pkgSeen+"."+name) {
		return true
	}
	fn := p.Func(rel(pkgSeen), name)
	return fn != nil && c.Call.StaticCallee() == fn
}

// seenArgs: the helper's arguments without a receiver.
func seenArgs(c *ssa.Call) []ssa.Value {
	if callee := c.Call.StaticCallee(); callee != nil && callee.Signature.Recv() != nil && len(c.Call.Args) > 0 {
		return c.Call.Args[1:]
	}
	return c.Call.Args
}
