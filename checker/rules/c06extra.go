package rules

import (
	"go/constant"
	"go/token"

	"golang.org/x/tools/go/ssa"

	"zenocheck/core"
	"zenocheck/ir"
)

func init() {
	register(&core.Rule{ID: "R-NORMALIZE-KEEPS-COUNTERS", Props: []string{"C06"}, Doc: "preprocessor.NormalizeURL changes only the text of the URL it is given: through its first parameter it stores to the field Raw (and re-parses), never to Redirects or Hops and never to the whole struct — every redirect target and asset is normalised on the pass after its creation, so a normaliser that rebuilds the object resets the redirect counter (the --max-redirect test never fires again) and the hop count", Run: ruleNormalizeKeepsCounters})
	register(&core.Rule{ID: "R-DOMAINS-ENABLED", Props: []string{"C06"}, Doc: "domains crawl lifts the asset-depth bound and the hop limit for matching hosts; its matcher turns itself on in AddElements whatever it is given, so every call of domainscrawl.AddElements from module code is under `len(<the same slice>) > 0`, or AddElements itself only sets `enabled` for a non-empty argument — otherwise a crawl without --domains-crawl runs with Enabled() == true and no depth cut-off", Run: ruleDomainsEnabled})
}

func ruleNormalizeKeepsCounters(r *core.Reporter) {
	p := r.P
	fn := p.Func(rel(pkgPre), "NormalizeURL")
	if fn == nil || len(fn.Params) == 0 {
		r.Undecided("NormalizeURL", "", "anchor not found")
		return
	}
	r.Analysed(fn)
	u := fn.Params[0]
	var bad ssa.Instruction
	why := ""
	stores := 0
	for _, f := range withAnon(fn) {
		allInstrs(f, func(in ssa.Instruction) {
			st, ok := in.(*ssa.Store)
			if !ok || bad != nil {
				return
			}
			if ir.Strip(st.Addr) == ssa.Value(u) || ir.Path(st.Addr) == "$"+u.Name() {
				bad, why = in, "the whole URL object is overwritten (Redirects, Hops and everything else are reset)"
				return
			}
			if fa, ok := st.Addr.(*ssa.FieldAddr); ok && ir.SameValue(fa.X, u) {
				stores++
				if _, f, okf := ir.FieldOf(fa); okf && f != "Raw" {
					bad, why = in, "field "+f+" of the URL is overwritten"
				}
			}
		})
	}
	if bad != nil {
		r.Violated("NormalizeURL/keeps-counters", p.InstrPos(bad), "%s by the normaliser: a redirect target is normalised on the pass after it was created with Redirects = parent+1, so the chain counter restarts at 0 on every hop and --max-redirect (or the hop limit) never applies", why)
		return
	}
	if stores == 0 {
		r.Undecided("NormalizeURL/keeps-counters", fnPos(p, fn), "NormalizeURL no longer stores the normalised text to URL.Raw (how does the result reach the caller?)")
		return
	}
	r.Held("NormalizeURL/keeps-counters", stores, "through its URL parameter NormalizeURL stores to Raw only")
}

func ruleDomainsEnabled(r *core.Reporter) {
	p := r.P
	add := p.Func(rel(pkgDomains), "AddElements")
	if add == nil {
		r.Held("domainscrawl.AddElements/absent", 0, "no AddElements")
		return
	}
	r.Analysed(add)
	lenGuard := func(fn *ssa.Function, at ssa.Instruction, slice ssa.Value) bool {
		want := ir.Path(slice)
		_, g := ir.GuardedBy(fn, ir.Entry(fn), at, true, func(a ir.Atom) bool {
			// 0 < len(x)   (x > 0 is normalised to 0 < x)
			if a.V != nil || a.Op != token.LSS {
				return false
			}
			z, okz := ir.ConstInt(a.X)
			c, okc := a.Y.(*ssa.Call)
			return okz && z == 0 && okc && ir.CallName(c.Common()) == "builtin.len" && ir.Path(c.Call.Args[0]) == want
		})
		if g {
			return true
		}
		_, g = ir.GuardedBy(fn, ir.Entry(fn), at, false, func(a ir.Atom) bool {
			// len(x) == 0 is false
			if a.V != nil || a.Op != token.EQL {
				return false
			}
			x, y := a.X, a.Y
			if _, isC := x.(*ssa.Const); isC {
				x, y = y, x
			}
			z, okz := ir.ConstInt(y)
			c, okc := x.(*ssa.Call)
			return okz && z == 0 && okc && ir.CallName(c.Common()) == "builtin.len" && ir.Path(c.Call.Args[0]) == want
		})
		return g
	}
	// does AddElements itself only enable for a non-empty argument?
	selfGuarded := true
	enables := 0
	allInstrs(add, func(in ssa.Instruction) {
		st, ok := in.(*ssa.Store)
		if !ok {
			return
		}
		if _, f, okf := ir.FieldOf(st.Addr); okf && f == "enabled" {
			enables++
			if len(add.Params) == 0 || !lenGuard(add, in, add.Params[0]) {
				selfGuarded = false
			}
		}
	})
	if enables == 0 {
		r.Held("domainscrawl.AddElements/enables", 0, "AddElements does not switch the matcher on")
		return
	}
	if selfGuarded {
		r.Held("domainscrawl.AddElements/enables", enables, "the matcher is only switched on for a non-empty pattern list")
		return
	}
	sites := 0
	for _, fn := range p.ModFuncs {
		if !core.InModule(fn) {
			continue
		}
		fn := fn
		allInstrs(fn, func(in ssa.Instruction) {
			cc := ir.AsCall(in)
			if cc == nil || cc.StaticCallee() != add || len(cc.Args) == 0 {
				return
			}
			sites++
			r.Analysed(fn)
			key := core.FuncName(fn) + "/AddElements"
			if lenGuard(fn, in, cc.Args[0]) {
				r.Held(key, 1, "called only with a non-empty pattern list")
			} else {
				r.Violated(key, p.InstrPos(in), "domainscrawl.AddElements switches the matcher on whatever it is given, and this call is not under len(%s) > 0: a crawl without --domains-crawl reports Enabled() == true, which turns off the asset-depth cut-off, the HTML-as-asset and the disable-assets-capture exits of the post-processor", ir.Path(cc.Args[0]))
			}
		})
	}
	if sites == 0 {
		r.Held("domainscrawl.AddElements/callers", 0, "never called from module code")
	}
}

func init() {
	register(&core.Rule{ID: "R-PARSE-REFRESHES", Props: []string{"C09", "C05"}, Doc: "(*URL).Parse re-derives the parsed form from Raw every time: on every path to a return it has stored the result of a net/url parse of u.Raw into u.parsed. NormalizeURL ends by calling it after rewriting Raw; sources parse seeds before the preprocessor sees them, so a Parse that keeps an earlier result leaves GetParsed()/String() — what is filtered, seen-checked and requested — describing the un-normalised text", Run: ruleParseRefreshes})
}

func ruleParseRefreshes(r *core.Reporter) {
	p := r.P
	fn := p.Func(rel(pkgModels), "(*URL).Parse")
	if fn == nil || len(fn.Params) == 0 {
		r.Undecided("models.URL.Parse", "", "anchor not found")
		return
	}
	r.Analysed(fn)
	recv := fn.Params[0]
	isStore := func(in ssa.Instruction) bool {
		st, ok := in.(*ssa.Store)
		if !ok {
			return false
		}
		fa, ok := st.Addr.(*ssa.FieldAddr)
		if !ok || !ir.SameValue(fa.X, recv) {
			return false
		}
		if _, f, okf := ir.FieldOf(fa); !okf || f != "parsed" {
			return false
		}
		// the value comes from a net/url parse of the receiver's Raw
		var leaves []ssa.Value
		phiLeaves(st.Val, map[ssa.Value]bool{}, &leaves)
		for _, l := range leaves {
			ex, ok := l.(*ssa.Extract)
			if !ok {
				return false
			}
			c, ok := ex.Tuple.(*ssa.Call)
			if !ok || !ir.IsCallTo(c, "net/url.ParseRequestURI", "net/url.Parse") || len(c.Call.Args) != 1 {
				return false
			}
			if ir.Path(c.Call.Args[0]) != "$"+recv.Name()+".Raw" {
				return false
			}
		}
		return len(leaves) > 0
	}
	if ret, bad := ir.PathExists([]ir.Pt{ir.Entry(fn)}, ir.Opts{Stop: isStore}, ir.IsExit); bad {
		r.Violated("models.URL.Parse/refreshes", p.InstrPos(ret), "Parse can return without having re-parsed u.Raw into u.parsed: after NormalizeURL rewrote Raw, GetParsed() and the memoised String() keep describing the old text (host case, default port, dot segments, fragment)")
	} else {
		r.Held("models.URL.Parse/refreshes", 1, "every return of Parse follows u.parsed = parse(u.Raw)")
	}
}

func init() {
	register(&core.Rule{ID: "R-SEEN-ASKS-STORE", Props: []string{"C08"}, Doc: "the local seencheck never answers 'not seen' from anything but the store: in the lookup function of package seencheck (the caller of DB.Get whose first result is the found flag — isSeen today) no return that can yield found == false is reachable without passing DB.Get; a positive cache of this run's own records is fine, a negative prefilter is empty after a restart on the same job and everything the earlier run recorded is fetched again. With the lookup folded into its caller: DB.Get is control-dependent on nothing but loop bounds and error checks", Run: ruleSeenAsksStore})
}

func ruleSeenAsksStore(r *core.Reporter) {
	p := r.P
	n := 0
	for _, fn := range p.FuncsInPkg(rel(pkgSeen)) {
		var get ssa.Instruction
		allInstrs(fn, func(in ssa.Instruction) {
			cc := ir.AsCall(in)
			if cc == nil {
				return
			}
			name := ""
			if cc.IsInvoke() {
				name = cc.Method.Name()
			} else if sc := cc.StaticCallee(); sc != nil {
				name = sc.Name()
			}
			if name != "Get" {
				return
			}
			if _, f, ok := fieldOfLoad(cc.Value); ok && f == "DB" {
				get = in
			} else if len(cc.Args) > 0 {
				if _, f, ok := fieldOfLoad(cc.Args[0]); ok && f == "DB" {
					get = in
				}
			}
		})
		if get == nil {
			continue
		}
		n++
		r.Analysed(fn)
		key := core.FuncName(fn) + "/asks-store"
		// the question to the database is not conditional on anything but loop bounds and error checks: a guard on
		// other state (a map or sync.Map hit, a counter) is a second, volatile source of truth
		bad := ""
		// a lookup function proper (first result: found bool): what matters is that "not found" is never answered
		// without the database — a positive cache filled by this run's own records is fine
		if res := fn.Signature.Results(); res.Len() >= 1 && res.At(0).Type().String() == "bool" {
			isGet := func(x ssa.Instruction) bool { return x == get }
			rr := ir.Reach([]ir.Pt{ir.Entry(fn)}, ir.Opts{Stop: isGet})
			var at ssa.Instruction
			for _, ret := range ir.Returns(fn) {
				if !rr.Reached[ret] {
					continue
				}
				for _, tuple := range rr.RetTuples[ret] {
					if c, isC := tuple[0].(*ssa.Const); !isC || c.Value == nil || !constant.BoolVal(c.Value) {
						at = ret
					}
				}
				if len(rr.RetTuples[ret]) == 0 {
					at = ret
				}
			}
			if at != nil {
				r.Violated(key, p.InstrPos(at), "the seencheck lookup can answer 'not seen' without asking the database: whatever decides that — a cache, a counter, a prefilter — is empty after a restart on the same job directory, so every URL recorded by the previous run is reported as never seen and fetched again")
			} else {
				r.Held(key, 1, "'not seen' is only ever answered by DB.Get")
			}
			continue
		}
		for _, ii := range ir.Ifs(fn) {
			for _, t := range []bool{true, false} {
				if !ir.OnlyVia(ir.Entry(fn), get, ii.If.Block(), ii.EdgeWhen(t)) {
					continue
				}
				a := ii.Atom
				isLen := func(v ssa.Value) bool {
					c, ok := v.(*ssa.Call)
					return ok && ir.CallName(c.Common()) == "builtin.len"
				}
				switch {
				case a.V == nil && (ir.IsNilConst(a.X) || ir.IsNilConst(a.Y)): // err / nil checks
				case a.V == nil && (isLen(a.X) || isLen(a.Y)): // loop bound
				case a.V == nil && a.Op == token.LSS: // index loops
				default:
					bad = describeAtom(a)
				}
			}
		}
		if bad != "" {
			r.Violated(key, p.InstrPos(get), "the seencheck only asks the database when %s: whatever that state is — a cache, a counter, a prefilter — it is empty after a restart on the same job directory, so every URL recorded by the previous run is reported as never seen and fetched again", bad)
		} else {
			r.Held(key, 1, "DB.Get is not conditional on any other state")
		}
	}
	r.Floor("seencheck lookups (DB.Get callers)", n, 1)
}
