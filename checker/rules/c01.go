package rules

import (
	"fmt"
	"go/constant"
	"go/token"
	"go/types"
	"os"
	"sort"
	"strings"

	"golang.org/x/tools/go/ssa"

	"zenocheck/core"
	"zenocheck/ir"
)

func init() {
	PropertyText["C01"] = [2]string{
		"Decides, on every path of the code each stage worker runs: the stage channels form one chain (R-WIRE); each stage forwards the received seed exactly once or stops (R-FWD); the finisher takes exactly one of produce/feedback/finish per seed and notifies the source only after CompleteAndCheck()==true and a nil MarkAsFinished (R-FIN); HasWork is false exactly on the terminal states (R-TERMINAL); markCompleted only completes parents whose children are all done, children first (R-MARK); every stage works on GetNodesAtLevel(GetMaxDepth()) of the same seed (R-LEVEL); item status is written only by its owners and each stage writes only the states it owns (R-STATUS-WRITERS). preprocess returns early only when the work list is empty or the element at hand is the seed itself, and closes the whole seed only on an empty list (R-PRE-EXITS). postprocessItem never returns with an item still Archived: every path settles its status or gives it a child (R-POST-PROGRESS). The fetch goroutine gives its concurrency slot back on every exit (R-SEM-RELEASE); the preprocessor keeps the depth it started with while it removes nodes (R-LEVEL).",
		"Not decided: the product of goroutine interleavings beyond these per-path facts; memory visibility between stages (relies on channel happens-before, made structural by R-WIRE); reactor table quiescence at drain.",
	}
	register(&core.Rule{ID: "R-WIRE", Props: []string{"C01", "C05"}, Doc: "startPipeline hands the output channel of stage k to stage k+1 as input (same SSA value), all stage channels distinct, finisher→source channels shared with hq/lq Start; each stage's Start stores its parameters into the fields its worker receives from / sends to", Run: ruleWire})
	register(&core.Rule{ID: "R-FWD", Props: []string{"C01"}, Doc: "per stage worker: on every path from the receive of a seed to the next loop iteration the same value is sent on the output channel exactly once (or the worker stops via ctx.Done)", Run: ruleFwd})
	register(&core.Rule{ID: "R-FIN", Props: []string{"C01", "C15", "C17", "C04"}, Doc: "finisher worker: exactly one of {send to produce channel, reactor.ReceiveFeedback, reactor.MarkAsFinished} per seed; the finish notification is sent at most once, only after CompleteAndCheck()==true and MarkAsFinished()==nil, and always then (unless the channel is nil); SeedsFinishedIncr exactly on those paths", Run: ruleFin})
	register(&core.Rule{ID: "R-TERMINAL", Props: []string{"C01", "C11"}, Doc: "truth table of (*Item).HasWork over every ItemState constant: false exactly on {Completed, Seen, Failed}; the set of constants is the reviewed eight", Run: ruleTerminal})
	register(&core.Rule{ID: "R-MARK", Props: []string{"C01", "C11"}, Doc: "markCompleted: only status store writes ItemCompleted, guarded by status∈{GotChildren,GotRedirected} and (no children or no child HasWork), after recursing into every child; allChildrenCompleted returns true only if no child HasWork; CompleteAndCheck returns !HasWork() after markCompleted", Run: ruleMark})
	register(&core.Rule{ID: "R-LEVEL", Props: []string{"C01"}, Doc: "preprocess, archive, postprocess and both SeencheckItem obtain their work list from X.GetNodesAtLevel(X.GetMaxDepth()) with the same receiver X", Run: ruleLevel})
	register(&core.Rule{ID: "R-POST-PROGRESS", Props: []string{"C01"}, Doc: "postprocessItem never leaves an Archived item Archived: on every path behind its `status == ItemArchived` gate the item's status is changed (SetStatus on the item) or it receives a child (AddChild sets GotRedirected/GotChildren) before the function returns — an item left Archived has work forever, so its seed is fed back for ever and never reported", Run: rulePostProgress})
	register(&core.Rule{ID: "R-PRE-EXITS", Props: []string{"C01"}, Doc: "preprocess returns only (a) after the request-building loop covered the whole work list, (b) when a work list is empty, or (c) when the element at hand is the seed itself (IsSeed, or neither IsChild nor IsRedirection; also through a helper predicate whose true-returns are so guarded); the whole seed is marked Completed/Failed only under `len(list)==0`", Run: rulePreExits})
	register(&core.Rule{ID: "R-STATUS-WRITERS", Props: []string{"C01", "C11"}, Doc: "Item.status is stored only in SetStatus/AddChild/markCompleted/NewItem; SetStatus(const) call sites stay within the per-package transition table", Run: ruleStatusWriters})
}

// resolveParam follows a value back to a function parameter through
// closure captures (FreeVar → Alloc in parent → Store of the parameter).
func resolveParam(v ssa.Value, depth int) *ssa.Parameter {
	if depth > 6 || v == nil {
		return nil
	}
	v = ir.Strip(v)
	switch x := v.(type) {
	case *ssa.Parameter:
		return x
	case *ssa.FreeVar:
		if b := ir.FreeVarBinding(x); b != nil {
			return resolveParam(b, depth+1)
		}
	case *ssa.UnOp:
		if x.Op == token.MUL {
			return resolveParam(x.X, depth+1)
		}
	case *ssa.Alloc:
		var found *ssa.Parameter
		n := 0
		for _, r := range ir.Referrers(x) {
			if st, ok := r.(*ssa.Store); ok && st.Addr == x {
				n++
				found = resolveParam(st.Val, depth+1)
			}
		}
		if n == 1 {
			return found
		}
	}
	return nil
}

func paramIndex(p *ssa.Parameter) int {
	if p == nil {
		return -1
	}
	for i, q := range p.Parent().Params {
		if q == p {
			return i
		}
	}
	return -1
}

// fieldParamStores: for a Start function, which struct field receives which parameter index.
func fieldParamStores(start *ssa.Function) map[string]int {
	out := map[string]int{}
	for _, fn := range withAnon(start) {
		allInstrs(fn, func(in ssa.Instruction) {
			st, ok := in.(*ssa.Store)
			if !ok {
				return
			}
			_, fname, ok := ir.FieldOf(st.Addr)
			if !ok {
				return
			}
			if p := resolveParam(st.Val, 0); p != nil && p.Parent() == start {
				out[fname] = paramIndex(p)
			}
		})
	}
	return out
}

func lastField(path string) string {
	if i := strings.LastIndex(path, "."); i >= 0 {
		return path[i+1:]
	}
	return path
}

func ruleWire(r *core.Reporter) {
	p := r.P
	sp := p.Func(rel(pkgCtl), "startPipeline")
	if sp == nil {
		r.Undecided("controler.startPipeline", "", "anchor not found")
		return
	}
	r.Analysed(sp)
	type startCall struct {
		call *ssa.Call
		args []ssa.Value
	}
	starts := map[string]startCall{}
	allInstrs(sp, func(in ssa.Instruction) {
		c, ok := in.(*ssa.Call)
		if !ok {
			return
		}
		f := ir.CalleeOf(c.Common())
		if f == nil || f.Name() != "Start" || f.Pkg == nil {
			return
		}
		starts[f.Pkg.Pkg.Path()] = startCall{c, c.Common().Args}
		r.Calls++
	})
	need := []string{pkgReactor, pkgPre, pkgArch, pkgPost, pkgFin, pkgHQ, pkgLQ}
	for _, n := range need {
		if _, ok := starts[n]; !ok {
			r.Undecided("startPipeline/"+rel(n)+".Start", fnPos(p, sp), "no call of %s.Start found in startPipeline", rel(n))
			return
		}
	}
	arg := func(pk string, i int) ssa.Value {
		a := starts[pk].args
		if i < len(a) {
			return a[i]
		}
		return nil
	}
	type link struct {
		name     string
		from, to ssa.Value
	}
	links := []link{
		{"reactor.out→preprocessor.in", arg(pkgReactor, 1), arg(pkgPre, 0)},
		{"preprocessor.out→archiver.in", arg(pkgPre, 1), arg(pkgArch, 0)},
		{"archiver.out→postprocessor.in", arg(pkgArch, 1), arg(pkgPost, 0)},
		{"postprocessor.out→finisher.in", arg(pkgPost, 1), arg(pkgFin, 0)},
		{"finisher.finish→hq.finish", arg(pkgFin, 1), arg(pkgHQ, 0)},
		{"finisher.finish→lq.finish", arg(pkgFin, 1), arg(pkgLQ, 0)},
		{"finisher.produce→hq.produce", arg(pkgFin, 2), arg(pkgHQ, 1)},
		{"finisher.produce→lq.produce", arg(pkgFin, 2), arg(pkgLQ, 1)},
	}
	for _, l := range links {
		if l.from == nil || l.to == nil {
			r.Undecided("link/"+l.name, fnPos(p, sp), "argument missing")
			continue
		}
		if l.from == l.to {
			r.Held("link/"+l.name, 1, "same SSA value %s", l.from.Name())
		} else {
			r.Violated("link/"+l.name, p.InstrPos(starts[pkgFin].call), "the channel handed to the producer side is not the one handed to the consumer side (%s vs %s)", ir.Path(l.from), ir.Path(l.to))
		}
	}
	// the six stage channels are pairwise distinct values, each a fresh channel
	chans := []ssa.Value{arg(pkgReactor, 1), arg(pkgPre, 1), arg(pkgArch, 1), arg(pkgPost, 1), arg(pkgFin, 1), arg(pkgFin, 2)}
	distinct := true
	for i := range chans {
		for j := i + 1; j < len(chans); j++ {
			if chans[i] == chans[j] {
				distinct = false
			}
		}
		fresh := false
		switch x := chans[i].(type) {
		case *ssa.MakeChan:
			fresh = true
		case *ssa.Call:
			if f := ir.CalleeOf(x.Common()); f != nil {
				allInstrs(f, func(in ssa.Instruction) {
					if _, ok := in.(*ssa.MakeChan); ok {
						fresh = true
					}
				})
			}
		}
		if !fresh {
			distinct = false
		}
	}
	if distinct {
		r.Held("channels-distinct", len(chans), "six stage channels are six distinct fresh channels")
	} else {
		r.Violated("channels-distinct", fnPos(p, sp), "two stages share a channel value, or a stage channel is not freshly made")
	}
	// each stage's Start stores its params into the fields the worker uses
	for _, pk := range []string{pkgPre, pkgArch, pkgPost, pkgFin} {
		w := findStageWorker(p, pk)
		if w == nil {
			r.Undecided("stage-fields/"+rel(pk), "", "stage worker not found")
			continue
		}
		r.Analysed(w.Fn, w.StartFn)
		stores := fieldParamStores(w.StartFn)
		inField := lastField(w.InChan)
		if idx, ok := stores[inField]; ok && idx == 0 {
			r.Held("stage-input-field/"+rel(pk), 1, "worker receives from field %s = Start parameter 0", inField)
		} else {
			r.Violated("stage-input-field/"+rel(pk), fnPos(p, w.StartFn), "worker receives seeds from field %q which is not Start's input parameter (stores: %v)", inField, stores)
		}
	}
}

// forwardEvent builds the "seed forwarded on an item channel" event for a worker.
func forwardEvent(w *stageWorker, outChans map[string]bool) func(ssa.Instruction) bool {
	return func(in ssa.Instruction) bool {
		if ch, x, ok := sendOf(in); ok && ir.SameValue(x, w.Seed) && isItemChan(ch.Type()) {
			outChans[ir.Path(ch)] = true
			return true
		}
		if ch, ok := forwardingSelect(w.Fn, in, w.Seed, w.Header); ok {
			outChans[ir.Path(ch)] = true
			return true
		}
		if ch, ok := forwarderCall(in, w.Seed); ok {
			outChans[ir.Path(ch)] = true
			return true
		}
		return false
	}
}

// forwarderCall: `in` calls a module helper with the seed as an argument, and the helper — on every path that
// does not leave through a ctx.Done() arm — sends that parameter exactly once on an item channel. Returns the
// channel (named inside the helper).
func forwarderCall(in ssa.Instruction, seed ssa.Value) (ssa.Value, bool) {
	c, ok := in.(*ssa.Call)
	if !ok {
		return nil, false
	}
	h := ir.CalleeOf(c.Common())
	if h == nil || !core.InModule(h) || h.Blocks == nil {
		return nil, false
	}
	k := -1
	for i, a := range c.Call.Args {
		if ir.SameValue(a, seed) {
			k = i
		}
	}
	if k < 0 || k >= len(h.Params) {
		return nil, false
	}
	par := h.Params[k]
	var ch ssa.Value
	ev := func(x ssa.Instruction) bool {
		if c2, v, okS := sendOf(x); okS && ir.SameValue(v, par) && isItemChan(c2.Type()) {
			ch = c2
			return true
		}
		if c2, okF := forwardingSelect(h, x, par, h.Blocks[0]); okF {
			ch = c2
			return true
		}
		return false
	}
	res := ir.ExactlyOnce(ir.Region{Start: ir.Entry(h)}, ev, ir.Opts{EdgeOK: pruneStopArms(h)})
	if !res.OK || ch == nil {
		return nil, false
	}
	return ch, true
}

func ruleFwd(r *core.Reporter) {
	p := r.P
	n := 0
	for _, pk := range []string{pkgPre, pkgArch, pkgPost} {
		w := findStageWorker(p, pk)
		if w == nil {
			r.Undecided("worker/"+rel(pk), "", "no goroutine started by %s.Start receives *models.Item in a select", rel(pk))
			continue
		}
		n++
		r.Analysed(w.Fn)
		outs := map[string]bool{}
		ev := forwardEvent(w, outs)
		res := ir.ExactlyOnce(ir.Region{Start: w.Start, Header: w.Header}, ev, ir.Opts{EdgeOK: pruneStopArms(w.Fn)})
		r.Paths++
		name := core.FuncName(w.Fn)
		switch {
		case res.OK:
			// the output field must be Start's parameter 1
			stores := fieldParamStores(w.StartFn)
			okOut := len(outs) == 1
			for o := range outs {
				if idx, ok := stores[lastField(o)]; !ok || idx != 1 {
					okOut = false
				}
			}
			if okOut {
				r.Held(name, 1, "seed %s forwarded exactly once per iteration on %v", w.Seed.Name(), keys(outs))
			} else {
				r.Violated(name, fnPos(p, w.Fn), "seed is forwarded on %v, which is not (only) the stage's output channel (Start parameter 1)", keys(outs))
			}
		case res.Missing != nil:
			r.Violated(name, p.InstrPos(res.Missing), "a path from the receive of the seed reaches %s without forwarding the seed (seed dropped)", describeEnd(res.Missing))
		default:
			r.Violated(name, p.InstrPos(res.Second), "the seed can be forwarded twice in one iteration (first at %s)", p.InstrPos(res.First))
		}
	}
	// reactor.run: forwards every received item to output or stops
	run := findReactorRun(p)
	if run == nil {
		r.Undecided("reactor.run", "", "goroutine started by reactor.Start not found")
	} else {
		n++
		r.Analysed(run.Fn)
		outs := map[string]bool{}
		res := ir.ExactlyOnce(ir.Region{Start: run.Start, Header: run.Header}, forwardEvent(run, outs), ir.Opts{EdgeOK: pruneStopArms(run.Fn)})
		name := core.FuncName(run.Fn)
		switch {
		case res.OK && len(outs) == 1 && strings.HasSuffix(keys(outs)[0], ".output"):
			r.Held(name, 1, "item forwarded exactly once on %v", keys(outs))
		case res.OK:
			r.Violated(name, fnPos(p, run.Fn), "item forwarded on %v, expected only the reactor's output field", keys(outs))
		case res.Missing != nil:
			r.Violated(name, p.InstrPos(res.Missing), "a received item can be dropped (reaches %s without forwarding)", describeEnd(res.Missing))
		default:
			r.Violated(name, p.InstrPos(res.Second), "item can be forwarded twice")
		}
	}
	r.Floor("stage workers", n, 4)
}

func findReactorRun(p *core.Program) *stageWorker {
	return findStageWorker(p, pkgReactor)
}

func describeEnd(in ssa.Instruction) string {
	if _, ok := in.(*ssa.Return); ok {
		return "a return"
	}
	return "the next loop iteration"
}

func keys(m map[string]bool) []string {
	var out []string
	for k := range m {
		out = append(out, k)
	}
	sort.Strings(out)
	return out
}

func ruleFin(r *core.Reporter) {
	p := r.P
	w := findStageWorker(p, pkgFin)
	if w == nil {
		r.Undecided("finisher.worker", "", "finisher worker not found")
		return
	}
	r.Analysed(w.Fn)
	name := core.FuncName(w.Fn)
	stores := fieldParamStores(w.StartFn)
	fieldOfParam := func(i int) string {
		for f, idx := range stores {
			if idx == i {
				return f
			}
		}
		return ""
	}
	finField, prodField := fieldOfParam(1), fieldOfParam(2)
	if finField == "" || prodField == "" {
		r.Undecided(name+"/fields", fnPos(p, w.StartFn), "cannot tell which finisher fields hold Start parameters 1 and 2")
		return
	}
	isSendOn := func(in ssa.Instruction, field string) bool {
		ch, x, ok := sendOf(in)
		if ok && ir.SameValue(x, w.Seed) && lastField(ir.Path(ch)) == field {
			return true
		}
		if sel, ok := in.(*ssa.Select); ok {
			if ch, ok := forwardingSelect(w.Fn, sel, w.Seed, w.Header); ok && lastField(ir.Path(ch)) == field {
				return true
			}
		}
		return false
	}
	feedback := pkgReactor + ".ReceiveFeedback"
	markFin := pkgReactor + ".MarkAsFinished"
	decision := func(in ssa.Instruction) bool {
		return isSendOn(in, prodField) || callOn(in, w.Seed, feedback) || callOn(in, w.Seed, markFin)
	}
	reg := ir.Region{Start: w.Start, Header: w.Header}
	res := ir.ExactlyOnce(reg, decision, ir.Opts{})
	r.Paths++
	switch {
	case res.OK:
		r.Held(name+"/one-decision", 3, "exactly one of produce/feedback/finish per received seed")
	case res.Missing != nil:
		r.Violated(name+"/one-decision", p.InstrPos(res.Missing), "a received seed can reach %s without being produced, fed back or finished (seed dropped)", describeEnd(res.Missing))
	default:
		r.Violated(name+"/one-decision", p.InstrPos(res.Second), "two decisions for one seed (first at %s)", p.InstrPos(res.First))
	}
	// locate the decision sites
	var prodSend, fbCall, mfCall, finSend, incr ssa.Instruction
	nFin := 0
	allInstrs(w.Fn, func(in ssa.Instruction) {
		switch {
		case isSendOn(in, prodField):
			prodSend = in
		case callOn(in, w.Seed, feedback):
			fbCall = in
		case callOn(in, w.Seed, markFin):
			mfCall = in
		case isSendOn(in, finField):
			finSend = in
			nFin++
		case ir.IsPlainCallTo(in, pkgStats+".SeedsFinishedIncr"):
			incr = in
		}
	})
	if prodSend == nil || fbCall == nil || mfCall == nil || finSend == nil {
		r.Undecided(name+"/sites", fnPos(p, w.Fn), "decision sites not all found (produce=%v feedback=%v finish=%v notify=%v)", prodSend != nil, fbCall != nil, mfCall != nil, finSend != nil)
		return
	}
	// guards
	cacAtom := func(a ir.Atom) bool {
		c := ir.BoolCallAtom(a, "(*"+pkgModels+".Item).CompleteAndCheck")
		return c != nil && ir.SameValue(c.Call.Args[0], w.Seed)
	}
	if _, ok := ir.GuardedBy(w.Fn, w.Start, mfCall, true, cacAtom); ok {
		r.Held(name+"/finish-needs-complete", 1, "MarkAsFinished only on CompleteAndCheck()==true")
	} else {
		r.Violated(name+"/finish-needs-complete", p.InstrPos(mfCall), "MarkAsFinished(seed) is reachable without CompleteAndCheck() having returned true for the seed")
	}
	if _, ok := ir.GuardedBy(w.Fn, w.Start, fbCall, false, cacAtom); ok {
		r.Held(name+"/feedback-needs-incomplete", 1, "ReceiveFeedback only on CompleteAndCheck()==false")
	} else {
		r.Violated(name+"/feedback-needs-incomplete", p.InstrPos(fbCall), "ReceiveFeedback(seed) is reachable when CompleteAndCheck() returned true")
	}
	states, _ := itemStates(p)
	freshAtom := func(a ir.Atom) bool {
		if a.V != nil || a.Op != token.EQL {
			return false
		}
		c, ok := a.X.(*ssa.Call)
		if !ok || !ir.IsCallTo(c, "(*"+pkgModels+".Item).GetStatus") || !ir.SameValue(c.Call.Args[0], w.Seed) {
			return false
		}
		v, okc := ir.ConstInt(a.Y)
		return okc && v == states["ItemFresh"]
	}
	if _, ok := ir.GuardedBy(w.Fn, w.Start, prodSend, true, freshAtom); ok {
		r.Held(name+"/produce-needs-fresh", 1, "send to the produce channel only for status==ItemFresh")
	} else {
		r.Violated(name+"/produce-needs-fresh", p.InstrPos(prodSend), "seed is sent to the queue's produce channel without a status==ItemFresh guard")
	}
	// the finish notification: only after MarkAsFinished returned nil
	mfVal := mfCall.(*ssa.Call)
	errNil := func(a ir.Atom) bool {
		return a.V == nil && a.Op == token.EQL && ((a.X == ssa.Value(mfVal) && ir.IsNilConst(a.Y)) || (a.Y == ssa.Value(mfVal) && ir.IsNilConst(a.X)))
	}
	if _, ok := ir.GuardedBy(w.Fn, w.Start, finSend, true, errNil); ok {
		r.Held(name+"/notify-after-finish", 1, "source notified only after MarkAsFinished()==nil")
	} else {
		r.Violated(name+"/notify-after-finish", p.InstrPos(finSend), "the source can be notified without MarkAsFinished having succeeded for this seed")
	}
	if nFin == 1 {
		once := ir.AtMostOnce(reg, func(in ssa.Instruction) bool { return isSendOn(in, finField) }, ir.Opts{})
		if once.OK {
			r.Held(name+"/notify-at-most-once", 1, "one notification site, not re-executable within an iteration")
		} else {
			r.Violated(name+"/notify-at-most-once", p.InstrPos(once.Second), "finish notification can be sent twice for one seed")
		}
	} else {
		r.Violated(name+"/notify-at-most-once", p.InstrPos(finSend), "%d send sites on the finish channel for one seed", nFin)
	}
	// …and always then, unless the channel is nil: from After(MarkAsFinished) on the nil-error side
	// every path to the next iteration passes the send or the `ch == nil` edge.
	nilChanEdge := func(b *ssa.BasicBlock, s int) bool {
		if len(b.Instrs) == 0 {
			return true
		}
		ifi, ok := b.Instrs[len(b.Instrs)-1].(*ssa.If)
		if !ok {
			return true
		}
		a, pol := ir.Decompose(ifi.Cond)
		if a.V == nil && a.Op == token.EQL && ((lastField(ir.Path(a.X)) == finField && ir.IsNilConst(a.Y)) || (lastField(ir.Path(a.Y)) == finField && ir.IsNilConst(a.X))) {
			// edge taken when ch == nil is pruned (allowed skip)
			edgeNil := 0
			if !pol {
				edgeNil = 1
			}
			return s != edgeNil
		}
		return true
	}
	hf := w.Header.Instrs[0]
	res2 := ir.Reach([]ir.Pt{ir.After(mfCall)}, ir.Opts{Stop: func(in ssa.Instruction) bool { return in == hf || isSendOn(in, finField) }, EdgeOK: nilChanEdge})
	if res2.Stopped[hf] {
		r.Violated(name+"/notify-always", p.InstrPos(mfCall), "after MarkAsFinished a path reaches the next iteration without notifying the source (finish ack lost)")
	} else {
		r.Held(name+"/notify-always", 1, "every path after a successful MarkAsFinished notifies the source (or the channel is nil)")
	}
	// SeedsFinishedIncr: exactly on the finish paths
	if incr == nil {
		r.Violated(name+"/seeds-finished-incr", p.InstrPos(mfCall), "no SeedsFinishedIncr call in the finisher worker")
	} else {
		res3 := ir.Reach([]ir.Pt{ir.After(mfCall)}, ir.Opts{Stop: func(in ssa.Instruction) bool { return in == hf || in == incr }})
		_, guarded := ir.GuardedBy(w.Fn, w.Start, incr, true, errNil)
		once := ir.AtMostOnce(reg, func(in ssa.Instruction) bool { return in == incr }, ir.Opts{})
		if !res3.Stopped[hf] && guarded && once.OK {
			r.Held(name+"/seeds-finished-incr", 1, "SeedsFinishedIncr exactly once on every finish path and on no other")
		} else {
			r.Violated(name+"/seeds-finished-incr", p.InstrPos(incr), "SeedsFinishedIncr is not on exactly the finish paths (skippable=%v guarded=%v once=%v)", res3.Stopped[hf], guarded, once.OK)
		}
	}
}

func ruleTerminal(r *core.Reporter) {
	p := r.P
	states, byVal := itemStates(p)
	want := map[string]bool{ // HasWork expected value
		"ItemFresh": true, "ItemPreProcessed": true, "ItemArchived": true, "ItemGotRedirected": true, "ItemGotChildren": true,
		"ItemFailed": false, "ItemCompleted": false, "ItemSeen": false,
	}
	if len(states) != len(want) {
		var names []string
		for n := range states {
			names = append(names, n)
		}
		sort.Strings(names)
		r.Violated("ItemState/exhaustive", "", "ItemState has %d constants %v; the reviewed partition covers %d — a new state must be classified as pending or terminal", len(states), names, len(want))
		return
	}
	hw := p.Func(rel(pkgModels), "(*Item).HasWork")
	if hw == nil {
		r.Undecided("(*Item).HasWork", "", "anchor not found")
		return
	}
	r.Analysed(hw)
	for name, exp := range want {
		val, ok := states[name]
		if !ok {
			r.Undecided("HasWork/"+name, "", "constant %s not found", name)
			continue
		}
		res, ok := ir.ConstEval(hw, func(v ssa.Value) (constant.Value, bool) {
			if u, isU := v.(*ssa.UnOp); isU && u.Op == token.MUL {
				if _, f, okf := ir.FieldOf(u.X); okf && f == "status" {
					return constant.MakeInt64(val), true
				}
			}
			if c, isC := v.(*ssa.Call); isC && ir.IsCallTo(c, "(*"+pkgModels+".Item).GetStatus") {
				return constant.MakeInt64(val), true
			}
			return nil, false
		})
		if !ok || len(res) != 1 {
			r.Undecided("HasWork/"+name, fnPos(p, hw), "HasWork is not a pure function of the status any more (cannot fold it for %s)", name)
			continue
		}
		got := constant.BoolVal(res[0])
		if got == exp {
			r.Held("HasWork/"+name, 1, "HasWork(%s=%d)=%v", name, val, got)
		} else {
			r.Violated("HasWork/"+name, fnPos(p, hw), "HasWork(%s)=%v, expected %v: %s must be %s", name, got, exp, byVal[val], map[bool]string{true: "pending", false: "terminal"}[exp])
		}
	}
}

func ruleMark(r *core.Reporter) {
	p := r.P
	states, _ := itemStates(p)
	mc := p.Func(rel(pkgModels), "markCompleted")
	acc := p.Func(rel(pkgModels), "allChildrenCompleted")
	cac := p.Func(rel(pkgModels), "(*Item).CompleteAndCheck")
	if mc == nil || cac == nil {
		r.Undecided("markCompleted", "", "anchors not found (markCompleted=%v allChildrenCompleted=%v CompleteAndCheck=%v)", mc != nil, acc != nil, cac != nil)
		return
	}
	// allChildrenCompleted may have been folded into markCompleted by hand: the scan of the children is then found
	// in markCompleted itself (inlineScan)
	inlineScan := acc == nil
	r.Analysed(mc, cac)
	if acc != nil {
		r.Analysed(acc)
	}
	// HasWork tests on a child inside markCompleted (inline form)
	var childWork []ir.IfInfo
	if inlineScan {
		for _, ii := range ir.Ifs(mc) {
			if c := ir.BoolCallAtom(ii.Atom, "(*"+pkgModels+".Item).HasWork"); c != nil {
				if pa := ir.Path(ir.Recv(c.Common())); strings.Contains(pa, "GetChildren()") || strings.Contains(pa, ".children") {
					childWork = append(childWork, ii)
				}
			}
		}
		if len(childWork) == 0 {
			r.Undecided("markCompleted", fnPos(p, mc), "neither allChildrenCompleted nor a HasWork scan of the children in markCompleted was found")
			return
		}
	}
	// stores to status in markCompleted
	var stores []*ssa.Store
	allInstrs(mc, func(in ssa.Instruction) {
		if st, ok := in.(*ssa.Store); ok {
			if _, f, ok := ir.FieldOf(st.Addr); ok && f == "status" {
				stores = append(stores, st)
			}
		}
	})
	if len(stores) == 0 {
		r.Violated("markCompleted/store", fnPos(p, mc), "markCompleted never completes a node")
		return
	}
	statusCovered := map[int64]bool{}
	for si, st := range stores {
		sfx := ""
		if len(stores) > 1 {
			sfx = fmt.Sprintf("#%d", si+1)
		}
		if v, ok := ir.ConstInt(st.Val); !ok || v != states["ItemCompleted"] {
			r.Violated("markCompleted/store"+sfx, p.InstrPos(st), "markCompleted stores %s, expected ItemCompleted", ir.Path(st.Val))
		} else if !sameNode(st.Addr, mc.Params[0]) {
			r.Violated("markCompleted/store"+sfx, p.InstrPos(st), "markCompleted completes a node other than its argument")
		} else {
			r.Held("markCompleted/store"+sfx, 1, "only status store writes ItemCompleted to the visited node")
		}
		// guard 1: status ∈ {GotChildren, GotRedirected}: removing both true edges makes the store unreachable
		var statusEdges, childEdges [][2]any
		for _, ii := range ir.Ifs(mc) {
			a := ii.Atom
			if a.V == nil && a.Op == token.EQL {
				if _, f, ok := fieldOfLoad(a.X); ok && f == "status" {
					if v, okc := ir.ConstInt(a.Y); okc && (v == states["ItemGotChildren"] || v == states["ItemGotRedirected"]) {
						statusEdges = append(statusEdges, [2]any{ii.If.Block(), ii.EdgeWhen(true)})
					}
				}
				// len(children)==0
				if c, ok := a.X.(*ssa.Call); ok && ir.CallName(c.Common()) == "builtin.len" {
					if v, okc := ir.ConstInt(a.Y); okc && v == 0 {
						childEdges = append(childEdges, [2]any{ii.If.Block(), ii.EdgeWhen(true)})
					}
				}
			}
			if c := ir.BoolCallAtom(a, pkgModels+".allChildrenCompleted"); c != nil {
				childEdges = append(childEdges, [2]any{ii.If.Block(), ii.EdgeWhen(true)})
			} else if vc, isC := a.V.(*ssa.Call); isC && acc != nil && vc.Call.StaticCallee() == acc {
				// the same helper after a function ↔ method conversion
				childEdges = append(childEdges, [2]any{ii.If.Block(), ii.EdgeWhen(true)})
			}
		}
		without := func(edges [][2]any) bool {
			res := ir.Reach([]ir.Pt{ir.Entry(mc)}, ir.Opts{EdgeOK: func(b *ssa.BasicBlock, s int) bool {
				for _, e := range edges {
					if e[0].(*ssa.BasicBlock) == b && e[1].(int) == s {
						return false
					}
				}
				return true
			}})
			return res.Reached[st]
		}
		if len(statusEdges) >= 1 && !without(statusEdges) {
			// which statuses lead to this store
			for _, ii := range ir.Ifs(mc) {
				a := ii.Atom
				if a.V == nil && a.Op == token.EQL {
					if _, f, ok := fieldOfLoad(a.X); ok && f == "status" {
						if v, okc := ir.ConstInt(a.Y); okc {
							start := ir.EdgePt(ii.If.Block(), ii.EdgeWhen(true))
							if ir.Reach([]ir.Pt{start}, ir.Opts{}).Reached[st] {
								statusCovered[v] = true
							}
						}
					}
				}
			}
			r.Held("markCompleted/status-guard"+sfx, len(statusEdges), "completion only for status ∈ {GotChildren, GotRedirected}")
		} else {
			r.Violated("markCompleted/status-guard"+sfx, p.InstrPos(st), "the ItemCompleted store is reachable for a node whose status is not GotChildren/GotRedirected (guards found: %d)", len(statusEdges))
		}
		if inlineScan {
			// from "this child still has work" the completion must be unreachable (flags are threaded by Reach),
			// and the scan leaves early only on that edge
			okScan := true
			for _, hw := range childWork {
				start := ir.EdgePt(hw.If.Block(), hw.EdgeWhen(true))
				if ir.Reach([]ir.Pt{start}, ir.Opts{Stop: func(in ssa.Instruction) bool { return in == ssa.Instruction(hw.If) }}).Reached[st] {
					okScan = false
				}
			}
			if okScan && ir.Reach([]ir.Pt{ir.Entry(mc)}, ir.Opts{}).Reached[st] {
				r.Held("markCompleted/children-guard"+sfx, len(childWork), "completion unreachable once a child with work was seen (scan folded into markCompleted)")
			} else {
				r.Violated("markCompleted/children-guard"+sfx, p.InstrPos(st), "the ItemCompleted store is reachable although a child still has work")
			}
		} else if len(childEdges) >= 1 && !without(childEdges) {
			r.Held("markCompleted/children-guard"+sfx, len(childEdges), "completion only when there is no child or allChildrenCompleted()")
		} else {
			r.Violated("markCompleted/children-guard"+sfx, p.InstrPos(st), "the ItemCompleted store is reachable although children may still have work (guards found: %d)", len(childEdges))
		}
		// …and nothing else: any further condition on the path to the store makes completion stricter than
		// "status is GotChildren/GotRedirected and no child has work" (a node would stay pending forever)
		extra := ""
		for _, ii := range ir.Ifs(mc) {
			for _, t := range []bool{true, false} {
				if !ir.OnlyVia(ir.Entry(mc), st, ii.If.Block(), ii.EdgeWhen(t)) {
					continue
				}
				a := ii.Atom
				okAtom := false
				if a.V == nil && a.Op == token.EQL {
					if _, f, ok := fieldOfLoad(a.X); ok && f == "status" {
						okAtom = true
					}
					if c, ok := a.X.(*ssa.Call); ok && ir.CallName(c.Common()) == "builtin.len" {
						okAtom = true
					}
					if ir.IsNilConst(a.Y) || ir.IsNilConst(a.X) {
						okAtom = true // node == nil
					}
				}
				if a.V == nil && a.Op == token.LSS {
					okAtom = true // loop bound of the children scan
				}
				if ir.BoolCallAtom(a, pkgModels+".allChildrenCompleted") != nil {
					okAtom = true
				}
				if inlineScan {
					// the folded scan: HasWork on a child, the child's nil test, and the flag it computes
					if c := ir.BoolCallAtom(a, "(*"+pkgModels+".Item).HasWork"); c != nil {
						okAtom = true
					}
					if ph, isPhi := a.V.(*ssa.Phi); isPhi {
						if b, isB := ph.Type().Underlying().(*types.Basic); isB && b.Kind() == types.Bool {
							okAtom = true
						}
					}
				}
				if !okAtom {
					extra = describeAtom(a)
				}
			}
		}
		if extra == "" {
			r.Held("markCompleted/no-extra-condition"+sfx, 1, "completion depends on nothing but the node's status and its children having no work")
		} else {
			r.Violated("markCompleted/no-extra-condition"+sfx, p.InstrPos(st), "completion of a parent additionally requires %s: a node whose children are all done (or gone) can stay GotChildren/GotRedirected forever, so the seed is never declared complete", extra)
		}
		// recursion first: a self call inside a loop over the children, and the store only after the loop
		var rec *ssa.Call
		allInstrs(mc, func(in ssa.Instruction) {
			if c, ok := in.(*ssa.Call); ok && ir.CalleeOf(c.Common()) == mc {
				rec = c
			}
		})
		if rec == nil {
			r.Violated("markCompleted/children-first"+sfx, fnPos(p, mc), "markCompleted does not recurse into the children")
		} else {
			// store must not be reachable from entry without passing the loop head that controls the recursion:
			// i.e. the block of the recursive call is in a cycle and the store is not in that cycle
			inCycle := ir.Reach([]ir.Pt{ir.After(rec)}, ir.Opts{}).Reached[rec]
			storeBeforeRec := ir.Reach([]ir.Pt{ir.After(st)}, ir.Opts{}).Reached[rec]
			argOK := false
			if len(rec.Call.Args) == 1 {
				pth := ir.Path(rec.Call.Args[0])
				argOK = strings.Contains(pth, "GetChildren()") || strings.Contains(pth, ".children")
			}
			if inCycle && !storeBeforeRec && argOK && loopCoversAll(mc, rec) {
				r.Held("markCompleted/children-first"+sfx, 1, "every child is visited (range loop without early exit) before the parent is decided")
			} else {
				r.Violated("markCompleted/children-first"+sfx, p.InstrPos(rec), "children are not all completed before the parent is decided (loop=%v storeBeforeRec=%v arg=%v)", inCycle, storeBeforeRec, argOK)
			}
		}
	}
	if statusCovered[states["ItemGotChildren"]] && statusCovered[states["ItemGotRedirected"]] {
		r.Held("markCompleted/both-parent-kinds", 2, "both GotChildren and GotRedirected parents can be completed")
	} else {
		r.Violated("markCompleted/both-parent-kinds", fnPos(p, mc), "a parent kind (GotChildren=%v, GotRedirected=%v) is never completed", statusCovered[states["ItemGotChildren"]], statusCovered[states["ItemGotRedirected"]])
	}
	// allChildrenCompleted: `true` is returned only if no child HasWork
	if inlineScan {
		// every child is scanned unless one with work was found
		okCover := true
		for _, hw := range childWork {
			l, okl := loopAround(mc, hw.If)
			if !okl {
				okCover = false
				continue
			}
			body := ir.EdgePt(l.If.Block(), l.EdgeWhen(true))
			exit := l.If.Block().Succs[l.EdgeWhen(false)]
			res := ir.Reach([]ir.Pt{body}, ir.Opts{Stop: func(in ssa.Instruction) bool { return in == ssa.Instruction(l.If) }, EdgeOK: func(b *ssa.BasicBlock, sidx int) bool {
				return !(b == hw.If.Block() && sidx == hw.EdgeWhen(true))
			}})
			if len(exit.Instrs) > 0 && res.Reached[exit.Instrs[0]] && exit != hw.If.Block() {
				okCover = false
			}
		}
		if okCover {
			r.Held("allChildrenCompleted", len(childWork), "folded into markCompleted: the scan stops early only at a child with work")
		} else {
			r.Violated("allChildrenCompleted", fnPos(p, mc), "the scan of the children can stop early without having found a child with work")
		}
	} else {
		okAll := true
		detail := ""
		var hwIf *ir.IfInfo
		for _, ii := range ir.Ifs(acc) {
			ii := ii
			if c := ir.BoolCallAtom(ii.Atom, "(*"+pkgModels+".Item).HasWork"); c != nil {
				hwIf = &ii
			}
		}
		if hwIf == nil {
			okAll, detail = false, "no HasWork test on the children"
		} else {
			// from the HasWork()==true edge only `return false` is reachable
			b := hwIf.If.Block().Succs[hwIf.EdgeWhen(true)]
			res := ir.Reach([]ir.Pt{{B: b, I: 0}}, ir.Opts{Stop: func(in ssa.Instruction) bool { return in == ssa.Instruction(hwIf.If) }})
			for in := range res.Reached {
				if ret, ok := in.(*ssa.Return); ok {
					if len(ret.Results) != 1 {
						okAll = false
					} else if vals, okc := res.BoolReturn(ret); !okc || anyTrue(vals) {
						okAll, detail = false, "a child with work does not force `false`"
					}
				}
			}
			if res.Stopped[hwIf.If] {
				okAll, detail = false, "a child with work does not end the scan with `false`"
			}
			if !loopCoversAll(acc, hwIf.If) {
				okAll, detail = false, "the scan does not cover every child"
			}
		}
		if okAll {
			r.Held("allChildrenCompleted", 1, "returns true only when no child HasWork()")
		} else {
			r.Violated("allChildrenCompleted", fnPos(p, acc), "%s", detail)
		}
	}
	// CompleteAndCheck: returns !HasWork() evaluated after markCompleted(i)
	{
		var mcall *ssa.Call
		allInstrs(cac, func(in ssa.Instruction) {
			if c, ok := in.(*ssa.Call); ok && ir.CalleeOf(c.Common()) == mc {
				mcall = c
			}
		})
		ok := mcall != nil
		detail := "markCompleted is not called"
		if ok {
			res := ir.Reach([]ir.Pt{ir.After(mcall)}, ir.Opts{})
			nret := 0
			for in := range res.Reached {
				if ret, isRet := in.(*ssa.Return); isRet {
					nret++
					a, pol := ir.Decompose(ret.Results[0])
					c := ir.BoolCallAtom(a, "(*"+pkgModels+".Item).HasWork")
					if c == nil || pol || !res.Reached[c] {
						ok, detail = false, "the result after markCompleted is not !HasWork() evaluated afterwards"
					}
				}
			}
			if nret == 0 {
				ok = false
			}
			// any `return true` before markCompleted must be guarded by !HasWork()
			for _, ret := range ir.Returns(cac) {
				if res.Reached[ret] {
					continue
				}
				if c, isC := ret.Results[0].(*ssa.Const); isC && c.Value != nil && constant.BoolVal(c.Value) {
					if _, g := ir.GuardedBy(cac, ir.Entry(cac), ret, false, func(a ir.Atom) bool {
						return ir.BoolCallAtom(a, "(*"+pkgModels+".Item).HasWork") != nil
					}); !g {
						ok, detail = false, "an early `return true` is not guarded by !HasWork()"
					}
					continue
				}
				// any other return that skips markCompleted: only for a non-seed, or when nothing has work
				_, notSeed := ir.GuardedBy(cac, ir.Entry(cac), ret, false, func(a ir.Atom) bool {
					return ir.BoolCallAtom(a, "(*"+pkgModels+".Item).IsSeed") != nil
				})
				_, noWork := ir.GuardedBy(cac, ir.Entry(cac), ret, false, func(a ir.Atom) bool {
					return ir.BoolCallAtom(a, "(*"+pkgModels+".Item).HasWork") != nil
				})
				if !notSeed && !noWork {
					ok, detail = false, "a return skips markCompleted although the seed still has work by its status (a GotChildren/GotRedirected seed whose children were all removed is never completed: the finisher feeds it back for ever)"
				}
			}
		}
		if ok {
			r.Held("CompleteAndCheck", 1, "returns !HasWork() after markCompleted; early true only when !HasWork()")
		} else {
			r.Violated("CompleteAndCheck", fnPos(p, cac), "%s", detail)
		}
	}
}

// loopCoversAll: instruction `in` sits in a range-style loop over a slice
// (index from 0/−1 step +1, bound len(slice)) whose only way out of the loop,
// other than through Return instructions, is the bound test.
func loopCoversAll(fn *ssa.Function, in ssa.Instruction) bool {
	// find an If in a cycle with `in` whose atom is idx < len(x)
	for _, ii := range ir.Ifs(fn) {
		a := ii.Atom
		if a.V != nil || a.Op != token.LSS {
			continue
		}
		c, ok := a.Y.(*ssa.Call)
		if !ok || ir.CallName(c.Common()) != "builtin.len" {
			continue
		}
		body := ii.If.Block().Succs[ii.EdgeWhen(true)]
		res := ir.Reach([]ir.Pt{{B: body, I: 0}}, ir.Opts{Stop: func(x ssa.Instruction) bool { return x == ssa.Instruction(ii.If) }})
		if !res.Reached[in] && !res.Stopped[in] {
			continue
		}
		if !res.Stopped[ii.If] {
			continue // not a loop
		}
		// induction: X is phi(c, X+1) or phi(−1…)+1 form
		if !isInduction(a.X) {
			continue
		}
		// no break: from the body, without passing the test again, only returns/panics are reachable — i.e. the
		// loop exit block is not reachable
		exit := ii.If.Block().Succs[ii.EdgeWhen(false)]
		if len(exit.Instrs) > 0 && res.Reached[exit.Instrs[0]] {
			continue
		}
		return true
	}
	return false
}

func isInduction(v ssa.Value) bool {
	// rotated range loops: idx = phi(-1, idx) + 1 ; classic: idx = phi(0, idx+1)
	switch x := v.(type) {
	case *ssa.Phi:
		for _, e := range x.Edges {
			if b, ok := e.(*ssa.BinOp); ok && b.Op == token.ADD {
				if b.X == ssa.Value(x) {
					if c, ok := ir.ConstInt(b.Y); ok && c == 1 {
						return true
					}
				}
			}
		}
	case *ssa.BinOp:
		if x.Op == token.ADD {
			if c, ok := ir.ConstInt(x.Y); ok && c == 1 {
				if ph, ok := x.X.(*ssa.Phi); ok {
					for _, e := range ph.Edges {
						if e == ssa.Value(x) {
							return true
						}
					}
				}
			}
		}
	}
	return false
}

func fieldOfLoad(v ssa.Value) (string, string, bool) {
	if u, ok := v.(*ssa.UnOp); ok && u.Op == token.MUL {
		return ir.FieldOf(u.X)
	}
	return ir.FieldOf(v)
}

func sameNode(addr ssa.Value, node ssa.Value) bool {
	if fa, ok := addr.(*ssa.FieldAddr); ok {
		return ir.SameValue(fa.X, node)
	}
	return false
}

func ruleLevel(r *core.Reporter) {
	p := r.P
	sites := []struct{ pkg, fn string }{
		{pkgPre, "preprocess"}, {pkgArch, "archive"}, {pkgPost, "postprocess"}, {pkgSeen, "SeencheckItem"}, {pkgHQ, "SeencheckItem"},
	}
	n := 0
	for _, s := range sites {
		fn := p.Func(rel(s.pkg), s.fn)
		if fn == nil {
			// role fallback: any function of the package calling GetNodesAtLevel
			for _, f := range p.FuncsInPkg(rel(s.pkg)) {
				found := false
				allInstrs(f, func(in ssa.Instruction) {
					if ir.IsPlainCallTo(in, "(*"+pkgModels+".Item).GetNodesAtLevel") {
						found = true
					}
				})
				if found && f.Parent() == nil {
					fn = f
					break
				}
			}
		}
		name := rel(s.pkg) + "." + s.fn
		if fn == nil {
			r.Undecided(name, "", "no function of %s calls GetNodesAtLevel", rel(s.pkg))
			continue
		}
		r.Analysed(fn)
		cnt, bad := 0, ""
		var badPos ssa.Instruction
		allInstrs(fn, func(in ssa.Instruction) {
			if !ir.IsPlainCallTo(in, "(*"+pkgModels+".Item).GetNodesAtLevel") {
				return
			}
			cnt++
			r.Calls++
			c := ir.AsCall(in)
			recv := ir.Path(c.Args[0])
			lvl := ir.Path(c.Args[1])
			if lvl != recv+".GetMaxDepth()" {
				bad = fmt.Sprintf("level argument is %s, expected %s.GetMaxDepth()", lvl, recv)
				badPos = in
			}
			if resolveParam(c.Args[0], 0) == nil {
				bad = "receiver is not the function's seed parameter"
				badPos = in
			}
		})
		// a stage that removes nodes while it works (the preprocessor: RemoveChild, DedupeItems) keeps the depth it
		// started with: the tree may have become shallower, and "nothing left at my level" must stay visible
		if bad == "" && cnt > 1 {
			mutates := false
			allInstrs(fn, func(in ssa.Instruction) {
				if ir.IsPlainCallTo(in, "(*"+pkgModels+".Item).RemoveChild", "(*"+pkgModels+".Item).DedupeItems") {
					mutates = true
				}
			})
			if mutates {
				var depths []ssa.Value
				allInstrs(fn, func(in ssa.Instruction) {
					if ir.IsPlainCallTo(in, "(*"+pkgModels+".Item).GetNodesAtLevel") {
						depths = append(depths, ir.Strip(ir.AsCall(in).Args[1]))
						if depths[len(depths)-1] != depths[0] {
							bad = "the work list is re-read at a depth that is computed again after nodes were removed: when the whole deepest level was dropped the stage silently moves one level up (already finished nodes) instead of seeing an empty list — the 'nothing left, seed completed' exit is dead and the seencheck is handed a level without fresh URLs"
							badPos = in
						}
					}
				})
			}
		}
		switch {
		case cnt == 0:
			r.Violated(name, fnPos(p, fn), "work list is no longer obtained from GetNodesAtLevel")
		case bad != "":
			r.Violated(name, p.InstrPos(badPos), "%s", bad)
		default:
			n++
			r.Held(name, cnt, "%d call(s) of seed.GetNodesAtLevel(seed.GetMaxDepth())", cnt)
		}
	}
	r.Floor("level sites", n, 5)
}

func ruleStatusWriters(r *core.Reporter) {
	p := r.P
	states, byVal := itemStates(p)
	// who-may-write Item.status
	allowedWriters := map[string]bool{
		"pkg/models.(*Item).SetStatus": true, "pkg/models.(*Item).AddChild": true, "pkg/models.markCompleted": true, "pkg/models.NewItem": true,
	}
	for n := range allowedWriters {
		allowedWriters[p.CurrentName(n)] = true // follows pure renames
	}
	writers := map[string]int{}
	for _, fn := range p.ModFuncs {
		allInstrs(fn, func(in ssa.Instruction) {
			st, ok := in.(*ssa.Store)
			if !ok {
				return
			}
			if tn, f, ok := ir.FieldOf(st.Addr); ok && tn == tItem && f == "status" {
				name := core.FuncName(fn)
				writers[name]++
				if !allowedWriters[name] {
					r.Violated("status-writer/"+name, p.InstrPos(st), "Item.status is written outside SetStatus/AddChild/markCompleted/NewItem")
				}
			}
		})
	}
	if r.Floor("status writers", len(writers), 4) {
		r.Held("status-writers", len(writers), "Item.status stored only in %v", keysInt(writers))
	}
	// SetStatus(const) per package
	allowed := map[string]map[string]bool{
		rel(pkgPre):  {"ItemFailed": true, "ItemCompleted": true, "ItemPreProcessed": true},
		rel(pkgArch): {"ItemFailed": true, "ItemArchived": true},
		rel(pkgPost): {"ItemCompleted": true},
		rel(pkgSeen): {"ItemSeen": true},
		rel(pkgHQ):   {"ItemSeen": true, "ItemFresh": true},
		rel(pkgLQ):   {"ItemFresh": true},
	}
	sites := 0
	perPkg := map[string]map[string]int{}
	for _, fn := range p.ModFuncs {
		pk := core.RelPkg(core.FuncPkg(fn))
		allInstrs(fn, func(in ssa.Instruction) {
			if !ir.IsCallTo(in, "(*"+pkgModels+".Item).SetStatus") {
				return
			}
			sites++
			r.Calls++
			c := ir.AsCall(in)
			v, ok := ir.ConstInt(c.Args[1])
			if !ok {
				r.Violated("SetStatus/"+core.FuncName(fn), p.InstrPos(in), "SetStatus with a non-constant state: the transition table cannot be checked")
				return
			}
			name := byVal[v]
			tab, known := allowed[pk]
			if !known {
				r.Violated("SetStatus/"+pk, p.InstrPos(in), "package %s sets item status %s but owns no transition", pk, name)
				return
			}
			if !tab[name] {
				r.Violated("SetStatus/"+pk+"/"+name, p.InstrPos(in), "package %s sets status %s, which it does not own (allowed: %v)", pk, name, keys(tab))
				return
			}
			if perPkg[pk] == nil {
				perPkg[pk] = map[string]int{}
			}
			perPkg[pk][name]++
		})
	}
	_ = states
	// R-STATUS-TARGET: which node a stage may touch. The fetch goroutine and postprocessItem own exactly the item
	// they were given; preprocess/seencheck own the elements of the work list (and preprocess the seed, for Completed only).
	for _, fn := range p.ModFuncs {
		pk := core.RelPkg(core.FuncPkg(fn))
		if pk != rel(pkgArch) && pk != rel(pkgPost) && pk != rel(pkgPre) && pk != rel(pkgSeen) {
			continue
		}
		allInstrs(fn, func(in ssa.Instruction) {
			recv, v, ok := setStatusConst(in)
			if !ok {
				return
			}
			isElem := func(x ssa.Value) bool { _, _, e := elemLoad(x); return e }
			par := resolveParam(recv, 0)
			okT := false
			switch pk {
			case rel(pkgArch), rel(pkgPost):
				// must be the function's own *Item parameter (not a captured outer seed)
				okT = par != nil && par.Parent() == fn
			case rel(pkgPre):
				okT = isElem(recv) || (par != nil && v == states["ItemCompleted"])
			case rel(pkgSeen):
				okT = isElem(recv)
			}
			if !okT {
				r.Violated("SetStatus-target/"+core.FuncName(fn), p.InstrPos(in), "SetStatus(%s) is applied to %s, which is not the node this code is working on (e.g. the whole seed instead of the fetched item): other nodes of the tree keep pending work while the seed looks terminal", byVal[v], ir.Path(recv))
			}
		})
	}
	for pk, m := range perPkg {
		r.Held("SetStatus/"+pk, sumInt(m), "states written: %v", keysInt(m))
	}
	r.Floor("SetStatus call sites", sites, 8)
	// ItemArchived has exactly one writer site program-wide (R-ARCHIVED-ONLY-HERE is in C02)
}

func keysInt(m map[string]int) []string {
	var out []string
	for k := range m {
		out = append(out, k)
	}
	sort.Strings(out)
	return out
}

func sumInt(m map[string]int) int {
	n := 0
	for _, v := range m {
		n += v
	}
	return n
}

var _ = types.Typ

// ---- R-PRE-EXITS ----------------------------------------------------------------------------------------------
// preprocess hands the seed on with part of its work list untouched only when that is sound.

// isSeedGuarded: `target` runs only when elem is the seed itself — elem.IsSeed() is true, or elem.IsChild() and
// elem.IsRedirection() are both false — or, through a helper, only when a module predicate called with elem
// returned true and that predicate can return true only under the same condition on its parameter.
func isSeedGuarded(fn *ssa.Function, target ssa.Instruction, sameNode func(ssa.Value) bool, depth int) bool {
	item := "(*" + pkgModels + ".Item)."
	onRecv := func(name string) func(ir.Atom) bool {
		return func(a ir.Atom) bool {
			c := ir.BoolCallAtom(a, item+name)
			return c != nil && sameNode(ir.Recv(c.Common()))
		}
	}
	from := ir.Entry(fn)
	if _, ok := ir.GuardedBy(fn, from, target, true, onRecv("IsSeed")); ok {
		return true
	}
	_, noChild := ir.GuardedBy(fn, from, target, false, onRecv("IsChild"))
	_, noRedir := ir.GuardedBy(fn, from, target, false, onRecv("IsRedirection"))
	if noChild && noRedir {
		return true
	}
	if depth >= 2 {
		return false
	}
	// helper predicate
	for _, ii := range ir.Ifs(fn) {
		c, ok := ii.Atom.V.(*ssa.Call)
		if ii.Atom.V == nil || !ok {
			continue
		}
		h := ir.CalleeOf(c.Common())
		if h == nil || !core.InModule(h) || h.Blocks == nil || h.Signature.Results().Len() != 1 {
			continue
		}
		argIdx := -1
		for i, a := range c.Call.Args {
			if sameNode(a) {
				argIdx = i
			}
		}
		if argIdx < 0 || !ir.OnlyVia(from, target, ii.If.Block(), ii.EdgeWhen(true)) {
			continue
		}
		par := h.Params[argIdx]
		okAll := true
		for _, ret := range ir.Returns(h) {
			rv := ir.RetVal(ret, 0)
			if k, isC := rv.(*ssa.Const); isC && k.Value != nil && !constant.BoolVal(k.Value) {
				continue // returns false
			}
			if !isSeedGuarded(h, ret, func(v ssa.Value) bool { return resolveParam(v, 0) == par }, depth+1) {
				okAll = false
			}
		}
		if okAll {
			return true
		}
	}
	return false
}

func isItemListLenZero(a ir.Atom) bool {
	if a.V != nil || a.Op != token.EQL {
		return false
	}
	lenOfItems := func(v ssa.Value) bool {
		c, ok := v.(*ssa.Call)
		if !ok || ir.CallName(c.Common()) != "builtin.len" {
			return false
		}
		return strings.HasSuffix(c.Call.Args[0].Type().String(), "[]*"+pkgModels+".Item")
	}
	isZero := func(v ssa.Value) bool { n, ok := ir.ConstInt(v); return ok && n == 0 }
	return (lenOfItems(a.X) && isZero(a.Y)) || (lenOfItems(a.Y) && isZero(a.X))
}

func rulePreExits(r *core.Reporter) {
	p := r.P
	states, _ := itemStates(p)
	fn := p.Func(rel(pkgPre), "preprocess")
	if fn == nil {
		r.Undecided("preprocessor.preprocess", "", "anchor not found")
		return
	}
	r.Analysed(fn)
	// the request-building loop: the loop around SetStatus(ItemPreProcessed)
	var mark ssa.Instruction
	allInstrs(fn, func(in ssa.Instruction) {
		if _, v, ok := setStatusConst(in); ok && v == states["ItemPreProcessed"] {
			mark = in
		}
	})
	if mark == nil {
		r.Undecided("preprocess/final-loop", fnPos(p, fn), "no SetStatus(ItemPreProcessed) found")
		return
	}
	loop, okL := loopAround(fn, mark)
	if !okL || !loopCoversAll(fn, mark) {
		r.Violated("preprocess/final-loop", p.InstrPos(mark), "requests are not built in a loop over the whole work list")
		return
	}
	if os.Getenv("ZC_DEBUG_PRE") != "" {
		fmt.Fprintf(os.Stderr, "pre-exits: mark=%s loop.If=%s atom=%s exitEdge=%d\n", p.InstrPos(mark), p.InstrPos(loop.If), describeAtom(loop.Atom), loop.EdgeWhen(false))
	}
	isElem := func(v ssa.Value) bool { _, _, e := elemLoad(ir.Strip(v)); return e }
	rets := ir.Returns(fn)
	r.Floor("returns of preprocess", len(rets), 3)
	counts := map[string]int{}
	bad := 0
	for _, ret := range rets {
		switch {
		case !ir.ReachableWithoutEdge(ir.Entry(fn), ret, loop.If.Block(), loop.EdgeWhen(false)):
			counts["after the request loop"]++
		case func() bool {
			_, ok := ir.GuardedBy(fn, ir.Entry(fn), ret, true, isItemListLenZero)
			return ok
		}():
			counts["work list empty"]++
		case isSeedGuarded(fn, ret, isElem, 0):
			counts["the element is the seed itself"]++
		case !reachableWithoutJustification(fn, ret, loop, isElem):
			counts["several justified ways merge here"]++
		default:
			bad++
			r.Violated(fmt.Sprintf("preprocess/early-return#%d", bad), p.InstrPos(ret), "preprocess can return here with other nodes of the work list untouched: only `work list empty`, `the element is the seed itself` (IsSeed, or neither IsChild nor IsRedirection) and the end of the request loop justify a return")
		}
	}
	if bad == 0 {
		r.Held("preprocess/early-returns", len(rets), "every return is justified: %v", counts)
	}
	// whole-seed terminal marks in the package
	n := 0
	for _, f := range p.FuncsInPkg(rel(pkgPre)) {
		for _, ff := range withAnon(f) {
			allInstrs(ff, func(in ssa.Instruction) {
				recv, v, ok := setStatusConst(in)
				if !ok || (v != states["ItemCompleted"] && v != states["ItemFailed"]) || isElem(recv) {
					return
				}
				par := resolveParam(recv, 0)
				if par == nil {
					return // R-STATUS-WRITERS/SetStatus-target decides unknown receivers
				}
				// a helper's parameter that only ever receives work-list elements is an element
				if par.Parent() != fn {
					allElem, sites := true, 0
					for _, g := range p.FuncsInPkg(rel(pkgPre)) {
						for _, gg := range withAnon(g) {
							allInstrs(gg, func(x ssa.Instruction) {
								if c, isC := x.(*ssa.Call); isC && ir.CalleeOf(c.Common()) == par.Parent() {
									sites++
									if idx := paramIndex(par); idx < 0 || idx >= len(c.Call.Args) || !isElem(c.Call.Args[idx]) {
										allElem = false
									}
								}
							})
						}
					}
					if sites > 0 && allElem {
						return
					}
				}
				n++
				key := fmt.Sprintf("seed-terminal/%s#%d", core.FuncName(ff), n)
				if _, g := ir.GuardedBy(ff, ir.Entry(ff), in, true, isItemListLenZero); g {
					r.HeldAt(key, p.InstrPos(in), 1, "the whole seed is closed only when the work list is empty")
				} else {
					r.Violated(key, p.InstrPos(in), "the whole seed is marked terminal without the work list being empty: other nodes of the level may still be Fresh, yet the seed will be reported finished")
				}
			})
		}
	}
	r.Floor("whole-seed terminal marks in the preprocessor", n, 1)
}

func anyTrue(vs []bool) bool {
	for _, v := range vs {
		if v {
			return true
		}
	}
	return false
}

// reachableWithoutJustification: the return stays reachable when every justifying edge is removed at once — the
// exit of the request loop, `len(list) == 0`, `elem.IsSeed()`, and `!elem.IsRedirection()` tested under
// `!elem.IsChild()` (or the other way round). Needed when several early exits of a split function merge into one
// `if !ok { return }`.
func reachableWithoutJustification(fn *ssa.Function, ret ssa.Instruction, loop ir.IfInfo, sameNode func(ssa.Value) bool) bool {
	item := "(*" + pkgModels + ".Item)."
	type edge struct {
		b *ssa.BasicBlock
		s int
	}
	cut := map[edge]bool{{loop.If.Block(), loop.EdgeWhen(false)}: true}
	ifs := ir.Ifs(fn)
	onRecv := func(a ir.Atom, name string) bool {
		c := ir.BoolCallAtom(a, item+name)
		return c != nil && sameNode(ir.Recv(c.Common()))
	}
	for _, ii := range ifs {
		if isItemListLenZero(ii.Atom) {
			cut[edge{ii.If.Block(), ii.EdgeWhen(true)}] = true
		}
		if onRecv(ii.Atom, "IsSeed") {
			cut[edge{ii.If.Block(), ii.EdgeWhen(true)}] = true
		}
		for _, pair := range [][2]string{{"IsRedirection", "IsChild"}, {"IsChild", "IsRedirection"}} {
			if !onRecv(ii.Atom, pair[0]) {
				continue
			}
			// this test is only reached when the other one was false
			for _, jj := range ifs {
				if onRecv(jj.Atom, pair[1]) && ir.OnlyVia(ir.Entry(fn), ii.If, jj.If.Block(), jj.EdgeWhen(false)) {
					cut[edge{ii.If.Block(), ii.EdgeWhen(false)}] = true
				}
			}
		}
	}
	res := ir.Reach([]ir.Pt{ir.Entry(fn)}, ir.Opts{EdgeOK: func(b *ssa.BasicBlock, s int) bool { return !cut[edge{b, s}] }})
	return res.Reached[ret]
}

func rulePostProgress(r *core.Reporter) {
	p := r.P
	states, _ := itemStates(p)
	pi := p.Func(rel(pkgPost), "postprocessItem")
	if pi == nil || len(pi.Params) == 0 {
		r.Undecided("postprocessItem", "", "anchor not found")
		return
	}
	r.Analysed(pi)
	item := pi.Params[0]
	// the gate: status == ItemArchived (the other side returns at once)
	var gate *ir.IfInfo
	for _, ii := range ir.Ifs(pi) {
		a := ii.Atom
		if a.V != nil || a.Op != token.EQL {
			continue
		}
		c, ok := a.X.(*ssa.Call)
		v, okc := ir.ConstInt(a.Y)
		if ok && okc && ir.IsCallTo(c, "(*"+pkgModels+".Item).GetStatus") && ir.SameValue(c.Call.Args[0], item) && v == states["ItemArchived"] {
			iic := ii
			gate = &iic
		}
	}
	if gate == nil {
		r.Undecided("postprocessItem/archived-gate", fnPos(p, pi), "the `status == ItemArchived` test was not found")
		return
	}
	progress := func(in ssa.Instruction) bool {
		if recv, _, ok := setStatusConst(in); ok && ir.SameValue(recv, item) {
			return true
		}
		if c, ok := in.(*ssa.Call); ok && ir.IsCallTo(c, "(*"+pkgModels+".Item).AddChild") && ir.SameValue(c.Call.Args[0], item) {
			return true
		}
		return false
	}
	// leaving through `item.HasChildren()` / `item.HasRedirection()` / `status == ItemFailed` being true means the
	// status is already something else than Archived (those predicates are status tests)
	type edge struct {
		b *ssa.BasicBlock
		s int
	}
	fine := map[edge]bool{}
	for _, ii := range ir.Ifs(pi) {
		for _, nm := range []string{"HasChildren", "HasRedirection"} {
			if c := ir.BoolCallAtom(ii.Atom, "(*"+pkgModels+".Item)."+nm); c != nil && ir.SameValue(c.Call.Args[0], item) {
				fine[edge{ii.If.Block(), ii.EdgeWhen(true)}] = true
			}
		}
		a := ii.Atom
		if a.V == nil && a.Op == token.EQL && ii.If != gate.If {
			if c, ok := a.X.(*ssa.Call); ok && ir.IsCallTo(c, "(*"+pkgModels+".Item).GetStatus") && ir.SameValue(c.Call.Args[0], item) {
				if v, okc := ir.ConstInt(a.Y); okc && v != states["ItemArchived"] {
					fine[edge{ii.If.Block(), ii.EdgeWhen(true)}] = true
				}
			}
		}
	}
	start := ir.EdgePt(gate.If.Block(), gate.EdgeWhen(true))
	if ret, bad := ir.PathExists([]ir.Pt{start}, ir.Opts{Stop: progress, EdgeOK: func(b *ssa.BasicBlock, sidx int) bool { return !fine[edge{b, sidx}] }}, ir.IsExit); bad {
		r.Violated("postprocessItem/leaves-archived", p.InstrPos(ret), "postprocessItem can return with the item still Archived (no SetStatus, no AddChild on that path): the item has work forever, the seed is fed back again and again and is never reported finished")
	} else {
		r.Held("postprocessItem/leaves-archived", 1, "behind the Archived gate every path completes the item or gives it a child")
	}
}
