package rules

import (
	"go/token"
	"strings"

	"golang.org/x/tools/go/ssa"

	"zenocheck/core"
	"zenocheck/ir"
)

func init() {
	PropertyText["C06"] = [2]string{
		"Decides the bounds that make the work per seed finite: a redirect child is created only below the --max-redirect guard, carries its parent's counter + 1 and its parent's hops, and has a single creation site (R-REDIRECT-BOUND); asset children are created only when domains-crawl is on or the depth without redirections is ≤ 2 (R-DEPTH-CUT); the fetch loop's induction variable goes 0,1,2… up to MaxRetry with no other update, and client.Do only happens inside it (R-RETRY-BOUND); outlinks get parent hops + 1 (or 0 only under domainscrawl.Match), assets get the parent's hops, extraction of outlinks requires hops < MaxHops or domains crawl (R-HOPS); domainscrawl.Match is a pure function of the URL and the configured patterns (R-MATCH-PURE); the WARC client never follows redirects itself (R-NO-AUTO-REDIRECT). NormalizeURL writes only the text of the URL it is given, so the redirect and hop counters survive normalisation (R-NORMALIZE-KEEPS-COUNTERS); the domains-crawl matcher is only switched on for a non-empty pattern list (R-DOMAINS-ENABLED).",
		"Not decided: that every seed finishes after a bounded number of passes as a whole (composition of these bounds with the tree semantics of C11 is argued, not checked); time spent in back-off sleeps.",
	}
	register(&core.Rule{ID: "R-REDIRECT-BOUND", Props: []string{"C06", "C01"}, Doc: "the only AddChild(…, ItemGotRedirected) site is reachable only when GetRedirects() < config.MaxRedirect; the child's URL is built with Redirects = parent.GetRedirects()+1 and Hops = parent.GetHops(); GetRedirects reads that field", Run: ruleRedirectBound})
	register(&core.Rule{ID: "R-DEPTH-CUT", Props: []string{"C06", "C01"}, Doc: "AddChild(…, ItemGotChildren) is reachable only when domainscrawl.Enabled() or GetDepthWithoutRedirections() ≤ K with K ≤ 2; the depth function adds one per non-redirect level", Run: ruleDepthCut})
	register(&core.Rule{ID: "R-RETRY-BOUND", Props: []string{"C06", "C01"}, Doc: "fetch closure: client.Do sits in a loop whose counter is phi(0, counter+1), continued only while counter ≤ config.MaxRetry, with no other assignment to the counter", Run: ruleRetryBound})
	register(&core.Rule{ID: "R-HOPS", Props: []string{"C06", "C15"}, Doc: "every outlink returned by extractOutlinks/extractAssets/extractLinksFromPage gets SetHops(parent.GetHops()+1), assets get SetHops(parent.GetHops()); SetHops(0) only under domainscrawl.Enabled()&&Match(raw); non-matching outlinks are skipped at hops ≥ MaxHops under domains crawl; shouldExtractOutlinks is true only for hops < MaxHops or domains crawl, and guards extractOutlinks", Run: ruleHops})
	register(&core.Rule{ID: "R-MATCH-PURE", Props: []string{"C06"}, Doc: "the domains-crawl matcher state is written only by AddElements/Reset (and package init): Match cannot learn or cache, so its verdict depends on the URL and the configured patterns only", Run: ruleMatchPure})
}

func postItemFn(p *core.Program) *ssa.Function { return p.Func(rel(pkgPost), "postprocessItem") }

// addChildSites lists AddChild calls with a constant `from` state, program-wide.
func addChildSites(p *core.Program, state int64) (sites []*ssa.Call, owners []*ssa.Function) {
	for _, fn := range p.ModFuncs {
		allInstrs(fn, func(in ssa.Instruction) {
			c, ok := in.(*ssa.Call)
			if !ok || !ir.IsCallTo(c, "(*"+pkgModels+".Item).AddChild") || len(c.Call.Args) != 3 {
				return
			}
			if v, okc := ir.ConstInt(c.Call.Args[2]); okc && v == state {
				sites = append(sites, c)
				owners = append(owners, fn)
			}
		})
	}
	return
}

// urlLiteralFields: for a *models.URL created in place (&models.URL{…}), the values stored in its fields.
func urlLiteralFields(v ssa.Value) map[string]ssa.Value {
	out := map[string]ssa.Value{}
	al, ok := v.(*ssa.Alloc)
	if !ok {
		return nil
	}
	for _, rr := range ir.Referrers(al) {
		if fa, ok := rr.(*ssa.FieldAddr); ok {
			_, f, _ := ir.FieldOf(fa)
			for _, r2 := range ir.Referrers(fa) {
				if st, ok := r2.(*ssa.Store); ok && st.Addr == ssa.Value(fa) {
					out[f] = st.Val
				}
			}
		}
	}
	return out
}

func ruleRedirectBound(r *core.Reporter) {
	p := r.P
	states, _ := itemStates(p)
	sites, owners := addChildSites(p, states["ItemGotRedirected"])
	if len(sites) != 1 {
		r.Violated("AddChild(GotRedirected)/sites", "", "%d creation sites for redirect children, expected exactly one (each needs its own bound)", len(sites))
		return
	}
	ac, fn := sites[0], owners[0]
	r.Analysed(fn)
	name := core.FuncName(fn)
	parent := ac.Call.Args[0]
	R := ir.Path(parent) + ".GetURL().GetRedirects()"
	M := "config.Get().MaxRedirect"
	guarded := false
	for _, ii := range ir.Ifs(fn) {
		for _, pol := range []bool{true, false} {
			if ii.Atom.States(pol, token.GEQ, R, M) && ir.OnlyVia(ir.Entry(fn), ac, ii.If.Block(), ii.EdgeWhen(!pol)) {
				guarded = true
			}
			if ii.Atom.States(pol, token.LSS, R, M) && ir.OnlyVia(ir.Entry(fn), ac, ii.If.Block(), ii.EdgeWhen(pol)) {
				guarded = true
			}
		}
	}
	if guarded {
		r.Held(name+"/guard", 1, "redirect child only when %s < %s", R, M)
	} else {
		r.Violated(name+"/guard", p.InstrPos(ac), "a redirect target can be added without the test %s >= %s having failed: an endless redirect chain is followed forever and the seed never finishes", R, M)
	}
	// the child: NewItem(…, url, …) with url literal
	child, ok := ac.Call.Args[1].(*ssa.Call)
	if !ok || !ir.IsCallTo(child, pkgModels+".NewItem") {
		r.Undecided(name+"/child", p.InstrPos(ac), "redirect child is not built with models.NewItem in place")
		return
	}
	fields := urlLiteralFields(child.Call.Args[1])
	red, hops := fields["Redirects"], fields["Hops"]
	okRed := false
	if b, isB := red.(*ssa.BinOp); isB && b.Op == token.ADD {
		if one, okc := ir.ConstInt(b.Y); okc && one == 1 && ir.Path(b.X) == R {
			okRed = true
		}
		if one, okc := ir.ConstInt(b.X); okc && one == 1 && ir.Path(b.Y) == R {
			okRed = true
		}
	}
	if okRed {
		r.Held(name+"/counter", 1, "child.Redirects = %s + 1", R)
	} else {
		r.Violated(name+"/counter", p.InstrPos(ac), "the redirect target's counter is not the parent's counter + 1 (got %s): the counter does not grow along a chain, so --max-redirect never triggers", pathOrNone(red))
	}
	if hops != nil && ir.Path(hops) == ir.Path(parent)+".GetURL().GetHops()" {
		r.Held(name+"/hops", 1, "redirect target inherits the page's hops")
	} else {
		r.Violated(name+"/hops", p.InstrPos(ac), "the redirect target does not inherit the page's hops (got %s)", pathOrNone(hops))
	}
	// getter
	gr := p.Func(rel(pkgModels), "(*URL).GetRedirects")
	okG := false
	if gr != nil {
		r.Analysed(gr)
		for _, ret := range ir.Returns(gr) {
			if _, f, okf := fieldOfLoad(ir.RetVal(ret, 0)); okf && f == "Redirects" {
				okG = true
			}
		}
	}
	if okG {
		r.Held("(*URL).GetRedirects", 1, "reads the Redirects field")
	} else {
		r.Violated("(*URL).GetRedirects", fnPos(p, gr), "GetRedirects no longer returns the Redirects field")
	}
	// no other writer of Redirects than literals and IncRedirects; IncRedirects must not be used to build redirect children
	for _, f := range p.ModFuncs {
		allInstrs(f, func(in ssa.Instruction) {
			if ir.IsCallTo(in, "(*"+pkgModels+".URL).IncRedirects") && f == fn {
				r.Violated(name+"/IncRedirects", p.InstrPos(in), "redirect counter of the new URL is set by IncRedirects() on a zero value instead of parent+1")
			}
		})
	}
}

func pathOrNone(v ssa.Value) string {
	if v == nil {
		return "<unset>"
	}
	return ir.Path(v)
}

func ruleDepthCut(r *core.Reporter) {
	p := r.P
	states, _ := itemStates(p)
	sites, owners := addChildSites(p, states["ItemGotChildren"])
	if len(sites) == 0 {
		r.Undecided("AddChild(GotChildren)/sites", "", "no creation site for asset children found")
		return
	}
	type edge struct {
		b *ssa.BasicBlock
		s int
	}
	// cutAt: `target` (in fn) runs only under domains crawl or depth-without-redirections(item) ≤ 2 — decided in fn,
	// or, when item is a parameter of fn, at every static call site of fn with the argument bound to it.
	var cutAt func(fn *ssa.Function, target ssa.Instruction, item ssa.Value, depth int) bool
	cutAt = func(fn *ssa.Function, target ssa.Instruction, item ssa.Value, depth int) bool {
		var escapes []edge
		kOK := false
		for _, ii := range ir.Ifs(fn) {
			if c := ir.BoolCallAtom(ii.Atom, pkgDomains+".Enabled"); c != nil {
				escapes = append(escapes, edge{ii.If.Block(), ii.EdgeWhen(true)})
			}
			a := ii.Atom
			// depth > K ≡ K < depth ;  depth >= K+1 ≡ (K+1) <= depth
			if a.V == nil && (a.Op == token.LSS || a.Op == token.LEQ) {
				if k, okc := ir.ConstInt(a.X); okc {
					if c, isC := a.Y.(*ssa.Call); isC && ir.IsCallTo(c, "(*"+pkgModels+".Item).GetDepthWithoutRedirections") && ir.SameValue(c.Call.Args[0], item) {
						if (a.Op == token.LSS && k <= 2) || (a.Op == token.LEQ && k <= 3) {
							kOK = true
							escapes = append(escapes, edge{ii.If.Block(), ii.EdgeWhen(false)})
						}
					}
				}
			}
		}
		res := ir.Reach([]ir.Pt{ir.Entry(fn)}, ir.Opts{EdgeOK: func(b *ssa.BasicBlock, s int) bool {
			for _, e := range escapes {
				if e.b == b && e.s == s {
					return false
				}
			}
			return true
		}})
		if kOK && !res.Reached[target] {
			return true
		}
		par := resolveParam(item, 0)
		if par == nil || par.Parent() != fn || depth >= 3 {
			return false
		}
		idx := paramIndex(par)
		callers := 0
		for _, g := range p.ModFuncs {
			ok := true
			allInstrs(g, func(in ssa.Instruction) {
				c, isC := in.(*ssa.Call)
				if !isC || ir.CalleeOf(c.Common()) != fn {
					return
				}
				callers++
				r.Analysed(g)
				if idx < 0 || idx >= len(c.Call.Args) || !cutAt(g, c, c.Call.Args[idx], depth+1) {
					ok = false
				}
			})
			if !ok {
				return false
			}
		}
		return callers > 0
	}
	for i, ac := range sites {
		fn := owners[i]
		r.Analysed(fn)
		name := core.FuncName(fn)
		if cutAt(fn, ac, ac.Call.Args[0], 0) {
			r.Held(name+"/depth-cut", 1, "asset children only under domains crawl or depth-without-redirections ≤ 2")
		} else {
			r.Violated(name+"/depth-cut", p.InstrPos(ac), "asset children can be added for an item deeper than two levels below the page without domains crawl: resources are followed beyond three levels (endlessly nested playlists/JSON never end)")
		}
	}
	// depth function
	df := p.Func(rel(pkgModels), "(*Item).GetDepthWithoutRedirections")
	if df == nil {
		r.Undecided("GetDepthWithoutRedirections", "", "anchor not found")
		return
	}
	r.Analysed(df)
	plusOne, plain := 0, 0
	okPlain := true
	for _, ret := range ir.Returns(df) {
		v := ir.RetVal(ret, 0)
		switch x := v.(type) {
		case *ssa.BinOp:
			if c, ok := x.X.(*ssa.Call); ok && ir.CalleeOf(c.Common()) == df && x.Op == token.ADD {
				if one, okc := ir.ConstInt(x.Y); okc && one == 1 {
					plusOne++
				}
			}
		case *ssa.Call:
			if ir.CalleeOf(x.Common()) == df {
				plain++
				// only for redirect nodes
				if _, g := ir.GuardedBy(df, ir.Entry(df), ret, true, func(a ir.Atom) bool {
					if a.V != nil || a.Op != token.EQL {
						return false
					}
					_, f, okf := fieldOfLoad(a.X)
					v, okc := ir.ConstInt(a.Y)
					return okf && f == "status" && okc && v == states["ItemGotRedirected"]
				}); !g {
					okPlain = false
				}
			}
		}
	}
	// iterative form: a walk over .parent that counts by one and looks at the status — the exact numeric
	// definition is then left to the unit table of the models package (not decided here)
	walksParents, countsByOne, readsStatus := false, false, false
	allInstrs(df, func(in ssa.Instruction) {
		if fa, ok := in.(*ssa.FieldAddr); ok {
			if _, f, okf := ir.FieldOf(fa); okf && f == "parent" {
				walksParents = true
			} else if okf && f == "status" {
				readsStatus = true
			}
		}
		if b, ok := in.(*ssa.BinOp); ok && (b.Op == token.ADD || b.Op == token.SUB) {
			if one, okc := ir.ConstInt(b.Y); okc && one == 1 {
				countsByOne = true
			}
		}
	})
	if plusOne >= 1 && okPlain {
		r.Held("GetDepthWithoutRedirections", plusOne+plain, "parent depth + 1, except for redirect nodes")
	} else if plusOne == 0 && plain == 0 && walksParents && countsByOne && readsStatus {
		r.Held("GetDepthWithoutRedirections", 1, "iterative walk over the parent chain counting non-redirect levels (numeric definition not decided statically)")
	} else {
		r.Violated("GetDepthWithoutRedirections", fnPos(p, df), "the depth no longer grows by one per non-redirect level (plus-one returns=%d, unguarded pass-through=%v)", plusOne, !okPlain)
	}
}

func ruleRetryBound(r *core.Reporter) {
	p := r.P
	fn, do := fetchClosure(p)
	if fn == nil {
		r.Undecided("archiver/fetch-closure", "", "not found")
		return
	}
	r.Analysed(fn)
	name := core.FuncName(fn)
	// loop header: If with atom counter <= config.MaxRetry (or counter < MaxRetry+1) around Do
	var hdr *ir.IfInfo
	var counter *ssa.Phi
	for _, ii := range ir.Ifs(fn) {
		a := ii.Atom
		if a.V != nil || (a.Op != token.LEQ && a.Op != token.LSS) {
			continue
		}
		ph, isPhi := a.X.(*ssa.Phi)
		if !isPhi {
			continue
		}
		bound := ir.Path(a.Y)
		okBound := (a.Op == token.LEQ && bound == "config.Get().MaxRetry") || (a.Op == token.LSS && bound == "(config.Get().MaxRetry + 1)")
		if !okBound {
			continue
		}
		body := ir.EdgePt(ii.If.Block(), ii.EdgeWhen(true))
		rs := ir.Reach([]ir.Pt{body}, ir.Opts{Stop: func(x ssa.Instruction) bool { return x == ssa.Instruction(ii.If) }})
		if rs.Reached[do] && rs.Stopped[ii.If] {
			iic := ii
			hdr = &iic
			counter = ph
		}
	}
	if hdr == nil {
		r.Violated(name+"/loop", p.InstrPos(do), "client.Do is not inside a loop bounded by `retry <= config.MaxRetry`: a failing URL can be attempted more than --max-retry + 1 times per visit")
		return
	}
	if !ir.OnlyVia(ir.Entry(fn), do, hdr.If.Block(), hdr.EdgeWhen(true)) {
		r.Violated(name+"/loop", p.InstrPos(do), "client.Do is reachable without passing the retry bound test")
		return
	}
	r.Held(name+"/loop", 1, "client.Do only inside `for retry <= MaxRetry`")
	// induction: edges are exactly {0, counter+1}
	okInd := true
	detail := ""
	for _, e := range counter.Edges {
		if z, okc := ir.ConstInt(e); okc && z == 0 {
			continue
		}
		if b, isB := e.(*ssa.BinOp); isB && b.Op == token.ADD && b.X == ssa.Value(counter) {
			if one, okc := ir.ConstInt(b.Y); okc && one == 1 {
				continue
			}
		}
		okInd = false
		detail = ir.Path(e)
	}
	if okInd {
		r.Held(name+"/counter", len(counter.Edges), "retry = phi(0, retry+1): strictly increasing, no reset")
	} else {
		r.Violated(name+"/counter", p.InstrPos(hdr.If), "the retry counter is updated other than by +1 per attempt (incoming value %s): the number of attempts per visit is no longer bounded by --max-retry + 1", detail)
	}
	// only one Do
	n := 0
	allInstrs(fn, func(in ssa.Instruction) {
		if c, ok := in.(*ssa.Call); ok && isHTTPDo(c) {
			n++
		}
	})
	if n == 1 {
		r.Held(name+"/single-do", 1, "one request site per attempt")
	} else {
		r.Violated(name+"/single-do", p.InstrPos(do), "%d request sites in the fetch closure", n)
	}
}

func ruleHops(r *core.Reporter) {
	p := r.P
	n := 0
	isSetHops := func(in ssa.Instruction) (*ssa.Call, bool) {
		c, ok := in.(*ssa.Call)
		return c, ok && ir.IsCallTo(c, "(*"+pkgModels+".URL).SetHops")
	}
	hopsOf := func(fn *ssa.Function) string { return "$" + fn.Params[0].Name() + ".GetURL().GetHops()" }
	plusOne := func(v ssa.Value, base string) bool {
		b, ok := v.(*ssa.BinOp)
		if !ok || b.Op != token.ADD {
			return false
		}
		one, okc := ir.ConstInt(b.Y)
		return okc && one == 1 && ir.Path(b.X) == base
	}
	// generic: in fn, every success return that is reachable after result-producing calls passes a loop that calls SetHops(want)
	checkLoop := func(fn *ssa.Function, key string, want func(v ssa.Value) bool, sliceResultIdx int, what string) {
		r.Analysed(fn)
		var loops []ir.IfInfo
		allInstrs(fn, func(in ssa.Instruction) {
			if c, ok := isSetHops(in); ok && want(c.Call.Args[1]) {
				if l, okl := loopAround(fn, c); okl && loopCoversAll(fn, c) {
					// the loop ranges over the returned slice
					loops = append(loops, l)
				}
			}
		})
		if len(loops) == 0 {
			r.Violated(key, fnPos(p, fn), "no loop sets %s on the returned URLs", what)
			return
		}
		n++
		// producers: calls whose result flows into the returned slice — approximated by any call into extractor/sitespecific packages
		var producers []ssa.Instruction
		allInstrs(fn, func(in ssa.Instruction) {
			if c, ok := in.(*ssa.Call); ok {
				if f := ir.CalleeOf(c.Common()); f != nil && core.InModule(f) {
					pk := core.RelPkg(core.FuncPkg(f))
					if strings.Contains(pk, "extractor") || strings.Contains(pk, "sitespecific") || f.Name() == "extractLinksFromPage" {
						// any call that hands back URL objects is a producer of the returned list
						res := f.Signature.Results()
						for i := 0; i < res.Len(); i++ {
							if strings.Contains(res.At(i).Type().String(), "models.URL") {
								producers = append(producers, in)
								break
							}
						}
					}
				}
			}
		})
		isLoopHdr := func(in ssa.Instruction) bool {
			for _, l := range loops {
				if in == ssa.Instruction(l.If) {
					return true
				}
			}
			return false
		}
		var starts []ir.Pt
		for _, pr := range producers {
			starts = append(starts, ir.After(pr))
		}
		res := ir.Reach(starts, ir.Opts{Stop: isLoopHdr})
		var bad ssa.Instruction
		for _, ret := range successReturns(fn) {
			if res.Reached[ret] {
				bad = ret
			}
		}
		if bad != nil {
			r.Violated(key, p.InstrPos(bad), "URLs can be returned without %s having been set on them", what)
		} else {
			r.Held(key, len(producers), "every successful return after %d extractor call(s) passes the loop setting %s", len(producers), what)
		}
	}
	if eo := p.Func(rel(pkgPost), "extractOutlinks"); eo != nil {
		base := hopsOf(eo)
		checkLoop(eo, "extractOutlinks/hops+1", func(v ssa.Value) bool { return plusOne(v, base) }, 0, "hops = page hops + 1")
	} else {
		r.Undecided("extractOutlinks", "", "anchor not found")
	}
	if ea := p.Func(rel(pkgPost), "extractAssets"); ea != nil {
		base := hopsOf(ea)
		checkLoop(ea, "extractAssets/outlinks-hops+1", func(v ssa.Value) bool { return plusOne(v, base) }, 1, "outlink hops = page hops + 1")
		checkLoop(ea, "extractAssets/assets-hops", func(v ssa.Value) bool { return ir.Path(v) == base }, 0, "asset hops = page hops")
	} else {
		r.Undecided("extractAssets", "", "anchor not found")
	}
	// extractLinksFromPage literal
	if el := p.Func(rel(pkgPost), "extractLinksFromPage"); el != nil {
		r.Analysed(el)
		ok := false
		allInstrs(el, func(in ssa.Instruction) {
			if al, isAl := in.(*ssa.Alloc); isAl {
				f := urlLiteralFields(al)
				if h, has := f["Hops"]; has && plusOne(h, "$"+el.Params[0].Name()+".GetHops()") {
					ok = true
				}
			}
		})
		if ok {
			n++
			r.Held("extractLinksFromPage/hops+1", 1, "links from page text carry page hops + 1")
		} else {
			r.Violated("extractLinksFromPage/hops+1", fnPos(p, el), "links scraped from the page text are not given page hops + 1")
		}
	}
	// postprocessItem: SetHops(0) guard, skip rule, shouldExtractOutlinks guard
	pi := postItemFn(p)
	if pi == nil {
		r.Undecided("postprocessItem", "", "anchor not found")
		return
	}
	r.Analysed(pi)
	allInstrs(pi, func(in ssa.Instruction) {
		c, ok := isSetHops(in)
		if !ok {
			return
		}
		if z, okc := ir.ConstInt(c.Call.Args[1]); !okc || z != 0 {
			return
		}
		n++
		rawPath := ir.Path(c.Call.Args[0]) + ".Raw"
		_, gm := ir.GuardedBy(pi, ir.Entry(pi), c, true, func(a ir.Atom) bool {
			m := ir.BoolCallAtom(a, pkgDomains+".Match")
			return m != nil && ir.Path(m.Call.Args[0]) == rawPath
		})
		_, ge := ir.GuardedBy(pi, ir.Entry(pi), c, true, func(a ir.Atom) bool { return ir.BoolCallAtom(a, pkgDomains+".Enabled") != nil })
		if gm && ge {
			r.Held("postprocessItem/hops-reset", 1, "hops reset to 0 only for outlinks that match --domains-crawl")
		} else {
			r.Violated("postprocessItem/hops-reset", p.InstrPos(c), "an outlink's hop count is reset to 0 without domainscrawl.Enabled() && Match(its URL): the hop budget never runs out")
		}
	})
	var eoCall, outItem *ssa.Call
	allInstrs(pi, func(in ssa.Instruction) {
		if c, ok := in.(*ssa.Call); ok {
			if ir.IsCallTo(c, pkgPost+".extractOutlinks") {
				eoCall = c
			}
			if ir.IsCallTo(c, pkgModels+".NewItem") {
				if s, okc := ir.ConstString(c.Call.Args[2]); !(okc && s == "") {
					outItem = c // outlink items carry a via
				}
			}
		}
	})
	soFn := p.Func(rel(pkgPost), "shouldExtractOutlinks")
	if eoCall != nil && soFn == nil {
		// the predicate folded into postprocessItem by hand: extractOutlinks must be unreachable once the
		// `domains crawl` and `hops < MaxHops` edges are removed
		hp := "$" + pi.Params[0].Name() + ".GetURL().GetHops()"
		type edge struct {
			b *ssa.BasicBlock
			s int
		}
		cut := map[edge]bool{}
		for _, ii := range ir.Ifs(pi) {
			if ir.BoolCallAtom(ii.Atom, pkgDomains+".Enabled") != nil {
				cut[edge{ii.If.Block(), ii.EdgeWhen(true)}] = true
			}
			for _, pol := range []bool{true, false} {
				if ii.Atom.States(pol, token.LSS, hp, "config.Get().MaxHops") {
					cut[edge{ii.If.Block(), ii.EdgeWhen(pol)}] = true
				}
			}
		}
		res := ir.Reach([]ir.Pt{ir.Entry(pi)}, ir.Opts{EdgeOK: func(b *ssa.BasicBlock, sidx int) bool { return !cut[edge{b, sidx}] }})
		if len(cut) >= 2 && !res.Reached[eoCall] {
			n++
			r.Held("postprocessItem/outlinks-guard", 1, "extractOutlinks only for hops < MaxHops or domains crawl (predicate folded into postprocessItem)")
			r.Held("shouldExtractOutlinks", len(cut), "true only for hops < MaxHops or domains crawl")
		} else {
			r.Violated("postprocessItem/outlinks-guard", p.InstrPos(eoCall), "outlinks are extracted without the hop test")
		}
	} else if eoCall != nil {
		if _, g := ir.GuardedBy(pi, ir.Entry(pi), eoCall, true, func(a ir.Atom) bool {
			c := ir.BoolCallAtom(a, pkgPost+".shouldExtractOutlinks")
			return c != nil && ir.SameValue(c.Call.Args[0], pi.Params[0])
		}); g {
			r.Held("postprocessItem/outlinks-guard", 1, "extractOutlinks only when shouldExtractOutlinks(item)")
		} else {
			r.Violated("postprocessItem/outlinks-guard", p.InstrPos(eoCall), "outlinks are extracted without the hop test")
		}
	}
	if outItem != nil && soFn != nil {
		// the hop gate covers the *creation* of outlink items, whatever extractor the URLs came from (the asset
		// extractors of JSON/XML pages return outlinks too)
		if _, g := ir.GuardedBy(pi, ir.Entry(pi), outItem, true, func(a ir.Atom) bool {
			c := ir.BoolCallAtom(a, pkgPost+".shouldExtractOutlinks")
			return c != nil && ir.SameValue(c.Call.Args[0], pi.Params[0])
		}); g {
			r.Held("postprocessItem/outlink-items-guard", 1, "outlink items are only created when shouldExtractOutlinks(item)")
		} else {
			r.Violated("postprocessItem/outlink-items-guard", p.InstrPos(outItem), "outlink items can be created although shouldExtractOutlinks(item) is false: URLs returned by the asset extractors (JSON, XML …) are queued from pages already at --max-hops, each carrying hops+1 — an endless paginated API is crawled without bound")
		}
	}
	if outItem != nil {
		// skip rule: NewItem(outlink) not reachable on the path Enabled && !Match && hops >= MaxHops
		hp := "$" + pi.Params[0].Name() + ".GetURL().GetHops()"
		okSkip := false
		for _, ii := range ir.Ifs(pi) {
			for _, pol := range []bool{true, false} {
				if ii.Atom.States(pol, token.GEQ, hp, "config.Get().MaxHops") {
					// on that edge, NewItem must be unreachable before the loop continues
					start := ir.EdgePt(ii.If.Block(), ii.EdgeWhen(pol))
					l, okl := loopAround(pi, outItem)
					if okl {
						rs := ir.Reach([]ir.Pt{start}, ir.Opts{Stop: func(x ssa.Instruction) bool { return x == ssa.Instruction(l.If) }})
						if !rs.Reached[outItem] {
							okSkip = true
						}
					}
				}
			}
		}
		if okSkip {
			r.Held("postprocessItem/domains-hop-skip", 1, "under domains crawl a non-matching outlink from a page at hops ≥ MaxHops is skipped")
		} else {
			r.Violated("postprocessItem/domains-hop-skip", p.InstrPos(outItem), "under domains crawl, non-matching outlinks are queued even from pages at or beyond --max-hops")
		}
		// via = parent canonical URL
		if ir.Path(outItem.Call.Args[2]) == "$"+pi.Params[0].Name()+".GetURL().String()" {
			r.Held("postprocessItem/outlink-via", 1, "outlink seedVia = parent's canonical URL")
		} else {
			r.Violated("postprocessItem/outlink-via", p.InstrPos(outItem), "outlink items do not carry the parent page as via (got %s)", ir.Path(outItem.Call.Args[2]))
		}
	}
	// shouldExtractOutlinks
	so := soFn
	if so == nil {
		if eoCall == nil {
			r.Undecided("shouldExtractOutlinks", "", "anchor not found")
		}
	} else {
		r.Analysed(so)
		hp := "$" + so.Params[0].Name() + ".GetURL().GetHops()"
		type edge struct {
			b *ssa.BasicBlock
			s int
		}
		var esc []edge
		for _, ii := range ir.Ifs(so) {
			if ir.BoolCallAtom(ii.Atom, pkgDomains+".Enabled") != nil {
				esc = append(esc, edge{ii.If.Block(), ii.EdgeWhen(true)})
			}
			for _, pol := range []bool{true, false} {
				if ii.Atom.States(pol, token.LSS, hp, "config.Get().MaxHops") {
					esc = append(esc, edge{ii.If.Block(), ii.EdgeWhen(pol)})
				}
			}
		}
		res := ir.Reach([]ir.Pt{ir.Entry(so)}, ir.Opts{EdgeOK: func(b *ssa.BasicBlock, s int) bool {
			for _, e := range esc {
				if e.b == b && e.s == s {
					return false
				}
			}
			return true
		}})
		bad := false
		for _, ret := range ir.Returns(so) {
			if !res.Reached[ret] {
				continue
			}
			if vals, okc := res.BoolReturn(ret); !okc || anyTrue(vals) {
				bad = true
			}
		}
		if bad || len(esc) < 2 {
			r.Violated("shouldExtractOutlinks", fnPos(p, so), "shouldExtractOutlinks can return true although hops ≥ MaxHops and domains crawl is off")
		} else {
			n++
			r.Held("shouldExtractOutlinks", len(esc), "true only for hops < MaxHops or domains crawl")
		}
	}
	r.Floor("hop rule instances", n, 4)
}

func ruleMatchPure(r *core.Reporter) {
	p := r.P
	tEngine := pkgDomains + ".matchEngine"
	allowed := map[string]bool{
		rel(pkgDomains) + ".AddElements": true, rel(pkgDomains) + ".Reset": true, rel(pkgDomains) + ".init": true,
	}
	writes := 0
	for _, fn := range p.FuncsInPkg(rel(pkgDomains)) {
		name := core.FuncName(fn)
		allInstrs(fn, func(in ssa.Instruction) {
			bad := ""
			switch x := in.(type) {
			case *ssa.Store:
				if tn, f, ok := ir.FieldOf(x.Addr); ok && tn == tEngine {
					bad = "field " + f
				}
				if _, isG := x.Addr.(*ssa.Global); isG {
					bad = "package variable"
				}
			case *ssa.MapUpdate:
				if strings.Contains(ir.Path(x.Map), "globalMatcher") {
					bad = "map " + ir.Path(x.Map)
				}
			case *ssa.Call:
				if f := ir.CalleeOf(x.Common()); f != nil && f.Signature.Recv() != nil && ir.TypeName(f.Signature.Recv().Type()) == "sync.Map" {
					switch f.Name() {
					case "Store", "LoadOrStore", "Swap", "Delete", "LoadAndDelete", "CompareAndSwap", "CompareAndDelete", "Clear":
						bad = "sync.Map." + f.Name()
					}
				}
			}
			if bad == "" {
				return
			}
			writes++
			if !allowed[name] && !strings.HasPrefix(name, rel(pkgDomains)+".init") {
				r.Violated(name+"/state-write", p.InstrPos(in), "%s writes matcher state (%s): the verdict of Match then depends on earlier calls, not only on the URL and the configured patterns (e.g. a host-level cache lets non-matching URLs through with hops 0)", name, bad)
			}
		})
	}
	r.Analysed(p.FuncsInPkg(rel(pkgDomains))...)
	if r.Floor("matcher state writes", writes, 2) {
		r.Held("domainscrawl/writers", writes, "matcher state written only by AddElements/Reset/init")
	}
}
