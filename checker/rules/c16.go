package rules

import (
	"fmt"
	"go/token"
	"go/types"
	"strings"

	"golang.org/x/tools/go/ssa"

	"zenocheck/core"
	"zenocheck/ir"
)

func init() {
	PropertyText["C16"] = [2]string{
		"Decides acquire/release pairing on all paths — the structural core of 'no per-seed leak': every response obtained in the fetch closure is drained-and-closed or handed to ProcessBody (which defers Body.Close) (R-RESP-CLOSE); every spooled temp file made in ProcessBody is closed on each error path or becomes the URL's body, bodies have that single producer, and closeBodies runs over the whole tree on every pass of the postprocessor (R-SPOOL-CLOSE); every goroutine started in per-seed code is joined by its spawner and every ticker stopped (R-GO-JOIN); the limiter table only grows past a len≥max test that evicts, and eviction always removes an entry when there is one (R-BUCKET-BOUND); the reactor's entry/token pairing (R-REACT-INSERT/RELEASE); limiter state under its lock (R-TB-LOCK). A body is detached only after Close (R-BODY-DETACH); the table's size test and insertion share a critical section; the fetch goroutine releases its slot on every exit (R-SEM-RELEASE).",
		"Not decided: goroutine and file-descriptor counts as such (runtime quantities), temp-file deletion inside spooledtempfile.Close, leaks inside third-party modules.",
	}
	register(&core.Rule{ID: "R-RESP-CLOSE", Props: []string{"C16", "C02", "C03"}, Doc: "fetch closure: from a successful client.Do every path to the next attempt or to the closure's exit closes resp.Body (after draining it) or hands the response to ProcessBody", Run: ruleRespClose})
	register(&core.Rule{ID: "R-SPOOL-CLOSE", Props: []string{"C16"}, Doc: "ProcessBody: each NewSpooledTempFile result is Close()d on every path that does not store it with SetBody; SetBody(non-nil) has that one call site; the postprocessor worker calls closeBodies(seed) on every non-stop path before forwarding; closeBody closes and clears; Traverse visits every node", Run: ruleSpoolClose})
	register(&core.Rule{ID: "R-GO-JOIN", Props: []string{"C16"}, Doc: "every go statement in code that runs per seed/batch is preceded by WaitGroup.Add, its target signals Done on every exit, and the spawner waits before returning; every time.NewTicker has a deferred Stop", Run: ruleGoJoin})
	register(&core.Rule{ID: "R-BUCKET-BOUND", Props: []string{"C16"}, Doc: "the only insertion into BucketManager.buckets passes the len(buckets) >= maxBuckets test and evicts on its true side; evictLFU considers every bucket (no filter besides the usage comparison) and deletes the chosen key whenever one was chosen", Run: ruleBucketBound})
}

func ruleRespClose(r *core.Reporter) {
	p := r.P
	fn, do := fetchClosure(p)
	if fn == nil {
		r.Undecided("archiver/fetch-closure", "", "not found")
		return
	}
	r.Analysed(fn)
	name := core.FuncName(fn)
	var resp, errv ssa.Value
	for _, rr := range ir.Referrers(do) {
		if e, ok := rr.(*ssa.Extract); ok {
			if e.Index == 0 {
				resp = e
			} else {
				errv = e
			}
		}
	}
	fromResp := func(v ssa.Value) bool {
		// v is <resp>.Body for a resp whose phi leaves include this Do's response
		u, ok := v.(*ssa.UnOp)
		if !ok {
			return false
		}
		fa, ok := u.X.(*ssa.FieldAddr)
		if !ok {
			return false
		}
		if _, f, _ := ir.FieldOf(fa); f != "Body" {
			return false
		}
		var leaves []ssa.Value
		phiLeaves(fa.X, map[ssa.Value]bool{}, &leaves)
		for _, l := range leaves {
			if l == resp {
				return true
			}
		}
		return false
	}
	isClose := func(in ssa.Instruction) bool {
		c, ok := in.(*ssa.Call)
		return ok && c.Call.IsInvoke() && c.Call.Method.Name() == "Close" && fromResp(c.Call.Value)
	}
	isHandOver := func(in ssa.Instruction) bool { return ir.IsPlainCallTo(in, pkgArch+".ProcessBody") }
	var start *ir.Pt
	for _, ii := range ir.Ifs(fn) {
		a := ii.Atom
		if a.V == nil && a.Op == token.EQL && ((a.X == errv && ir.IsNilConst(a.Y)) || (a.Y == errv && ir.IsNilConst(a.X))) {
			s := ir.EdgePt(ii.If.Block(), ii.EdgeWhen(true))
			start = &s
		}
	}
	if start == nil {
		r.Undecided(name+"/resp-close", p.InstrPos(do), "err==nil branch after Do not found")
		return
	}
	end := func(in ssa.Instruction) bool { return in == ssa.Instruction(do) || ir.IsExit(in) }
	if bad, found := ir.PathExists([]ir.Pt{*start}, ir.Opts{Stop: func(in ssa.Instruction) bool { return isClose(in) || isHandOver(in) }}, end); found {
		what := "the closure returns"
		if bad == ssa.Instruction(do) {
			what = "the next attempt starts"
		}
		r.Violated(name+"/resp-close", p.InstrPos(bad), "%s with the previous response body neither closed nor handed to ProcessBody: one leaked connection/spool per such attempt", what)
	} else {
		r.Held(name+"/resp-close", 1, "every response is closed or handed to ProcessBody before the next attempt / exit")
	}
	// drained before closed on the retry paths (connection reuse + WARC capture): io.Copy(io.Discard, body) precedes each Close
	nClose, undrained := 0, 0
	allInstrs(fn, func(in ssa.Instruction) {
		if !isClose(in) {
			return
		}
		nClose++
		drain := func(x ssa.Instruction) bool {
			c, ok := x.(*ssa.Call)
			// to EOF: a bounded read (CopyN, LimitReader) leaves the rest unread — the connection is dropped mid-body
			// and the WARC writer, which records what was read off the wire, discards the truncated exchange
			if !ok || !ir.IsCallTo(c, "io.Copy", "io.ReadAll") {
				return false
			}
			return fromResp(ir.Strip(c.Call.Args[len(c.Call.Args)-1]))
		}
		if ir.Reach([]ir.Pt{*start}, ir.Opts{Stop: drain}).Reached[in] {
			undrained++
		}
	})
	if nClose > 0 && undrained == 0 {
		r.Held(name+"/drain-before-close", nClose, "%d explicit Close site(s), each after draining the body", nClose)
	} else if undrained > 0 {
		r.Violated(name+"/drain-before-close", p.InstrPos(do), "a response body is closed without having been read to EOF first (no drain, or a bounded one): the exchange recorded for the WARC is truncated and dropped, and the writer's connection goroutine is not released")
	}
	// the response handed over is this Do's response: SetResponse(resp) precedes ProcessBody
	okSet := false
	allInstrs(fn, func(in ssa.Instruction) {
		if c, ok := in.(*ssa.Call); ok && ir.IsCallTo(c, "(*"+pkgModels+".URL).SetResponse") {
			var leaves []ssa.Value
			phiLeaves(c.Call.Args[1], map[ssa.Value]bool{}, &leaves)
			for _, l := range leaves {
				if l == resp {
					okSet = true
				}
			}
		}
	})
	if okSet {
		r.Held(name+"/hand-over", 1, "ProcessBody receives this request's response through SetResponse")
	} else {
		r.Violated(name+"/hand-over", p.InstrPos(do), "the response given to the URL before ProcessBody is not the one returned by client.Do")
	}
}

func ruleSpoolClose(r *core.Reporter) {
	p := r.P
	pb := p.Func(rel(pkgArch), "ProcessBody")
	if pb == nil {
		r.Undecided("archiver.ProcessBody", "", "anchor not found")
		return
	}
	r.Analysed(pb)
	n := 0
	allInstrs(pb, func(in ssa.Instruction) {
		c, ok := in.(*ssa.Call)
		if !ok || !strings.HasSuffix(ir.CallName(c.Common()), "spooledtempfile.NewSpooledTempFile") {
			return
		}
		n++
		isMine := func(v ssa.Value) bool { return ir.Strip(v) == ssa.Value(c) || ir.SameValue(v, c) }
		release := func(x ssa.Instruction) bool {
			if cc, ok := x.(*ssa.Call); ok {
				if cc.Call.IsInvoke() && cc.Call.Method.Name() == "Close" && isMine(cc.Call.Value) {
					return true
				}
				if ir.IsCallTo(cc, "(*"+pkgModels+".URL).SetBody") && isMine(cc.Call.Args[1]) {
					return true
				}
			}
			if d, ok := x.(*ssa.Defer); ok {
				if d.Call.IsInvoke() && d.Call.Method.Name() == "Close" && isMine(d.Call.Value) {
					return true
				}
				// deferred cleanup closure: accepted when it closes unconditionally, or under `<named result> != nil`
				if cl := ir.CalleeOf(d.Common()); cl != nil && cl.Parent() == pb {
					if deferredCleanupCloses(pb, cl, c) {
						return true
					}
				}
			}
			return false
		}
		if ret, bad := ir.PathExists([]ir.Pt{ir.After(c)}, ir.Opts{Stop: release}, ir.IsExit); bad {
			r.Violated("ProcessBody/spool", p.InstrPos(ret), "ProcessBody can return with the spooled temp file neither closed nor installed as the URL's body: above 2 MB the file stays on disk with its descriptor open, one per failing response")
		} else {
			r.Held("ProcessBody/spool", 1, "spooled file closed or installed on every path")
		}
	})
	r.Floor("spooled temp file sites", n, 1)
	// SetBody(non-nil) sites
	nonNil := 0
	for _, fn := range p.ModFuncs {
		allInstrs(fn, func(in ssa.Instruction) {
			if c, ok := in.(*ssa.Call); ok && ir.IsCallTo(c, "(*"+pkgModels+".URL).SetBody") {
				if !ir.IsNilConst(c.Call.Args[1]) {
					nonNil++
					if fn != pb {
						r.Violated("SetBody/producer/"+core.FuncName(fn), p.InstrPos(in), "a body is installed outside ProcessBody: it is not covered by the close-on-error rule")
					}
				}
			}
		})
	}
	if nonNil == 1 {
		r.Held("SetBody/producer", 1, "bodies are produced only by ProcessBody")
	}
	// postprocessor worker: closeBodies(seed) between receive and forward on every non-stop path
	w := findStageWorker(p, pkgPost)
	if w == nil {
		r.Undecided("postprocessor.worker/closeBodies", "", "worker not found")
	} else {
		r.Analysed(w.Fn)
		closeBodyFn := p.Func(rel(pkgPost), "closeBody")
		cb := func(in ssa.Instruction) bool {
			if ir.IsPlainCallTo(in, pkgPost+".closeBodies") && ir.SameValue(ir.AsCall(in).Args[0], w.Seed) {
				return true
			}
			// closeBodies folded into the worker: seed.Traverse(closeBody) / seed.Traverse(func(n){ closeBody(n) })
			return traversesWith(in, w.Seed, closeBodyFn)
		}
		outs := map[string]bool{}
		fwd := forwardEvent(w, outs)
		res := ir.Reach([]ir.Pt{w.Start}, ir.Opts{Stop: cb, EdgeOK: pruneStopArms(w.Fn)})
		var bad ssa.Instruction
		for in := range res.Stopped {
			if fwd(in) {
				bad = in
			}
		}
		for in := range res.Reached {
			if fwd(in) {
				bad = in
			}
		}
		if bad != nil {
			r.Violated("postprocessor.worker/closeBodies", p.InstrPos(bad), "a seed can be forwarded to the finisher without closeBodies(seed): every body still open in its tree (spooled files) leaks")
		} else {
			r.Held("postprocessor.worker/closeBodies", 1, "closeBodies(seed) precedes the forward on every path")
		}
	}
	// closeBodies → Traverse(closeBody); closeBody closes then clears
	cbs := p.Func(rel(pkgPost), "closeBodies")
	cb1 := p.Func(rel(pkgPost), "closeBody")
	trav := p.Func(rel(pkgModels), "(*Item).Traverse")
	if cbs == nil && cb1 != nil && trav != nil && w != nil {
		// folded into the worker by hand: the traversal is looked for there
		found := false
		for _, f := range withAnon(w.Fn) {
			allInstrs(f, func(in ssa.Instruction) {
				if traversesWith(in, nil, cb1) {
					found = true
				}
			})
		}
		if found {
			r.Held("closeBodies", 1, "Traverse(closeBody) over the seed's tree (in the worker itself)")
			cbs = w.Fn
		}
	}
	if cbs == nil || cb1 == nil || trav == nil {
		r.Undecided("closeBodies", "", "closeBodies/closeBody/Traverse not found")
		return
	}
	r.Analysed(cbs, cb1, trav)
	okT := w != nil && cbs == w.Fn
	for _, f := range withAnon(cbs) {
		allInstrs(f, func(in ssa.Instruction) {
			if ir.IsPlainCallTo(in, pkgPost+".closeBody") && f != cbs {
				okT = true
			}
		})
	}
	callsTraverse := false
	allInstrs(cbs, func(in ssa.Instruction) {
		if ir.IsPlainCallTo(in, "(*"+pkgModels+".Item).Traverse") {
			callsTraverse = true
			// the function itself handed over instead of a closure that calls it
			if c := ir.AsCall(in); len(c.Args) == 2 {
				if f, isF := ir.Strip(c.Args[1]).(*ssa.Function); isF && f == cb1 {
					okT = true
				}
			}
		}
	})
	// the body handle read into a local before the test: the nil test and the Close are on the same value
	bodyVal := func(v ssa.Value) bool {
		return strings.HasSuffix(ir.Path(v), ".GetURL().GetBody()")
	}
	_ = bodyVal
	if w != nil && cbs == w.Fn {
		// already recorded above
	} else if okT && callsTraverse {
		r.Held("closeBodies", 1, "Traverse(closeBody) over the seed's tree")
	} else {
		r.Violated("closeBodies", fnPos(p, cbs), "closeBodies no longer applies closeBody to every node of the tree")
	}
	// closeBody: Close() then SetBody(nil) when body != nil
	var cl, clr ssa.Instruction
	allInstrs(cb1, func(in ssa.Instruction) {
		if c, ok := in.(*ssa.Call); ok {
			if c.Call.IsInvoke() && c.Call.Method.Name() == "Close" && strings.HasSuffix(ir.Path(c.Call.Value), ".GetURL().GetBody()") {
				cl = in
			}
			if ir.IsCallTo(c, "(*"+pkgModels+".URL).SetBody") && ir.IsNilConst(c.Call.Args[1]) {
				clr = in
			}
		}
	})
	if cl != nil && clr != nil {
		// close guarded by body != nil only
		okGuard := true
		for _, ii := range ir.Ifs(cb1) {
			for _, t := range []bool{true, false} {
				if ir.OnlyVia(ir.Entry(cb1), cl, ii.If.Block(), ii.EdgeWhen(t)) {
					a := ii.Atom
					isNilTest := a.V == nil && a.Op == token.EQL && (ir.IsNilConst(a.X) || ir.IsNilConst(a.Y)) && (strings.HasSuffix(ir.Path(a.X), ".GetBody()") || strings.HasSuffix(ir.Path(a.Y), ".GetBody()"))
					if !isNilTest {
						okGuard = false
					}
				}
			}
		}
		if okGuard {
			r.Held("closeBody", 2, "closes every non-nil body and clears it")
		} else {
			r.Violated("closeBody", p.InstrPos(cl), "closeBody skips some non-nil bodies (extra condition on the close)")
		}
	} else {
		r.Violated("closeBody", fnPos(p, cb1), "closeBody does not Close() and clear the body (close=%v clear=%v)", cl != nil, clr != nil)
	}
	// Traverse: fn(i) then recursion over all children
	var rec *ssa.Call
	allInstrs(trav, func(in ssa.Instruction) {
		if c, ok := in.(*ssa.Call); ok && ir.CalleeOf(c.Common()) == trav {
			rec = c
		}
	})
	if rec != nil && loopCoversAll(trav, rec) {
		r.Held("Item.Traverse", 1, "visits the node and recurses into every child")
	} else {
		r.Violated("Item.Traverse", fnPos(p, trav), "Traverse does not visit every node of the tree")
	}
	// postprocessItem defers closeBody(item)
	pi := postItemFn(p)
	if pi != nil {
		r.Analysed(pi)
		var d ssa.Instruction
		allInstrs(pi, func(in ssa.Instruction) {
			if dd, ok := in.(*ssa.Defer); ok && ir.IsCallTo(dd, pkgPost+".closeBody") && ir.SameValue(dd.Call.Args[0], pi.Params[0]) {
				d = in
			}
		})
		if d == nil {
			r.Violated("postprocessItem/defer-closeBody", fnPos(p, pi), "postprocessItem no longer defers closeBody(item)")
		} else if _, bad := ir.PathExists([]ir.Pt{ir.Entry(pi)}, ir.Opts{Stop: func(in ssa.Instruction) bool { return in == d }}, ir.IsExit); bad {
			r.Violated("postprocessItem/defer-closeBody", p.InstrPos(d), "a return precedes the deferred closeBody(item)")
		} else {
			r.Held("postprocessItem/defer-closeBody", 1, "closeBody(item) deferred before any return")
		}
	}
}

// deferredCleanupCloses: closure cl (deferred in fn) closes the spooled file `sp`, unconditionally or only
// under `<named error result of fn> != nil`.
func deferredCleanupCloses(fn, cl *ssa.Function, sp *ssa.Call) bool {
	var closeIn ssa.Instruction
	allInstrs(cl, func(in ssa.Instruction) {
		c, ok := in.(*ssa.Call)
		if !ok || !c.Call.IsInvoke() || c.Call.Method.Name() != "Close" {
			return
		}
		// receiver: load of a free variable bound to the alloc that holds sp
		v := c.Call.Value
		if u, isU := v.(*ssa.UnOp); isU {
			if fv, isFV := u.X.(*ssa.FreeVar); isFV {
				if al, isAl := ir.FreeVarBinding(fv).(*ssa.Alloc); isAl {
					for _, rr := range ir.Referrers(al) {
						if st, isSt := rr.(*ssa.Store); isSt && ir.Strip(st.Val) == ssa.Value(sp) {
							closeIn = in
						}
					}
				}
			}
		}
	})
	if closeIn == nil {
		return false
	}
	// guards
	for _, ii := range ir.Ifs(cl) {
		for _, t := range []bool{true, false} {
			if !ir.OnlyVia(ir.Entry(cl), closeIn, ii.If.Block(), ii.EdgeWhen(t)) {
				continue
			}
			a := ii.Atom
			// allowed: <named result err> != nil, sp != nil
			okG := false
			if a.V == nil && a.Op == token.EQL && !t {
				x, y := a.X, a.Y
				if ir.IsNilConst(x) {
					x, y = y, x
				}
				if ir.IsNilConst(y) {
					if u, isU := x.(*ssa.UnOp); isU {
						if fv, isFV := u.X.(*ssa.FreeVar); isFV {
							if al, isAl := ir.FreeVarBinding(fv).(*ssa.Alloc); isAl && isNamedResult(fn, al) {
								okG = true
							}
						}
					}
				}
			}
			if !okG {
				return false
			}
		}
	}
	return true
}

func isNamedResult(fn *ssa.Function, al *ssa.Alloc) bool {
	res := fn.Signature.Results()
	for i := 0; i < res.Len(); i++ {
		if res.At(i).Name() != "" && res.At(i).Name() == al.Comment {
			// every return loads from it
			for _, ret := range ir.Returns(fn) {
				if u, ok := ret.Results[i].(*ssa.UnOp); ok && u.X == ssa.Value(al) {
					return true
				}
			}
		}
	}
	return false
}

func ruleGoJoin(r *core.Reporter) {
	p := r.P
	// per-seed / per-batch code: reachable (static calls) from the waited goroutines of the pipeline
	seen := map[*ssa.Function]bool{}
	var visit func(fn *ssa.Function)
	visit = func(fn *ssa.Function) {
		if fn == nil || seen[fn] || !core.InModule(fn) {
			return
		}
		seen[fn] = true
		for _, f := range withAnon(fn) {
			seen[f] = true
			allInstrs(f, func(in ssa.Instruction) {
				if c := ir.AsCall(in); c != nil {
					visit(ir.CalleeOf(c))
				}
			})
		}
	}
	for _, g := range waitedGoroutines(p) {
		// only loops bodies matter, but the whole goroutine body is a fine over-approximation
		if strings.Contains(core.FuncName(g), "watchers") {
			continue
		}
		visit(g)
	}
	n := 0
	for fn := range seen {
		allInstrs(fn, func(in ssa.Instruction) {
			g, ok := in.(*ssa.Go)
			if !ok {
				return
			}
			// goroutines started once per component (the long-lived loops) are covered by R-STAGE-STOP
			target := ir.CalleeOf(g.Common())
			if target == nil {
				return
			}
			loopsForever := false
			for _, si := range ir.Selects(target) {
				if ir.Reach([]ir.Pt{ir.After(si.Sel)}, ir.Opts{}).Reached[si.Sel] {
					loopsForever = true
				}
			}
			if loopsForever && !strings.Contains(core.FuncName(fn), "Dispatcher") {
				return
			}
			n++
			r.Analysed(fn, target)
			key := core.FuncName(fn) + "/go " + core.FuncName(target)
			// Add before
			var wgAdd *ssa.Call
			allInstrs(fn, func(x ssa.Instruction) {
				if c, isC := x.(*ssa.Call); isC && ir.IsCallTo(c, "(*sync.WaitGroup).Add") && ir.Reach([]ir.Pt{ir.After(c)}, ir.Opts{}).Reached[g] {
					wgAdd = c
				}
			})
			if wgAdd == nil {
				r.Violated(key, p.InstrPos(g), "goroutine started per seed/batch without WaitGroup.Add: nobody waits for it, it can outlive the seed")
				return
			}
			wgPath := ir.Path(wgAdd.Call.Args[0])
			done := ir.Event{ID: "wg.Done:" + wgPath, Match: func(x ssa.Instruction) bool { return ir.IsCallTo(x, "(*sync.WaitGroup).Done") }}
			if _, bad := ir.PathExists([]ir.Pt{ir.Entry(target)}, ir.Opts{Stop: ir.WithSummaries(done, 2)}, ir.IsExit); bad {
				r.Violated(key, fnPos(p, target), "the goroutine can return without WaitGroup.Done(): the spawner's Wait never returns")
				return
			}
			// spawner waits on every path from the go statement to its returns
			wait := func(x ssa.Instruction) bool {
				return ir.IsPlainCallTo(x, "(*sync.WaitGroup).Wait") && ir.Path(ir.AsCall(x).Args[0]) == wgPath
			}
			if ret, bad := ir.PathExists([]ir.Pt{ir.After(g)}, ir.Opts{Stop: wait}, ir.IsExit); bad {
				r.Violated(key, p.InstrPos(ret), "the spawner can return without waiting for the goroutines it started")
				return
			}
			r.Held(key, 1, "Add before go, Done on every exit, spawner waits before returning")
		})
	}
	r.Floor("per-seed go statements", n, 2)
	// tickers
	nt := 0
	for _, fn := range p.ModFuncs {
		allInstrs(fn, func(in ssa.Instruction) {
			c, ok := in.(*ssa.Call)
			if !ok || !ir.IsCallTo(c, "time.NewTicker") {
				return
			}
			for _, rr := range ir.Referrers(c) {
				if st, isSt := rr.(*ssa.Store); isSt && st.Val == ssa.Value(c) {
					return // ticker handed to an owner object (once-per-process log rotation): its lifetime is the owner's
				}
			}
			nt++
			stop := func(x ssa.Instruction) bool {
				d, isD := x.(*ssa.Defer)
				return isD && ir.IsCallTo(d, "(*time.Ticker).Stop") && ir.SameValue(d.Call.Args[0], c)
			}
			if ret, bad := ir.PathExists([]ir.Pt{ir.After(c)}, ir.Opts{Stop: stop}, ir.IsExit); bad {
				r.Violated(core.FuncName(fn)+"/ticker", p.InstrPos(ret), "a ticker is created without a deferred Stop before a return")
			} else {
				r.Held(core.FuncName(fn)+"/ticker", 1, "defer ticker.Stop()")
			}
		})
	}
	r.Floor("tickers", nt, 3)
}

func ruleBucketBound(r *core.Reporter) {
	p := r.P
	n := 0
	var evict *ssa.Function = p.Func(rel(pkgRL), "(*BucketManager).evictLFU")
	var evictHost *ssa.Function
	var evictFrom ir.Pt
	var evictUntil ssa.Instruction
	for _, fn := range p.FuncsInPkg(rel(pkgRL)) {
		allInstrs(fn, func(in ssa.Instruction) {
			mu, ok := in.(*ssa.MapUpdate)
			if !ok {
				return
			}
			if _, f, okf := fieldOfLoad(mu.Map); !okf || f != "buckets" {
				return
			}
			n++
			r.Analysed(fn)
			key := core.FuncName(fn) + "/insert"
			// the bound test
			var bound *ir.IfInfo
			for _, ii := range ir.Ifs(fn) {
				a := ii.Atom
				// len(buckets) >= max  ≡  max <= len(buckets)
				if a.V == nil && a.Op == token.LEQ {
					if c, isC := a.Y.(*ssa.Call); isC && ir.CallName(c.Common()) == "builtin.len" {
						if _, f, okf := fieldOfLoad(c.Call.Args[0]); okf && f == "buckets" {
							if _, f2, ok2 := fieldOfLoad(a.X); ok2 && f2 == "maxBuckets" {
								iic := ii
								bound = &iic
							}
						}
					}
				}
			}
			if bound == nil {
				r.Violated(key, p.InstrPos(in), "a bucket is inserted without the len(buckets) >= maxBuckets test: the limiter table grows with the number of hosts")
				return
			}
			// every path to the insertion passes the test
			if ir.Reach([]ir.Pt{ir.Entry(fn)}, ir.Opts{Stop: func(x ssa.Instruction) bool { return x == ssa.Instruction(bound.If) }}).Reached[in] {
				r.Violated(key, p.InstrPos(in), "a path inserts a bucket without passing the size test")
				return
			}
			// the size is read in the critical section of the insertion: between len(buckets) and the insert the
			// manager's mutex is never released (a stale "not full yet" lets concurrent misses all insert)
			if lc, isC := bound.Atom.Y.(*ssa.Call); isC {
				unlocks := func(x ssa.Instruction) bool {
					cc := ir.AsCall(x)
					if cc == nil || !(ir.IsCallTo(x, "(*sync.Mutex).Unlock") || ir.IsCallTo(x, "(*sync.RWMutex).Unlock")) {
						return false
					}
					if _, isDefer := x.(*ssa.Defer); isDefer {
						return false
					}
					_, f, okf := ir.FieldOf(cc.Args[0])
					return okf && f == "mu"
				}
				res := ir.Reach([]ir.Pt{ir.After(lc)}, ir.Opts{Stop: unlocks})
				stale := false
				for u := range res.Stopped {
					if ir.Reach([]ir.Pt{ir.After(u)}, ir.Opts{}).Reached[in] {
						stale = true
					}
				}
				if stale {
					r.Violated(key, p.InstrPos(in), "the size test len(buckets) >= maxBuckets is evaluated in an earlier critical section than the insertion (the mutex is released in between): concurrent misses on distinct hosts all see \"not full\", none evicts, all insert — the table ratchets past maxBuckets and never shrinks")
					return
				}
			}
			// on the true side evictLFU is called before the insertion
			start := ir.EdgePt(bound.If.Block(), bound.EdgeWhen(true))
			isEvict := func(x ssa.Instruction) bool {
				c, isC := x.(*ssa.Call)
				if isC && evict != nil && ir.CalleeOf(c.Common()) == evict {
					return true
				}
				// evictLFU folded into this function: the scan ends in delete(buckets, key)
				if evict == nil {
					if cc := ir.AsCall(x); cc != nil && ir.CallName(cc) == "builtin.delete" && len(cc.Args) > 0 {
						if _, f, okf := fieldOfLoad(cc.Args[0]); okf && f == "buckets" {
							return true
						}
					}
				}
				return false
			}
			if evict == nil {
				// remember where the folded eviction lives: the region between the size test and the insertion
				evictHost, evictFrom, evictUntil = fn, start, in
			}
			// (folded form: the deletion is skipped only when the scan chose no key — an empty table)
			noKey := func(b *ssa.BasicBlock, sidx int) bool {
				if evict != nil {
					return true
				}
				for _, ii := range ir.Ifs(fn) {
					if ii.If.Block() == b && ii.Atom.V == nil && ii.Atom.Op == token.EQL {
						if sv, okc := ir.ConstString(ii.Atom.Y); okc && sv == "" && sidx == ii.EdgeWhen(true) {
							return false
						}
					}
				}
				return true
			}
			if ir.Reach([]ir.Pt{start}, ir.Opts{Stop: isEvict, EdgeOK: noKey}).Reached[in] {
				r.Violated(key, p.InstrPos(in), "with the table full a bucket can be inserted without evicting one first")
				return
			}
			r.Held(key, 1, "insertion behind len(buckets) >= maxBuckets → evictLFU()")
		})
	}
	r.Floor("bucket insertions", n, 1)
	inEvict := func(ssa.Instruction) bool { return true }
	if evict == nil && evictHost != nil {
		reg := ir.Reach([]ir.Pt{evictFrom}, ir.Opts{Stop: func(x ssa.Instruction) bool { return x == evictUntil }}).Reached
		inEvict = func(in ssa.Instruction) bool { return reg[in] }
		evict = evictHost
	}
	if evict == nil {
		r.Undecided("evictLFU", "", "anchor not found")
		return
	}
	r.Analysed(evict)
	// delete guarded only by "a key was chosen"
	var del ssa.Instruction
	allInstrs(evict, func(in ssa.Instruction) {
		if c := ir.AsCall(in); c != nil && ir.CallName(c) == "builtin.delete" && inEvict(in) {
			del = in
		}
	})
	if del == nil {
		r.Violated("evictLFU/delete", fnPos(p, evict), "evictLFU deletes nothing")
		return
	}
	// the candidate update inside the range loop is conditional only on the usage comparison
	var rng *ssa.Range
	allInstrs(evict, func(in ssa.Instruction) {
		if rg, ok := in.(*ssa.Range); ok && inEvict(in) {
			if _, isMap := rg.X.Type().Underlying().(*types.Map); isMap {
				rng = rg
			}
		}
	})
	if rng == nil {
		r.Violated("evictLFU/scan", fnPos(p, evict), "evictLFU does not scan the bucket table")
		return
	}
	extra := ""
	for _, ii := range ir.Ifs(evict) {
		if !inEvict(ii.If) {
			continue
		}
		a := ii.Atom
		// loop-control test on next()'s ok
		if a.V != nil {
			if e, ok := a.V.(*ssa.Extract); ok {
				if _, isNext := e.Tuple.(*ssa.Next); isNext {
					continue
				}
			}
		}
		if a.V == nil && a.Op == token.LSS {
			_, f1, ok1 := fieldOfLoad(a.X)
			if ok1 && f1 == "usageCount" {
				continue
			}
		}
		if a.V == nil && a.Op == token.EQL {
			if s, ok := ir.ConstString(a.Y); ok && s == "" {
				continue // lfuKey != ""
			}
		}
		// any other condition inside the function filters candidates or the deletion
		extra = describeAtom(a)
	}
	if extra != "" {
		r.Violated("evictLFU/unfiltered", p.InstrPos(del), "eviction skips some buckets (extra condition %s): when every bucket is skipped nothing is evicted and the table grows past maxBuckets", extra)
	} else {
		r.Held("evictLFU/unfiltered", 1, "every bucket is a candidate; the least used one is deleted whenever the table is non-empty")
	}
}

// traversesWith: `in` is X.Traverse(f) where f is closeFn itself or a closure that calls it on its argument;
// when root is non-nil, X must be root.
func traversesWith(in ssa.Instruction, root ssa.Value, closeFn *ssa.Function) bool {
	if closeFn == nil || !ir.IsPlainCallTo(in, "(*"+pkgModels+".Item).Traverse") {
		return false
	}
	c := ir.AsCall(in)
	if len(c.Args) != 2 || (root != nil && !ir.SameValue(c.Args[0], root)) {
		return false
	}
	var f *ssa.Function
	switch x := ir.Strip(c.Args[1]).(type) {
	case *ssa.Function:
		f = x
	case *ssa.MakeClosure:
		f, _ = x.Fn.(*ssa.Function)
	}
	if f == nil {
		return false
	}
	if f == closeFn {
		return true
	}
	ok := false
	allInstrs(f, func(y ssa.Instruction) {
		if cc, isC := y.(*ssa.Call); isC && ir.CalleeOf(cc.Common()) == closeFn && len(f.Params) > 0 && len(cc.Call.Args) > 0 && ir.SameValue(cc.Call.Args[0], f.Params[len(f.Params)-1]) {
			ok = true
		}
	})
	return ok
}

func init() {
	register(&core.Rule{ID: "R-BODY-DETACH", Props: []string{"C16"}, Doc: "a spooled body is only detached from its URL after it was closed: every `(*URL).SetBody(nil)` in module code is preceded on all paths by `Close()` on that URL's `GetBody()`, and the field URL.body is written by SetBody alone — the spooled temp file is removed by Close() only, and the post-processor's closeBody/closeBodies close only bodies that are still attached, so a body dropped with SetBody(nil) stays on disk for ever", Run: ruleBodyDetach})
	register(&core.Rule{ID: "R-SEM-RELEASE", Props: []string{"C01", "C16", "C03"}, Doc: "the per-item fetch goroutine of archiver.archive gives its --max-concurrent-assets slot back on every exit: the receive from the semaphore channel (the channel archive() sends on before `go`) is deferred at the top of the goroutine, or every path from its entry to a return passes exactly one such receive; a leaked slot per retry-exhausted asset blocks the next `guard <-` for ever — the seed never leaves the archiver and Stop() hangs", Run: ruleSemRelease})
}

func ruleBodyDetach(r *core.Reporter) {
	p := r.P
	setBody := p.Func(rel(pkgModels), "(*URL).SetBody")
	if setBody == nil {
		r.Undecided("models.URL.SetBody", "", "anchor not found")
		return
	}
	// who-may-write on URL.body
	for _, fn := range p.ModFuncs {
		if !core.InModule(fn) || fn == setBody {
			continue
		}
		allInstrs(fn, func(in ssa.Instruction) {
			if st, ok := in.(*ssa.Store); ok {
				if tn, f, okf := ir.FieldOf(st.Addr); okf && tn == tURL && f == "body" {
					if _, fresh := st.Addr.(*ssa.FieldAddr).X.(*ssa.Alloc); !fresh {
						r.Violated(core.FuncName(fn)+"/body-store", p.InstrPos(in), "URL.body is written outside SetBody")
					}
				}
			}
		})
	}
	sites := 0
	for _, fn := range p.ModFuncs {
		if !core.InModule(fn) {
			continue
		}
		fn := fn
		allInstrs(fn, func(in ssa.Instruction) {
			cc := ir.AsCall(in)
			if cc == nil || cc.StaticCallee() != setBody || len(cc.Args) != 2 || !ir.IsNilConst(cc.Args[1]) {
				return
			}
			sites++
			r.Analysed(fn)
			want := ir.Path(cc.Args[0]) + ".GetBody()"
			closes := func(x ssa.Instruction) bool {
				xc := ir.AsCall(x)
				if xc == nil || !xc.IsInvoke() || xc.Method.Name() != "Close" {
					return false
				}
				return ir.Path(xc.Value) == want
			}
			key := fmt.Sprintf("%s/detach#%d", core.FuncName(fn), sites)
			if ir.Reach([]ir.Pt{ir.Entry(fn)}, ir.Opts{Stop: closes}).Reached[in] {
				r.Violated(key, p.InstrPos(in), "the body is detached with SetBody(nil) on a path on which it was not closed: the spooled temp file (zeno-*) is only removed by Close(), and nothing can reach it any more — one file left in the temp dir per such document")
			} else {
				r.Held(key, 1, "SetBody(nil) only after %s.Close()", want)
			}
		})
	}
	if sites == 0 {
		r.Held("module/no-detach", 0, "no SetBody(nil) in module code")
	}
}

func ruleSemRelease(r *core.Reporter) {
	p := r.P
	arch := p.Func(rel(pkgArch), "archive")
	if arch == nil {
		r.Undecided("archiver.archive", "", "anchor not found")
		return
	}
	r.Analysed(arch)
	// semaphore channels: `chan struct{}` made in archive and sent on outside a select
	var sems []ssa.Value
	allInstrs(arch, func(in ssa.Instruction) {
		snd, ok := in.(*ssa.Send)
		if !ok {
			return
		}
		switch x := ir.Strip(snd.Chan).(type) {
		case *ssa.MakeChan:
			sems = append(sems, x)
		case *ssa.UnOp:
			// captured by the goroutine's closure: the channel lives in a cell
			if a, isA := x.X.(*ssa.Alloc); isA && x.Op == token.MUL {
				sems = append(sems, a)
			}
		}
	})
	if len(sems) == 0 {
		r.Held("archive/no-semaphore", 0, "archive() bounds its goroutines in another way")
		return
	}
	for _, sem := range sems {
		// goroutines started by archive that capture the channel
		n := 0
		allInstrs(arch, func(in ssa.Instruction) {
			g, ok := in.(*ssa.Go)
			if !ok {
				return
			}
			mcl, ok := g.Call.Value.(*ssa.MakeClosure)
			if !ok {
				return
			}
			cf := mcl.Fn.(*ssa.Function)
			idx := -1
			for i, b := range mcl.Bindings {
				if ir.Strip(b) == sem {
					idx = i
				}
			}
			if idx < 0 {
				return
			}
			n++
			r.Analysed(cf)
			fv := cf.FreeVars[idx]
			isRecvOf := func(f *ssa.Function, v ssa.Value) func(ssa.Instruction) bool {
				return func(x ssa.Instruction) bool {
					u, ok := x.(*ssa.UnOp)
					if !ok || u.Op != token.ARROW {
						return false
					}
					ch := ir.Strip(u.X)
					if ch == v {
						return true
					}
					// the free variable is the cell: the channel is loaded from it
					if l, isL := ch.(*ssa.UnOp); isL && l.Op == token.MUL && l.X == v {
						return true
					}
					return false
				}
			}
			release := isRecvOf(cf, fv)
			// deferred release: a Defer of a closure that receives from the same channel
			deferred := func(x ssa.Instruction) bool {
				d, ok := x.(*ssa.Defer)
				if !ok {
					return false
				}
				dm, ok := d.Call.Value.(*ssa.MakeClosure)
				if !ok {
					return false
				}
				df := dm.Fn.(*ssa.Function)
				for i, b := range dm.Bindings {
					if ir.Strip(b) == ssa.Value(fv) {
						found := false
						allInstrs(df, func(y ssa.Instruction) {
							if isRecvOf(df, df.FreeVars[i])(y) {
								found = true
							}
						})
						if found {
							return true
						}
					}
				}
				return false
			}
			key := core.FuncName(cf) + "/slot"
			stop := func(x ssa.Instruction) bool { return release(x) || deferred(x) }
			if ret, leak := ir.PathExists([]ir.Pt{ir.Entry(cf)}, ir.Opts{Stop: stop}, ir.IsExit); leak {
				r.Violated(key, p.InstrPos(ret), "the fetch goroutine can return without giving its concurrency slot back (no receive from the semaphore on that path, none deferred): after --max-concurrent-assets such exits the next send on the semaphore in archive() blocks for ever")
				return
			}
			// not twice: after an explicit release no second one is reachable
			twice := false
			allInstrs(cf, func(x ssa.Instruction) {
				if release(x) {
					if _, again := ir.PathExists([]ir.Pt{ir.After(x)}, ir.Opts{}, func(y ssa.Instruction) bool { return release(y) && y != x }); again {
						twice = true
					}
				}
			})
			if twice {
				r.Violated(key, fnPos(p, cf), "a path of the fetch goroutine receives from the semaphore twice: it steals the slot of another in-flight item")
				return
			}
			r.Held(key, 1, "every exit of the fetch goroutine gives the slot back exactly once")
		})
		if n == 0 {
			r.Held("archive/semaphore-not-captured", 0, "no goroutine of archive() captures the semaphore channel")
		}
	}
}
