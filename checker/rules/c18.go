package rules

import (
	"fmt"
	"go/constant"
	"go/token"
	"go/types"
	"reflect"
	"sort"
	"strings"

	"golang.org/x/tools/go/ssa"

	"zenocheck/core"
	"zenocheck/ir"
)

func init() {
	PropertyText["C18"] = [2]string{
		"Decides: the refusal of checkThreshold depends on the free space through exactly one comparison free < T whose threshold T has no data or control dependence on free, refusing on its true side — so for fixed volume and setting the accept set is upward closed in free, for all inputs, by shape (R-DISK-MONOTONE); T is minSpaceRequired·GiB when the operator gave a value, else 50 GiB·total/256 GiB for volumes ≤ 256 GiB, else 50 GiB, with the exact constants (R-DISK-FORMULA); CheckDiskUsage passes statfs total/available and the configured value in the right slots, start-up refuses on its error before any stage starts, and the watcher pauses exactly on (error ∧ not paused) and resumes exactly on (no error ∧ paused), keeping its flag in step (R-DISK-USE). The operator's value reaches the check unchanged: float64 flag, float64 config field bound to it, no rewrite of the key (R-DISK-SETTING). The watcher's ticker arm is evaluated exhaustively over (check result, paused) with helpers inlined and must equal the specification table (R-DISK-USE/table).",
		"Not decided: float64 rounding at the boundary (uint64(threshold) truncation, 2^53 precision) — a numeric question; statfs semantics.",
	}
	register(&core.Rule{ID: "R-DISK-MONOTONE", Props: []string{"C18"}, Doc: "checkThreshold: exactly one branch condition depends on `free`, it is free < T with T independent of free, errors are returned only on its true side and nil only on its false side", Run: ruleDiskMonotone})
	register(&core.Rule{ID: "R-DISK-FORMULA", Props: []string{"C18"}, Doc: "threshold = minSpaceRequired·2^30 if minSpaceRequired > 0; else 50·2^30·(total / 256·2^30) if total ≤ 256·2^30; else 50·2^30 (constants compared exactly)", Run: ruleDiskFormula})
	register(&core.Rule{ID: "R-DISK-SETTING", Props: []string{"C18"}, Doc: "the operator's value reaches the check unchanged: --min-space-required is registered as a float64 flag, Config.MinSpaceRequired is a float64 bound to that key, and nothing in the module rewrites the key (viper.Set) or the field except from a registered float64 alias flag", Run: ruleDiskSetting})
	register(&core.Rule{ID: "R-DISK-USE", Props: []string{"C18"}, Doc: "CheckDiskUsage(total=Blocks·Bsize, free=Bavail·Bsize, config.MinSpaceRequired); startPipeline exits on its error before starting any stage; WatchDiskSpace calls Pause exactly when err!=nil && !paused and Resume exactly when err==nil && paused, updating the flag on those paths", Run: ruleDiskUse})
}

const gib = float64(1 << 30)

// dependsOn: value v has a data dependence on `root` (through arithmetic, conversions, phis and call arguments).
func dependsOn(v, root ssa.Value, seen map[ssa.Value]bool) bool {
	if v == nil || seen[v] {
		return false
	}
	seen[v] = true
	if v == root {
		return true
	}
	if in, ok := v.(ssa.Instruction); ok {
		for _, op := range in.Operands(nil) {
			if op != nil && *op != nil && dependsOn(*op, root, seen) {
				return true
			}
		}
	}
	return false
}

func ruleDiskMonotone(r *core.Reporter) {
	p := r.P
	fn := p.Func(rel(pkgWatch), "checkThreshold")
	if fn == nil || len(fn.Params) != 3 {
		r.Undecided("watchers.checkThreshold", "", "anchor not found or signature changed")
		return
	}
	r.Analysed(fn)
	free := fn.Params[1]
	var dep []ir.IfInfo
	for _, ii := range ir.Ifs(fn) {
		if dependsOn(ii.If.Cond, free, map[ssa.Value]bool{}) {
			dep = append(dep, ii)
		}
	}
	if len(dep) != 1 {
		pos := fnPos(p, fn)
		if len(dep) > 1 {
			pos = p.InstrPos(dep[0].If)
		}
		r.Violated("checkThreshold/single-comparison", pos, "%d branch conditions depend on the free space, expected exactly one (free < threshold): an extra test on `free` (fast path, second bound) can accept below the threshold or break monotonicity", len(dep))
		return
	}
	cmp := dep[0]
	a := cmp.Atom
	// free < T  (atom LSS with X = free) — or T > free normalised the same way
	okShape := a.V == nil && a.Op == token.LSS && ir.Strip(a.X) == ssa.Value(free) && !dependsOn(a.Y, free, map[ssa.Value]bool{})
	// `free >= T` (T <= free) is the same comparison negated: accept on its true side
	refuseWhen := true
	if !okShape && a.V == nil && a.Op == token.LEQ && ir.Strip(a.Y) == ssa.Value(free) && !dependsOn(a.X, free, map[ssa.Value]bool{}) {
		okShape, refuseWhen = true, false
	}
	// control dependence of T on free: T's defining phis must not be selected by a free-dependent branch (already excluded: only one dependent If)
	if !okShape {
		// free <= T-1 etc. are not accepted: the property says "below the threshold"
		r.Violated("checkThreshold/single-comparison", p.InstrPos(cmp.If), "the comparison on the free space is not `free < threshold` with a threshold independent of free (got %s): e.g. `<=` refuses at exactly the threshold", describeAtom(a))
		return
	}
	r.Held("checkThreshold/single-comparison", 1, "the only free-dependent condition is free < T, T independent of free")
	// returns
	okRet := true
	for _, ret := range ir.Returns(fn) {
		v := ir.RetVal(ret, 0)
		if ir.IsNilConst(v) {
			if !ir.OnlyVia(ir.Entry(fn), ret, cmp.If.Block(), cmp.EdgeWhen(!refuseWhen)) {
				okRet = false
				r.Violated("checkThreshold/accept-side", p.InstrPos(ret), "nil (accept) is returned on a path that did not establish free >= threshold")
			}
		} else {
			if !ir.OnlyVia(ir.Entry(fn), ret, cmp.If.Block(), cmp.EdgeWhen(refuseWhen)) {
				okRet = false
				r.Violated("checkThreshold/refuse-side", p.InstrPos(ret), "an error (refuse) is returned on a path that did not establish free < threshold")
			}
		}
	}
	// both sides return
	if okRet {
		r.Held("checkThreshold/sides", len(ir.Returns(fn)), "refuse exactly on free < T, accept exactly otherwise: accept set is upward closed in free")
	}
}

func ruleDiskFormula(r *core.Reporter) {
	p := r.P
	fn := p.Func(rel(pkgWatch), "checkThreshold")
	if fn == nil || len(fn.Params) != 3 {
		r.Undecided("watchers.checkThreshold", "", "anchor not found")
		return
	}
	total, minSpace := fn.Params[0], fn.Params[2]
	// locate T: Y operand of the free comparison
	var T ssa.Value
	for _, ii := range ir.Ifs(fn) {
		if ii.Atom.V == nil && ii.Atom.Op == token.LSS && ir.Strip(ii.Atom.X) == ssa.Value(fn.Params[1]) {
			T = ir.Strip(ii.Atom.Y)
		}
		if ii.Atom.V == nil && ii.Atom.Op == token.LEQ && ir.Strip(ii.Atom.Y) == ssa.Value(fn.Params[1]) {
			T = ir.Strip(ii.Atom.X) // free >= T
		}
	}
	if T == nil {
		r.Undecided("checkThreshold/threshold", fnPos(p, fn), "comparison free < T not found")
		return
	}
	var leaves []ssa.Value
	phiLeaves(T, map[ssa.Value]bool{}, &leaves)
	var opLeaf, scaledLeaf, constLeaf ssa.Value
	viaMin := false
	want := 3
	for _, l := range leaves {
		switch x := l.(type) {
		case *ssa.Call:
			// min(scaled, flat): for total ≤ 256 GiB the ratio is ≤ 1 and the minimum is the scaled value,
			// above it the ratio is ≥ 1 and the minimum is the flat 50 GiB — the same piecewise function
			if (ir.IsCallTo(x, "math.Min") || ir.CallName(x.Common()) == "builtin.min") && len(x.Call.Args) == 2 {
				for _, a := range x.Call.Args {
					a = ir.Strip(a)
					if _, isC := a.(*ssa.Const); isC {
						constLeaf = a
					} else if dependsOn(a, total, map[ssa.Value]bool{}) {
						scaledLeaf = a
					}
				}
				viaMin, want = true, 2
			}
		case *ssa.BinOp:
			if x.Op == token.MUL && dependsOn(x, minSpace, map[ssa.Value]bool{}) {
				opLeaf = x
			} else if dependsOn(x, total, map[ssa.Value]bool{}) {
				scaledLeaf = x
			}
		case *ssa.Const:
			constLeaf = x
		}
	}
	isMul := func(v ssa.Value, isA func(ssa.Value) bool, c float64) bool {
		b, ok := v.(*ssa.BinOp)
		if !ok || b.Op != token.MUL {
			return false
		}
		if f, okc := ir.ConstFloat(b.Y); okc && f == c && isA(b.X) {
			return true
		}
		if f, okc := ir.ConstFloat(b.X); okc && f == c && isA(b.Y) {
			return true
		}
		return false
	}
	stripIs := func(want ssa.Value) func(ssa.Value) bool {
		return func(v ssa.Value) bool { return ir.Strip(v) == want }
	}
	// (a) operator value
	okA := opLeaf != nil && isMul(opLeaf, stripIs(minSpace), gib)
	if okA {
		if in, isIn := opLeaf.(ssa.Instruction); isIn {
			_, g := ir.GuardedBy(fn, ir.Entry(fn), in, true, func(a ir.Atom) bool {
				// minSpace > 0 ≡ 0 < minSpace
				if a.V != nil || a.Op != token.LSS {
					return false
				}
				z, okz := ir.ConstFloat(a.X)
				return okz && z == 0 && ir.Strip(a.Y) == ssa.Value(minSpace)
			})
			okA = g
		}
	}
	if okA {
		r.Held("checkThreshold/operator-value", 1, "T = minSpaceRequired·2^30 when minSpaceRequired > 0")
	} else {
		r.Violated("checkThreshold/operator-value", fnPos(p, fn), "with --min-space-required given, the threshold is not exactly that many GiB (minSpaceRequired·2^30 under minSpaceRequired > 0)")
	}
	// (b) scaled default
	clampInside := false
	okB := false
	if scaledLeaf != nil {
		okB = isMul(scaledLeaf, func(v ssa.Value) bool {
			q, ok := v.(*ssa.BinOp)
			if !ok || q.Op != token.QUO {
				return false
			}
			d, okd := ir.ConstFloat(q.Y)
			if !okd || d != 256*gib {
				return false
			}
			if ir.Strip(q.X) == ssa.Value(total) {
				return true
			}
			// 50 GiB · min(total, 256 GiB) / 256 GiB: the clamp makes the ratio exactly 1 above the limit, so the
			// same expression also yields the flat 50 GiB there
			if mc, isC := ir.Strip(q.X).(*ssa.Call); isC && ir.CallName(mc.Common()) == "builtin.min" && len(mc.Call.Args) == 2 {
				hasTotal, hasLimit := false, false
				for _, a := range mc.Call.Args {
					if ir.Strip(a) == ssa.Value(total) {
						hasTotal = true
					}
					if c, okc := ir.ConstInt(a); okc && float64(c) == 256*gib {
						hasLimit = true
					}
				}
				if hasTotal && hasLimit {
					clampInside = true
					return true
				}
			}
			return false
		}, 50*gib)
		if !okB {
			// (50GiB * total) / 256GiB also fine
			if q, ok := scaledLeaf.(*ssa.BinOp); ok && q.Op == token.QUO {
				if d, okd := ir.ConstFloat(q.Y); okd && d == 256*gib && isMul(q.X, stripIs(total), 50*gib) {
					okB = true
				}
			}
		}
		if okB && !viaMin && !clampInside {
			if in, isIn := scaledLeaf.(ssa.Instruction); isIn {
				_, g := ir.GuardedBy(fn, ir.Entry(fn), in, true, func(a ir.Atom) bool {
					if a.V != nil || a.Op != token.LEQ {
						return false
					}
					c, okc := ir.ConstFloat(a.Y)
					return okc && c == 256*gib && ir.Strip(a.X) == ssa.Value(total)
				})
				if !g {
					// the else side of `total > 256 GiB`
					_, g = ir.GuardedBy(fn, ir.Entry(fn), in, false, func(a ir.Atom) bool {
						if a.V != nil || a.Op != token.LSS {
							return false
						}
						c, okc := ir.ConstFloat(a.X)
						return okc && c == 256*gib && ir.Strip(a.Y) == ssa.Value(total)
					})
				}
				okB = g
			}
		}
	}
	if okB {
		r.Held("checkThreshold/scaled-default", 1, "T = 50 GiB · total / 256 GiB when total ≤ 256 GiB")
	} else {
		r.Violated("checkThreshold/scaled-default", fnPos(p, fn), "for volumes of at most 256 GiB the default threshold is not 50 GiB scaled linearly by total/256 GiB (or the 256 GiB boundary test changed)")
	}
	// (c) flat default
	if clampInside && okB {
		want = 2
		r.Held("checkThreshold/flat-default", 1, "T = 50 GiB for larger volumes (the size is clamped to 256 GiB inside the scaled formula)")
	} else if f, ok := ir.ConstFloat(constLeaf); constLeaf != nil && ok && f == 50*gib {
		r.Held("checkThreshold/flat-default", 1, "T = 50 GiB for larger volumes")
	} else {
		r.Violated("checkThreshold/flat-default", fnPos(p, fn), "the default threshold for volumes above 256 GiB is not 50 GiB")
	}
	if len(leaves) != want {
		r.Violated("checkThreshold/cases", fnPos(p, fn), "the threshold has %d defining cases, expected %d", len(leaves), want)
	}
}

func ruleDiskUse(r *core.Reporter) {
	p := r.P
	cdu := p.Func(rel(pkgWatch), "CheckDiskUsage")
	ct := p.Func(rel(pkgWatch), "checkThreshold")
	wd := p.Func(rel(pkgWatch), "WatchDiskSpace")
	sp := p.Func(rel(pkgCtl), "startPipeline")
	if cdu == nil || ct == nil || wd == nil || sp == nil {
		r.Undecided("watchers/anchors", "", "CheckDiskUsage/checkThreshold/WatchDiskSpace/startPipeline not all found")
		return
	}
	r.Analysed(cdu, wd, sp)
	// CheckDiskUsage argument slots
	var call *ssa.Call
	allInstrs(cdu, func(in ssa.Instruction) {
		if c, ok := in.(*ssa.Call); ok && ir.CalleeOf(c.Common()) == ct {
			call = c
		}
	})
	if call == nil {
		r.Violated("CheckDiskUsage/args", fnPos(p, cdu), "CheckDiskUsage no longer decides through checkThreshold")
	} else {
		// through an inlined helper (`total, free, err := volumeSpace(path)`) the sizes arrive as phi(0 on the helper's
		// error exit, the product): the product is what counts, provided the call is never reached with the constant
		argPath := func(v ssa.Value) string {
			ph, isPhi := v.(*ssa.Phi)
			if !isPhi {
				return ir.Path(v)
			}
			var leaves, real []ssa.Value
			phiLeaves(ph, map[ssa.Value]bool{}, &leaves)
			for _, l := range leaves {
				if _, isC := l.(*ssa.Const); !isC {
					real = append(real, l)
				}
			}
			if len(real) != 1 {
				return ir.Path(v)
			}
			constAtCall := false
			ir.Reach([]ir.Pt{ir.Entry(cdu)}, ir.Opts{Observe: func(in ssa.Instruction, phiVal func(*ssa.Phi) (ssa.Value, bool)) {
				if in == ssa.Instruction(call) {
					if pv, known := phiVal(ph); known {
						if _, isC := pv.(*ssa.Const); isC {
							constAtCall = true
						}
					}
				}
			}})
			if constAtCall {
				return ir.Path(v) + " /* reaches the call as a constant on some path */"
			}
			return ir.Path(real[0])
		}
		a0, a1, a2 := argPath(call.Call.Args[0]), argPath(call.Call.Args[1]), ir.Path(call.Call.Args[2])
		ok := strings.Contains(a0, ".Blocks") && strings.Contains(a0, ".Bsize") && strings.Contains(a1, ".Bavail") && strings.Contains(a1, ".Bsize") && a2 == "config.Get().MinSpaceRequired"
		// result returned unchanged
		retOK := false
		for _, ret := range ir.Returns(cdu) {
			if ir.RetVal(ret, 0) == ssa.Value(call) {
				retOK = true
			}
		}
		if ok && retOK {
			r.Held("CheckDiskUsage/args", 3, "checkThreshold(Blocks·Bsize, Bavail·Bsize, config.MinSpaceRequired), verdict returned unchanged")
		} else {
			r.Violated("CheckDiskUsage/args", p.InstrPos(call), "checkThreshold receives (%s, %s, %s): expected (total=Blocks·Bsize, free=Bavail·Bsize, config.MinSpaceRequired) and its verdict returned as is", a0, a1, a2)
		}
	}
	// start-up
	var startCheck *ssa.Call
	allInstrs(sp, func(in ssa.Instruction) {
		if c, ok := in.(*ssa.Call); ok && ir.CalleeOf(c.Common()) == cdu {
			startCheck = c
		}
	})
	if startCheck == nil {
		r.Violated("startPipeline/disk-check", fnPos(p, sp), "start-up does not check the disk space")
	} else {
		// every stage Start is reachable only via err == nil of this check; the err != nil side exits
		var bad ssa.Instruction
		allInstrs(sp, func(in ssa.Instruction) {
			c, ok := in.(*ssa.Call)
			if !ok {
				return
			}
			f := ir.CalleeOf(c.Common())
			if f == nil || f.Name() != "Start" || !core.InModule(f) {
				return
			}
			if _, g := ir.GuardedBy(sp, ir.Entry(sp), c, true, func(a ir.Atom) bool {
				return a.V == nil && a.Op == token.EQL && ((a.X == ssa.Value(startCheck) && ir.IsNilConst(a.Y)) || (a.Y == ssa.Value(startCheck) && ir.IsNilConst(a.X)))
			}); !g {
				bad = in
			}
		})
		if bad != nil {
			r.Violated("startPipeline/disk-check", p.InstrPos(bad), "a pipeline component can be started although the start-up disk check failed (or before it ran)")
		} else {
			r.Held("startPipeline/disk-check", 1, "every Start is behind CheckDiskUsage()==nil")
		}
	}
	// watcher: the ticker arm is evaluated exhaustively over (disk check result, paused flag)
	ruleDiskWatcherTable(r, wd, cdu)
}

// ruleDiskWatcherTable interprets the ticker arm of WatchDiskSpace (helpers of the package inlined) for every
// combination of {check failed, check passed} × {not paused, paused} and compares the calls made and the new flag
// value with the specification table. Exhaustive over a finite domain: no sampling.
func ruleDiskWatcherTable(r *core.Reporter, wd, cdu *ssa.Function) {
	p := r.P
	var arm *ir.SelectArm
	var selBlock *ssa.BasicBlock
	for _, si := range ir.Selects(wd) {
		for k := range si.Arms {
			a := &si.Arms[k]
			if a.State != nil && a.State.Dir == types.RecvOnly && isTickerField(a.State.Chan) {
				arm, selBlock = a, si.Sel.Block()
			}
		}
	}
	if arm == nil || arm.Body == nil {
		r.Violated("WatchDiskSpace/tick", fnPos(p, wd), "the disk watcher has no periodic (ticker) arm")
		return
	}
	// inputs: every call of CheckDiskUsage in the package's closure, every bool phi of the watcher
	var checks []ssa.Value
	for _, f := range p.FuncsInPkg(rel(pkgWatch)) {
		for _, ff := range withAnon(f) {
			if ff == cdu {
				continue
			}
			allInstrs(ff, func(in ssa.Instruction) {
				if c, ok := in.(*ssa.Call); ok && ir.CalleeOf(c.Common()) == cdu {
					checks = append(checks, c)
				}
			})
		}
	}
	var flags []*ssa.Phi
	// state variables live outside the tick arm: phis computed inside the arm (e.g. the result of an inlined
	// helper) are intermediate values, not state
	inArm := ir.Reach([]ir.Pt{{B: arm.Body, I: 0}}, ir.Opts{Stop: func(in ssa.Instruction) bool { return in.Block() == selBlock }}).Reached
	allInstrs(wd, func(in ssa.Instruction) {
		if ph, ok := in.(*ssa.Phi); ok && !inArm[in] {
			if b, isB := ph.Type().Underlying().(*types.Basic); isB && b.Kind() == types.Bool {
				flags = append(flags, ph)
			}
		}
	})
	if len(checks) == 0 || len(flags) == 0 {
		r.Violated("WatchDiskSpace/tick", fnPos(p, wd), "the disk watcher no longer checks the disk on each tick or keeps no paused state (checks=%d, bool state variables=%d)", len(checks), len(flags))
		return
	}
	effect := func(c ssa.CallInstruction) string {
		switch {
		case ir.IsCallTo(c, pkgPause+".Pause"):
			return "Pause"
		case ir.IsCallTo(c, pkgPause+".Resume"):
			return "Resume"
		}
		return ""
	}
	flagBlocks := map[*ssa.BasicBlock]bool{selBlock: true}
	for _, f := range flags {
		flagBlocks[f.Block()] = true
	}
	type row struct {
		errNil, paused bool
		want           []string
		wantFlag       bool
		mayReturn      bool
		what           string
	}
	rows := []row{
		{false, false, []string{"Pause"}, true, false, "low disk, not paused by the watcher"},
		{false, true, nil, true, false, "low disk, already paused by the watcher"},
		{true, false, nil, false, false, "disk fine, not paused"},
		{true, true, []string{"Resume"}, false, true, "disk fine again, paused by the watcher"},
	}
	// try each bool phi as the paused flag; all others are universally quantified
	var lastProblems []string
	for _, flag := range flags {
		var problems []string
		var others []*ssa.Phi
		for _, f := range flags {
			if f != flag {
				others = append(others, f)
			}
		}
		for _, rw := range rows {
			for mask := 0; mask < 1<<len(others); mask++ {
				env := map[ssa.Value]ir.AVal{flag: ir.ABool(rw.paused)}
				for _, c := range checks {
					env[c] = ir.ANil(rw.errNil)
				}
				for k, of := range others {
					env[of] = ir.ABool(mask&(1<<k) != 0)
				}
				res := ir.AbsRun(ir.Pt{B: arm.Body, I: 0}, ir.AbsOpts{
					Env:    env,
					Effect: effect,
					StopAt: func(from, to *ssa.BasicBlock) bool { return flagBlocks[to] },
					Inline: func(f *ssa.Function) bool { return f != cdu && f.Pkg != nil && f.Pkg.Pkg.Path() == pkgWatch },
				})
				if !res.OK {
					at := ""
					if res.At != nil {
						at = " at " + p.InstrPos(res.At)
					}
					problems = append(problems, fmt.Sprintf("undecided:%s: whether the watcher pauses/resumes depends on more than (disk check result, its paused flag)%s [%s]", rw.what, at, res.Why))
					continue
				}
				if strings.Join(res.Effects, ",") != strings.Join(rw.want, ",") {
					problems = append(problems, fmt.Sprintf("%s: the watcher calls [%s], expected [%s]", rw.what, strings.Join(res.Effects, ","), strings.Join(rw.want, ",")))
					continue
				}
				if res.Returned {
					if !rw.mayReturn {
						problems = append(problems, fmt.Sprintf("%s: the watcher goroutine returns", rw.what))
					}
					continue
				}
				nf := res.PhiIn(flag)
				if flag.Block() != res.To {
					nf = res.Vals[flag]
				}
				if nf.C == nil || constant.BoolVal(nf.C) != rw.wantFlag {
					problems = append(problems, fmt.Sprintf("%s: afterwards the watcher's paused state is not %v — the next low-disk (or recovery) episode is mishandled", rw.what, rw.wantFlag))
				}
			}
		}
		if len(problems) == 0 {
			r.Held("WatchDiskSpace/table", 4, "for all (check result, paused): Pause exactly on (low, ¬paused) → paused; Resume exactly on (ok, paused) → ¬paused; otherwise no call and state kept (ticker arm interpreted with package helpers inlined, %d other state bits quantified)", len(others))
			return
		}
		lastProblems = problems
	}
	sort.Strings(lastProblems)
	und := true
	for _, pr := range lastProblems {
		if !strings.HasPrefix(pr, "undecided:") {
			und = false
		}
	}
	if und {
		r.Undecided("WatchDiskSpace/table", fnPos(p, wd), "%s", strings.Join(lastProblems, "; "))
	} else {
		r.Violated("WatchDiskSpace/table", fnPos(p, wd), "%s", strings.Join(lastProblems, "; "))
	}
}

// registeredFlags: names given to (*pflag.FlagSet) definers anywhere in the module, with the definer name (Float64, Int, …).
func registeredFlags(p *core.Program) map[string]string {
	out := map[string]string{}
	for _, fn := range p.ModFuncs {
		allInstrs(fn, func(in ssa.Instruction) {
			c, ok := in.(*ssa.Call)
			if !ok {
				return
			}
			cal := ir.CalleeOf(c.Common())
			if cal == nil || cal.Pkg == nil || cal.Pkg.Pkg.Path() != "github.com/spf13/pflag" || cal.Signature.Recv() == nil || len(c.Call.Args) < 3 {
				return
			}
			if name, okc := ir.ConstString(c.Call.Args[1]); okc {
				switch cal.Name() {
				case "MarkDeprecated", "MarkHidden", "Lookup", "Set", "Changed":
				default:
					out[name] = cal.Name()
				}
			}
		})
	}
	return out
}

func ruleDiskSetting(r *core.Reporter) {
	p := r.P
	const key = "min-space-required"
	flags := registeredFlags(p)
	if !r.Floor("registered command-line flags", len(flags), 20) {
		return
	}
	if def, ok := flags[key]; !ok {
		r.Violated("flag/"+key, "", "the --%s flag is not registered", key)
	} else if def != "Float64" {
		r.Violated("flag/"+key, "", "--%s is registered with %s: fractional GiB settings are lost before they reach the threshold", key, def)
	} else {
		r.Held("flag/"+key, 1, "registered as a float64 flag")
	}
	// the Config field is bound to that key and is float64
	bound := false
	if cfg := p.SSA.ImportedPackage(pkgConfig); cfg != nil {
		if tn, ok := cfg.Members["Config"].(*ssa.Type); ok {
			if st, okS := tn.Type().Underlying().(*types.Struct); okS {
				for i := 0; i < st.NumFields(); i++ {
					if st.Field(i).Name() == "MinSpaceRequired" {
						tag := reflect.StructTag(st.Tag(i)).Get("mapstructure")
						b, _ := st.Field(i).Type().Underlying().(*types.Basic)
						bound = tag == key && b != nil && b.Kind() == types.Float64
					}
				}
			}
		}
	}
	if bound {
		r.Held("config/binding", 1, "Config.MinSpaceRequired is a float64 bound to %q", key)
	} else {
		r.Violated("config/binding", "", "Config.MinSpaceRequired is not a float64 bound to %q", key)
	}
	// nobody rewrites the setting between the command line and the check
	n := 0
	for _, fn := range p.ModFuncs {
		allInstrs(fn, func(in ssa.Instruction) {
			if st, ok := in.(*ssa.Store); ok {
				if tn, f, okf := ir.FieldOf(st.Addr); okf && tn == pkgConfig+".Config" && f == "MinSpaceRequired" {
					n++
					r.Violated("writers/"+core.FuncName(fn), p.InstrPos(in), "Config.MinSpaceRequired is overwritten after the command line was read")
				}
			}
			c, ok := in.(*ssa.Call)
			if !ok || !ir.IsCallTo(c, "github.com/spf13/viper.Set") {
				return
			}
			if k, okc := ir.ConstString(c.Call.Args[0]); !okc || k != key {
				return
			}
			n++
			// allowed: copying a registered alias flag's value
			src := ""
			if mi, isMI := c.Call.Args[1].(*ssa.MakeInterface); isMI {
				if g, isC := ir.Strip(mi.X).(*ssa.Call); isC {
					if cal := ir.CalleeOf(g.Common()); cal != nil && cal.Pkg != nil && cal.Pkg.Pkg.Path() == "github.com/spf13/viper" && len(g.Call.Args) == 1 {
						src, _ = ir.ConstString(g.Call.Args[0])
					}
				}
			}
			if def, isFlag := flags[src]; src != "" && isFlag && def == "Float64" {
				r.HeldAt("writers/"+core.FuncName(fn), p.InstrPos(in), 1, "copies the registered float64 alias flag --%s", src)
				return
			}
			r.Violated("writers/"+core.FuncName(fn), p.InstrPos(in), "viper.Set(%q, …) replaces the operator's setting with a value that is not a registered float64 alias flag (source %q): the threshold the operator gave is not the one enforced", key, src)
		})
	}
	if n == 0 {
		r.Held("writers", 1, "nothing in the module rewrites %q or Config.MinSpaceRequired after flag parsing", key)
	}
}
