package rules

import (
	"go/token"
	"go/types"
	"reflect"
	"strings"

	"golang.org/x/tools/go/ssa"

	"zenocheck/core"
	"zenocheck/ir"
)

func init() {
	PropertyText["C18"] = [2]string{
		"Decides: the refusal of checkThreshold depends on the free space through exactly one comparison free < T whose threshold T has no data or control dependence on free, refusing on its true side — so for fixed volume and setting the accept set is upward closed in free, for all inputs, by shape (R-DISK-MONOTONE); T is minSpaceRequired·GiB when the operator gave a value, else 50 GiB·total/256 GiB for volumes ≤ 256 GiB, else 50 GiB, with the exact constants (R-DISK-FORMULA); CheckDiskUsage passes statfs total/available and the configured value in the right slots, start-up refuses on its error before any stage starts, and the watcher pauses exactly on (error ∧ not paused) and resumes exactly on (no error ∧ paused), keeping its flag in step (R-DISK-USE).",
		"Not decided: float64 rounding at the boundary (uint64(threshold) truncation, 2^53 precision) — a numeric question; statfs semantics.",
	}
	register(&core.Rule{ID: "R-DISK-MONOTONE", Props: []string{"C18"}, Doc: "checkThreshold: exactly one branch condition depends on `free`, it is free < T with T independent of free, errors are returned only on its true side and nil only on its false side", Run: ruleDiskMonotone})
	register(&core.Rule{ID: "R-DISK-FORMULA", Props: []string{"C18"}, Doc: "threshold = minSpaceRequired·2^30 if minSpaceRequired > 0; else 50·2^30·(total / 256·2^30) if total ≤ 256·2^30; else 50·2^30 (constants compared exactly)", Run: ruleDiskFormula})
	register(&core.Rule{ID: "R-DISK-SETTING", Props: []string{"C18"}, Doc: "the operator's value reaches the check unchanged: --min-space-required is registered as a float64 flag, Config.MinSpaceRequired is a float64 bound to that key, and nothing in the module rewrites the key (viper.Set) or the field except from a registered float64 alias flag", Run: ruleDiskSetting})
	register(&core.Rule{ID: "R-DISK-USE", Props: []string{"C18"}, Doc: "CheckDiskUsage(total=Blocks·Bsize, free=Bavail·Bsize, config.MinSpaceRequired); startPipeline exits on its error before starting any stage; WatchDiskSpace calls Pause exactly when err!=nil && !paused and Resume exactly when err==nil && paused, updating the flag on those paths", Run: ruleDiskUse})
}

const gib = float64(1 << 30)

// dependsOn: value v has a data dependence on `root` (through arithmetic, conversions, phis and call arguments).
func dependsOn(v, root ssa.Value, seen map[ssa.Value]bool) bool {
	if v == nil || seen[v] {
		return false
	}
	seen[v] = true
	if v == root {
		return true
	}
	if in, ok := v.(ssa.Instruction); ok {
		for _, op := range in.Operands(nil) {
			if op != nil && *op != nil && dependsOn(*op, root, seen) {
				return true
			}
		}
	}
	return false
}

func ruleDiskMonotone(r *core.Reporter) {
	p := r.P
	fn := p.Func(rel(pkgWatch), "checkThreshold")
	if fn == nil || len(fn.Params) != 3 {
		r.Undecided("watchers.checkThreshold", "", "anchor not found or signature changed")
		return
	}
	r.Analysed(fn)
	free := fn.Params[1]
	var dep []ir.IfInfo
	for _, ii := range ir.Ifs(fn) {
		if dependsOn(ii.If.Cond, free, map[ssa.Value]bool{}) {
			dep = append(dep, ii)
		}
	}
	if len(dep) != 1 {
		pos := fnPos(p, fn)
		if len(dep) > 1 {
			pos = p.InstrPos(dep[0].If)
		}
		r.Violated("checkThreshold/single-comparison", pos, "%d branch conditions depend on the free space, expected exactly one (free < threshold): an extra test on `free` (fast path, second bound) can accept below the threshold or break monotonicity", len(dep))
		return
	}
	cmp := dep[0]
	a := cmp.Atom
	// free < T  (atom LSS with X = free) — or T > free normalised the same way
	okShape := a.V == nil && a.Op == token.LSS && ir.Strip(a.X) == ssa.Value(free) && !dependsOn(a.Y, free, map[ssa.Value]bool{})
	// control dependence of T on free: T's defining phis must not be selected by a free-dependent branch (already excluded: only one dependent If)
	if !okShape {
		// free <= T-1 etc. are not accepted: the property says "below the threshold"
		r.Violated("checkThreshold/single-comparison", p.InstrPos(cmp.If), "the comparison on the free space is not `free < threshold` with a threshold independent of free (got %s): e.g. `<=` refuses at exactly the threshold", describeAtom(a))
		return
	}
	r.Held("checkThreshold/single-comparison", 1, "the only free-dependent condition is free < T, T independent of free")
	// returns
	okRet := true
	for _, ret := range ir.Returns(fn) {
		v := ir.RetVal(ret, 0)
		if ir.IsNilConst(v) {
			if !ir.OnlyVia(ir.Entry(fn), ret, cmp.If.Block(), cmp.EdgeWhen(false)) {
				okRet = false
				r.Violated("checkThreshold/accept-side", p.InstrPos(ret), "nil (accept) is returned on a path that did not establish free >= threshold")
			}
		} else {
			if !ir.OnlyVia(ir.Entry(fn), ret, cmp.If.Block(), cmp.EdgeWhen(true)) {
				okRet = false
				r.Violated("checkThreshold/refuse-side", p.InstrPos(ret), "an error (refuse) is returned on a path that did not establish free < threshold")
			}
		}
	}
	// both sides return
	if okRet {
		r.Held("checkThreshold/sides", len(ir.Returns(fn)), "refuse exactly on free < T, accept exactly otherwise: accept set is upward closed in free")
	}
}

func ruleDiskFormula(r *core.Reporter) {
	p := r.P
	fn := p.Func(rel(pkgWatch), "checkThreshold")
	if fn == nil || len(fn.Params) != 3 {
		r.Undecided("watchers.checkThreshold", "", "anchor not found")
		return
	}
	total, minSpace := fn.Params[0], fn.Params[2]
	// locate T: Y operand of the free comparison
	var T ssa.Value
	for _, ii := range ir.Ifs(fn) {
		if ii.Atom.V == nil && ii.Atom.Op == token.LSS && ir.Strip(ii.Atom.X) == ssa.Value(fn.Params[1]) {
			T = ir.Strip(ii.Atom.Y)
		}
	}
	if T == nil {
		r.Undecided("checkThreshold/threshold", fnPos(p, fn), "comparison free < T not found")
		return
	}
	var leaves []ssa.Value
	phiLeaves(T, map[ssa.Value]bool{}, &leaves)
	var opLeaf, scaledLeaf, constLeaf ssa.Value
	for _, l := range leaves {
		switch x := l.(type) {
		case *ssa.BinOp:
			if x.Op == token.MUL && dependsOn(x, minSpace, map[ssa.Value]bool{}) {
				opLeaf = x
			} else if dependsOn(x, total, map[ssa.Value]bool{}) {
				scaledLeaf = x
			}
		case *ssa.Const:
			constLeaf = x
		}
	}
	isMul := func(v ssa.Value, isA func(ssa.Value) bool, c float64) bool {
		b, ok := v.(*ssa.BinOp)
		if !ok || b.Op != token.MUL {
			return false
		}
		if f, okc := ir.ConstFloat(b.Y); okc && f == c && isA(b.X) {
			return true
		}
		if f, okc := ir.ConstFloat(b.X); okc && f == c && isA(b.Y) {
			return true
		}
		return false
	}
	stripIs := func(want ssa.Value) func(ssa.Value) bool {
		return func(v ssa.Value) bool { return ir.Strip(v) == want }
	}
	// (a) operator value
	okA := opLeaf != nil && isMul(opLeaf, stripIs(minSpace), gib)
	if okA {
		if in, isIn := opLeaf.(ssa.Instruction); isIn {
			_, g := ir.GuardedBy(fn, ir.Entry(fn), in, true, func(a ir.Atom) bool {
				// minSpace > 0 ≡ 0 < minSpace
				if a.V != nil || a.Op != token.LSS {
					return false
				}
				z, okz := ir.ConstFloat(a.X)
				return okz && z == 0 && ir.Strip(a.Y) == ssa.Value(minSpace)
			})
			okA = g
		}
	}
	if okA {
		r.Held("checkThreshold/operator-value", 1, "T = minSpaceRequired·2^30 when minSpaceRequired > 0")
	} else {
		r.Violated("checkThreshold/operator-value", fnPos(p, fn), "with --min-space-required given, the threshold is not exactly that many GiB (minSpaceRequired·2^30 under minSpaceRequired > 0)")
	}
	// (b) scaled default
	okB := false
	if scaledLeaf != nil {
		okB = isMul(scaledLeaf, func(v ssa.Value) bool {
			q, ok := v.(*ssa.BinOp)
			if !ok || q.Op != token.QUO {
				return false
			}
			d, okd := ir.ConstFloat(q.Y)
			return okd && d == 256*gib && ir.Strip(q.X) == ssa.Value(total)
		}, 50*gib)
		if !okB {
			// (50GiB * total) / 256GiB also fine
			if q, ok := scaledLeaf.(*ssa.BinOp); ok && q.Op == token.QUO {
				if d, okd := ir.ConstFloat(q.Y); okd && d == 256*gib && isMul(q.X, stripIs(total), 50*gib) {
					okB = true
				}
			}
		}
		if okB {
			if in, isIn := scaledLeaf.(ssa.Instruction); isIn {
				_, g := ir.GuardedBy(fn, ir.Entry(fn), in, true, func(a ir.Atom) bool {
					if a.V != nil || a.Op != token.LEQ {
						return false
					}
					c, okc := ir.ConstFloat(a.Y)
					return okc && c == 256*gib && ir.Strip(a.X) == ssa.Value(total)
				})
				okB = g
			}
		}
	}
	if okB {
		r.Held("checkThreshold/scaled-default", 1, "T = 50 GiB · total / 256 GiB when total ≤ 256 GiB")
	} else {
		r.Violated("checkThreshold/scaled-default", fnPos(p, fn), "for volumes of at most 256 GiB the default threshold is not 50 GiB scaled linearly by total/256 GiB (or the 256 GiB boundary test changed)")
	}
	// (c) flat default
	if f, ok := ir.ConstFloat(constLeaf); constLeaf != nil && ok && f == 50*gib {
		r.Held("checkThreshold/flat-default", 1, "T = 50 GiB for larger volumes")
	} else {
		r.Violated("checkThreshold/flat-default", fnPos(p, fn), "the default threshold for volumes above 256 GiB is not 50 GiB")
	}
	if len(leaves) != 3 {
		r.Violated("checkThreshold/cases", fnPos(p, fn), "the threshold has %d defining cases, expected 3", len(leaves))
	}
}

func ruleDiskUse(r *core.Reporter) {
	p := r.P
	cdu := p.Func(rel(pkgWatch), "CheckDiskUsage")
	ct := p.Func(rel(pkgWatch), "checkThreshold")
	wd := p.Func(rel(pkgWatch), "WatchDiskSpace")
	sp := p.Func(rel(pkgCtl), "startPipeline")
	if cdu == nil || ct == nil || wd == nil || sp == nil {
		r.Undecided("watchers/anchors", "", "CheckDiskUsage/checkThreshold/WatchDiskSpace/startPipeline not all found")
		return
	}
	r.Analysed(cdu, wd, sp)
	// CheckDiskUsage argument slots
	var call *ssa.Call
	allInstrs(cdu, func(in ssa.Instruction) {
		if c, ok := in.(*ssa.Call); ok && ir.CalleeOf(c.Common()) == ct {
			call = c
		}
	})
	if call == nil {
		r.Violated("CheckDiskUsage/args", fnPos(p, cdu), "CheckDiskUsage no longer decides through checkThreshold")
	} else {
		a0, a1, a2 := ir.Path(call.Call.Args[0]), ir.Path(call.Call.Args[1]), ir.Path(call.Call.Args[2])
		ok := strings.Contains(a0, ".Blocks") && strings.Contains(a0, ".Bsize") && strings.Contains(a1, ".Bavail") && strings.Contains(a1, ".Bsize") && a2 == "config.Get().MinSpaceRequired"
		// result returned unchanged
		retOK := false
		for _, ret := range ir.Returns(cdu) {
			if ir.RetVal(ret, 0) == ssa.Value(call) {
				retOK = true
			}
		}
		if ok && retOK {
			r.Held("CheckDiskUsage/args", 3, "checkThreshold(Blocks·Bsize, Bavail·Bsize, config.MinSpaceRequired), verdict returned unchanged")
		} else {
			r.Violated("CheckDiskUsage/args", p.InstrPos(call), "checkThreshold receives (%s, %s, %s): expected (total=Blocks·Bsize, free=Bavail·Bsize, config.MinSpaceRequired) and its verdict returned as is", a0, a1, a2)
		}
	}
	// start-up
	var startCheck *ssa.Call
	allInstrs(sp, func(in ssa.Instruction) {
		if c, ok := in.(*ssa.Call); ok && ir.CalleeOf(c.Common()) == cdu {
			startCheck = c
		}
	})
	if startCheck == nil {
		r.Violated("startPipeline/disk-check", fnPos(p, sp), "start-up does not check the disk space")
	} else {
		// every stage Start is reachable only via err == nil of this check; the err != nil side exits
		var bad ssa.Instruction
		allInstrs(sp, func(in ssa.Instruction) {
			c, ok := in.(*ssa.Call)
			if !ok {
				return
			}
			f := ir.CalleeOf(c.Common())
			if f == nil || f.Name() != "Start" || !core.InModule(f) {
				return
			}
			if _, g := ir.GuardedBy(sp, ir.Entry(sp), c, true, func(a ir.Atom) bool {
				return a.V == nil && a.Op == token.EQL && ((a.X == ssa.Value(startCheck) && ir.IsNilConst(a.Y)) || (a.Y == ssa.Value(startCheck) && ir.IsNilConst(a.X)))
			}); !g {
				bad = in
			}
		})
		if bad != nil {
			r.Violated("startPipeline/disk-check", p.InstrPos(bad), "a pipeline component can be started although the start-up disk check failed (or before it ran)")
		} else {
			r.Held("startPipeline/disk-check", 1, "every Start is behind CheckDiskUsage()==nil")
		}
	}
	// watcher
	var tick *ssa.Call
	var pauseCall, resumeCall ssa.Instruction
	allInstrs(wd, func(in ssa.Instruction) {
		if c, ok := in.(*ssa.Call); ok {
			if ir.CalleeOf(c.Common()) == cdu {
				tick = c
			}
			if ir.IsCallTo(c, pkgPause+".Pause") {
				pauseCall = c
			}
			if ir.IsCallTo(c, pkgPause+".Resume") {
				resumeCall = c
			}
		}
	})
	if tick == nil || pauseCall == nil || resumeCall == nil {
		r.Violated("WatchDiskSpace/calls", fnPos(p, wd), "the disk watcher no longer checks the disk and pauses/resumes (check=%v pause=%v resume=%v)", tick != nil, pauseCall != nil, resumeCall != nil)
		return
	}
	errNil := func(a ir.Atom) bool {
		return a.V == nil && a.Op == token.EQL && ((a.X == ssa.Value(tick) && ir.IsNilConst(a.Y)) || (a.Y == ssa.Value(tick) && ir.IsNilConst(a.X)))
	}
	// the paused flag: a bool phi in the loop header
	isFlag := func(a ir.Atom) (*ssa.Phi, bool) {
		ph, ok := a.V.(*ssa.Phi)
		if !ok {
			return nil, false
		}
		b, isB := ph.Type().Underlying().(interface{ Kind() int })
		_ = b
		_ = isB
		return ph, ph.Comment == "paused" || true
	}
	var flag *ssa.Phi
	// identify the flag as the bool phi that guards both Pause (false) and Resume (true)
	for _, ii := range ir.Ifs(wd) {
		ph, ok := isFlag(ii.Atom)
		if !ok {
			continue
		}
		if ir.OnlyVia(ir.Entry(wd), pauseCall, ii.If.Block(), ii.EdgeWhen(false)) {
			flag = ph
		}
	}
	flagAtom := func(a ir.Atom) bool { return flag != nil && a.V == ssa.Value(flag) }
	_, p1 := ir.GuardedBy(wd, ir.Entry(wd), pauseCall, false, errNil)
	_, p2 := ir.GuardedBy(wd, ir.Entry(wd), pauseCall, false, flagAtom)
	_, r1 := ir.GuardedBy(wd, ir.Entry(wd), resumeCall, true, errNil)
	_, r2 := ir.GuardedBy(wd, ir.Entry(wd), resumeCall, true, flagAtom)
	if p1 && p2 {
		r.Held("WatchDiskSpace/pause-only-when", 1, "Pause only on err != nil && !paused")
	} else {
		r.Violated("WatchDiskSpace/pause-only-when", p.InstrPos(pauseCall), "the watcher can pause without (low disk ∧ not already paused by it) (err guard=%v, flag guard=%v)", p1, p2)
	}
	if r1 && r2 {
		r.Held("WatchDiskSpace/resume-only-when", 1, "Resume only on err == nil && paused")
	} else {
		r.Violated("WatchDiskSpace/resume-only-when", p.InstrPos(resumeCall), "the watcher can resume without (disk ok ∧ paused by it) (err guard=%v, flag guard=%v)", r1, r2)
	}
	// conversely: on (err != nil ∧ !paused) Pause is always reached before the next tick, and the flag becomes true;
	// on (err == nil ∧ paused) Resume is always reached and the flag becomes false.
	if flag == nil {
		r.Undecided("WatchDiskSpace/flag", fnPos(p, wd), "paused flag not identified")
		return
	}
	hdr := flag.Block()
	hf := hdr.Instrs[0]
	check := func(call ssa.Instruction, wantErrNil, wantFlag bool, name string, newFlag string) {
		// start points: edges where both conditions are established: find the If on the flag that is guarded by the err condition (or vice versa)
		var starts []ir.Pt
		for _, ii := range ir.Ifs(wd) {
			if flagAtom(ii.Atom) {
				if _, g := ir.GuardedBy(wd, ir.After(tick), ii.If, wantErrNil, errNil); g {
					starts = append(starts, ir.Pt{B: ii.If.Block().Succs[ii.EdgeWhen(wantFlag)], I: 0})
				}
			}
			if errNil(ii.Atom) {
				if _, g := ir.GuardedBy(wd, ir.After(tick), ii.If, wantFlag, flagAtom); g {
					starts = append(starts, ir.Pt{B: ii.If.Block().Succs[ii.EdgeWhen(wantErrNil)], I: 0})
				}
			}
		}
		if len(starts) == 0 {
			r.Undecided("WatchDiskSpace/"+name+"-always", p.InstrPos(call), "cannot find the branch that establishes the %s condition", name)
			return
		}
		res := ir.Reach(starts, ir.Opts{Stop: func(in ssa.Instruction) bool { return in == call || in == hf }})
		if res.Stopped[hf] {
			r.Violated("WatchDiskSpace/"+name+"-always", p.InstrPos(call), "the %s condition holds but a path goes back to waiting without calling pause.%s (an extra condition or early continue skips it)", name, strings.Title(name))
			return
		}
		for in := range res.Reached {
			if _, isRet := in.(*ssa.Return); isRet {
				r.Violated("WatchDiskSpace/"+name+"-always", p.InstrPos(in), "the watcher returns instead of calling pause.%s", strings.Title(name))
				return
			}
		}
		// flag update: along back edges reachable after the call, the phi's incoming value is the constant newFlag
		back := ir.Reach([]ir.Pt{ir.After(call)}, ir.Opts{Stop: func(in ssa.Instruction) bool { return in == hf }})
		okFlag := true
		any := false
		for i, pred := range hdr.Preds {
			if len(pred.Instrs) == 0 || !back.Reached[pred.Instrs[len(pred.Instrs)-1]] {
				continue
			}
			any = true
			c, isC := flag.Edges[i].(*ssa.Const)
			if !isC || c.Value == nil || c.Value.ExactString() != newFlag {
				okFlag = false
			}
		}
		if any && okFlag {
			r.Held("WatchDiskSpace/"+name+"-always", 1, "on its condition pause.%s is always called and the watcher's flag becomes %s", strings.Title(name), newFlag)
		} else {
			r.Violated("WatchDiskSpace/"+name+"-always", p.InstrPos(call), "after pause.%s the watcher's own `paused` flag is not set to %s on every path: the next low-disk (or recovery) episode is ignored", strings.Title(name), newFlag)
		}
	}
	check(pauseCall, false, false, "pause", "true")
	check(resumeCall, true, true, "resume", "false")
}

// registeredFlags: names given to (*pflag.FlagSet) definers anywhere in the module, with the definer name (Float64, Int, …).
func registeredFlags(p *core.Program) map[string]string {
	out := map[string]string{}
	for _, fn := range p.ModFuncs {
		allInstrs(fn, func(in ssa.Instruction) {
			c, ok := in.(*ssa.Call)
			if !ok {
				return
			}
			cal := ir.CalleeOf(c.Common())
			if cal == nil || cal.Pkg == nil || cal.Pkg.Pkg.Path() != "github.com/spf13/pflag" || cal.Signature.Recv() == nil || len(c.Call.Args) < 3 {
				return
			}
			if name, okc := ir.ConstString(c.Call.Args[1]); okc {
				switch cal.Name() {
				case "MarkDeprecated", "MarkHidden", "Lookup", "Set", "Changed":
				default:
					out[name] = cal.Name()
				}
			}
		})
	}
	return out
}

func ruleDiskSetting(r *core.Reporter) {
	p := r.P
	const key = "min-space-required"
	flags := registeredFlags(p)
	if !r.Floor("registered command-line flags", len(flags), 40) {
		return
	}
	if def, ok := flags[key]; !ok {
		r.Violated("flag/"+key, "", "the --%s flag is not registered", key)
	} else if def != "Float64" {
		r.Violated("flag/"+key, "", "--%s is registered with %s: fractional GiB settings are lost before they reach the threshold", key, def)
	} else {
		r.Held("flag/"+key, 1, "registered as a float64 flag")
	}
	// the Config field is bound to that key and is float64
	bound := false
	if cfg := p.SSA.ImportedPackage(pkgConfig); cfg != nil {
		if tn, ok := cfg.Members["Config"].(*ssa.Type); ok {
			if st, okS := tn.Type().Underlying().(*types.Struct); okS {
				for i := 0; i < st.NumFields(); i++ {
					if st.Field(i).Name() == "MinSpaceRequired" {
						tag := reflect.StructTag(st.Tag(i)).Get("mapstructure")
						b, _ := st.Field(i).Type().Underlying().(*types.Basic)
						bound = tag == key && b != nil && b.Kind() == types.Float64
					}
				}
			}
		}
	}
	if bound {
		r.Held("config/binding", 1, "Config.MinSpaceRequired is a float64 bound to %q", key)
	} else {
		r.Violated("config/binding", "", "Config.MinSpaceRequired is not a float64 bound to %q", key)
	}
	// nobody rewrites the setting between the command line and the check
	n := 0
	for _, fn := range p.ModFuncs {
		allInstrs(fn, func(in ssa.Instruction) {
			if st, ok := in.(*ssa.Store); ok {
				if tn, f, okf := ir.FieldOf(st.Addr); okf && tn == pkgConfig+".Config" && f == "MinSpaceRequired" {
					n++
					r.Violated("writers/"+core.FuncName(fn), p.InstrPos(in), "Config.MinSpaceRequired is overwritten after the command line was read")
				}
			}
			c, ok := in.(*ssa.Call)
			if !ok || !ir.IsCallTo(c, "github.com/spf13/viper.Set") {
				return
			}
			if k, okc := ir.ConstString(c.Call.Args[0]); !okc || k != key {
				return
			}
			n++
			// allowed: copying a registered alias flag's value
			src := ""
			if mi, isMI := c.Call.Args[1].(*ssa.MakeInterface); isMI {
				if g, isC := ir.Strip(mi.X).(*ssa.Call); isC {
					if cal := ir.CalleeOf(g.Common()); cal != nil && cal.Pkg != nil && cal.Pkg.Pkg.Path() == "github.com/spf13/viper" && len(g.Call.Args) == 1 {
						src, _ = ir.ConstString(g.Call.Args[0])
					}
				}
			}
			if def, isFlag := flags[src]; src != "" && isFlag && def == "Float64" {
				r.HeldAt("writers/"+core.FuncName(fn), p.InstrPos(in), 1, "copies the registered float64 alias flag --%s", src)
				return
			}
			r.Violated("writers/"+core.FuncName(fn), p.InstrPos(in), "viper.Set(%q, …) replaces the operator's setting with a value that is not a registered float64 alias flag (source %q): the threshold the operator gave is not the one enforced", key, src)
		})
	}
	if n == 0 {
		r.Held("writers", 1, "nothing in the module rewrites %q or Config.MinSpaceRequired after flag parsing", key)
	}
}
