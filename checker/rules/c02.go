package rules

import (
	"go/constant"
	"go/token"
	"go/types"
	"strings"

	"golang.org/x/tools/go/ssa"

	"zenocheck/core"
	"zenocheck/ir"
)

func init() {
	PropertyText["C02"] = [2]string{
		"Decides: with synchronous WARC writing every path from a successful client.Do to SetStatus(ItemArchived) waits on the feedback channel that was made in the same iteration and stored in that very request's context under the key the warc module reads (R-WARC-WAIT); ItemArchived has that single writer (R-ARCHIVED-ONLY-HERE); ProcessBody returns nil only after draining the response body to EOF (R-BODY-DRAIN); the discard hook handed to both WARC clients is the chain built from the Cloudflare and --warc-discard-status hooks, and the chain discards when any hook does (R-DISCARD-CHAIN). The default discard hooks read only wire-level response fields, because the WARC writer evaluates them on a response re-parsed with a nil request — a convention read out of the linked warc module (R-DISCARD-HOOK-INPUT). A response that is retried or refused is drained to EOF, unconditionally and without a cap, before its body is closed, so the record the writer tees is complete (R-RESP-CLOSE).",
		"Not decided: byte-exactness of payloads, record framing, gzip member independence, revisit logic — all inside the third-party warc module and functions of body bytes.",
	}
	register(&core.Rule{ID: "R-WARC-WAIT", Props: []string{"C02", "C04", "C03"}, Doc: "fetch closure: on the synchronous path every path from client.Do(req) to SetStatus(ItemArchived) receives from the channel created in that iteration and placed in req's context under key \"feedback\"; the key equals the one the linked warc module looks up; the wait is conditional on nothing but WARCWriteAsync", Run: ruleWarcWait})
	register(&core.Rule{ID: "R-ARCHIVED-ONLY-HERE", Props: []string{"C02"}, Doc: "SetStatus(ItemArchived) has exactly one call site in the program, in the fetch closure that R-WARC-WAIT covers", Run: ruleArchivedOnlyHere})
	register(&core.Rule{ID: "R-BODY-DRAIN", Props: []string{"C02", "C16", "C04"}, Doc: "ProcessBody: every `return nil` is preceded on all paths by the full-drain helper applied to Response.Body; that helper returns nil only from its err==io.EOF branch", Run: ruleBodyDrain})
	register(&core.Rule{ID: "R-DISCARD-HOOK-INPUT", Props: []string{"C02"}, Doc: "the WARC writer calls the discard hook on a response re-parsed from the recorded bytes (http.ReadResponse(r, nil), read from the linked warc module): the default hooks may therefore depend only on what the wire carries (status, protocol, headers, body, lengths) — never on resp.Request or resp.TLS, which are nil there", Run: ruleDiscardHookInput})
	register(&core.Rule{ID: "R-DISCARD-CHAIN", Props: []string{"C02"}, Doc: "startWARCWriter stores Builder.Build() of a builder with AddDefaultHooks into HTTPClientSettings.DiscardHook for both clients; AddDefaultHooks adds the Cloudflare and warc-discard-status hooks; the built chain returns true as soon as any hook does; the status hook tests resp.StatusCode against config.WARCDiscardStatus", Run: ruleDiscardChain})
}

// fetchClosure finds the goroutine body in the archiver that performs the HTTP request.
func fetchClosure(p *core.Program) (*ssa.Function, *ssa.Call) {
	for _, fn := range p.FuncsInPkg(rel(pkgArch)) {
		var do *ssa.Call
		allInstrs(fn, func(in ssa.Instruction) {
			if c, ok := in.(*ssa.Call); ok && isHTTPDo(c) {
				do = c
			}
		})
		if do != nil {
			return fn, do
		}
	}
	return nil, nil
}

func isHTTPDo(c *ssa.Call) bool {
	n := ir.CallName(c.Common())
	return n == "(*net/http.Client).Do" || n == "(*github.com/CorentinB/warc.CustomHTTPClient).Do"
}

// phiLeaves collects the non-phi leaves of a value's phi closure.
func phiLeaves(v ssa.Value, seen map[ssa.Value]bool, out *[]ssa.Value) {
	if v == nil || seen[v] {
		return
	}
	seen[v] = true
	if ph, ok := v.(*ssa.Phi); ok {
		for _, e := range ph.Edges {
			phiLeaves(e, seen, out)
		}
		return
	}
	*out = append(*out, v)
}

func isAsyncAtom(a ir.Atom) bool { return a.V != nil && isConfigField(a.V, "WARCWriteAsync") }

// pruneAsync removes the edges taken when config.WARCWriteAsync is true (assumption: synchronous mode).
func pruneAsync(b *ssa.BasicBlock, s int) bool {
	if len(b.Instrs) == 0 {
		return true
	}
	ifi, ok := b.Instrs[len(b.Instrs)-1].(*ssa.If)
	if !ok {
		return true
	}
	a, pol := ir.Decompose(ifi.Cond)
	if !isAsyncAtom(a) {
		return true
	}
	asyncEdge := 0
	if !pol {
		asyncEdge = 1
	}
	return s != asyncEdge
}

func ruleWarcWait(r *core.Reporter) {
	p := r.P
	states, _ := itemStates(p)
	fn, do := fetchClosure(p)
	if fn == nil {
		r.Undecided("archiver/fetch-closure", "", "no function in the archiver calls (*http.Client).Do")
		return
	}
	r.Analysed(fn)
	name := core.FuncName(fn)
	var archived []ssa.Instruction
	allInstrs(fn, func(in ssa.Instruction) {
		if _, v, ok := setStatusConst(in); ok && v == states["ItemArchived"] {
			archived = append(archived, in)
		}
	})
	if len(archived) == 0 {
		r.Undecided(name+"/archived", fnPos(p, fn), "the function that performs the request never sets ItemArchived")
		return
	}
	// the feedback channel(s): MakeChan values whose boxed form is the value argument of context.WithValue(…, "feedback", ch)
	var mcs []*ssa.MakeChan
	var withValue *ssa.Call
	key := ""
	allInstrs(fn, func(in ssa.Instruction) {
		c, ok := in.(*ssa.Call)
		if !ok || !ir.IsCallTo(c, "context.WithValue") || len(c.Call.Args) != 3 {
			return
		}
		if mc, ok := ir.Strip(c.Call.Args[2]).(*ssa.MakeChan); ok {
			if k, ok := ir.ConstString(c.Call.Args[1]); ok {
				mcs = append(mcs, mc)
				withValue = c
				key = k
			}
		}
	})
	if len(mcs) != 1 {
		shared := false
		allInstrs(fn, func(in ssa.Instruction) {
			if c, ok := in.(*ssa.Call); ok && ir.IsCallTo(c, "context.WithValue") && len(c.Call.Args) == 3 {
				if u, isU := ir.Strip(c.Call.Args[2]).(*ssa.UnOp); isU && u.Op == token.MUL {
					shared = true
				}
			}
		})
		if shared {
			r.Violated(name+"/feedback-channel", p.InstrPos(do), "the feedback channel put into the request context is read from a variable shared with other goroutines (captured from the enclosing function), not a per-attempt local: one fetch's wait can be satisfied by another fetch's WARC write")
		} else {
			r.Violated(name+"/feedback-channel", p.InstrPos(do), "no (single) fresh channel is attached to the request context with context.WithValue: the WARC writer has nothing to signal (%d found)", len(mcs))
		}
		return
	}
	mc := mcs[0]
	// capacity: the writer's signal is a plain send (read out of the linked module); an attempt whose response is
	// written but then retried or failed is never waited for, so the send needs a buffer slot or the writer
	// goroutine blocks for ever — and with it Close() at stop
	if sendPos := warcBlockingFeedbackSend(p); sendPos != "" {
		if n, ok := ir.ConstInt(mc.Size); ok && n >= 1 {
			r.Held(name+"/feedback-capacity", 1, "feedback channel has capacity %d; the warc writer signals with a plain send (%s) that must not depend on a receiver", n, sendPos)
		} else {
			r.Violated(name+"/feedback-capacity", p.InstrPos(mc), "the per-attempt feedback channel is unbuffered, but the warc writer signals with a plain blocking send (%s) and the attempts that are retried or fail after a response never receive: the writer goroutine blocks for ever (no further record is written, WaitGroup/Close at stop hang)", sendPos)
		}
	} else {
		r.Held(name+"/feedback-capacity", 0, "the linked warc module has no blocking send on a feedback channel")
	}
	// key agreement with the warc module
	warcKeys := warcFeedbackKeys(p)
	if len(warcKeys) == 0 {
		r.Undecided(name+"/feedback-key", "", "cannot find the context key the warc module looks up")
	} else if warcKeys[key] {
		r.Held(name+"/feedback-key", 1, "context key %q is the one the warc module reads (ctx.Value(%q) in %s)", key, key, "github.com/CorentinB/warc")
	} else {
		r.Violated(name+"/feedback-key", p.InstrPos(withValue), "request context key %q is not a key the warc module looks up (%v): the writer never signals and the wait is on the wrong channel", key, keys(warcKeys))
	}
	// ctx → req.WithContext → Do argument
	var withCtx *ssa.Call
	for _, rr := range ir.Referrers(withValue) {
		if c, ok := rr.(*ssa.Call); ok && ir.IsCallTo(c, "(*net/http.Request).WithContext") {
			withCtx = c
		}
	}
	var reqLeaves []ssa.Value
	phiLeaves(do.Call.Args[len(do.Call.Args)-1], map[ssa.Value]bool{}, &reqLeaves)
	chained := false
	for _, l := range reqLeaves {
		if withCtx != nil && l == ssa.Value(withCtx) {
			chained = true
		}
	}
	if !chained {
		r.Violated(name+"/feedback-in-request", p.InstrPos(do), "the request given to client.Do does not carry the context holding the feedback channel")
	} else {
		// on the synchronous path the attach happens before every Do: from the loop iteration start … approximate by:
		// Do is not reachable from function entry without passing withCtx when async edges are pruned
		res := ir.Reach([]ir.Pt{ir.Entry(fn)}, ir.Opts{Stop: func(in ssa.Instruction) bool { return in == ssa.Instruction(withCtx) }, EdgeOK: pruneAsync})
		if res.Reached[do] {
			r.Violated(name+"/feedback-in-request", p.InstrPos(do), "in synchronous mode client.Do can run with a request whose context carries no feedback channel")
		} else if !ir.Reach([]ir.Pt{ir.After(do)}, ir.Opts{Stop: func(in ssa.Instruction) bool { return in == ssa.Instruction(mc) }, EdgeOK: pruneAsync}).Reached[do] {
			r.Held(name+"/feedback-in-request", 1, "a fresh channel is attached before every Do (per attempt)")
		} else {
			r.Violated(name+"/feedback-in-request", p.InstrPos(do), "a retry can reuse the previous attempt's feedback channel (signal of the failed attempt would satisfy the wait)")
		}
	}
	// the wait
	isAttemptChan := func(v ssa.Value) bool {
		var leaves []ssa.Value
		phiLeaves(v, map[ssa.Value]bool{}, &leaves)
		hasMC := false
		for _, l := range leaves {
			if l == ssa.Value(mc) {
				hasMC = true
			} else if !ir.IsNilConst(l) {
				return false
			}
		}
		return hasMC
	}
	isWait := func(in ssa.Instruction) bool {
		if u, ok := in.(*ssa.UnOp); ok && u.Op == token.ARROW {
			return isAttemptChan(ir.Strip(u.X))
		}
		// a helper that receives from the channel it is given, on every path
		if c, ok := in.(*ssa.Call); ok {
			h := ir.CalleeOf(c.Common())
			if h == nil || !core.InModule(h) || h.Blocks == nil {
				return false
			}
			for k, a := range c.Call.Args {
				if k >= len(h.Params) || !isAttemptChan(ir.Strip(a)) {
					continue
				}
				par := h.Params[k]
				ev := ir.Event{ID: "recv-param-" + par.Name(), Match: func(x ssa.Instruction) bool {
					u, isU := x.(*ssa.UnOp)
					return isU && u.Op == token.ARROW && resolveParam(u.X, 0) == par
				}}
				if ir.MustHit(h, ev, 0) {
					return true
				}
			}
		}
		return false
	}
	res := ir.Reach([]ir.Pt{ir.After(do)}, ir.Opts{Stop: isWait, EdgeOK: pruneAsync})
	var bad ssa.Instruction
	for _, a := range archived {
		if res.Reached[a] {
			bad = a
		}
	}
	nWaits := 0
	for in := range res.Stopped {
		if isWait(in) {
			nWaits++
		}
	}
	switch {
	case bad != nil:
		r.Violated(name+"/wait-before-archived", p.InstrPos(bad), "with synchronous WARC writing an item can be marked archived without waiting for the WARC writer's feedback (the wait is missing, moved, or conditional on something other than WARCWriteAsync)")
	case nWaits == 0:
		r.Violated(name+"/wait-before-archived", p.InstrPos(do), "no receive on the feedback channel between client.Do and ItemArchived")
	default:
		r.Held(name+"/wait-before-archived", nWaits, "every synchronous path Do → ItemArchived waits on the attempt's feedback channel")
	}
	// ProcessBody (drain) also precedes ItemArchived
	res2 := ir.Reach([]ir.Pt{ir.After(do)}, ir.Opts{Stop: func(in ssa.Instruction) bool { return ir.IsPlainCallTo(in, pkgArch+".ProcessBody") }})
	bad = nil
	for _, a := range archived {
		if res2.Reached[a] {
			bad = a
		}
	}
	if bad != nil {
		r.Violated(name+"/drain-before-archived", p.InstrPos(bad), "an item can be marked archived without ProcessBody having consumed the response body")
	} else {
		r.Held(name+"/drain-before-archived", 1, "ProcessBody on every path to ItemArchived")
	}
	// ProcessBody error ⇒ not archived
	var pb *ssa.Call
	allInstrs(fn, func(in ssa.Instruction) {
		if c, ok := in.(*ssa.Call); ok && ir.IsCallTo(c, pkgArch+".ProcessBody") {
			pb = c
		}
	})
	if pb != nil {
		okGuard := true
		for _, a := range archived {
			if _, g := ir.GuardedBy(fn, ir.Entry(fn), a, true, func(at ir.Atom) bool {
				return at.V == nil && at.Op == token.EQL && ((at.X == ssa.Value(pb) && ir.IsNilConst(at.Y)) || (at.Y == ssa.Value(pb) && ir.IsNilConst(at.X)))
			}); !g {
				okGuard = false
			}
		}
		if okGuard {
			r.Held(name+"/archived-needs-drain-ok", 1, "ItemArchived only when ProcessBody returned nil")
		} else {
			r.Violated(name+"/archived-needs-drain-ok", p.InstrPos(pb), "an item can be marked archived although ProcessBody failed (truncated body)")
		}
	}
}

// warcFeedbackKeys: constant string keys passed to Context.Value inside the warc module.
func warcFeedbackKeys(p *core.Program) map[string]bool {
	out := map[string]bool{}
	for _, pk := range p.SSA.AllPackages() {
		if pk.Pkg.Path() != "github.com/CorentinB/warc" {
			continue
		}
		for _, m := range pk.Members {
			fn, ok := m.(*ssa.Function)
			if !ok {
				continue
			}
			for _, f := range withAnon(fn) {
				scanValueKeys(f, out)
			}
		}
		// methods
		for _, m := range pk.Members {
			if t, ok := m.(*ssa.Type); ok {
				for _, recv := range []bool{false, true} {
					var ms = p.SSA.MethodSets.MethodSet(t.Type())
					if recv {
						ms = p.SSA.MethodSets.MethodSet(ptrTo(t))
					}
					for i := 0; i < ms.Len(); i++ {
						if f := p.SSA.MethodValue(ms.At(i)); f != nil {
							for _, ff := range withAnon(f) {
								scanValueKeys(ff, out)
							}
						}
					}
				}
			}
		}
	}
	return out
}

func scanValueKeys(f *ssa.Function, out map[string]bool) {
	allInstrs(f, func(in ssa.Instruction) {
		c, ok := in.(*ssa.Call)
		if !ok || !c.Call.IsInvoke() || c.Call.Method.Name() != "Value" || ir.TypeName(c.Call.Value.Type()) != "context.Context" {
			return
		}
		if len(c.Call.Args) == 1 {
			if s, ok := ir.ConstString(c.Call.Args[0]); ok {
				out[s] = true
			}
		}
	})
}

func ruleArchivedOnlyHere(r *core.Reporter) {
	p := r.P
	states, _ := itemStates(p)
	fetch, _ := fetchClosure(p)
	n := 0
	for _, fn := range p.ModFuncs {
		allInstrs(fn, func(in ssa.Instruction) {
			if _, v, ok := setStatusConst(in); ok && v == states["ItemArchived"] {
				n++
				if fn != fetch {
					r.Violated("SetStatus(ItemArchived)/"+core.FuncName(fn), p.InstrPos(in), "ItemArchived is set outside the fetch closure: this path is not covered by the feedback wait")
				}
			}
		})
	}
	if n == 1 {
		r.Held("SetStatus(ItemArchived)", 1, "single writer, in %s", core.FuncName(fetch))
	} else if n == 0 {
		r.Undecided("SetStatus(ItemArchived)", "", "no writer of ItemArchived found")
	} else {
		r.Violated("SetStatus(ItemArchived)", fnPos(p, fetch), "%d writers of ItemArchived, expected exactly one", n)
	}
}

func ruleBodyDrain(r *core.Reporter) {
	p := r.P
	pb := p.Func(rel(pkgArch), "ProcessBody")
	if pb == nil {
		r.Undecided("archiver.ProcessBody", "", "anchor not found")
		return
	}
	r.Analysed(pb)
	// candidate drain helpers: module functions that loop on src.Read until io.EOF
	isDrainHelper := func(f *ssa.Function) bool { return f != nil && core.InModule(f) && drainsToEOF(f) }
	drain := ir.Event{ID: "drain-body", Match: func(in ssa.Instruction) bool {
		c, ok := in.(*ssa.Call)
		if !ok {
			return false
		}
		f := ir.CalleeOf(c.Common())
		full := isDrainHelper(f)
		if !full && ir.IsCallTo(c, "io.Copy", "io.ReadAll") {
			full = true
		}
		if !full {
			return false
		}
		for _, a := range c.Call.Args {
			if strings.HasSuffix(ir.Path(a), ".GetResponse().Body") {
				return true
			}
		}
		return false
	}}
	nilRets := 0
	var bad ssa.Instruction
	res := ir.Reach([]ir.Pt{ir.Entry(pb)}, ir.Opts{Stop: ir.WithSummaries(drain, 2)})
	for _, ret := range ir.Returns(pb) {
		if len(ret.Results) != 1 {
			continue
		}
		mayNil := ir.ReturnsNil(ret, 0)
		if ph := ir.PhiResult(ret); ph != nil {
			// one return fed by several inlined phases: nil on the edges that carry the nil constant
			for _, e := range ph.Edges {
				if ir.IsNilConst(e) {
					mayNil = true
				}
			}
		}
		if mayNil {
			nilRets++
			if res.NilReturnReached(ret) {
				bad = ret
			}
		}
	}
	switch {
	case nilRets == 0:
		r.Undecided("archiver.ProcessBody/drain", fnPos(p, pb), "no `return nil` in ProcessBody")
	case bad != nil:
		r.Violated("archiver.ProcessBody/drain", p.InstrPos(bad), "ProcessBody can return nil without having read the response body to EOF: the WARC record for an accepted response would be truncated")
	default:
		r.Held("archiver.ProcessBody/drain", nilRets, "%d nil return(s), each after a full drain of Response.Body", nilRets)
	}
	// the helper(s)
	n := 0
	for _, f := range p.FuncsInPkg(rel(pkgArch)) {
		if f.Parent() == nil && readsInLoop(f) {
			n++
			r.Analysed(f)
			if drainsToEOF(f) {
				r.Held("drain-helper/"+core.FuncName(f), 1, "returns nil only from the err==io.EOF branch of its read loop")
			} else if usedAsDrain(pb, f) {
				r.Violated("drain-helper/"+core.FuncName(f), fnPos(p, f), "read loop can return nil before io.EOF")
			}
		}
	}
	// body close is deferred first
	var deferClose ssa.Instruction
	allInstrs(pb, func(in ssa.Instruction) {
		if d, ok := in.(*ssa.Defer); ok && d.Call.IsInvoke() && d.Call.Method.Name() == "Close" && strings.HasSuffix(ir.Path(d.Call.Value), ".GetResponse().Body") {
			deferClose = in
		}
	})
	if deferClose == nil {
		r.Violated("archiver.ProcessBody/defer-close", fnPos(p, pb), "ProcessBody no longer defers Response.Body.Close()")
	} else if ret, badp := ir.PathExists([]ir.Pt{ir.Entry(pb)}, ir.Opts{Stop: func(in ssa.Instruction) bool { return in == deferClose }}, ir.IsExit); badp {
		r.Violated("archiver.ProcessBody/defer-close", p.InstrPos(ret), "a return precedes the deferred Body.Close()")
	} else {
		r.Held("archiver.ProcessBody/defer-close", 1, "Body.Close deferred before any return")
	}
	_ = n
}

func usedAsDrain(pb, f *ssa.Function) bool {
	used := false
	allInstrs(pb, func(in ssa.Instruction) {
		if c, ok := in.(*ssa.Call); ok && ir.CalleeOf(c.Common()) == f {
			used = true
		}
	})
	return used
}

func readsInLoop(f *ssa.Function) bool {
	found := false
	allInstrs(f, func(in ssa.Instruction) {
		if c, ok := in.(*ssa.Call); ok && c.Call.IsInvoke() && c.Call.Method.Name() == "Read" {
			if ir.Reach([]ir.Pt{ir.After(c)}, ir.Opts{}).Reached[c] {
				found = true
			}
		}
	})
	return found
}

// drainsToEOF: f has a Read loop and every `return nil` is reachable only through the true edge of `err == io.EOF`.
func drainsToEOF(f *ssa.Function) bool {
	if !readsInLoop(f) {
		return false
	}
	var eofIfs []ir.IfInfo
	for _, ii := range ir.Ifs(f) {
		a := ii.Atom
		if a.V == nil && a.Op == token.EQL && (ir.Path(a.Y) == "io.EOF" || ir.Path(a.X) == "io.EOF") {
			eofIfs = append(eofIfs, ii)
		}
	}
	if len(eofIfs) == 0 {
		return false
	}
	for _, ret := range ir.Returns(f) {
		if len(ret.Results) != 1 || !ir.ReturnsNil(ret, 0) {
			continue
		}
		ok := false
		for _, ii := range eofIfs {
			if ir.OnlyVia(ir.Entry(f), ret, ii.If.Block(), ii.EdgeWhen(true)) {
				ok = true
			}
		}
		if !ok {
			return false
		}
	}
	return true
}

func ruleDiscardChain(r *core.Reporter) {
	p := r.P
	sw := p.Func(rel(pkgArch), "startWARCWriter")
	if sw == nil {
		r.Undecided("archiver.startWARCWriter", "", "anchor not found")
		return
	}
	r.Analysed(sw)
	tBuilder := "(*" + pkgDiscard + ".Builder)"
	// DiscardHook store
	var hookStore *ssa.Store
	allInstrs(sw, func(in ssa.Instruction) {
		if st, ok := in.(*ssa.Store); ok {
			if tn, f, ok := ir.FieldOf(st.Addr); ok && tn == "github.com/CorentinB/warc.HTTPClientSettings" && f == "DiscardHook" {
				hookStore = st
			}
		}
	})
	if hookStore == nil {
		r.Violated("startWARCWriter/DiscardHook", fnPos(p, sw), "HTTPClientSettings.DiscardHook is not set: the WARC writer discards nothing")
		return
	}
	build, ok := ir.Strip(hookStore.Val).(*ssa.Call)
	if !ok || !ir.IsCallTo(build, tBuilder+".Build") {
		r.Violated("startWARCWriter/DiscardHook", p.InstrPos(hookStore), "DiscardHook is not the result of discard.Builder.Build()")
		return
	}
	builder := build.Call.Args[0]
	var addDefaults ssa.Instruction
	allInstrs(sw, func(in ssa.Instruction) {
		if c, ok := in.(*ssa.Call); ok && ir.IsCallTo(c, tBuilder+".AddDefaultHooks") && ir.SameValue(c.Call.Args[0], builder) {
			addDefaults = c
		}
	})
	if addDefaults == nil {
		r.Violated("startWARCWriter/default-hooks", p.InstrPos(build), "Build() is called on a builder without AddDefaultHooks(): the discard chain is empty")
	} else if ir.Reach([]ir.Pt{ir.Entry(sw)}, ir.Opts{Stop: func(in ssa.Instruction) bool { return in == addDefaults }}).Reached[build] {
		r.Violated("startWARCWriter/default-hooks", p.InstrPos(build), "Build() can run before AddDefaultHooks()")
	} else {
		r.Held("startWARCWriter/default-hooks", 1, "DiscardHook = builder.AddDefaultHooks().Build()")
	}
	// both client constructions read settings that include the hook
	nNew := 0
	settingsAlloc := allocOf(hookStore.Addr)
	allInstrs(sw, func(in ssa.Instruction) {
		c, ok := in.(*ssa.Call)
		if !ok || !ir.IsCallTo(c, "github.com/CorentinB/warc.NewWARCWritingHTTPClient") {
			return
		}
		nNew++
		src := loadSource(c.Call.Args[0])
		okSrc := src != nil && (src == settingsAlloc || copiedFrom(src, settingsAlloc))
		key := "startWARCWriter/client-" + map[bool]string{true: "direct", false: "copy"}[src == settingsAlloc]
		if okSrc && !ir.Reach([]ir.Pt{ir.Entry(sw)}, ir.Opts{Stop: func(in ssa.Instruction) bool { return in == ssa.Instruction(hookStore) }}).Reached[c] {
			r.Held(key, 1, "client built from settings that carry the discard chain")
		} else {
			r.Violated(key, p.InstrPos(c), "a WARC client is created from settings that do not carry the discard hook")
		}
	})
	if nNew < 2 {
		r.Undecided("startWARCWriter/clients", fnPos(p, sw), "expected two client constructions, found %d", nNew)
	}
	// AddDefaultHooks adds both hooks
	adh := p.Func(rel(pkgDiscard), "(*Builder).AddDefaultHooks")
	addHook := p.Func(rel(pkgDiscard), "(*Builder).AddHook")
	buildFn := p.Func(rel(pkgDiscard), "(*Builder).Build")
	if adh == nil || addHook == nil || buildFn == nil {
		r.Undecided("discard.Builder", "", "Builder methods not found")
		return
	}
	r.Analysed(adh, addHook, buildFn)
	want := map[string]bool{
		pkgDiscard + "/discarder/cloudflare.ChallengePageHook":            false,
		pkgDiscard + "/discarder/warcdiscardstatus.WARCDiscardStatusHook": false,
	}
	for w := range want {
		ev := func(in ssa.Instruction) bool {
			c, ok := in.(*ssa.Call)
			if !ok || ir.CalleeOf(c.Common()) != addHook || len(c.Call.Args) != 2 {
				return false
			}
			f, ok := ir.Strip(c.Call.Args[1]).(*ssa.Function)
			return ok && ir.FullName(f) == w
		}
		if _, bad := ir.PathExists([]ir.Pt{ir.Entry(adh)}, ir.Opts{Stop: ev}, ir.IsExit); bad {
			r.Violated("AddDefaultHooks/"+shortName(w), fnPos(p, adh), "AddDefaultHooks does not (always) add %s: such responses would be written to the WARC", shortName(w))
		} else {
			r.Held("AddDefaultHooks/"+shortName(w), 1, "added on every path")
		}
	}
	// AddHook appends
	appended := false
	allInstrs(addHook, func(in ssa.Instruction) {
		if st, ok := in.(*ssa.Store); ok {
			if _, f, ok := ir.FieldOf(st.Addr); ok && f == "hooks" {
				if c, ok := st.Val.(*ssa.Call); ok && ir.CallName(c.Common()) == "builtin.append" {
					if _, flows := ir.FlowsTo(addHook.Params[1], func(x ssa.Instruction, _ ssa.Value) bool { return x == ssa.Instruction(c) }, 50); flows {
						appended = true
					}
				}
			}
		}
	})
	if appended {
		r.Held("Builder.AddHook", 1, "hook appended to the chain")
	} else {
		r.Violated("Builder.AddHook", fnPos(p, addHook), "AddHook does not append its argument to the chain")
	}
	// Build closure: any hook true ⇒ true
	var chain *ssa.Function
	for _, a := range buildFn.AnonFuncs {
		chain = a
	}
	if chain == nil {
		// a method value (b.runChain) instead of a literal: the bound-method wrapper calls the method
		for _, ret := range ir.Returns(buildFn) {
			if mc, ok := ir.Strip(ir.RetVal(ret, 0)).(*ssa.MakeClosure); ok {
				if w, isF := mc.Fn.(*ssa.Function); isF {
					chain = w
					if w.Synthetic != "" {
						allInstrs(w, func(in ssa.Instruction) {
							if c, isC := in.(*ssa.Call); isC {
								if f := ir.CalleeOf(c.Common()); f != nil && core.InModule(f) {
									chain = f
								}
							}
						})
					}
				}
			}
		}
	}
	if chain == nil {
		r.Undecided("Builder.Build/chain", fnPos(p, buildFn), "built closure not found")
		return
	}
	r.Analysed(chain)
	var hookCall *ssa.Call
	allInstrs(chain, func(in ssa.Instruction) {
		if c, ok := in.(*ssa.Call); ok && ir.CalleeOf(c.Common()) == nil && !c.Call.IsInvoke() {
			if _, isB := c.Call.Value.(*ssa.Builtin); !isB {
				hookCall = c
			}
		}
	})
	if hookCall == nil {
		r.Violated("Builder.Build/chain", fnPos(p, chain), "the chain does not call its hooks")
		return
	}
	var verdict ssa.Value
	for _, rr := range ir.Referrers(hookCall) {
		if e, ok := rr.(*ssa.Extract); ok && e.Index == 0 {
			verdict = e
		}
	}
	okChain, why := false, "the hook's verdict is ignored"
	for _, ii := range ir.Ifs(chain) {
		if ii.Atom.V != verdict || verdict == nil {
			continue
		}
		start := ir.EdgePt(ii.If.Block(), ii.EdgeWhen(true))
		res := ir.Reach([]ir.Pt{start}, ir.Opts{Stop: func(in ssa.Instruction) bool { return in == ssa.Instruction(ii.If) }})
		okChain, why = true, ""
		if res.Stopped[ii.If] {
			okChain, why = false, "a discarding hook does not end the chain"
		}
		for in := range res.Reached {
			if ret, isRet := in.(*ssa.Return); isRet {
				c, isC := ret.Results[0].(*ssa.Const)
				if ret.Results[0] != verdict && !(isC && c.Value != nil && constant.BoolVal(c.Value)) {
					okChain, why = false, "a hook's `discard` verdict is not propagated as true"
				}
			}
		}
	}
	// the walk over the hooks is not conditional on anything but the chain being non-empty: a fast path that answers
	// "keep" without asking the hooks (status class, method, size …) disables --warc-discard-status for those responses
	if okChain {
		var foreign []ir.IfInfo
		for _, ii := range ir.Ifs(chain) {
			a := ii.Atom
			if a.V != nil && a.V == verdict {
				continue
			}
			lenOp := func(v ssa.Value) bool {
				c, ok := v.(*ssa.Call)
				return ok && ir.CallName(c.Common()) == "builtin.len"
			}
			if a.V == nil && (lenOp(a.X) || lenOp(a.Y)) {
				continue // loop bound, empty-chain test
			}
			foreign = append(foreign, ii)
		}
		if indep, how := ir.IndependentOf(ir.Entry(chain), hookCall, foreign, nil); !indep {
			okChain, why = false, "the hooks are not consulted for every response: "+how+" — the operator's discard rules are skipped for those responses"
		}
	}
	if okChain && loopCoversAll(chain, hookCall) {
		r.Held("Builder.Build/chain", 1, "every hook is consulted for every response until one discards; a discarding hook makes the chain return true")
	} else {
		if why == "" {
			why = "not every hook of the chain is consulted"
		}
		r.Violated("Builder.Build/chain", fnPos(p, chain), "%s", why)
	}
	// status hook
	sh := p.Func(rel(pkgDiscard)+"/discarder/warcdiscardstatus", "WARCDiscardStatusHook")
	if sh == nil {
		r.Undecided("WARCDiscardStatusHook", "", "anchor not found")
		return
	}
	r.Analysed(sh)
	var contains *ssa.Call
	allInstrs(sh, func(in ssa.Instruction) {
		if c, ok := in.(*ssa.Call); ok && strings.HasPrefix(ir.CallName(c.Common()), "slices.Contains") {
			contains = c
		}
	})
	if contains == nil {
		// loop form: for _, s := range config.WARCDiscardStatus { if resp.StatusCode == s { return true, … } }
		okLoop := false
		status := "$" + sh.Params[0].Name() + ".StatusCode"
		for _, ii := range ir.Ifs(sh) {
			a := ii.Atom
			if a.V != nil || a.Op != token.EQL {
				continue
			}
			x, y := a.X, a.Y
			if ir.Path(y) == status {
				x, y = y, x
			}
			if ir.Path(x) != status {
				continue
			}
			sl, _, isEl := elemLoad(ir.Strip(y))
			if !isEl || !isConfigField(sl, "WARCDiscardStatus") || !loopCoversAll(sh, ii.If) {
				continue
			}
			okLoop = true
			start := ir.EdgePt(ii.If.Block(), ii.EdgeWhen(true))
			lres := ir.Reach([]ir.Pt{start}, ir.Opts{})
			for in := range lres.Reached {
				if ret, isRet := in.(*ssa.Return); isRet {
					if vals, okc := lres.BoolReturn(ret); !okc || !allTrue(vals) {
						okLoop = false
					}
				}
			}
		}
		if okLoop {
			r.Held("WARCDiscardStatusHook/test", 1, "status ∈ --warc-discard-status ⇒ discard (loop form)")
		} else {
			r.Violated("WARCDiscardStatusHook/test", fnPos(p, sh), "the hook no longer tests resp.StatusCode against config.WARCDiscardStatus")
		}
		return
	}
	if len(contains.Call.Args) != 2 || !isConfigField(contains.Call.Args[0], "WARCDiscardStatus") || ir.Path(contains.Call.Args[1]) != "$"+sh.Params[0].Name()+".StatusCode" {
		r.Violated("WARCDiscardStatusHook/test", fnPos(p, sh), "the hook no longer tests resp.StatusCode against config.WARCDiscardStatus")
		return
	}
	okHook := false
	for _, ii := range ir.Ifs(sh) {
		if ii.Atom.V != ssa.Value(contains) {
			continue
		}
		start := ir.EdgePt(ii.If.Block(), ii.EdgeWhen(true))
		okHook = true
		hres := ir.Reach([]ir.Pt{start}, ir.Opts{})
		for in := range hres.Reached {
			if ret, isRet := in.(*ssa.Return); isRet {
				if vals, okc := hres.BoolReturn(ret); !okc || !allTrue(vals) {
					okHook = false
				}
			}
		}
	}
	if okHook {
		r.Held("WARCDiscardStatusHook/test", 1, "status ∈ --warc-discard-status ⇒ discard")
	} else {
		r.Violated("WARCDiscardStatusHook/test", fnPos(p, sh), "a status code listed in --warc-discard-status is not discarded")
	}
}

func shortName(full string) string {
	if i := strings.LastIndex(full, "/"); i >= 0 {
		return full[i+1:]
	}
	return full
}

func allocOf(addr ssa.Value) *ssa.Alloc {
	for i := 0; i < 4; i++ {
		switch x := addr.(type) {
		case *ssa.Alloc:
			return x
		case *ssa.FieldAddr:
			addr = x.X
		default:
			return nil
		}
	}
	return nil
}

func loadSource(v ssa.Value) *ssa.Alloc {
	if u, ok := v.(*ssa.UnOp); ok && u.Op == token.MUL {
		return allocOf(u.X)
	}
	return nil
}

// copiedFrom: alloc dst receives a store of a load of src.
func copiedFrom(dst, src *ssa.Alloc) bool {
	for _, rr := range ir.Referrers(dst) {
		if st, ok := rr.(*ssa.Store); ok && st.Addr == ssa.Value(dst) {
			if loadSource(st.Val) == src {
				return true
			}
		}
	}
	return false
}

// writerHookArgIsReparsed: in the linked warc module every call of the client's DiscardHook passes a response
// obtained from http.ReadResponse(…, nil).
func writerHookArgIsReparsed(p *core.Program) (bool, int) {
	n, ok := 0, true
	for _, pk := range p.SSA.AllPackages() {
		if pk.Pkg.Path() != "github.com/CorentinB/warc" {
			continue
		}
		var fns []*ssa.Function
		for _, m := range pk.Members {
			if f, isF := m.(*ssa.Function); isF {
				fns = append(fns, withAnon(f)...)
			}
			if t, isT := m.(*ssa.Type); isT {
				for _, typ := range []types.Type{t.Type(), types.NewPointer(t.Type())} {
					ms := p.SSA.MethodSets.MethodSet(typ)
					for i := 0; i < ms.Len(); i++ {
						if f := p.SSA.MethodValue(ms.At(i)); f != nil {
							fns = append(fns, withAnon(f)...)
						}
					}
				}
			}
		}
		for _, f := range fns {
			allInstrs(f, func(in ssa.Instruction) {
				c, isC := in.(*ssa.Call)
				if !isC || c.Call.IsInvoke() || ir.CalleeOf(c.Common()) != nil {
					return
				}
				if _, fld, okf := fieldOfLoad(c.Call.Value); !okf || fld != "DiscardHook" {
					return
				}
				n++
				arg := c.Call.Args[0]
				var leaves []ssa.Value
				phiLeaves(arg, map[ssa.Value]bool{}, &leaves)
				for _, l := range leaves {
					e, isE := l.(*ssa.Extract)
					if !isE {
						ok = false
						continue
					}
					rc, isRC := e.Tuple.(*ssa.Call)
					if !isRC || !ir.IsCallTo(rc, "net/http.ReadResponse") || !ir.IsNilConst(rc.Call.Args[1]) {
						ok = false
					}
				}
			})
		}
	}
	return ok && n > 0, n
}

func ruleDiscardHookInput(r *core.Reporter) {
	p := r.P
	reparsed, n := writerHookArgIsReparsed(p)
	if n == 0 {
		r.Undecided("warc/hook-call", "", "cannot find where the warc module calls DiscardHook")
		return
	}
	if !reparsed {
		r.Held("warc/hook-call", n, "the linked warc module hands the hook a live response: no restriction on the fields a hook may read")
		return
	}
	r.Held("warc/hook-call", n, "the warc writer calls DiscardHook on http.ReadResponse(recorded bytes, nil): Request and TLS are nil there")
	adh := p.Func(rel(pkgDiscard), "(*Builder).AddDefaultHooks")
	if adh == nil {
		r.Undecided("discard/hooks", "", "AddDefaultHooks not found")
		return
	}
	var hooks []*ssa.Function
	allInstrs(adh, func(in ssa.Instruction) {
		if c, ok := in.(*ssa.Call); ok {
			for _, a := range c.Call.Args {
				if f, isF := ir.Strip(a).(*ssa.Function); isF && core.InModule(f) {
					hooks = append(hooks, f)
				}
			}
		}
	})
	if !r.Floor("default discard hooks", len(hooks), 2) {
		return
	}
	forbidden := map[string]bool{"Request": true, "TLS": true}
	for _, h := range hooks {
		r.Analysed(h)
		bad := ""
		var pos ssa.Instruction
		for _, f := range withAnon(h) {
			allInstrs(f, func(in ssa.Instruction) {
				if fa, ok := in.(*ssa.FieldAddr); ok {
					if tn, fld, _ := ir.FieldOf(fa); tn == "net/http.Response" && forbidden[fld] {
						bad, pos = fld, in
					}
				}
			})
		}
		// the body is not the hook's to read: whatever it consumes (a Peek through a throw-away bufio.Reader fills
		// 4 KB) is missing when the writer digests and records the payload afterwards
		var bodyPos ssa.Instruction
		for _, f := range withAnon(h) {
			allInstrs(f, func(in ssa.Instruction) {
				if fa, ok := in.(*ssa.FieldAddr); ok {
					if tn, fld, _ := ir.FieldOf(fa); tn == "net/http.Response" && fld == "Body" {
						// a nil test alone reads nothing
						onlyNilTests := true
						for _, ld := range ir.Referrers(fa) {
							u, isLoad := ld.(*ssa.UnOp)
							if !isLoad {
								onlyNilTests = false
								continue
							}
							for _, use := range ir.Referrers(u) {
								b, isB := use.(*ssa.BinOp)
								if !isB || !(ir.IsNilConst(b.X) || ir.IsNilConst(b.Y)) {
									onlyNilTests = false
								}
							}
						}
						if !onlyNilTests {
							bodyPos = in
						}
					}
				}
			})
		}
		if bodyPos != nil {
			r.Violated("hook/"+shortName(ir.FullName(h))+"/body", p.InstrPos(bodyPos), "the discard hook reads from resp.Body: the bytes it consumes are gone when the WARC writer computes the payload digest and writes the record — wrong digests, and distinct pages that share a tail are stored as revisits of each other (payload lost)")
		}
		if bad != "" {
			r.Violated("hook/"+shortName(ir.FullName(h)), p.InstrPos(pos), "the discard hook reads resp.%s, which is nil when the WARC writer evaluates the hook on the re-parsed response: the hook then never discards there and rejected responses are written to the WARC", bad)
		} else {
			r.Held("hook/"+shortName(ir.FullName(h)), 1, "depends only on wire-level fields of the response")
		}
	}
}

// warcBlockingFeedbackSend: position of a send on RecordBatch.FeedbackChan outside a select in the linked warc module ("" if none).
func warcBlockingFeedbackSend(p *core.Program) string {
	pos := ""
	scan := func(fn *ssa.Function) {
		allInstrs(fn, func(in ssa.Instruction) {
			snd, ok := in.(*ssa.Send)
			if !ok {
				return
			}
			if _, f, okf := fieldOfLoad(snd.Chan); okf && f == "FeedbackChan" {
				pos = p.InstrPos(in)
			}
		})
	}
	for _, pk := range p.SSA.AllPackages() {
		if pk.Pkg.Path() != "github.com/CorentinB/warc" {
			continue
		}
		for _, m := range pk.Members {
			switch x := m.(type) {
			case *ssa.Function:
				for _, f := range withAnon(x) {
					scan(f)
				}
			case *ssa.Type:
				for _, t := range []types.Type{x.Type(), ptrTo(x)} {
					ms := p.SSA.MethodSets.MethodSet(t)
					for i := 0; i < ms.Len(); i++ {
						if f := p.SSA.MethodValue(ms.At(i)); f != nil {
							for _, ff := range withAnon(f) {
								scan(ff)
							}
						}
					}
				}
			}
		}
	}
	return pos
}
