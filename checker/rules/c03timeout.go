package rules

import (
	"fmt"
	"go/token"
	"strings"

	"golang.org/x/tools/go/ssa"

	"zenocheck/core"
	"zenocheck/ir"
)

// R-CLIENT-TIMEOUT: http.Client.Timeout is the only bound on an exchange with a stalled origin; archiver.Stop waits
// for the fetch goroutines, so a client without it makes a stop unbounded. Each WARC client that startWARCWriter
// creates must have its Timeout set from config.HTTPTimeout on every path to the return.

func init() {
	register(&core.Rule{ID: "R-CLIENT-TIMEOUT", Props: []string{"C03"}, Doc: "in archiver.startWARCWriter, for each WARC client created (a store of warc.NewWARCWritingHTTPClient's result to archiver.Client / ClientWithProxy): every path from the creation to a return, taken with config.HTTPTimeout > 0 and the client non-nil, passes a store to that client's Timeout of a value derived from config.HTTPTimeout — an early return (or a branch that only serves the other client) leaves the proxied or the direct client without a bound, and archiver.Stop then waits for ever on a stalled origin", Run: ruleClientTimeout})
}

func ruleClientTimeout(r *core.Reporter) {
	p := r.P
	fn := p.Func(rel(pkgArch), "startWARCWriter")
	if fn == nil {
		r.Undecided("archiver.startWARCWriter", "", "anchor not found")
		return
	}
	r.Analysed(fn)
	type edge struct {
		b *ssa.BasicBlock
		s int
	}
	created := map[string]ssa.Instruction{}
	allInstrs(fn, func(in ssa.Instruction) {
		st, ok := in.(*ssa.Store)
		if !ok {
			return
		}
		tn, f, ok := ir.FieldOf(st.Addr)
		if ok && tn == tArchiver && (f == "Client" || f == "ClientWithProxy") && !ir.IsNilConst(st.Val) {
			created[f] = in
		}
	})
	if !r.Floor("clients created in startWARCWriter", len(created), 1) {
		return
	}
	for field, at := range created {
		cut := map[edge]bool{}
		for _, ii := range ir.Ifs(fn) {
			a := ii.Atom
			if a.V != nil {
				continue
			}
			switch a.Op {
			case token.LSS: // 0 < HTTPTimeout
				if z, ok := ir.ConstInt(a.X); ok && z == 0 && strings.HasSuffix(ir.Path(a.Y), "config.Get().HTTPTimeout") {
					cut[edge{ii.If.Block(), ii.EdgeWhen(false)}] = true
				}
			case token.EQL: // client == nil is not the case after its creation
				x, y := a.X, a.Y
				if ir.IsNilConst(x) {
					x, y = y, x
				}
				if ir.IsNilConst(y) {
					if f, ok := clientFieldLoad(x); ok && f == field {
						cut[edge{ii.If.Block(), ii.EdgeWhen(true)}] = true
					}
				}
			}
		}
		sets := func(in ssa.Instruction) bool {
			st, ok := in.(*ssa.Store)
			if !ok {
				return false
			}
			fa, ok := st.Addr.(*ssa.FieldAddr)
			if !ok {
				return false
			}
			if _, fname, okf := ir.FieldOf(fa); !okf || fname != "Timeout" {
				return false
			}
			base := fa.X
			// Timeout is a promoted field of the embedded http.Client: walk up to the client pointer
			for i := 0; i < 3; i++ {
				if f, ok := clientFieldLoad(base); ok {
					return f == field && strings.Contains(ir.Path(st.Val), "HTTPTimeout")
				}
				if up, ok := base.(*ssa.FieldAddr); ok {
					base = up.X
				} else {
					break
				}
			}
			return false
		}
		key := "startWARCWriter/" + field + ".Timeout"
		if ret, bad := ir.PathExists([]ir.Pt{ir.After(at)}, ir.Opts{Stop: sets, EdgeOK: func(b *ssa.BasicBlock, s int) bool { return !cut[edge{b, s}] }}, ir.IsExit); bad {
			r.Violated(key, p.InstrPos(ret), "archiver.%s is created at %s but startWARCWriter can return (with --http-timeout set) without giving it a Timeout: an exchange with a stalled origin through that client never ends, and archiver.Stop waits for it", field, p.InstrPos(at))
		} else {
			r.Held(key, 1, "with HTTPTimeout > 0 every path from the creation of %s to the return sets its Timeout from config.HTTPTimeout", field)
		}
	}
}

func init() {
	register(&core.Rule{ID: "R-SLEEP-BOUNDED", Props: []string{"C03", "C10"}, Doc: "every time.Sleep in the fetch goroutine of archiver.archive (the retry back-off; archiver.Stop waits for that goroutine and nothing in it watches the stop context) sleeps for a duration computed from constants, the retry counter and configuration only: the backward slice of the argument contains no value derived from the *http.Response or its headers — a server-chosen Retry-After turns a stop into a wait of the server's choosing, with the WARC files left .open meanwhile", Run: ruleSleepBounded})
}

func ruleSleepBounded(r *core.Reporter) {
	p := r.P
	fn, _ := fetchClosure(p)
	if fn == nil {
		r.Undecided("archiver/fetch-closure", "", "not found")
		return
	}
	r.Analysed(fn)
	n := 0
	for _, f := range withAnon(fn) {
		allInstrs(f, func(in ssa.Instruction) {
			c, ok := in.(*ssa.Call)
			if !ok || !ir.IsCallTo(c, "time.Sleep") || len(c.Call.Args) != 1 {
				return
			}
			n++
			key := fmt.Sprintf("%s/sleep#%d", core.FuncName(f), n)
			seen := map[ssa.Value]bool{}
			var from ssa.Value
			var walk func(v ssa.Value, d int)
			walk = func(v ssa.Value, d int) {
				if v == nil || seen[v] || d > 14 || from != nil {
					return
				}
				seen[v] = true
				// capped by a constant: whatever the server says, the sleep is bounded
				if c, isC := v.(*ssa.Call); isC && (ir.CallName(c.Common()) == "builtin.min" || ir.IsCallTo(c, "math.Min")) {
					for _, a := range c.Call.Args {
						if _, isConst := ir.Strip(a).(*ssa.Const); isConst {
							return
						}
					}
				}
				tn := ir.TypeName(v.Type())
				if tn == "net/http.Response" || tn == "net/http.Header" {
					from = v
					return
				}
				if fa, isFA := v.(*ssa.FieldAddr); isFA {
					if t, _, okf := ir.FieldOf(fa); okf && t == "net/http.Response" {
						from = v
						return
					}
				}
				var ops []*ssa.Value
				if instr, isI := v.(ssa.Instruction); isI {
					ops = instr.Operands(nil)
				}
				for _, op := range ops {
					if op != nil && *op != nil {
						walk(*op, d+1)
					}
				}
				// a spilled local: what was stored to the cell
				if u, isU := v.(*ssa.UnOp); isU && u.Op == token.MUL {
					if a, isA := u.X.(*ssa.Alloc); isA {
						for _, rr := range ir.Referrers(a) {
							if st, isSt := rr.(*ssa.Store); isSt && st.Addr == ssa.Value(a) {
								walk(st.Val, d+1)
							}
						}
					}
				}
			}
			walk(c.Call.Args[0], 0)
			if from != nil {
				r.Violated(key, p.InstrPos(in), "the sleep duration depends on the response (%s): the server decides how long the fetch goroutine — which archiver.Stop waits for and which does not watch the stop context — stays asleep", ir.Path(from))
			} else {
				r.Held(key, 1, "sleep duration independent of the response")
			}
		})
	}
	if n == 0 {
		r.Held("archive/no-sleep", 0, "the fetch goroutine does not sleep")
	}
}

func init() {
	register(&core.Rule{ID: "R-STOP-CANCEL-FIRST", Props: []string{"C03", "C12"}, Doc: "every component stop function that controler.stopPipeline calls and that cancels a context does so before it waits for anything: on the way from its entry to the first cancel call there is no loop, no WaitGroup.Wait, no sleep and no channel operation. A stop that first waits for the component to drain ('let run() hand over what it accepted') waits for consumers that stopPipeline has already stopped — it never reaches the cancel", Run: ruleStopCancelFirst})
}

func ruleStopCancelFirst(r *core.Reporter) {
	p := r.P
	sp := p.Func(rel(pkgCtl), "stopPipeline")
	if sp == nil {
		r.Undecided("controler.stopPipeline", "", "anchor not found")
		return
	}
	r.Analysed(sp)
	n := 0
	seen := map[*ssa.Function]bool{}
	allInstrs(sp, func(in ssa.Instruction) {
		cc := ir.AsCall(in)
		if cc == nil {
			return
		}
		fn := cc.StaticCallee()
		if fn == nil || !core.InModule(fn) || seen[fn] || fn.Blocks == nil {
			return
		}
		seen[fn] = true
		isCancel := func(x ssa.Instruction) bool {
			c, ok := x.(*ssa.Call)
			return ok && ir.TypeName(c.Call.Value.Type()) == "context.CancelFunc"
		}
		has := false
		allInstrs(fn, func(x ssa.Instruction) {
			if isCancel(x) {
				has = true
			}
		})
		if !has {
			return
		}
		n++
		r.Analysed(fn)
		key := core.FuncName(fn) + "/cancel-first"
		// every context cancel of the function is reached without waiting (a second cancel behind a drain loop is
		// the same hang)
		var cancels []ssa.Instruction
		allInstrs(fn, func(x ssa.Instruction) {
			if isCancel(x) {
				cancels = append(cancels, x)
			}
		})
		var bad ssa.Instruction
		why := ""
		var before ir.Result
		for _, cx := range cancels {
			cx := cx
			isCancel = func(x ssa.Instruction) bool { return x == cx }
			before = ir.Reach([]ir.Pt{ir.Entry(fn)}, ir.Opts{Stop: isCancel})
			if !before.Stopped[cx] {
				continue
			}
			for x := range before.Reached {
				switch y := x.(type) {
				case *ssa.Call:
					switch {
					case ir.IsCallTo(y, "(*sync.WaitGroup).Wait"):
						bad, why = x, "waits on a WaitGroup"
					case ir.IsCallTo(y, "time.Sleep"):
						bad, why = x, "sleeps"
					}
				case *ssa.UnOp:
					if y.Op == token.ARROW {
						bad, why = x, "receives from a channel"
					}
				case *ssa.Send:
					bad, why = x, "sends on a channel"
				case *ssa.Select:
					if y.Blocking {
						bad, why = x, "blocks in a select"
					}
				}
				if bad != nil {
					break
				}
			}
			if bad == nil {
				// a loop before the cancel: some instruction before it reaches itself without passing the cancel
				for x := range before.Reached {
					if _, isIf := x.(*ssa.If); !isIf {
						continue
					}
					if ir.Reach([]ir.Pt{ir.After(x)}, ir.Opts{Stop: isCancel}).Reached[x] {
						bad, why = x, "loops (polls a condition)"
						break
					}
				}
			}
			if bad != nil {
				break
			}
		}
		if bad != nil {
			r.Violated(key, p.InstrPos(bad), "%s %s before it cancels the component's context: when what it waits for depends on a consumer that stopPipeline stopped earlier, the cancel is never reached and the stop hangs", core.FuncName(fn), why)
		} else {
			r.Held(key, 1, "cancel reached without waiting")
		}
	})
	r.Floor("stop functions with a cancel", n, 4)
}
