package rules

import (
	"go/token"
	"strings"

	"golang.org/x/tools/go/ssa"

	"zenocheck/core"
	"zenocheck/ir"
)

func init() {
	PropertyText["C11"] = [2]string{
		"Decides the code-shape form of 'well-formed tree, exact completion': only AddChild/_unsafeRemoveChild/NewItem write the structural fields, under the children mutex (R-TREE-WRITERS, R-TREE-LOCK); every successful AddChild appends the child, links it to this parent, sets the parent's status to a validated `from` and the child's to Fresh (R-ADDCHILD-LINKS); HasWork is false exactly on the terminal states, markCompleted completes a parent exactly when its status is GotChildren/GotRedirected and no child has work — no weaker and no stronger condition —, children first (R-TERMINAL, R-MARK); DedupeItems removes only on a map hit, keeps the survivor, never the seed, and sees every node (R-DEDUPE-KEEPS-ONE); every stage worker checks the tree's consistency before touching it (R-CONSISTENCY-GATES); status writes stay with their owners (R-STATUS-WRITERS).",
		"Not decided: that arbitrary operation sequences preserve CheckConsistency (a semantic invariant over runtime trees — needs enumeration, a different family); uniqueness of ids (UUID generation).",
	}
	register(&core.Rule{ID: "R-TREE-WRITERS", Props: []string{"C11"}, Doc: "Item.children is stored only in AddChild and _unsafeRemoveChild, Item.parent only in AddChild and NewItem, Item.id only in NewItem", Run: ruleTreeWriters})
	register(&core.Rule{ID: "R-TREE-LOCK", Props: []string{"C11"}, Doc: "every store to Item.children happens with that item's childrenMu write-held (directly, or in a helper all of whose callers hold it); every Lock is released on all exits; GetChildren reads under the read lock", Run: ruleTreeLock})
	register(&core.Rule{ID: "R-ADDCHILD-LINKS", Props: []string{"C11"}, Doc: "AddChild: every path returning nil has appended the child to i.children, set child.parent = i, set the parent's status to `from` and the child's status to ItemFresh; `from` other than GotRedirected/GotChildren and a nil child are rejected with an error; RemoveChild removes exactly the child with the given id", Run: ruleAddChildLinks})
	register(&core.Rule{ID: "R-CONSISTENCY-GATES", Props: []string{"C11"}, Doc: "each stage worker calls CheckConsistency on the received seed and panics on a non-nil result before any other use of the seed", Run: ruleConsistencyGates})
}

func itemFieldStores(p *core.Program, field string) (out []*ssa.Store) {
	for _, fn := range p.ModFuncs {
		allInstrs(fn, func(in ssa.Instruction) {
			if st, ok := in.(*ssa.Store); ok {
				if tn, f, ok := ir.FieldOf(st.Addr); ok && tn == tItem && f == field {
					out = append(out, st)
				}
			}
		})
	}
	return
}

func ruleTreeWriters(r *core.Reporter) {
	p := r.P
	allowed := map[string]map[string]bool{
		"children": {"pkg/models.(*Item).AddChild": true, "pkg/models._unsafeRemoveChild": true},
		"parent":   {"pkg/models.(*Item).AddChild": true, "pkg/models.NewItem": true},
		"id":       {"pkg/models.NewItem": true},
		"url":      {"pkg/models.NewItem": true},
	}
	for field, ok0 := range allowed {
		ok := map[string]bool{}
		for n := range ok0 {
			ok[p.CurrentName(n)] = true // follows pure renames
		}
		if field == "children" && p.Func(rel(pkgModels), "_unsafeRemoveChild") == nil {
			ok["pkg/models.(*Item).RemoveChild"] = true // the unexported helper folded into its only caller
		}
		sts := itemFieldStores(p, field)
		bad := 0
		writers := map[string]bool{}
		for _, st := range sts {
			name := core.FuncName(st.Parent())
			writers[name] = true
			if !ok[name] {
				bad++
				r.Violated("Item."+field+"/writer/"+name, p.InstrPos(st), "Item.%s is written in %s, outside %v: parent/child links can become asymmetric without passing the model's own operations", field, name, keys(ok))
			}
		}
		if bad == 0 {
			if len(sts) == 0 {
				r.Undecided("Item."+field+"/writers", "", "no store to Item.%s found", field)
			} else {
				r.Held("Item."+field+"/writers", len(sts), "written only in %v", keys(writers))
			}
		}
	}
}

func ruleTreeLock(r *core.Reporter) {
	p := r.P
	fns := p.FuncsInPkg(rel(pkgModels))
	// caller-holds helpers
	callerHolds := map[*ssa.Function]bool{}
	for _, callee := range fns {
		if callee.Parent() != nil || len(callee.Params) == 0 {
			continue
		}
		all, any := true, false
		for _, caller := range fns {
			ls := ir.Locksets(caller, ir.Lockset{})
			allInstrs(caller, func(in ssa.Instruction) {
				if c, ok := in.(*ssa.Call); ok && ir.CalleeOf(c.Common()) == callee {
					any = true
					key := ir.Path(c.Call.Args[0]) + ".childrenMu"
					if !ls[in].Holds(key, false) {
						all = false
					}
				}
			})
		}
		if any && all {
			callerHolds[callee] = true
		}
	}
	n, bad := 0, 0
	for _, st := range itemFieldStores(p, "children") {
		fn := st.Parent()
		n++
		r.Analysed(fn)
		entry := ir.Lockset{}
		if callerHolds[fn] {
			entry["$"+fn.Params[0].Name()+".childrenMu"] = true
		}
		ls := ir.Locksets(fn, entry)
		base := ""
		if fa, ok := st.Addr.(*ssa.FieldAddr); ok {
			base = ir.Path(fa.X)
		}
		if !ls[st].Holds(base+".childrenMu", false) {
			bad++
			r.Violated("children-store/"+core.FuncName(fn), p.InstrPos(st), "Item.children is modified without holding that item's childrenMu (held: %s): concurrent fetch goroutines/traversals see a torn slice", ls[st])
		}
	}
	for _, fn := range fns {
		allInstrs(fn, func(in ssa.Instruction) {
			if ir.IsPlainCallTo(in, "(*sync.RWMutex).Lock", "(*sync.RWMutex).RLock") {
				if !ir.UnlockOnAllExits(fn, in) {
					bad++
					r.Violated("unlock/"+core.FuncName(fn), p.InstrPos(in), "a path returns with childrenMu still locked")
				}
			}
		})
	}
	// GetChildren reads under RLock
	gc := p.Func(rel(pkgModels), "(*Item).GetChildren")
	if gc != nil {
		r.Analysed(gc)
		ls := ir.Locksets(gc, ir.Lockset{})
		okRead := true
		allInstrs(gc, func(in ssa.Instruction) {
			if fa, ok := in.(*ssa.FieldAddr); ok {
				if _, f, _ := ir.FieldOf(fa); f == "children" {
					if !ls[in].Holds(ir.Path(fa.X)+".childrenMu", true) {
						okRead = false
					}
				}
			}
		})
		if !okRead {
			bad++
			r.Violated("GetChildren/read-lock", fnPos(p, gc), "GetChildren reads the children slice without the read lock")
		}
	}
	if r.Floor("stores to Item.children", n, 1) && bad == 0 {
		r.Held("children/locking", n, "%d stores under childrenMu (helpers with caller-holds: %d); locks released on all exits; GetChildren under RLock", n, len(callerHolds))
	}
}

func ruleAddChildLinks(r *core.Reporter) {
	p := r.P
	states, _ := itemStates(p)
	fn := p.Func(rel(pkgModels), "(*Item).AddChild")
	if fn == nil || len(fn.Params) != 3 {
		r.Undecided("models.AddChild", "", "anchor not found")
		return
	}
	r.Analysed(fn)
	recv, child, from := fn.Params[0], fn.Params[1], fn.Params[2]
	type ev struct {
		name string
		m    func(in ssa.Instruction) bool
	}
	storeTo := func(in ssa.Instruction, base ssa.Value, field string, val func(ssa.Value) bool) bool {
		st, ok := in.(*ssa.Store)
		if !ok {
			return false
		}
		fa, ok := st.Addr.(*ssa.FieldAddr)
		if !ok {
			return false
		}
		_, f, _ := ir.FieldOf(fa)
		if f != field {
			return false
		}
		// base may be reached through child.parent (== recv after the link store)
		bp := ir.Path(fa.X)
		if !(ir.SameValue(fa.X, base) || (base == ssa.Value(recv) && bp == "$"+child.Name()+".parent")) {
			return false
		}
		return val(st.Val)
	}
	evs := []ev{
		{"append child to i.children", func(in ssa.Instruction) bool {
			return storeTo(in, recv, "children", func(v ssa.Value) bool {
				c, ok := v.(*ssa.Call)
				if !ok || ir.CallName(c.Common()) != "builtin.append" {
					return false
				}
				_, flows := ir.FlowsTo(child, func(x ssa.Instruction, _ ssa.Value) bool { return x == ssa.Instruction(c) }, 40)
				return flows
			})
		}},
		{"child.parent = i", func(in ssa.Instruction) bool {
			return storeTo(in, child, "parent", func(v ssa.Value) bool { return ir.SameValue(v, recv) })
		}},
		{"parent.status = from", func(in ssa.Instruction) bool {
			return storeTo(in, recv, "status", func(v ssa.Value) bool { return ir.SameValue(v, from) })
		}},
		{"child.status = ItemFresh", func(in ssa.Instruction) bool {
			return storeTo(in, child, "status", func(v ssa.Value) bool { k, ok := ir.ConstInt(v); return ok && k == states["ItemFresh"] })
		}},
	}
	for _, e := range evs {
		res := ir.Reach([]ir.Pt{ir.Entry(fn)}, ir.Opts{Stop: e.m})
		var bad ssa.Instruction
		for _, ret := range ir.Returns(fn) {
			if ir.ReturnsNil(ret, 0) && res.Reached[ret] {
				bad = ret
			}
		}
		if bad != nil {
			r.Violated("AddChild/"+e.name, p.InstrPos(bad), "AddChild can succeed without `%s`: the tree is left with a one-sided link or a status incompatible with its structure", e.name)
		} else {
			r.Held("AddChild/"+e.name, 1, "on every successful path")
		}
	}
	// validation: nil child and invalid from are rejected
	okNil, okFrom := false, false
	for _, ii := range ir.Ifs(fn) {
		a := ii.Atom
		if a.V == nil && a.Op == token.EQL {
			if (ir.SameValue(a.X, child) && ir.IsNilConst(a.Y)) || (ir.SameValue(a.Y, child) && ir.IsNilConst(a.X)) {
				// true edge returns an error
				start := ir.EdgePt(ii.If.Block(), ii.EdgeWhen(true))
				okNil = true
				for x := range ir.Reach([]ir.Pt{start}, ir.Opts{}).Reached {
					if ret, isRet := x.(*ssa.Return); isRet && ir.ReturnsNil(ret, 0) {
						okNil = false
					}
				}
			}
		}
	}
	// from ∉ {GotRedirected, GotChildren} ⇒ error: success returns are unreachable when both `from == X` true edges are cut
	var fromEdges [][2]any
	for _, ii := range ir.Ifs(fn) {
		a := ii.Atom
		if a.V == nil && a.Op == token.EQL && ir.SameValue(a.X, from) {
			if k, ok := ir.ConstInt(a.Y); ok && (k == states["ItemGotRedirected"] || k == states["ItemGotChildren"]) {
				fromEdges = append(fromEdges, [2]any{ii.If.Block(), ii.EdgeWhen(true)})
			}
		}
	}
	if len(fromEdges) >= 2 {
		res := ir.Reach([]ir.Pt{ir.Entry(fn)}, ir.Opts{EdgeOK: func(b *ssa.BasicBlock, s int) bool {
			for _, e := range fromEdges {
				if e[0].(*ssa.BasicBlock) == b && e[1].(int) == s {
					return false
				}
			}
			return true
		}})
		okFrom = true
		for _, ret := range ir.Returns(fn) {
			if ir.ReturnsNil(ret, 0) && res.Reached[ret] {
				okFrom = false
			}
		}
	}
	if okNil && okFrom {
		r.Held("AddChild/validation", 2, "nil child and `from` outside {GotRedirected, GotChildren} are rejected")
	} else {
		r.Violated("AddChild/validation", fnPos(p, fn), "AddChild accepts a nil child (%v) or an arbitrary `from` state (%v): the parent could get a status incompatible with having children", !okNil, !okFrom)
	}
	// RemoveChild → _unsafeRemoveChild(parent, child.GetID()): removes exactly the matching element
	ur := p.Func(rel(pkgModels), "_unsafeRemoveChild")
	rc := p.Func(rel(pkgModels), "(*Item).RemoveChild")
	folded := false
	if ur == nil && rc != nil {
		// the helper folded into RemoveChild by hand: same checks on RemoveChild itself
		ur, folded = rc, true
	}
	if ur == nil || rc == nil {
		r.Undecided("RemoveChild", "", "anchors not found")
		return
	}
	r.Analysed(ur, rc)
	okCall := folded
	allInstrs(rc, func(in ssa.Instruction) {
		if c, ok := in.(*ssa.Call); ok && ir.CalleeOf(c.Common()) == ur {
			if ir.SameValue(c.Call.Args[0], rc.Params[0]) && ir.Path(c.Call.Args[1]) == "$"+rc.Params[1].Name()+".GetID()" {
				okCall = true
			}
		}
	})
	// in _unsafeRemoveChild the delete is guarded by id equality with the given id and removes index i only
	okDel := false
	for _, st := range itemFieldStores(p, "children") {
		if st.Parent() != ur {
			continue
		}
		_, g := ir.GuardedBy(ur, ir.Entry(ur), st, true, func(a ir.Atom) bool {
			if a.V != nil || a.Op != token.EQL {
				return false
			}
			px, py := ir.Path(a.X), ir.Path(a.Y)
			want := "$" + ur.Params[1].Name()
			if folded {
				want += ".GetID()" // compared with the id of the child given to RemoveChild
			}
			return (strings.HasSuffix(px, ".GetID()") && py == want && px != want) || (strings.HasSuffix(py, ".GetID()") && px == want && py != want)
		})
		if c, ok := st.Val.(*ssa.Call); ok && g && ir.CallName(c.Common()) == "builtin.append" {
			lo, ok1 := c.Call.Args[0].(*ssa.Slice)
			hi, ok2 := c.Call.Args[1].(*ssa.Slice)
			if ok1 && ok2 && lo.Low == nil && lo.High != nil && hi.Low != nil {
				if b, isB := hi.Low.(*ssa.BinOp); isB && b.Op == token.ADD && b.X == lo.High {
					if one, okc := ir.ConstInt(b.Y); okc && one == 1 {
						okDel = true
					}
				}
			}
		}
	}
	if okCall && okDel {
		r.Held("RemoveChild", 2, "removes exactly the element whose id equals the given child's id")
	} else {
		r.Violated("RemoveChild", fnPos(p, ur), "RemoveChild does not remove exactly the child with the given id (call ok=%v, deletion ok=%v)", okCall, okDel)
	}
}

func ruleConsistencyGates(r *core.Reporter) {
	p := r.P
	n := 0
	for _, pk := range []string{pkgPre, pkgArch, pkgPost, pkgFin} {
		w := findStageWorker(p, pk)
		if w == nil {
			r.Undecided("gate/"+rel(pk), "", "stage worker not found")
			continue
		}
		r.Analysed(w.Fn)
		name := core.FuncName(w.Fn)
		var cc *ssa.Call
		allInstrs(w.Fn, func(in ssa.Instruction) {
			if c, ok := in.(*ssa.Call); ok && ir.IsCallTo(c, "(*"+pkgModels+".Item).CheckConsistency") && ir.SameValue(c.Call.Args[0], w.Seed) {
				cc = c
			}
		})
		if cc == nil {
			r.Violated(name+"/consistency-gate", fnPos(p, w.Fn), "the worker no longer checks the received seed's consistency")
			continue
		}
		n++
		// "real" uses of the seed: the stage function call and the forward — must come after the check's nil edge
		outs := map[string]bool{}
		fwd := forwardEvent(w, outs)
		work := func(in ssa.Instruction) bool {
			if fwd(in) {
				return true
			}
			c, ok := in.(*ssa.Call)
			if !ok {
				return false
			}
			f := ir.CalleeOf(c.Common())
			if f == nil || !core.InModule(f) || f.Signature.Recv() != nil {
				return false
			}
			for _, a := range c.Call.Args {
				if ir.SameValue(a, w.Seed) {
					return true // preprocess/archive/postprocess/closeBodies/reactor calls
				}
			}
			return false
		}
		res := ir.Reach([]ir.Pt{w.Start}, ir.Opts{Stop: func(in ssa.Instruction) bool { return in == ssa.Instruction(cc) }, EdgeOK: pruneStopArms(w.Fn)})
		var early ssa.Instruction
		for in := range res.Reached {
			if work(in) {
				early = in
			}
		}
		// error side panics
		okPanic := false
		for _, ii := range ir.Ifs(w.Fn) {
			a := ii.Atom
			if a.V == nil && a.Op == token.EQL && ((a.X == ssa.Value(cc) && ir.IsNilConst(a.Y)) || (a.Y == ssa.Value(cc) && ir.IsNilConst(a.X))) {
				start := ir.EdgePt(ii.If.Block(), ii.EdgeWhen(false))
				rs := ir.Reach([]ir.Pt{start}, ir.Opts{})
				okPanic = true
				for in := range rs.Reached {
					if work(in) {
						okPanic = false
					}
					if _, isRet := in.(*ssa.Return); isRet {
						okPanic = false
					}
				}
			}
		}
		switch {
		case early != nil:
			r.Violated(name+"/consistency-gate", p.InstrPos(early), "the seed is worked on before CheckConsistency has passed")
		case !okPanic:
			r.Violated(name+"/consistency-gate", p.InstrPos(cc), "an inconsistent tree does not stop the worker (the error of CheckConsistency is not fatal)")
		default:
			r.Held(name+"/consistency-gate", 1, "CheckConsistency(seed)==nil precedes every use of the seed; an error panics")
		}
	}
	r.Floor("consistency gates", n, 4)
}
