// Package canon normalises the source before analysis: functions that did not exist on the tree the rules were
// written against ("new helpers", by the baseline inventory) are inlined back into their same-package callers
// and removed, as a go/packages overlay. The rules then see the shape they know, whether or not a maintainer
// extracted a block into a helper. Nothing is written to the repository; if anything about the rewrite is
// doubtful (does not type-check, unsupported call context, possible name capture) the helper is left alone.
package canon

import (
	"bytes"
	"fmt"
	"go/ast"
	"go/parser"
	"go/scanner"
	"go/token"
	"go/types"
	"hash/fnv"
	"os"
	"path/filepath"
	"sort"
	"strings"

	"golang.org/x/tools/go/packages"
)

// Report says what was done.
type Report struct {
	Inlined []string          `json:"inlined_helpers,omitempty"` // pkg.Func, removed after inlining
	Kept    map[string]string `json:"helpers_left_alone,omitempty"`
	Aliases map[string]string `json:"renamed_functions,omitempty"` // baseline key -> current key
	Renamed []string          `json:"names_restored,omitempty"`    // "current -> reference" renames undone in the overlay
	Rounds  int               `json:"rounds,omitempty"`
	Note    string            `json:"note,omitempty"`
}

// Key identifies a declared function: "<pkg dir relative to module>|<receiver type>|<name>".
func Key(relDir, recv, name string) string { return relDir + "|" + recv + "|" + name }

type declInfo struct {
	key, sig string
}

func recvName(fd *ast.FuncDecl) string {
	if fd.Recv == nil || len(fd.Recv.List) == 0 {
		return ""
	}
	t := fd.Recv.List[0].Type
	for {
		switch x := t.(type) {
		case *ast.StarExpr:
			t = x.X
			continue
		case *ast.IndexExpr:
			t = x.X
			continue
		case *ast.IndexListExpr:
			t = x.X
			continue
		case *ast.ParenExpr:
			t = x.X
			continue
		case *ast.Ident:
			return x.Name
		}
		return "?"
	}
}

// sigText renders the parameter and result types of a declaration (names dropped).
func sigText(src []byte, fset *token.FileSet, fd *ast.FuncDecl) string {
	var b strings.Builder
	field := func(fl *ast.FieldList) {
		if fl == nil {
			return
		}
		for _, f := range fl.List {
			n := len(f.Names)
			if n == 0 {
				n = 1
			}
			t := string(src[fset.Position(f.Type.Pos()).Offset:fset.Position(f.Type.End()).Offset])
			for i := 0; i < n; i++ {
				b.WriteString(strings.Join(strings.Fields(t), " "))
				b.WriteString(",")
			}
		}
	}
	b.WriteString("(")
	field(fd.Type.Params)
	b.WriteString(")(")
	field(fd.Type.Results)
	b.WriteString(")")
	return b.String()
}

// abstractText renders Go source text with every identifier that is not predeclared replaced by "_": two pieces
// of code that differ only by renames have the same abstract text.
func abstractText(src []byte) string {
	var sc scanner.Scanner
	fs := token.NewFileSet()
	f := fs.AddFile("", fs.Base(), len(src))
	sc.Init(f, src, nil, 0)
	var b strings.Builder
	for {
		_, tok, lit := sc.Scan()
		if tok == token.EOF {
			break
		}
		switch {
		case tok == token.IDENT:
			if types.Universe.Lookup(lit) != nil {
				b.WriteString(lit)
			} else {
				b.WriteString("_")
			}
		case tok == token.SEMICOLON && lit == "\n":
			b.WriteString(";")
		case tok.IsLiteral():
			b.WriteString(lit)
		default:
			b.WriteString(tok.String())
		}
		b.WriteString(" ")
	}
	return b.String()
}

func hashText(t string) string {
	h := fnv.New64a()
	h.Write([]byte(t))
	return fmt.Sprintf("%x", h.Sum64())
}

// Inventory lists every function declared in the module's non-test sources: key -> signature text.
func Inventory(repo string, overlay map[string][]byte) (map[string]string, error) {
	out := map[string]string{}
	fset := token.NewFileSet()
	visited := map[string]bool{}
	visit := func(path string, src []byte) error { return inventoryFile(out, fset, repo, path, src) }
	err := filepath.Walk(repo, func(path string, info os.FileInfo, err error) error {
		if err != nil {
			return nil
		}
		if info.IsDir() {
			n := info.Name()
			if n == ".git" || n == "testdata" || n == "vendor" || (strings.HasPrefix(n, ".") && path != repo) || strings.HasPrefix(n, "_") {
				return filepath.SkipDir
			}
			// nested modules are not part of this module
			if path != repo {
				if _, e := os.Stat(filepath.Join(path, "go.mod")); e == nil {
					return filepath.SkipDir
				}
			}
			return nil
		}
		if !strings.HasSuffix(path, ".go") || strings.HasSuffix(path, "_test.go") {
			return nil
		}
		src, ok := overlay[path]
		if !ok {
			var e error
			src, e = os.ReadFile(path)
			if e != nil {
				return nil
			}
		}
		visited[path] = true
		return visit(path, src)
	})
	for path, src := range overlay {
		if !visited[path] && strings.HasPrefix(path, repo+string(filepath.Separator)) && strings.HasSuffix(path, ".go") && !strings.HasSuffix(path, "_test.go") {
			if _, e := os.Stat(filepath.Dir(path)); e == nil {
				visit(path, src)
			}
		}
	}
	return out, err
}

func inventoryFile(out map[string]string, fset *token.FileSet, repo, path string, src []byte) error {
	{
		f, e := parser.ParseFile(fset, path, src, parser.SkipObjectResolution)
		if e != nil {
			return nil // the main load reports syntax errors
		}
		rel, _ := filepath.Rel(repo, filepath.Dir(path))
		// struct types and package-level variables/constants (for rename detection)
		for _, d := range f.Decls {
			gd, ok := d.(*ast.GenDecl)
			if !ok {
				continue
			}
			for _, sp := range gd.Specs {
				switch x := sp.(type) {
				case *ast.TypeSpec:
					st, isS := x.Type.(*ast.StructType)
					if !isS || st.Fields == nil {
						continue
					}
					var fl []string
					for _, fd := range st.Fields.List {
						tt := abstractText(src[fset.Position(fd.Type.Pos()).Offset:fset.Position(fd.Type.End()).Offset])
						if len(fd.Names) == 0 {
							fl = append(fl, ":"+tt)
						}
						for _, n := range fd.Names {
							fl = append(fl, n.Name+":"+tt)
						}
					}
					out["type:"+rel+"|"+x.Name.Name] = strings.Join(fl, ";")
				case *ast.ValueSpec:
					if gd.Tok != token.VAR && gd.Tok != token.CONST {
						continue
					}
					txt := ""
					if x.Type != nil {
						txt += abstractText(src[fset.Position(x.Type.Pos()).Offset:fset.Position(x.Type.End()).Offset])
					}
					txt += "="
					for _, v := range x.Values {
						txt += abstractText(src[fset.Position(v.Pos()).Offset:fset.Position(v.End()).Offset]) + ","
					}
					for i, n := range x.Names {
						if n.Name != "_" {
							out["var:"+rel+"|"+n.Name] = fmt.Sprintf("%s#%d", txt, i)
						}
					}
				}
			}
		}
		slicesName := ""
		for _, is := range f.Imports {
			if is.Path.Value == `"slices"` {
				slicesName = "slices"
				if is.Name != nil {
					slicesName = is.Name.Name
				}
			}
		}
		for _, d := range f.Decls {
			if fd, ok := d.(*ast.FuncDecl); ok {
				if fd.Name.Name == "init" || fd.Name.Name == "_" {
					continue
				}
				val := sigText(src, fset, fd)
				usesCol := ""
				if slicesName != "" && fd.Body != nil {
					var uses []string
					ast.Inspect(fd.Body, func(n ast.Node) bool {
						if c, ok := n.(*ast.CallExpr); ok {
							if kind := modelKind(c, slicesName); kind != "" {
								uses = append(uses, normText(string(src[fset.Position(c.Pos()).Offset:fset.Position(c.End()).Offset])))
							}
						}
						return true
					})
					sort.Strings(uses)
					usesCol = strings.Join(uses, "\x1f")
				}
				val += "\t" + usesCol
				absSig, bodyHash := abstractText([]byte(sigText(src, fset, fd))), ""
				if fd.Body != nil {
					bodyHash = hashText(abstractText(src[fset.Position(fd.Body.Pos()).Offset:fset.Position(fd.Body.End()).Offset]))
				}
				out[Key(rel, recvName(fd), fd.Name.Name)] = val + "\t" + absSig + "\t" + bodyHash
				// local closures bound to a name: candidates for inlining (see oneRound)
				if fd.Body != nil {
					ast.Inspect(fd.Body, func(n ast.Node) bool {
						if as, ok := n.(*ast.AssignStmt); ok && as.Tok == token.DEFINE && len(as.Lhs) == 1 && len(as.Rhs) == 1 {
							if id, ok1 := as.Lhs[0].(*ast.Ident); ok1 && id.Name != "_" {
								if _, ok2 := as.Rhs[0].(*ast.FuncLit); ok2 {
									out["closure:"+Key(rel, recvName(fd), fd.Name.Name)+"$"+id.Name] = "1"
								}
							}
						}
						return true
					})
				}
			}
		}
		return nil
	}
}

// modelled standard-library helpers: a call of one of these that the reference tree did not have is rewritten to
// an explicit loop (through an injected helper that is then inlined), so that a hand-written loop replaced by the
// library function keeps the shape the rules know.
var modelled = map[string]bool{"ContainsFunc": true, "IndexFunc": true, "Contains": true, "Index": true}

func modelKind(c *ast.CallExpr, slicesName string) string {
	sel, ok := c.Fun.(*ast.SelectorExpr)
	if !ok {
		return ""
	}
	x, ok := sel.X.(*ast.Ident)
	if !ok || x.Name != slicesName || !modelled[sel.Sel.Name] {
		return ""
	}
	return sel.Sel.Name
}

func normText(t string) string { return strings.Join(strings.Fields(t), " ") }

func splitVal(v string) (sig string, uses []string) {
	cols := strings.Split(v, "\t")
	sig = cols[0]
	if len(cols) > 1 && cols[1] != "" {
		uses = strings.Split(cols[1], "\x1f")
	}
	return
}

// funcCols: signature, abstract signature, body hash of a function entry.
func funcCols(v string) (sig, absSig, bodyHash string) {
	cols := strings.Split(v, "\t")
	sig = cols[0]
	if len(cols) > 2 {
		absSig = cols[2]
	}
	if len(cols) > 3 {
		bodyHash = cols[3]
	}
	return
}

// newModelUses: per function key, the modelled calls (normalised text) that the baseline does not have.
func newModelUses(inv, baseline map[string]string) map[string]map[string]int {
	out := map[string]map[string]int{}
	for k, v := range inv {
		if strings.HasPrefix(k, "type:") || strings.HasPrefix(k, "var:") {
			continue
		}
		_, cur := splitVal(v)
		if len(cur) == 0 {
			continue
		}
		var base []string
		if bv, ok := baseline[k]; ok {
			_, base = splitVal(bv)
		}
		cnt := map[string]int{}
		for _, u := range cur {
			cnt[u]++
		}
		for _, u := range base {
			cnt[u]--
		}
		// the same call on a renamed or hoisted first argument (`slices.Contains(disabledTags, "img")` for
		// `slices.Contains(config.Get().DisableHTMLTag, "img")`) is not a new use of the library function
		tails := map[string]int{}
		for u, n := range cnt {
			if n < 0 {
				tails[tailKey(u)] -= n
			}
		}
		for u, n := range cnt {
			for n > 0 && tails[tailKey(u)] > 0 {
				tails[tailKey(u)]--
				n--
			}
			cnt[u] = n
		}
		for u, n := range cnt {
			if n > 0 {
				if out[k] == nil {
					out[k] = map[string]int{}
				}
				out[k][u] = n
			}
		}
	}
	return out
}

type edit struct {
	start, end int
	text       string
}

// Run computes the canonicalising overlay. baseline maps Key -> signature text of the reference tree.
func Run(repo string, env []string, base map[string][]byte, baseline map[string]string) (map[string][]byte, Report) {
	rep := Report{Kept: map[string]string{}, Aliases: map[string]string{}}
	cur := map[string][]byte{}
	for k, v := range base {
		cur[k] = v
	}
	if len(baseline) == 0 {
		return cur, rep
	}
	renamedBack := false
	for round := 1; round <= 9; round++ {
		inv, err := Inventory(repo, cur)
		if err != nil {
			rep.Note = "inventory failed: " + err.Error()
			return cur, rep
		}
		newKeys := map[string]bool{}
		closures := 0
		for k := range inv {
			if strings.HasPrefix(k, "type:") || strings.HasPrefix(k, "var:") {
				continue
			}
			if strings.HasPrefix(k, "closure:") {
				closures++
				delete(inv, k) // not a function key: keep it away from rename detection
				continue
			}
			if _, ok := baseline[k]; !ok {
				newKeys[k] = true
			}
		}
		// renames (functions, struct fields, types, package-level variables): undone in the overlay, so that the
		// rules see the names of the reference tree
		if !renamedBack {
			renamedBack = true
			plan := detectRenames(inv, baseline)
			if !plan.empty() {
				next, done := renameBack(repo, env, cur, plan)
				if done != nil && typeErrors(repo, env, next) == "" {
					cur = next
					rep.Renamed = done
					continue
				}
			}
			// what could not be renamed back (method ↔ function conversions, failed rewrite) stays an alias
			for bk, nk := range plan.funcs {
				rep.Aliases[bk] = nk
			}
			for bk, nk := range plan.conv {
				rep.Aliases[bk] = nk
			}
		}
		for _, nk := range rep.Aliases {
			delete(newKeys, nk)
		}
		for k := range rep.Kept {
			delete(newKeys, k)
		}
		for k := range newKeys {
			// a method ↔ function conversion keeps its body: not a helper to inline
			for _, nk := range rep.Aliases {
				if nk == k {
					delete(newKeys, k)
				}
			}
		}
		models := newModelUses(inv, baseline)
		if len(newKeys) == 0 && len(models) == 0 && closures == 0 {
			return cur, rep
		}
		next, did, kept, err := oneRound(repo, env, cur, newKeys, models, rep.Kept)
		for k, why := range kept {
			rep.Kept[k] = why
		}
		if err != nil {
			rep.Note = err.Error()
			return cur, rep
		}
		if len(did) == 0 {
			return cur, rep
		}
		// the rewritten tree must type-check; otherwise keep the previous state
		if bad := typeErrors(repo, env, next); bad != "" {
			rep.Note = "rewrite discarded (round " + fmt.Sprint(round) + "): " + bad
			for _, d := range did {
				rep.Kept[d] = "rewrite did not type-check"
			}
			// retry the round without those helpers
			continue
		}
		cur = next
		rep.Rounds = round
		for _, d := range did {
			if !strings.HasSuffix(d, "#partial") {
				rep.Inlined = append(rep.Inlined, d)
			}
		}
	}
	return cur, rep
}

func loadTyped(repo string, env []string, overlay map[string][]byte) ([]*packages.Package, error) {
	cfg := &packages.Config{
		Mode:    packages.NeedName | packages.NeedFiles | packages.NeedCompiledGoFiles | packages.NeedImports | packages.NeedTypes | packages.NeedTypesSizes | packages.NeedSyntax | packages.NeedTypesInfo,
		Dir:     repo,
		Env:     env,
		Overlay: overlay,
	}
	return packages.Load(cfg, "./...")
}

func typeErrors(repo string, env []string, overlay map[string][]byte) string {
	pkgs, err := loadTyped(repo, env, overlay)
	if err != nil {
		return err.Error()
	}
	for _, pk := range pkgs {
		for _, e := range pk.Errors {
			return e.Error()
		}
	}
	return ""
}

var uidCounter int // labels and temporaries stay unique across rounds

type callSite struct {
	call  *ast.CallExpr
	stack []ast.Node // ancestors, outermost first, ending with the call
	file  *ast.File
	pk    *packages.Package // the caller's package
}

type helper struct {
	key  string
	decl *ast.FuncDecl // for a local closure: a synthetic declaration sharing the literal's Type and Body nodes
	obj  types.Object  // *types.Func, or the *types.Var a closure is bound to
	file *ast.File
	pk   *packages.Package
	def  ast.Stmt // closure helpers: the `name := func(...) {...}` statement, removed once every call is inlined
}

func funcID(fn *types.Func) string {
	if fn == nil || fn.Pkg() == nil {
		return ""
	}
	return fn.Pkg().Path() + "::" + fn.FullName()
}

func oneRound(repo string, env []string, overlay map[string][]byte, newKeys map[string]bool, models map[string]map[string]int, skip map[string]string) (map[string][]byte, []string, map[string]string, error) {
	kept := map[string]string{}
	pkgs, err := loadTyped(repo, env, overlay)
	if err != nil {
		return nil, nil, kept, err
	}
	out := map[string][]byte{}
	for k, v := range overlay {
		out[k] = v
	}
	var did []string
	if len(pkgs) == 0 {
		return out, nil, kept, nil
	}
	fset := pkgs[0].Fset
	fileOf := map[*ast.File]string{}
	srcOf := map[*ast.File][]byte{}
	for _, pk := range pkgs {
		for i, f := range pk.Syntax {
			if i < len(pk.CompiledGoFiles) {
				name := pk.CompiledGoFiles[i]
				fileOf[f] = name
				if b, ok := overlay[name]; ok {
					srcOf[f] = b
				} else if b, e := os.ReadFile(name); e == nil {
					srcOf[f] = b
				}
			}
		}
	}
	// modelled library calls that the reference tree did not have → explicit loops (as injected helpers)
	if len(models) > 0 {
		modelEdits := map[*ast.File][]edit{}
		for _, pk := range pkgs {
			if len(pk.Errors) > 0 || pk.TypesInfo == nil {
				continue
			}
			for _, f := range pk.Syntax {
				name := fileOf[f]
				if name == "" || !strings.HasPrefix(name, repo) || strings.HasSuffix(name, "_test.go") || srcOf[f] == nil {
					continue
				}
				rel, _ := filepath.Rel(repo, filepath.Dir(name))
				qual, _ := qualifierFor(pk, f, map[string]string{})
				var tail strings.Builder
				for _, d := range f.Decls {
					fd, ok := d.(*ast.FuncDecl)
					if !ok || fd.Body == nil {
						continue
					}
					want := models[Key(rel, recvName(fd), fd.Name.Name)]
					if len(want) == 0 {
						continue
					}
					ast.Inspect(fd.Body, func(n ast.Node) bool {
						c, ok := n.(*ast.CallExpr)
						if !ok {
							return true
						}
						sel, ok := c.Fun.(*ast.SelectorExpr)
						if !ok || !modelled[sel.Sel.Name] {
							return true
						}
						fn, _ := pk.TypesInfo.Uses[sel.Sel].(*types.Func)
						if fn == nil || fn.Pkg() == nil || fn.Pkg().Path() != "slices" {
							return true
						}
						txt := normText(text(srcOf[f], fset, c))
						if want[txt] <= 0 {
							return true
						}
						inst, okI := pk.TypesInfo.Instances[sel.Sel]
						if !okI || inst.TypeArgs == nil || inst.TypeArgs.Len() != 2 {
							return true
						}
						want[txt]--
						uidCounter++
						S := types.TypeString(inst.TypeArgs.At(0), qual)
						E := types.TypeString(inst.TypeArgs.At(1), qual)
						hn := fmt.Sprintf("zzcanon%s%d", sel.Sel.Name, uidCounter)
						switch sel.Sel.Name {
						case "ContainsFunc":
							fmt.Fprintf(&tail, "\nfunc %s(s %s, f func(%s) bool) bool {\n\tfor i := range s {\n\t\tif f(s[i]) {\n\t\t\treturn true\n\t\t}\n\t}\n\treturn false\n}\n", hn, S, E)
						case "IndexFunc":
							fmt.Fprintf(&tail, "\nfunc %s(s %s, f func(%s) bool) int {\n\tfor i := range s {\n\t\tif f(s[i]) {\n\t\t\treturn i\n\t\t}\n\t}\n\treturn -1\n}\n", hn, S, E)
						case "Contains":
							fmt.Fprintf(&tail, "\nfunc %s(s %s, v %s) bool {\n\tfor i := range s {\n\t\tif v == s[i] {\n\t\t\treturn true\n\t\t}\n\t}\n\treturn false\n}\n", hn, S, E)
						case "Index":
							fmt.Fprintf(&tail, "\nfunc %s(s %s, v %s) int {\n\tfor i := range s {\n\t\tif v == s[i] {\n\t\t\treturn i\n\t\t}\n\t}\n\treturn -1\n}\n", hn, S, E)
						}
						modelEdits[f] = append(modelEdits[f], edit{fset.Position(c.Fun.Pos()).Offset, fset.Position(c.Fun.End()).Offset, hn})
						return true
					})
				}
				if tail.Len() > 0 {
					// keep the import in use
					for _, is := range f.Imports {
						if is.Path.Value == `"slices"` {
							n := "slices"
							if is.Name != nil {
								n = is.Name.Name
							}
							fmt.Fprintf(&tail, "\nvar _ = %s.Contains[[]int, int]\n", n)
						}
					}
					end := len(srcOf[f])
					modelEdits[f] = append(modelEdits[f], edit{end, end, "\n" + tail.String()})
				}
			}
		}
		if len(modelEdits) > 0 {
			for f, es := range modelEdits {
				res, err := applyEdits(srcOf[f], es)
				if err != nil {
					return nil, nil, kept, err
				}
				out[fileOf[f]] = res
			}
			// the injected helpers are inlined in the next round
			return out, []string{"(library calls modelled as loops)#partial"}, kept, nil
		}
	}
	// new helpers, program-wide
	var helpers []*helper
	byID := map[string]*helper{}
	for _, pk := range pkgs {
		if len(pk.Errors) > 0 || pk.TypesInfo == nil {
			continue
		}
		for _, f := range pk.Syntax {
			name := fileOf[f]
			if name == "" || !strings.HasPrefix(name, repo) || strings.HasSuffix(name, "_test.go") {
				continue
			}
			rel, _ := filepath.Rel(repo, filepath.Dir(name))
			for _, d := range f.Decls {
				fd, ok := d.(*ast.FuncDecl)
				if !ok || fd.Body == nil {
					continue
				}
				k := Key(rel, recvName(fd), fd.Name.Name)
				if !newKeys[k] {
					continue
				}
				obj, _ := pk.TypesInfo.Defs[fd.Name].(*types.Func)
				if obj == nil {
					continue
				}
				h := &helper{key: k, decl: fd, obj: obj, file: f, pk: pk}
				helpers = append(helpers, h)
				byID[funcID(obj)] = h
			}
		}
	}
	// local closures bound once to a name (`flush := func() bool {…}`) and only ever called: the same treatment,
	// whether or not the reference tree had them (its own named closures are recursive and stay)
	byVar := map[*types.Var]*helper{}
	for _, pk := range pkgs {
		if len(pk.Errors) > 0 || pk.TypesInfo == nil {
			continue
		}
		for _, f := range pk.Syntax {
			name := fileOf[f]
			if name == "" || !strings.HasPrefix(name, repo) || strings.HasSuffix(name, "_test.go") || srcOf[f] == nil {
				continue
			}
			rel, _ := filepath.Rel(repo, filepath.Dir(name))
			for _, d := range f.Decls {
				fd, ok := d.(*ast.FuncDecl)
				if !ok || fd.Body == nil {
					continue
				}
				ast.Inspect(fd.Body, func(n ast.Node) bool {
					blk, ok := n.(*ast.BlockStmt)
					if !ok {
						return true
					}
					for _, st := range blk.List {
						as, ok := st.(*ast.AssignStmt)
						if !ok || as.Tok != token.DEFINE || len(as.Lhs) != 1 || len(as.Rhs) != 1 {
							continue
						}
						id, ok1 := as.Lhs[0].(*ast.Ident)
						lit, ok2 := as.Rhs[0].(*ast.FuncLit)
						if !ok1 || !ok2 || id.Name == "_" {
							continue
						}
						v, _ := pk.TypesInfo.Defs[id].(*types.Var)
						if v == nil {
							continue
						}
						k := Key(rel, recvName(fd), fmt.Sprintf("%s$%s@%d", fd.Name.Name, id.Name, fset.Position(id.Pos()).Line))
					if _, given := skip[k]; given {
						continue
					}
						h := &helper{key: k, decl: &ast.FuncDecl{Name: id, Type: lit.Type, Body: lit.Body}, obj: v, file: f, pk: pk, def: as}
						helpers = append(helpers, h)
						byVar[v] = h
					}
					return true
				})
			}
		}
	}
	if len(helpers) == 0 {
		return out, nil, kept, nil
	}
	helperOf := func(o types.Object) *helper {
		switch x := o.(type) {
		case *types.Func:
			return byID[funcID(x)]
		case *types.Var:
			return byVar[x]
		}
		return nil
	}
	// call sites (with ancestor stacks) and other uses, program-wide
	sites := map[*helper][]*callSite{}
	valueUse := map[*helper]bool{}
	for _, pk := range pkgs {
		if pk.TypesInfo == nil {
			continue
		}
		callIdent := map[*ast.Ident]bool{}
		for _, f := range pk.Syntax {
			var stack []ast.Node
			ast.Inspect(f, func(n ast.Node) bool {
				if n == nil {
					stack = stack[:len(stack)-1]
					return true
				}
				stack = append(stack, n)
				if c, ok := n.(*ast.CallExpr); ok {
					var id *ast.Ident
					switch fx := ast.Unparen(c.Fun).(type) {
					case *ast.Ident:
						id = fx
					case *ast.SelectorExpr:
						id = fx.Sel
					}
					if id != nil {
						if h := helperOf(pk.TypesInfo.Uses[id]); h != nil {
							sites[h] = append(sites[h], &callSite{call: c, file: f, pk: pk, stack: append([]ast.Node{}, stack...)})
							callIdent[id] = true
						}
					}
				}
				return true
			})
		}
		for id, o := range pk.TypesInfo.Uses {
			if h := helperOf(o); h != nil && !callIdent[id] {
				valueUse[h] = true
			}
		}
	}
	edits := map[*ast.File][]edit{}
	addImports := map[*ast.File]map[string]string{} // path -> name
	stmtTaken := map[ast.Stmt]bool{}
	exprTaken := map[*ast.CallExpr]bool{}
	for _, h := range helpers {
		why := inlinable(h.pk, h.decl, h.obj)
		if why == "contains defer" || why == "contains labels" {
			// as a function literal under go/defer the body keeps its own frame: fine
			all := len(sites[h]) > 0
			for _, cs := range sites[h] {
				if !isGoDeferSite(cs) {
					all = false
				}
			}
			if all {
				why = ""
			}
		}
		if why == "" && valueUse[h] {
			why = "used as a value, not only called"
		}
		// leaf: its body calls no other new helper (those are inlined first, next round)
		if why == "" {
			leaf := true
			ast.Inspect(h.decl.Body, func(n ast.Node) bool {
				if id, ok := n.(*ast.Ident); ok {
					if o := helperOf(h.pk.TypesInfo.Uses[id]); o != nil {
						if o == h {
							why = "recursive"
						} else {
							leaf = false
						}
					}
				}
				return true
			})
			if why == "" && !leaf {
				continue // later round
			}
		}
		if why != "" {
			kept[h.key] = why
			continue
		}
		if len(sites[h]) == 0 {
			kept[h.key] = "never called"
			continue
		}
		// plan every call site; all or nothing per helper, one call per statement per round
		var planned [][]edit
		var plannedFiles []*ast.File
		var plannedStmts []ast.Stmt
		var imps []map[string]string
		ok := true
		deferred := false
		for _, cs := range sites[h] {
			if strings.HasSuffix(fileOf[cs.file], "_test.go") || !strings.HasPrefix(fileOf[cs.file], repo) {
				ok = false
				kept[h.key] = "called from a file outside the analysed sources"
				break
			}
			uidCounter++
			es, st, im, w := planCall(fset, srcOf, h, cs, uidCounter)
			if w != "" {
				ok = false
				kept[h.key] = w
				break
			}
			if st != nil && stmtTaken[st] {
				deferred = true // another call of this statement is rewritten in this round
				continue
			}
			if st == nil {
				// pure expression substitution: only conflicts with a rewrite of an enclosing call's arguments
				conflict := false
				for _, n := range cs.stack {
					if oc, ok := n.(*ast.CallExpr); ok && oc != cs.call && exprTaken[oc] {
						conflict = true
					}
				}
				if conflict {
					deferred = true
					continue
				}
				exprTaken[cs.call] = true
			}
			planned = append(planned, es)
			plannedFiles = append(plannedFiles, cs.file)
			plannedStmts = append(plannedStmts, st)
			imps = append(imps, im)
		}
		if !ok {
			continue
		}
		for i, es := range planned {
			if plannedStmts[i] != nil {
				stmtTaken[plannedStmts[i]] = true
			}
			edits[plannedFiles[i]] = append(edits[plannedFiles[i]], es...)
			for p, n := range imps[i] {
				if addImports[plannedFiles[i]] == nil {
					addImports[plannedFiles[i]] = map[string]string{}
				}
				addImports[plannedFiles[i]][p] = n
			}
		}
		if deferred {
			did = append(did, h.key+"#partial")
			continue
		}
		if h.def != nil {
			// the closure's defining statement goes (its name would be unused)
			edits[h.file] = append(edits[h.file], edit{fset.Position(h.def.Pos()).Offset, fset.Position(h.def.End()).Offset, ""})
			did = append(did, h.key)
			continue
		}
		// remove the declaration (with its doc comment)
		start := h.decl.Pos()
		if h.decl.Doc != nil {
			start = h.decl.Doc.Pos()
		}
		edits[h.file] = append(edits[h.file], edit{fset.Position(start).Offset, fset.Position(h.decl.End()).Offset, ""})
		sameFile := false
		for _, f := range plannedFiles {
			if f == h.file {
				sameFile = true
			}
		}
		if !sameFile {
			edits[h.file] = append(edits[h.file], orphanImportEdits(h.pk, fset, h.file, h.decl)...)
		}
		did = append(did, h.key)
	}
	for f, es := range edits {
		src := srcOf[f]
		if src == nil {
			return nil, nil, kept, fmt.Errorf("no source for %s", fileOf[f])
		}
		if im := addImports[f]; len(im) > 0 {
			var b strings.Builder
			var paths []string
			for p := range im {
				paths = append(paths, p)
			}
			sort.Strings(paths)
			for _, p := range paths {
				fmt.Fprintf(&b, "\nimport %s %q\n", im[p], p)
			}
			off := fset.Position(f.Name.End()).Offset
			es = append(es, edit{off, off, b.String()})
		}
		// keep reported positions close to the real file: every top-level declaration resynchronises the line
		// numbers with a //line directive (inside a rewritten function they drift, after it they are exact again)
		for _, d := range f.Decls {
			start := d.Pos()
			if fd, ok := d.(*ast.FuncDecl); ok && fd.Doc != nil {
				start = fd.Doc.Pos()
			}
			if gd, ok := d.(*ast.GenDecl); ok && gd.Doc != nil {
				start = gd.Doc.Pos()
			}
			if gd, ok := d.(*ast.GenDecl); ok && gd.Tok == token.IMPORT {
				continue
			}
			ps := fset.Position(start)
			if ps.Column != 1 {
				continue
			}
			es = append(es, edit{ps.Offset, ps.Offset, fmt.Sprintf("//line %s:%d\n", fileOf[f], ps.Line)})
		}
		res, err := applyEdits(src, es)
		if err != nil {
			return nil, nil, kept, fmt.Errorf("%s: %v", fileOf[f], err)
		}
		out[fileOf[f]] = res
	}
	return out, did, kept, nil
}

func applyEdits(src []byte, es []edit) ([]byte, error) {
	sort.SliceStable(es, func(i, j int) bool {
		if es[i].start != es[j].start {
			return es[i].start < es[j].start
		}
		return es[i].end < es[j].end
	})
	var b bytes.Buffer
	pos := 0
	for _, e := range es {
		if e.start < pos {
			return nil, fmt.Errorf("overlapping edits at offset %d", e.start)
		}
		b.Write(src[pos:e.start])
		b.WriteString(e.text)
		pos = e.end
	}
	b.Write(src[pos:])
	return b.Bytes(), nil
}

// inlinable: properties of the helper itself.
func inlinable(pk *packages.Package, fd *ast.FuncDecl, obj types.Object) string {
	sig := obj.Type().(*types.Signature)
	if sig.TypeParams() != nil || sig.RecvTypeParams() != nil {
		return "generic"
	}
	if sig.Variadic() {
		return "variadic"
	}
	why := ""
	var visit func(n ast.Node, inLit bool)
	visit = func(n ast.Node, inLit bool) {
		ast.Inspect(n, func(x ast.Node) bool {
			switch y := x.(type) {
			case *ast.FuncLit:
				if y != n {
					visit(y.Body, true)
					return false
				}
			case *ast.DeferStmt:
				if !inLit {
					why = "contains defer"
				}
				_ = y
			case *ast.LabeledStmt:
				// labels generated by earlier inlining rounds are unique program-wide; a second copy in one
				// function would not compile and is rolled back by the type check
				if !inLit && !strings.HasPrefix(y.Label.Name, "inl") {
					why = "contains labels"
				}
			case *ast.CallExpr:
				if id, ok := y.Fun.(*ast.Ident); ok && id.Name == "recover" {
					if _, isB := pk.TypesInfo.Uses[id].(*types.Builtin); isB {
						why = "calls recover"
					}
				}
			}
			return true
		})
	}
	visit(fd.Body, false)
	return why
}

// orphanImportEdits: imports of the helper's file that only the removed declaration used become blank imports.
func orphanImportEdits(pk *packages.Package, fset *token.FileSet, f *ast.File, removed *ast.FuncDecl) []edit {
	var out []edit
	for _, is := range f.Imports {
		var pn *types.PkgName
		if is.Name != nil {
			pn, _ = pk.TypesInfo.Defs[is.Name].(*types.PkgName)
		} else {
			pn, _ = pk.TypesInfo.Implicits[is].(*types.PkgName)
		}
		if pn == nil || (is.Name != nil && (is.Name.Name == "_" || is.Name.Name == ".")) {
			continue
		}
		inside, outside := 0, 0
		for id, o := range pk.TypesInfo.Uses {
			if o == types.Object(pn) {
				if id.Pos() >= removed.Pos() && id.End() <= removed.End() {
					inside++
				} else if fset.File(id.Pos()) == fset.File(f.Pos()) {
					outside++
				}
			}
		}
		if inside > 0 && outside == 0 {
			out = append(out, edit{fset.Position(is.Pos()).Offset, fset.Position(is.End()).Offset, "_ " + is.Path.Value})
		}
	}
	return out
}

func text(src []byte, fset *token.FileSet, n ast.Node) string {
	return string(src[fset.Position(n.Pos()).Offset:fset.Position(n.End()).Offset])
}

// planCall produces the edits that replace one call of the helper by its body.
func planCall(fset *token.FileSet, srcOf map[*ast.File][]byte, h *helper, cs *callSite, uid int) ([]edit, ast.Stmt, map[string]string, string) {
	pk := cs.pk
	hd, hobj, hfile := h.decl, h.obj, h.file
	info := pk.TypesInfo    // the caller's view
	hinfo := h.pk.TypesInfo // the helper's own package
	cross := h.pk.Types.Path() != pk.Types.Path()
	csrc, hsrc := srcOf[cs.file], srcOf[hfile]
	if csrc == nil || hsrc == nil {
		return nil, nil, nil, "source not available"
	}
	sig := hobj.Type().(*types.Signature)
	// ---- expression helpers: `func h(p…) T { return <expr> }` called with side-effect-free arguments is replaced
	// by the expression itself (no temporaries, so conditions keep their shape)
	if len(hd.Body.List) == 1 && sig.Results().Len() == 1 {
		if ret, ok := hd.Body.List[0].(*ast.ReturnStmt); ok && len(ret.Results) == 1 {
			if es, imports, w, done := planExprCall(fset, srcOf, h, cs, ret.Results[0]); done {
				if w != "" {
					return nil, nil, nil, w
				}
				return es, nil, imports, ""
			}
		}
	}
	// enclosing statement
	si := -1
	for i := len(cs.stack) - 1; i >= 0; i-- {
		if _, ok := cs.stack[i].(ast.Stmt); ok {
			si = i
			break
		}
	}
	if si < 1 {
		return nil, nil, nil, "call outside a statement (package-level initialiser)"
	}
	stmt := cs.stack[si].(ast.Stmt)
	parent := cs.stack[si-1]
	// `if x := h(); cond {` — the simple statement is the init of an if: work on the if statement
	if pif, ok := parent.(*ast.IfStmt); ok && pif.Init == stmt && si >= 2 {
		stmt, parent, si = pif, cs.stack[si-2], si-1
	}
	// nothing between the statement and the call may delay or repeat evaluation
	var shortCircuit *ast.BinaryExpr // outermost && / || that has the call in its right operand
	for i := si + 1; i < len(cs.stack)-1; i++ {
		switch x := cs.stack[i].(type) {
		case *ast.FuncLit:
			return nil, nil, nil, "call inside a function literal's header" // unreachable: stmt search stops inside the literal
		case *ast.BinaryExpr:
			if (x.Op == token.LAND || x.Op == token.LOR) && containsNode(x.Y, cs.call) {
				if shortCircuit == nil {
					shortCircuit = x
				} else {
					return nil, nil, nil, "nested short-circuit operands"
				}
			}
		}
	}
	// `go h(args)` / `defer h(args)`: the helper becomes a function literal called in place
	{
		var gc *ast.CallExpr
		switch s := stmt.(type) {
		case *ast.GoStmt:
			gc = s.Call
		case *ast.DeferStmt:
			gc = s.Call
		}
		if gc != nil {
			if gc != cs.call {
				return nil, nil, nil, "call inside the arguments of a go/defer statement"
			}
			if cross || hfile != cs.file {
				return nil, nil, nil, "go/defer of a helper declared in another file"
			}
			if w := captureCheck(h.pk, hd, hobj, cs); w != "" {
				return nil, nil, nil, w
			}
			params := string(hsrc[fset.Position(hd.Type.Params.Pos()).Offset+1 : fset.Position(hd.Type.Params.End()).Offset-1])
			results := ""
			if hd.Type.Results != nil {
				results = " " + text(hsrc, fset, hd.Type.Results)
			}
			recvArg := ""
			if hd.Recv != nil && len(hd.Recv.List) == 1 {
				sel, ok := ast.Unparen(cs.call.Fun).(*ast.SelectorExpr)
				if !ok {
					return nil, nil, nil, "method called without a selector"
				}
				if sl := info.Selections[sel]; sl == nil || len(sl.Index()) != 1 {
					return nil, nil, nil, "method reached through an embedded field"
				}
				rf := hd.Recv.List[0]
				rname := "_"
				if len(rf.Names) == 1 {
					rname = rf.Names[0].Name
				}
				rdecl := rname + " " + text(hsrc, fset, rf.Type)
				if strings.TrimSpace(params) == "" {
					params = rdecl
				} else {
					params = rdecl + ", " + params
				}
				xt := info.TypeOf(sel.X)
				arg := text(csrc, fset, sel.X)
				rt := sig.Recv().Type()
				switch {
				case xt == nil:
					return nil, nil, nil, "receiver type unknown"
				case types.Identical(xt, rt):
				case isPtrTo(rt, xt):
					arg = "&(" + arg + ")"
				case isPtrTo(xt, rt):
					arg = "*(" + arg + ")"
				default:
					return nil, nil, nil, "receiver needs a conversion I do not model"
				}
				recvArg = arg
			}
			lit := "func(" + params + ")" + results + " " + text(hsrc, fset, hd.Body)
			var es []edit
			es = append(es, edit{fset.Position(cs.call.Fun.Pos()).Offset, fset.Position(cs.call.Fun.End()).Offset, lit})
			if recvArg != "" {
				lp := fset.Position(cs.call.Lparen).Offset + 1
				sep := ", "
				if len(cs.call.Args) == 0 {
					sep = ""
				}
				es = append(es, edit{lp, lp, recvArg + sep})
			}
			return es, stmt, map[string]string{}, ""
		}
	}
	mode := ""
	switch s := stmt.(type) {
	case *ast.ExprStmt, *ast.AssignStmt, *ast.ReturnStmt, *ast.SendStmt, *ast.IncDecStmt, *ast.DeclStmt:
		mode = "before"
	case *ast.IfStmt:
		if (s.Init != nil && containsNode(s.Init, cs.call)) || containsNode(s.Cond, cs.call) {
			mode = "before"
			if s.Init != nil && containsNode(s.Cond, cs.call) {
				return nil, nil, nil, "call in the condition of an if with an init statement"
			}
		}
	case *ast.SwitchStmt:
		if s.Init == nil && s.Tag != nil && containsNode(s.Tag, cs.call) {
			mode = "before"
		}
	case *ast.RangeStmt:
		if containsNode(s.X, cs.call) {
			mode = "before"
		}
	case *ast.ForStmt:
		if s.Cond != nil && containsNode(s.Cond, cs.call) {
			mode = "forcond"
		}
	}
	if mode == "" {
		return nil, nil, nil, fmt.Sprintf("unsupported call context (%T)", stmt)
	}
	if as, ok := stmt.(*ast.AssignStmt); ok {
		for _, l := range as.Lhs {
			if containsNode(l, cs.call) {
				return nil, nil, nil, "call on the left-hand side of an assignment"
			}
		}
	}
	if is, ok := stmt.(*ast.IfStmt); ok && is.Init != nil && containsNode(is.Init, cs.call) {
		// `if x := h(); cond` → wrap the whole if in a block so that hoisting keeps the scope
		mode = "wrap"
	}
	wrap := false
	switch p := parent.(type) {
	case *ast.BlockStmt, *ast.CaseClause, *ast.CommClause:
	case *ast.IfStmt:
		if p.Else == stmt {
			wrap = true
		} else {
			return nil, nil, nil, "statement is the init of an if"
		}
	case *ast.LabeledStmt:
		return nil, nil, nil, "labelled statement"
	default:
		// init/post of for, switch init, …
		return nil, nil, nil, fmt.Sprintf("statement in header position of %T", parent)
	}
	if mode == "wrap" {
		wrap = true
		mode = "before"
	}
	if _, isSel := parent.(*ast.CommClause); isSel {
		// fine: body of a select arm
	}

	// imports needed by the moved code / the declared types
	imports := map[string]string{}
	qual, fail := qualifierFor(pk, cs.file, imports)
	// free names of the body must mean the same thing at the call site
	if w := captureCheck(h.pk, hd, hobj, cs); w != "" {
		return nil, nil, nil, w
	}
	// moving the body into another package: everything it names must be exported, and package-level names of
	// the helper's package get qualified
	var qualEdits []edit
	if cross {
		bad := ""
		selected := map[*ast.Ident]bool{}
		ast.Inspect(hd.Body, func(n ast.Node) bool {
			switch x := n.(type) {
			case *ast.SelectorExpr:
				selected[x.Sel] = true
				if o := hinfo.Uses[x.Sel]; o != nil && o.Pkg() != nil && o.Pkg().Path() == h.pk.Types.Path() && !o.Exported() {
					bad = "uses unexported " + o.Name() + " of its package"
				}
			case *ast.KeyValueExpr:
				if id, isID := x.Key.(*ast.Ident); isID {
					if v, isVar := hinfo.Uses[id].(*types.Var); isVar && v.IsField() {
						selected[id] = true
						if !v.Exported() {
							bad = "uses unexported field " + v.Name()
						}
					}
				}
			}
			return true
		})
		hq := qual(h.pk.Types)
		ast.Inspect(hd.Body, func(n ast.Node) bool {
			id, ok := n.(*ast.Ident)
			if !ok || selected[id] {
				return true
			}
			o := hinfo.Uses[id]
			if o == nil || o.Pkg() == nil || o.Pkg().Path() != h.pk.Types.Path() {
				return true
			}
			if o.Parent() != h.pk.Types.Scope() {
				return true // local to the helper
			}
			if !o.Exported() {
				bad = "uses unexported " + o.Name() + " of its package"
				return true
			}
			off := fset.Position(id.Pos()).Offset
			qualEdits = append(qualEdits, edit{off, off, hq + "."})
			return true
		})
		if bad != "" {
			return nil, nil, nil, bad
		}
	}
	// package qualifiers used in the body must be available under the same name in the caller's file
	if hfile != cs.file {
		bad := ""
		ast.Inspect(hd.Body, func(n ast.Node) bool {
			id, ok := n.(*ast.Ident)
			if !ok {
				return true
			}
			pn, ok := hinfo.Uses[id].(*types.PkgName)
			if !ok {
				return true
			}
			name := qual(pn.Imported())
			if name != id.Name {
				bad = "package " + pn.Imported().Path() + " is imported under another name in the caller's file"
			}
			return true
		})
		if bad != "" {
			return nil, nil, nil, bad
		}
	}

	// parameters bound to a function literal that is a single expression and is only ever called (with
	// side-effect-free arguments) in the body: the literal's expression replaces those calls (beta reduction), so
	// that a predicate handed to a loop helper ends up in the loop condition itself
	litParams := map[*types.Var]*ast.FuncLit{}
	var litEdits []edit
	if !cross && len(cs.call.Args) == sig.Params().Len() {
		for i, a := range cs.call.Args {
			lit, ok := ast.Unparen(a).(*ast.FuncLit)
			if !ok {
				continue
			}
			pv := sig.Params().At(i)
			es, ok := betaEdits(fset, csrc, hsrc, info, hinfo, hd, pv, lit, qual)
			if ok {
				litParams[pv] = lit
				litEdits = append(litEdits, es...)
			}
		}
	}
	// ---- build the inlined text
	L := fmt.Sprintf("inl%d", uid)
	var pre strings.Builder
	var resNames []string
	res := sig.Results()
	for i := 0; i < res.Len(); i++ {
		rn := fmt.Sprintf("r%d_%s", i, L)
		resNames = append(resNames, rn)
		fmt.Fprintf(&pre, "var %s %s\n_ = %s\n", rn, types.TypeString(res.At(i).Type(), qual), rn)
	}
	pre.WriteString("{\n")
	// receiver and parameters, declared in one parallel declaration (their scope starts after it)
	var names, vals []string
	var discards []string
	addParam := func(v *types.Var, arg string, isNil bool) {
		if litParams[v] != nil {
			return
		}
		ts := "(" + types.TypeString(v.Type(), qual) + ")"
		if v.Name() == "" || v.Name() == "_" {
			if !isNil {
				discards = append(discards, "_ = "+ts+"("+arg+")")
			}
			return
		}
		names = append(names, v.Name())
		vals = append(vals, ts+"("+arg+")")
	}
	if recv := sig.Recv(); recv != nil {
		sel, ok := ast.Unparen(cs.call.Fun).(*ast.SelectorExpr)
		if !ok {
			return nil, nil, nil, "method called without a selector"
		}
		if s := info.Selections[sel]; s == nil || len(s.Index()) != 1 {
			return nil, nil, nil, "method reached through an embedded field"
		}
		xt := info.TypeOf(sel.X)
		arg := text(csrc, fset, sel.X)
		switch {
		case xt == nil:
			return nil, nil, nil, "receiver type unknown"
		case types.Identical(xt, recv.Type()):
		case isPtrTo(recv.Type(), xt):
			arg = "&(" + arg + ")"
		case isPtrTo(xt, recv.Type()):
			arg = "*(" + arg + ")"
		default:
			return nil, nil, nil, "receiver needs a conversion I do not model"
		}
		addParam(recv, arg, false)
	}
	if len(cs.call.Args) != sig.Params().Len() {
		return nil, nil, nil, "argument count differs (multi-value call)"
	}
	for i, a := range cs.call.Args {
		isNil := false
		if id, ok := ast.Unparen(a).(*ast.Ident); ok {
			if _, n := info.Uses[id].(*types.Nil); n {
				isNil = true
			}
		}
		addParam(sig.Params().At(i), text(csrc, fset, a), isNil)
	}
	if fail() != "" {
		return nil, nil, nil, fail()
	}
	for _, d := range discards {
		pre.WriteString(d + "\n")
	}
	if len(names) > 0 {
		fmt.Fprintf(&pre, "var %s = %s\n", strings.Join(names, ", "), strings.Join(vals, ", "))
		for _, n := range names {
			fmt.Fprintf(&pre, "_ = %s\n", n)
		}
	}
	// named results
	var namedRes []string
	for i := 0; i < res.Len(); i++ {
		if n := res.At(i).Name(); n != "" && n != "_" {
			fmt.Fprintf(&pre, "var %s %s\n_ = %s\n", n, types.TypeString(res.At(i).Type(), qual), n)
			namedRes = append(namedRes, n)
		} else {
			namedRes = append(namedRes, "")
		}
	}
	// body with returns rewritten
	var bes []edit
	bodyStart := fset.Position(hd.Body.Lbrace).Offset + 1
	bodyEnd := fset.Position(hd.Body.Rbrace).Offset
	var walk func(n ast.Node)
	walk = func(n ast.Node) {
		ast.Inspect(n, func(x ast.Node) bool {
			switch y := x.(type) {
			case *ast.FuncLit:
				return false
			case *ast.ReturnStmt:
				rs := fset.Position(y.Pos()).Offset
				re := fset.Position(y.End()).Offset
				switch {
				case len(resNames) == 0:
					bes = append(bes, edit{rs, rs + len("return"), "{ "}, edit{re, re, "break " + L + " }"})
				case len(y.Results) == 0:
					var as []string
					for i, rn := range resNames {
						as = append(as, rn+" = "+namedRes[i])
					}
					bes = append(bes, edit{rs, rs + len("return"), "{ " + strings.Join(as, "; ") + "; "}, edit{re, re, "break " + L + " }"})
				default:
					bes = append(bes, edit{rs, rs + len("return"), "{ " + strings.Join(resNames, ", ") + " ="}, edit{re, re, "; break " + L + " }"})
				}
			}
			return true
		})
	}
	walk(hd.Body)
	bes = append(bes, qualEdits...)
	bes = append(bes, litEdits...)
	for i := range bes {
		bes[i].start -= bodyStart
		bes[i].end -= bodyStart
	}
	body, err := applyEdits(hsrc[bodyStart:bodyEnd], bes)
	if err != nil {
		return nil, nil, nil, err.Error()
	}
	fmt.Fprintf(&pre, "%s:\nfor {\n%s\n", L, string(body))
	if len(resNames) > 0 && allNamed(namedRes) {
		var as []string
		for i, rn := range resNames {
			as = append(as, rn+" = "+namedRes[i])
		}
		pre.WriteString(strings.Join(as, "; ") + "\n")
	}
	fmt.Fprintf(&pre, "break %s\n}\n}\n", L)
	repl := strings.Join(resNames, ", ")

	// ---- place it
	var es []edit
	callStart := fset.Position(cs.call.Pos()).Offset
	callEnd := fset.Position(cs.call.End()).Offset
	stmtStart := fset.Position(stmt.Pos()).Offset
	stmtEnd := fset.Position(stmt.End()).Offset
	open, close := "", ""
	if wrap {
		open, close = "{\n", "\n}"
	}
	switch mode {
	case "before":
		if es0, ok := stmt.(*ast.ExprStmt); ok && ast.Unparen(es0.X) == ast.Expr(cs.call) {
			es = append(es, edit{stmtStart, stmtEnd, open + pre.String() + close})
			return es, stmt, imports, ""
		}
		if shortCircuit != nil {
			t := "sc_" + L
			x := text(csrc, fset, shortCircuit.X)
			yStart := fset.Position(shortCircuit.Y.Pos()).Offset
			yEnd := fset.Position(shortCircuit.Y.End()).Offset
			y := string(csrc[yStart:callStart]) + repl + string(csrc[callEnd:yEnd])
			cond := t
			if shortCircuit.Op == token.LOR {
				cond = "!" + t
			}
			hoist := fmt.Sprintf("%s := %s\nif %s {\n%s%s = %s\n}\n", t, x, cond, pre.String(), t, y)
			es = append(es, edit{stmtStart, stmtStart, open + hoist})
			es = append(es, edit{fset.Position(shortCircuit.Pos()).Offset, fset.Position(shortCircuit.End()).Offset, t})
			if close != "" {
				es = append(es, edit{stmtEnd, stmtEnd, close})
			}
			return es, stmt, imports, ""
		}
		if repl == "" {
			return nil, nil, nil, "call without results used as a value"
		}
		es = append(es, edit{stmtStart, stmtStart, open + pre.String()})
		es = append(es, edit{callStart, callEnd, repl})
		if close != "" {
			es = append(es, edit{stmtEnd, stmtEnd, close})
		}
		return es, stmt, imports, ""
	case "forcond":
		fs := stmt.(*ast.ForStmt)
		if shortCircuit != nil {
			return nil, nil, nil, "short-circuit operand in a loop condition"
		}
		if repl == "" {
			return nil, nil, nil, "call without results used as a value"
		}
		cStart := fset.Position(fs.Cond.Pos()).Offset
		cEnd := fset.Position(fs.Cond.End()).Offset
		cond := string(csrc[cStart:callStart]) + repl + string(csrc[callEnd:cEnd])
		es = append(es, edit{cStart, cEnd, ""})
		lb := fset.Position(fs.Body.Lbrace).Offset + 1
		es = append(es, edit{lb, lb, "\n" + pre.String() + "if !(" + cond + ") {\nbreak\n}\n"})
		if fs.Init == nil && fs.Post == nil {
			// `for cond {` became `for  {` — fine
		}
		return es, stmt, imports, ""
	}
	return nil, nil, nil, "unsupported"
}

func allNamed(ns []string) bool {
	for _, n := range ns {
		if n == "" {
			return false
		}
	}
	return len(ns) > 0
}

func isPtrTo(p, elem types.Type) bool {
	pt, ok := p.Underlying().(*types.Pointer)
	return ok && types.Identical(pt.Elem(), elem)
}

func containsNode(root ast.Node, n ast.Node) bool {
	if root == nil {
		return false
	}
	found := false
	ast.Inspect(root, func(x ast.Node) bool {
		if x == n {
			found = true
		}
		return !found
	})
	return found
}

// qualifierFor names packages the way the caller's file imports them; unknown packages are added as imports under
// their own name when that name is free.
func qualifierFor(pk *packages.Package, f *ast.File, add map[string]string) (types.Qualifier, func() string) {
	byPath := map[string]string{}
	used := map[string]bool{}
	for _, is := range f.Imports {
		path := strings.Trim(is.Path.Value, `"`)
		name := ""
		if is.Name != nil {
			name = is.Name.Name
		} else if pn, ok := pk.TypesInfo.Implicits[is].(*types.PkgName); ok {
			name = pn.Name()
		}
		if name != "" && name != "_" && name != "." {
			byPath[path] = name
			used[name] = true
		}
	}
	failure := ""
	return func(p *types.Package) string {
			if p.Path() == pk.Types.Path() {
				return ""
			}
			if n, ok := byPath[p.Path()]; ok {
				return n
			}
			if n, ok := add[p.Path()]; ok {
				return n
			}
			n := p.Name()
			if used[n] || pk.Types.Scope().Lookup(n) != nil {
				failure = "cannot import " + p.Path() + " into the caller's file: name taken"
				return n
			}
			add[p.Path()] = n
			used[n] = true
			return n
		}, func() string {
			return failure
		}
}

// captureCheck: every identifier of the helper's body that refers to something declared outside the helper must
// resolve to the same object at the call site.
func captureCheck(pk *packages.Package, hd *ast.FuncDecl, hobj types.Object, cs *callSite) string {
	info := pk.TypesInfo
	cross := pk.Types.Path() != cs.pk.Types.Path()
	var scope *types.Scope
	// innermost scope at the call
	for i := len(cs.stack) - 1; i >= 0 && scope == nil; i-- {
		if s := cs.pk.TypesInfo.Scopes[cs.stack[i]]; s != nil {
			scope = s
		}
	}
	if scope == nil {
		scope = cs.pk.Types.Scope()
	}
	scope = scope.Innermost(cs.call.Pos())
	if scope == nil {
		return "no scope at the call site"
	}
	bad := ""
	selected := map[*ast.Ident]bool{}
	ast.Inspect(hd.Body, func(n ast.Node) bool {
		if se, ok := n.(*ast.SelectorExpr); ok {
			selected[se.Sel] = true
		}
		if kv, ok := n.(*ast.KeyValueExpr); ok {
			if id, isID := kv.Key.(*ast.Ident); isID {
				if v, isVar := info.Uses[id].(*types.Var); isVar && v.IsField() {
					selected[id] = true
				}
			}
		}
		return true
	})
	ast.Inspect(hd.Body, func(n ast.Node) bool {
		id, ok := n.(*ast.Ident)
		if !ok || bad != "" || selected[id] {
			return true
		}
		o := info.Uses[id]
		if o == nil {
			return true
		}
		// declared inside the helper (params, locals): moves with the body
		if o.Pos() >= hd.Pos() && o.Pos() <= hd.End() {
			return true
		}
		if o.Parent() == types.Universe || o.Pkg() == nil {
			// builtins/universe: shadowing at the call site would change the meaning
			if _, alt := scope.LookupParent(id.Name, cs.call.Pos()); alt != nil && alt != o {
				bad = "identifier " + id.Name + " is shadowed at the call site"
			}
			return true
		}
		// fields and methods are selected, not looked up
		if v, isVar := o.(*types.Var); isVar && v.IsField() {
			return true
		}
		if fn, isFn := o.(*types.Func); isFn {
			if sig, _ := fn.Type().(*types.Signature); sig != nil && sig.Recv() != nil {
				return true
			}
		}
		if cross && o.Parent() == pk.Types.Scope() {
			return true // becomes a qualified name in the caller's package
		}
		if _, alt := scope.LookupParent(id.Name, cs.call.Pos()); alt != o {
			if _, isPkg := o.(*types.PkgName); isPkg && alt != nil {
				if apn, ok := alt.(*types.PkgName); ok && apn.Imported().Path() == o.(*types.PkgName).Imported().Path() {
					return true
				}
			}
			if alt == nil {
				if _, isPkg := o.(*types.PkgName); isPkg {
					return true // import is added by the caller-file logic
				}
			}
			bad = "identifier " + id.Name + " means something else at the call site"
		}
		return true
	})
	return bad
}

// pureExpr: evaluating the expression has no effect and may be repeated or skipped.
func pureExpr(e ast.Expr) bool {
	switch x := e.(type) {
	case *ast.Ident, *ast.BasicLit:
		return true
	case *ast.ParenExpr:
		return pureExpr(x.X)
	case *ast.SelectorExpr:
		return pureExpr(x.X)
	case *ast.IndexExpr:
		return pureExpr(x.X) && pureExpr(x.Index)
	case *ast.StarExpr:
		return pureExpr(x.X)
	case *ast.UnaryExpr:
		return x.Op != token.ARROW && pureExpr(x.X)
	case *ast.BinaryExpr:
		return pureExpr(x.X) && pureExpr(x.Y)
	}
	return false
}

// planExprCall replaces the call by the helper's returned expression with the parameters substituted.
// done=false means "not applicable, use statement inlining".
func planExprCall(fset *token.FileSet, srcOf map[*ast.File][]byte, h *helper, cs *callSite, result ast.Expr) ([]edit, map[string]string, string, bool) {
	pk := cs.pk
	info, hinfo := pk.TypesInfo, h.pk.TypesInfo
	csrc, hsrc := srcOf[cs.file], srcOf[h.file]
	if csrc == nil || hsrc == nil {
		return nil, nil, "", false
	}
	sig := h.obj.Type().(*types.Signature)
	cross := h.pk.Types.Path() != pk.Types.Path()
	imports := map[string]string{}
	qual, fail := qualifierFor(pk, cs.file, imports)
	// no function literals in the expression (their bodies would need statement-level care)
	hasLit := false
	ast.Inspect(result, func(n ast.Node) bool {
		if _, ok := n.(*ast.FuncLit); ok {
			hasLit = true
		}
		return true
	})
	if hasLit {
		return nil, nil, "", false
	}
	subst := map[types.Object]string{}
	bind := func(v *types.Var, e ast.Expr, argText string) bool {
		if !pureExpr(e) {
			return false
		}
		if v.Name() == "" || v.Name() == "_" {
			return true
		}
		if id, ok := ast.Unparen(e).(*ast.Ident); ok {
			if _, isNil := info.Uses[id].(*types.Nil); isNil {
				subst[v] = "(" + types.TypeString(v.Type(), qual) + ")(nil)"
				return true
			}
		}
		subst[v] = "(" + types.TypeString(v.Type(), qual) + ")(" + argText + ")"
		return true
	}
	if recv := sig.Recv(); recv != nil {
		sel, ok := ast.Unparen(cs.call.Fun).(*ast.SelectorExpr)
		if !ok {
			return nil, nil, "", false
		}
		if s := info.Selections[sel]; s == nil || len(s.Index()) != 1 {
			return nil, nil, "", false
		}
		xt := info.TypeOf(sel.X)
		arg := text(csrc, fset, sel.X)
		switch {
		case xt == nil:
			return nil, nil, "", false
		case types.Identical(xt, recv.Type()) || xt.String() == recv.Type().String():
		case isPtrTo(recv.Type(), xt):
			arg = "&(" + arg + ")"
		case isPtrTo(xt, recv.Type()):
			arg = "*(" + arg + ")"
		default:
			return nil, nil, "", false
		}
		if !bind(recv, sel.X, arg) {
			return nil, nil, "", false
		}
	}
	if len(cs.call.Args) != sig.Params().Len() || sig.Variadic() {
		return nil, nil, "", false
	}
	for i, a := range cs.call.Args {
		if !bind(sig.Params().At(i), a, text(csrc, fset, a)) {
			return nil, nil, "", false
		}
	}
	if w := captureCheck(h.pk, h.decl, h.obj, cs); w != "" {
		return nil, nil, w, true
	}
	// edits inside the expression
	var es []edit
	bad := ""
	selected := map[*ast.Ident]bool{}
	ast.Inspect(result, func(n ast.Node) bool {
		switch x := n.(type) {
		case *ast.SelectorExpr:
			selected[x.Sel] = true
			if cross {
				if o := hinfo.Uses[x.Sel]; o != nil && o.Pkg() != nil && o.Pkg().Path() == h.pk.Types.Path() && !o.Exported() {
					bad = "uses unexported " + o.Name() + " of its package"
				}
			}
		case *ast.KeyValueExpr:
			if id, isID := x.Key.(*ast.Ident); isID {
				if v, isVar := hinfo.Uses[id].(*types.Var); isVar && v.IsField() {
					selected[id] = true
				}
			}
		}
		return true
	})
	ast.Inspect(result, func(n ast.Node) bool {
		id, ok := n.(*ast.Ident)
		if !ok || selected[id] {
			return true
		}
		o := hinfo.Uses[id]
		if o == nil {
			return true
		}
		off, end := fset.Position(id.Pos()).Offset, fset.Position(id.End()).Offset
		if rep, isParam := subst[o]; isParam {
			es = append(es, edit{off, end, rep})
			return true
		}
		if pn, isPkg := o.(*types.PkgName); isPkg {
			if name := qual(pn.Imported()); name != id.Name {
				es = append(es, edit{off, end, name})
			}
			return true
		}
		if cross && o.Pkg() != nil && o.Pkg().Path() == h.pk.Types.Path() && o.Parent() == h.pk.Types.Scope() {
			if !o.Exported() {
				bad = "uses unexported " + o.Name() + " of its package"
				return true
			}
			es = append(es, edit{off, off, qual(h.pk.Types) + "."})
		}
		return true
	})
	if bad != "" {
		return nil, nil, bad, true
	}
	if fail() != "" {
		return nil, nil, fail(), true
	}
	rs, re := fset.Position(result.Pos()).Offset, fset.Position(result.End()).Offset
	for i := range es {
		es[i].start -= rs
		es[i].end -= rs
	}
	body, err := applyEdits(hsrc[rs:re], es)
	if err != nil {
		return nil, nil, err.Error(), true
	}
	rt := types.TypeString(sig.Results().At(0).Type(), qual)
	repl := "(" + rt + ")(" + string(body) + ")"
	if et := hinfo.TypeOf(result); et != nil {
		if b, isB := et.Underlying().(*types.Basic); types.Identical(et, sig.Results().At(0).Type()) || (isB && b.Kind() == types.UntypedBool && sig.Results().At(0).Type() == types.Typ[types.Bool]) {
			// no conversion needed: keeps && / || / ! in condition position (go/ssa then branches directly)
			repl = "(" + string(body) + ")"
		}
	}
	return []edit{{fset.Position(cs.call.Pos()).Offset, fset.Position(cs.call.End()).Offset, repl}}, imports, "", true
}

func isGoDeferSite(cs *callSite) bool {
	for i := len(cs.stack) - 1; i >= 0; i-- {
		switch s := cs.stack[i].(type) {
		case *ast.GoStmt:
			return s.Call == cs.call
		case *ast.DeferStmt:
			return s.Call == cs.call
		case ast.Stmt:
			return false
		}
	}
	return false
}

// betaEdits: edits on the helper body that replace every call of parameter pv by the expression of the literal it
// is bound to. ok=false when the literal is not a single expression, the parameter escapes, an argument has side
// effects, or a free name of the literal would be shadowed inside the helper.
func betaEdits(fset *token.FileSet, csrc, hsrc []byte, info, hinfo *types.Info, hd *ast.FuncDecl, pv *types.Var, lit *ast.FuncLit, qual types.Qualifier) ([]edit, bool) {
	if len(lit.Body.List) != 1 {
		return nil, false
	}
	ret, ok := lit.Body.List[0].(*ast.ReturnStmt)
	if !ok || len(ret.Results) != 1 {
		return nil, false
	}
	result := ret.Results[0]
	nested := false
	ast.Inspect(result, func(n ast.Node) bool {
		if _, isLit := n.(*ast.FuncLit); isLit {
			nested = true
		}
		return true
	})
	if nested {
		return nil, false
	}
	// literal parameters
	var lparams []*types.Var
	if lit.Type.Params != nil {
		for _, f := range lit.Type.Params.List {
			if len(f.Names) == 0 {
				return nil, false
			}
			for _, n := range f.Names {
				v, _ := info.Defs[n].(*types.Var)
				if v == nil {
					return nil, false
				}
				lparams = append(lparams, v)
			}
		}
	}
	// uses of pv in the helper body: all direct calls with pure arguments
	var calls []*ast.CallExpr
	okUses := true
	callFun := map[*ast.Ident]bool{}
	ast.Inspect(hd.Body, func(n ast.Node) bool {
		if c, isC := n.(*ast.CallExpr); isC {
			if id, isID := ast.Unparen(c.Fun).(*ast.Ident); isID && hinfo.Uses[id] == types.Object(pv) {
				callFun[id] = true
				if len(c.Args) != len(lparams) {
					okUses = false
				}
				for _, a := range c.Args {
					if !pureExpr(a) {
						okUses = false
					}
				}
				calls = append(calls, c)
			}
		}
		return true
	})
	ast.Inspect(hd.Body, func(n ast.Node) bool {
		if id, isID := n.(*ast.Ident); isID && hinfo.Uses[id] == types.Object(pv) && !callFun[id] {
			okUses = false
		}
		return true
	})
	if !okUses || len(calls) == 0 {
		return nil, false
	}
	// free names of the literal must not be shadowed by the helper's own declarations at the call
	for _, c := range calls {
		bad := false
		ast.Inspect(result, func(n ast.Node) bool {
			id, isID := n.(*ast.Ident)
			if !isID {
				return true
			}
			o := info.Uses[id]
			if o == nil || (o.Pos() >= lit.Pos() && o.Pos() <= lit.End()) {
				return true
			}
			if v, isVar := o.(*types.Var); isVar && v.IsField() {
				return true
			}
			// is the name declared inside the helper and visible at the call?
			var sc *types.Scope
			for node, s := range hinfo.Scopes {
				if node.Pos() <= c.Pos() && c.End() <= node.End() && node.Pos() >= hd.Pos() && node.End() <= hd.End() {
					if sc == nil || s.Pos() >= sc.Pos() {
						sc = s
					}
				}
			}
			for s := sc; s != nil; s = s.Parent() {
				if alt := s.Lookup(id.Name); alt != nil && alt.Pos() >= hd.Pos() && alt.Pos() <= hd.End() && alt.Pos() < c.Pos() {
					bad = true
				}
				if s.Pos() < hd.Pos() {
					break
				}
			}
			return true
		})
		if bad {
			return nil, false
		}
	}
	rs, re := fset.Position(result.Pos()).Offset, fset.Position(result.End()).Offset
	var out []edit
	for _, c := range calls {
		subst := map[types.Object]string{}
		for j, lp := range lparams {
			subst[lp] = "(" + types.TypeString(lp.Type(), qual) + ")(" + text(hsrc, fset, c.Args[j]) + ")"
		}
		var es []edit
		ast.Inspect(result, func(n ast.Node) bool {
			id, isID := n.(*ast.Ident)
			if !isID {
				return true
			}
			if rep, isP := subst[info.Uses[id]]; isP {
				es = append(es, edit{fset.Position(id.Pos()).Offset - rs, fset.Position(id.End()).Offset - rs, rep})
			}
			return true
		})
		body, err := applyEdits(csrc[rs:re], es)
		if err != nil {
			return nil, false
		}
		out = append(out, edit{fset.Position(c.Pos()).Offset, fset.Position(c.End()).Offset, "(" + string(body) + ")"})
	}
	return out, true
}

// ---- renames ------------------------------------------------------------------------------------------------

type renamePlan struct {
	funcs  map[string]string // baseline func key -> current func key (same receiver kind: rename back)
	conv   map[string]string // baseline func key -> current func key (method ↔ function: alias only)
	types  map[string]string // "dir|BaseType" -> "dir|CurType"
	fields map[string]string // "dir|CurType|curField" -> baseField
	vars   map[string]string // "dir|baseVar" -> "dir|curVar"
}

func (p renamePlan) empty() bool {
	return len(p.funcs)+len(p.conv)+len(p.types)+len(p.fields)+len(p.vars) == 0
}

func fieldList(v string) (names, typs []string) {
	if v == "" {
		return
	}
	for _, f := range strings.Split(v, ";") {
		i := strings.Index(f, ":")
		if i < 0 {
			continue
		}
		names = append(names, f[:i])
		typs = append(typs, f[i+1:])
	}
	return
}

func detectRenames(inv, baseline map[string]string) renamePlan {
	plan := renamePlan{funcs: map[string]string{}, conv: map[string]string{}, types: map[string]string{}, fields: map[string]string{}, vars: map[string]string{}}
	dirOf := func(k string) string { return strings.SplitN(strings.TrimPrefix(strings.TrimPrefix(k, "type:"), "var:"), "|", 2)[0] }
	// types
	taken := map[string]bool{}
	for bk, bv := range baseline {
		if !strings.HasPrefix(bk, "type:") {
			continue
		}
		if _, ok := inv[bk]; ok {
			continue
		}
		_, bt := fieldList(bv)
		var cands []string
		for nk, nv := range inv {
			if !strings.HasPrefix(nk, "type:") || dirOf(nk) != dirOf(bk) {
				continue
			}
			if _, inBase := baseline[nk]; inBase {
				continue
			}
			_, nt := fieldList(nv)
			if len(nt) > 0 && strings.Join(nt, ";") == strings.Join(bt, ";") {
				cands = append(cands, nk)
			}
		}
		if len(cands) == 1 && !taken[cands[0]] {
			taken[cands[0]] = true
			plan.types[strings.TrimPrefix(bk, "type:")] = strings.TrimPrefix(cands[0], "type:")
		}
	}
	curTypeOf := func(baseTypeKey string) string { // "dir|T" -> current "dir|T'"
		if c, ok := plan.types[baseTypeKey]; ok {
			return c
		}
		return baseTypeKey
	}
	// fields of structs present on both sides
	for bk, bv := range baseline {
		if !strings.HasPrefix(bk, "type:") {
			continue
		}
		ck := "type:" + curTypeOf(strings.TrimPrefix(bk, "type:"))
		cv, ok := inv[ck]
		if !ok {
			continue
		}
		bn, bt := fieldList(bv)
		cn, ct := fieldList(cv)
		if len(bn) != len(cn) || strings.Join(bt, ";") != strings.Join(ct, ";") {
			continue
		}
		for i := range bn {
			if bn[i] != cn[i] && bn[i] != "" && cn[i] != "" {
				plan.fields[strings.TrimPrefix(ck, "type:")+"|"+cn[i]] = bn[i]
			}
		}
	}
	// package-level variables and constants
	takenV := map[string]bool{}
	for bk, bv := range baseline {
		if !strings.HasPrefix(bk, "var:") {
			continue
		}
		if _, ok := inv[bk]; ok {
			continue
		}
		var cands []string
		for nk, nv := range inv {
			if strings.HasPrefix(nk, "var:") && dirOf(nk) == dirOf(bk) && nv == bv {
				if _, inBase := baseline[nk]; !inBase {
					cands = append(cands, nk)
				}
			}
		}
		if len(cands) == 1 && !takenV[cands[0]] {
			takenV[cands[0]] = true
			plan.vars[strings.TrimPrefix(bk, "var:")] = strings.TrimPrefix(cands[0], "var:")
		}
	}
	// functions: identical body up to renames first, identical signature second
	takenF := map[string]string{}
	for bk, bv := range baseline {
		if strings.HasPrefix(bk, "type:") || strings.HasPrefix(bk, "var:") {
			continue
		}
		if _, ok := inv[bk]; ok {
			continue
		}
		bp := strings.SplitN(bk, "|", 3)
		bsig, _, bhash := funcCols(bv)
		var byBody, bySig []string
		for nk, nv := range inv {
			if strings.HasPrefix(nk, "type:") || strings.HasPrefix(nk, "var:") {
				continue
			}
			if _, inBase := baseline[nk]; inBase {
				continue
			}
			np := strings.SplitN(nk, "|", 3)
			if len(np) != 3 || np[0] != bp[0] {
				continue
			}
			nsig, _, nhash := funcCols(nv)
			if bhash != "" && nhash == bhash {
				byBody = append(byBody, nk)
			}
			recvSame := np[1] == bp[1]
			if !recvSame && bp[1] != "" {
				if c := curTypeOf(bp[0] + "|" + bp[1]); c == np[0]+"|"+np[1] {
					recvSame = true
				}
			}
			if recvSame && nsig == bsig {
				bySig = append(bySig, nk)
			}
		}
		// method ↔ function conversion that keeps the name
		var byName []string
		for nk := range inv {
			if strings.HasPrefix(nk, "type:") || strings.HasPrefix(nk, "var:") {
				continue
			}
			if _, inBase := baseline[nk]; inBase {
				continue
			}
			np := strings.SplitN(nk, "|", 3)
			if len(np) == 3 && np[0] == bp[0] && np[2] == bp[2] && (np[1] == "") != (bp[1] == "") {
				byName = append(byName, nk)
			}
		}
		pick := ""
		switch {
		case len(byName) == 1:
			pick = byName[0]
		case len(byBody) == 1:
			pick = byBody[0]
		case len(bySig) == 1:
			pick = bySig[0]
		case len(byBody) > 1:
			// several bodies alike (trivial getters): the one that also keeps the signature
			var both []string
			for _, a := range byBody {
				for _, b := range bySig {
					if a == b {
						both = append(both, a)
					}
				}
			}
			if len(both) == 1 {
				pick = both[0]
			}
		}
		if pick == "" {
			continue
		}
		if prev, dup := takenF[pick]; dup {
			delete(plan.funcs, prev)
			delete(plan.conv, prev)
			continue
		}
		takenF[pick] = bk
		np := strings.SplitN(pick, "|", 3)
		sameKind := (np[1] == "") == (bp[1] == "")
		if sameKind {
			plan.funcs[bk] = pick
		} else {
			plan.conv[bk] = pick
		}
	}
	return plan
}

// renameBack rewrites the current names to the reference names (unexported declarations only; everything that
// refers to the renamed object, found through the type checker). Returns nil when nothing was rewritten.
func renameBack(repo string, env []string, overlay map[string][]byte, plan renamePlan) (map[string][]byte, []string) {
	pkgs, err := loadTyped(repo, env, overlay)
	if err != nil || len(pkgs) == 0 {
		return nil, nil
	}
	fset := pkgs[0].Fset
	out := map[string][]byte{}
	for k, v := range overlay {
		out[k] = v
	}
	var done []string
	for _, pk := range pkgs {
		if len(pk.Errors) > 0 || pk.TypesInfo == nil || len(pk.CompiledGoFiles) == 0 {
			continue
		}
		dir := filepath.Dir(pk.CompiledGoFiles[0])
		if !strings.HasPrefix(dir, repo) {
			continue
		}
		rel, _ := filepath.Rel(repo, dir)
		target := map[types.Object]string{} // object -> reference name
		note := func(o types.Object, to string) {
			if o == nil || o.Name() == to || o.Exported() {
				return
			}
			target[o] = to
		}
		for _, f := range pk.Syntax {
			for _, d := range f.Decls {
				switch x := d.(type) {
				case *ast.FuncDecl:
					k := Key(rel, recvName(x), x.Name.Name)
					for bk, nk := range plan.funcs {
						if nk == k {
							note(pk.TypesInfo.Defs[x.Name], strings.SplitN(bk, "|", 3)[2])
						}
					}
				case *ast.GenDecl:
					for _, sp := range x.Specs {
						switch y := sp.(type) {
						case *ast.TypeSpec:
							for bk, nk := range plan.types {
								if nk == rel+"|"+y.Name.Name {
									note(pk.TypesInfo.Defs[y.Name], strings.SplitN(bk, "|", 2)[1])
								}
							}
							if st, ok := y.Type.(*ast.StructType); ok && st.Fields != nil {
								for _, fd := range st.Fields.List {
									for _, n := range fd.Names {
										if to, ok := plan.fields[rel+"|"+y.Name.Name+"|"+n.Name]; ok {
											note(pk.TypesInfo.Defs[n], to)
										}
									}
								}
							}
						case *ast.ValueSpec:
							for _, n := range y.Names {
								for bk, nk := range plan.vars {
									if nk == rel+"|"+n.Name {
										note(pk.TypesInfo.Defs[n], strings.SplitN(bk, "|", 2)[1])
									}
								}
							}
						}
					}
				}
			}
		}
		if len(target) == 0 {
			continue
		}
		// the reference name must be free where the object lives
		for o, to := range target {
			if o.Parent() == pk.Types.Scope() && pk.Types.Scope().Lookup(to) != nil {
				delete(target, o)
			}
		}
		edits := map[string][]edit{}
		for _, f := range pk.Syntax {
			ast.Inspect(f, func(n ast.Node) bool {
				id, ok := n.(*ast.Ident)
				if !ok {
					return true
				}
				o := pk.TypesInfo.Defs[id]
				if o == nil {
					o = pk.TypesInfo.Uses[id]
				}
				if to, ok := target[o]; ok {
					ps := fset.Position(id.Pos())
					pe := fset.Position(id.End())
					edits[fset.File(id.Pos()).Name()] = append(edits[fset.File(id.Pos()).Name()], edit{ps.Offset, pe.Offset, to})
				}
				return true
			})
		}
		for name, es := range edits {
			src, ok := out[name]
			if !ok {
				b, e := os.ReadFile(name)
				if e != nil {
					return nil, nil
				}
				src = b
			}
			res, e := applyEdits(src, es)
			if e != nil {
				return nil, nil
			}
			out[name] = res
		}
		for o, to := range target {
			done = append(done, rel+"."+o.Name()+" -> "+to)
		}
	}
	if len(done) == 0 {
		return nil, nil
	}
	sort.Strings(done)
	return out, done
}

// tailKey: the call text with its first argument blanked.
func tailKey(call string) string {
	i := strings.IndexByte(call, '(')
	if i < 0 {
		return call
	}
	depth := 0
	for j := i + 1; j < len(call); j++ {
		switch call[j] {
		case '(', '[', '{':
			depth++
		case ')', ']', '}':
			if depth == 0 {
				return call[:i+1] + "_" + call[j:]
			}
			depth--
		case ',':
			if depth == 0 {
				return call[:i+1] + "_" + call[j:]
			}
		}
	}
	return call
}
