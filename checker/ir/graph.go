// Package ir holds the shared analyses (E-PATH, E-DOM, E-VAL, E-CG, E-LOCK …)
// described in DESIGN.md §1.3. Everything here works on go/ssa of the
// type-checked program; nothing matches source text or positions.
package ir

import (
	"fmt"
	"go/constant"
	"go/token"
	"go/types"
	"hash/fnv"

	"golang.org/x/tools/go/ssa"
)

// Pt is a program point: instruction I of block B.
type Pt struct {
	B *ssa.BasicBlock
	I int
	// From: the block the point is entered from (I must be 0): lets a reachability query that starts on one side
	// of a branch know what the phis of B are on that edge.
	From *ssa.BasicBlock
}

// EdgePt is the start of successor `succ` of block b, entered over that edge.
func EdgePt(b *ssa.BasicBlock, succ int) Pt { return Pt{B: b.Succs[succ], I: 0, From: b} }

// At returns the point of an instruction.
func At(in ssa.Instruction) Pt {
	b := in.Block()
	for i, o := range b.Instrs {
		if o == in {
			return Pt{B: b, I: i}
		}
	}
	return Pt{B: b, I: 0}
}

// After returns the point just after an instruction.
func After(in ssa.Instruction) Pt {
	p := At(in)
	return Pt{B: p.B, I: p.I + 1}
}

// Entry is the entry point of a function.
func Entry(fn *ssa.Function) Pt {
	if len(fn.Blocks) == 0 {
		return Pt{}
	}
	return Pt{B: fn.Blocks[0], I: 0}
}

// Opts steers Reach.
type Opts struct {
	// Stop: traversal does not continue past an instruction for which Stop is
	// true (the instruction itself is recorded in Stopped, not in the reached set).
	Stop func(in ssa.Instruction) bool
	// EdgeOK: nil means every CFG edge; otherwise edge (from, succ index) is
	// followed only when it returns true.
	EdgeOK func(from *ssa.BasicBlock, succ int) bool
	// EdgeOKVia: like EdgeOK, with the predecessor the block was entered from (nil when the walk started inside
	// the block) — needed for virtual branches, which are decided per incoming edge.
	EdgeOKVia func(via, from *ssa.BasicBlock, succ int) bool
	// KeepNoReturn: when false (default) calls to functions that never return
	// (os.Exit, panicking helpers) end the path like a panic.
	KeepNoReturn bool
	// Observe, when set, is called for every reached instruction with a lookup of what the path environment knows
	// about a phi on the way it was reached (a constant, or a value known to be non-nil).
	Observe func(in ssa.Instruction, phiVal func(*ssa.Phi) (ssa.Value, bool))
	// ObserveFacts: like Observe, for the nil / non-nil facts the taken branches established about non-phi values.
	ObserveFacts func(in ssa.Instruction, fact func(ssa.Value) (nonNil bool, known bool))
	// ErrNilImpliesValue applies Go's (value, error) convention while learning from branches: on the side where the
	// error result of a call is nil, its pointer-typed first result is taken to be non-nil.
	ErrNilImpliesValue bool
}

// Result of a reachability query.
type Result struct {
	Reached map[ssa.Instruction]bool
	Stopped map[ssa.Instruction]bool
	// RetVals: for a reached Return whose first result is (a negation chain over) a bool phi of its own block —
	// the `return !found` an inlined helper leaves behind — the constant returned along each way the block was
	// entered (nil entry: not a constant / entry edge unknown).
	RetVals map[*ssa.Return][]constant.Value
	// RetEdges: for a reached Return whose first result (through a defer spill) is a phi of its own block, the phi
	// operand for each way the block was entered (nil: entry edge unknown).
	RetEdges map[*ssa.Return][]ssa.Value
	// RetTuples: for every way a Return was reached, its results with phis of the Return's own block resolved to
	// the operand of the edge the block was entered through (unresolved phis stay as they are).
	RetTuples map[*ssa.Return][][]ssa.Value
}

// PhiResult returns the phi a Return's first result is, when the phi lives in the Return's block.
func PhiResult(ret *ssa.Return) *ssa.Phi {
	if len(ret.Results) == 0 {
		return nil
	}
	if ph, ok := RetVal(ret, 0).(*ssa.Phi); ok && ph.Block() == ret.Block() {
		return ph
	}
	return nil
}

// NilReturnReached: the return was reached, over some explored path, with a nil first result.
func (r Result) NilReturnReached(ret *ssa.Return) bool {
	if !r.Reached[ret] {
		return false
	}
	if ReturnsNil(ret, 0) {
		return true
	}
	for _, e := range r.RetEdges[ret] {
		if e == nil || IsNilConst(e) {
			return true
		}
	}
	return false
}

// BoolReturn: the boolean constants a reached return can yield on the explored paths; ok=false if some path
// returns a non-constant.
func (r Result) BoolReturn(ret *ssa.Return) (vals []bool, ok bool) {
	if len(ret.Results) == 0 {
		return nil, false
	}
	if c, isC := ret.Results[0].(*ssa.Const); isC && c.Value != nil && c.Value.Kind() == constant.Bool {
		return []bool{constant.BoolVal(c.Value)}, true
	}
	vs, has := r.RetVals[ret]
	if !has || len(vs) == 0 {
		return nil, false
	}
	for _, v := range vs {
		if v == nil {
			return nil, false
		}
		vals = append(vals, constant.BoolVal(v))
	}
	return vals, true
}

// retPhi: block b ends in a Return whose first result is a negation chain over a bool phi of b.
func retPhi(b *ssa.BasicBlock) (*ssa.Return, *ssa.Phi, bool, bool) {
	if len(b.Instrs) == 0 {
		return nil, nil, false, false
	}
	ret, ok := b.Instrs[len(b.Instrs)-1].(*ssa.Return)
	if !ok || len(ret.Results) == 0 {
		return nil, nil, false, false
	}
	neg := false
	v := ret.Results[0]
	for {
		if u, isU := v.(*ssa.UnOp); isU && u.Op == token.NOT {
			neg = !neg
			v = u.X
			continue
		}
		break
	}
	ph, isPhi := v.(*ssa.Phi)
	if !isPhi || ph.Block() != b {
		return nil, nil, false, false
	}
	return ret, ph, neg, true
}

// threadable: block b ends in an If whose condition is decided by a phi of b itself: a negation chain over a
// bool phi, or a comparison of a phi with nil. Entering b over a predecessor edge that carries a constant (or a
// value known to be non-nil) decides the branch (jump threading): the flag or error a helper's inlined
// `return …` leaves behind is not a real choice point.
// nilcmp: the condition is `phi == nil` (neg=false) or `phi != nil` (neg=true).
func threadable(b *ssa.BasicBlock) (ph *ssa.Phi, neg bool, ok bool) {
	ph, neg, _, ok = threadableKind(b)
	return
}

func threadableKind(b *ssa.BasicBlock) (ph *ssa.Phi, neg bool, nilcmp bool, ok bool) {
	if len(b.Instrs) == 0 {
		return nil, false, false, false
	}
	ifi, isIf := b.Instrs[len(b.Instrs)-1].(*ssa.If)
	if !isIf {
		return nil, false, false, false
	}
	v := ifi.Cond
	for {
		if u, isU := v.(*ssa.UnOp); isU && u.Op == token.NOT {
			neg = !neg
			v = u.X
			continue
		}
		break
	}
	if p, isPhi := v.(*ssa.Phi); isPhi && p.Block() == b {
		return p, neg, false, true
	}
	if bo, isB := v.(*ssa.BinOp); isB && (bo.Op == token.EQL || bo.Op == token.NEQ) {
		x, y := bo.X, bo.Y
		if IsNilConst(x) {
			x, y = y, x
		}
		if p, isPhi := x.(*ssa.Phi); isPhi && p.Block() == b && IsNilConst(y) {
			if bo.Op == token.NEQ {
				neg = !neg
			}
			return p, neg, true, true
		}
	}
	return nil, false, false, false
}

// KnownNonNil: the value cannot be nil — a fresh object, a boxed value, or a package-level error variable that is
// only ever assigned errors.New/fmt.Errorf results.
func KnownNonNil(v ssa.Value) bool {
	switch x := v.(type) {
	case *ssa.MakeInterface, *ssa.Alloc, *ssa.MakeClosure, *ssa.Function, *ssa.MakeMap, *ssa.MakeChan, *ssa.MakeSlice, *ssa.FieldAddr, *ssa.IndexAddr:
		return true
	case *ssa.Call:
		return IsCallTo(x, "errors.New", "fmt.Errorf")
	case *ssa.UnOp:
		if x.Op != token.MUL {
			return false
		}
		g, ok := x.X.(*ssa.Global)
		if !ok || g.Pkg == nil {
			return false
		}
		n := 0
		for _, m := range g.Pkg.Members {
			fn, isF := m.(*ssa.Function)
			if !isF {
				continue
			}
			for _, b := range fn.Blocks {
				for _, in := range b.Instrs {
					if st, isSt := in.(*ssa.Store); isSt && st.Addr == ssa.Value(g) {
						n++
						if c, isC := st.Val.(*ssa.Call); !isC || !IsCallTo(c, "errors.New", "fmt.Errorf") {
							return false
						}
					}
				}
			}
		}
		return n > 0
	}
	return false
}

// evalOnEdge evaluates the branch condition of b for the value its phi takes over one incoming edge:
// cond is built from the phi, constants, !, and one comparison.
func evalOnEdge(cond ssa.Value, ph *ssa.Phi, e ssa.Value) (bool, bool) {
	switch x := cond.(type) {
	case *ssa.UnOp:
		if x.Op == token.NOT {
			v, ok := evalOnEdge(x.X, ph, e)
			return !v, ok
		}
	case *ssa.Phi:
		if x == ph {
			if c, isC := e.(*ssa.Const); isC && c.Value != nil && c.Value.Kind() == constant.Bool {
				return constant.BoolVal(c.Value), true
			}
		}
	case *ssa.BinOp:
		l, r := x.X, x.Y
		op := x.Op
		if r == ssa.Value(ph) {
			// const OP phi  ≡  phi OP' const
			l, r = r, l
			switch op {
			case token.LSS:
				op = token.GTR
			case token.GTR:
				op = token.LSS
			case token.LEQ:
				op = token.GEQ
			case token.GEQ:
				op = token.LEQ
			}
		}
		if l != ssa.Value(ph) {
			return false, false
		}
		switch op {
		case token.EQL, token.NEQ, token.LSS, token.LEQ, token.GTR, token.GEQ:
		default:
			return false, false
		}
		if IsNilConst(r) {
			if op != token.EQL && op != token.NEQ {
				return false, false
			}
			switch {
			case IsNilConst(e):
				return op == token.EQL, true
			case KnownNonNil(e):
				return op == token.NEQ, true
			}
			return false, false
		}
		rc, okr := r.(*ssa.Const)
		ec, oke := e.(*ssa.Const)
		if !okr || !oke || rc.Value == nil || ec.Value == nil {
			return false, false
		}
		if rc.Value.Kind() != ec.Value.Kind() {
			return false, false
		}
		return constant.Compare(ec.Value, op, rc.Value), true
	}
	return false, false
}

// condPhi: the phi of block b that the block's branch condition is built on (see evalOnEdge).
func condPhi(b *ssa.BasicBlock) (*ssa.If, *ssa.Phi) {
	if len(b.Instrs) == 0 {
		return nil, nil
	}
	ifi, ok := b.Instrs[len(b.Instrs)-1].(*ssa.If)
	if !ok {
		return nil, nil
	}
	v := ifi.Cond
	for {
		if u, isU := v.(*ssa.UnOp); isU && u.Op == token.NOT {
			v = u.X
			continue
		}
		break
	}
	if p, isPhi := v.(*ssa.Phi); isPhi && p.Block() == b {
		return ifi, p
	}
	if bo, isB := v.(*ssa.BinOp); isB {
		if p, isPhi := bo.X.(*ssa.Phi); isPhi && p.Block() == b {
			if _, isC := bo.Y.(*ssa.Const); isC {
				return ifi, p
			}
		}
		if p, isPhi := bo.Y.(*ssa.Phi); isPhi && p.Block() == b {
			if _, isC := bo.X.(*ssa.Const); isC {
				return ifi, p
			}
		}
	}
	return nil, nil
}

// threadedSucc: the only successor index of b that can follow when b was entered from `from`; -1 if undetermined.
func threadedSucc(b, from *ssa.BasicBlock) int {
	ifi, ph := condPhi(b)
	if ifi == nil || from == nil {
		return -1
	}
	for k, p := range b.Preds {
		if p != from {
			continue
		}
		t, ok := evalOnEdge(ifi.Cond, ph, ph.Edges[k])
		if !ok {
			return -1
		}
		if t {
			return 0
		}
		return 1
	}
	return -1
}

// phiEnv: the constants (or nil / known-non-nil facts) that phis have on the path being explored. It is what makes
// Reach path-sensitive for flags: `found := false … found = true; break … if found`, also through chains of phis.
type phiEnv struct {
	vals map[*ssa.Phi]ssa.Value // *ssa.Const, or any value for which KnownNonNil holds
	// nn: what a taken `v == nil` / `v != nil` branch said about a non-phi value (true: not nil). A phi that later
	// takes such a value as its operand inherits the fact — the err variable an inlined helper hands to its caller.
	nn  map[ssa.Value]bool
	sig uint64 // order-independent hash of vals and nn (sum of entry hashes)
}

func factHash(v ssa.Value, nonNil bool) uint64 {
	h := fnv.New64a()
	fmt.Fprintf(h, "nn|%p|%v", v, nonNil)
	return h.Sum64()
}

func (e phiEnv) nonNil(v ssa.Value) bool {
	if KnownNonNil(v) {
		return true
	}
	nn, ok := e.nn[v]
	return ok && nn
}

func entryHash(ph *ssa.Phi, v ssa.Value) uint64 {
	h := fnv.New64a()
	fmt.Fprintf(h, "%p|", ph)
	if c, ok := v.(*ssa.Const); ok {
		h.Write([]byte(c.String()))
	} else {
		fmt.Fprintf(h, "%p", v)
	}
	return h.Sum64()
}

func (e phiEnv) with(b, from *ssa.BasicBlock) phiEnv {
	if from == nil {
		return e
	}
	var phis []*ssa.Phi
	for _, in := range b.Instrs {
		ph, ok := in.(*ssa.Phi)
		if !ok {
			break
		}
		phis = append(phis, ph)
	}
	if len(phis) == 0 {
		return e
	}
	k := -1
	for i, p := range b.Preds {
		if p == from {
			k = i
		}
	}
	if k < 0 {
		return e
	}
	nv := make(map[*ssa.Phi]ssa.Value, len(e.vals)+len(phis))
	for p, v := range e.vals {
		nv[p] = v
	}
	// phis of a block take their values simultaneously: read from the old environment
	for _, ph := range phis {
		in := ph.Edges[k]
		switch x := in.(type) {
		case *ssa.Const:
			nv[ph] = x
		case *ssa.Phi:
			if v, ok := e.vals[x]; ok {
				nv[ph] = v
			} else {
				delete(nv, ph)
			}
		default:
			if fact, known := e.nn[in]; known && !fact {
				nv[ph] = nilOf(in)
			} else if e.nonNil(in) {
				nv[ph] = in
			} else if ex, isEx := in.(*ssa.Extract); isEx && isCallTuple(ex) {
				// a result of a (value, error) call carried by a phi: remember which one, so that a later nil
				// test of the phi says something about that call (merged error checks)
				nv[ph] = in
			} else {
				delete(nv, ph)
			}
		}
	}
	out := phiEnv{vals: nv, nn: e.nn}
	for p, v := range nv {
		out.sig += entryHash(p, v)
	}
	for v, f := range e.nn {
		out.sig += factHash(v, f)
	}
	return out
}

func sortStrings(a []string) {
	for i := 1; i < len(a); i++ {
		for j := i; j > 0 && a[j] < a[j-1]; j-- {
			a[j], a[j-1] = a[j-1], a[j]
		}
	}
}

// learn records what taking a branch says about a bool phi: after `if flag` the flag is known on both sides.
func (e phiEnv) learn(cond ssa.Value, taken bool) phiEnv {
	v := cond
	for {
		if u, isU := v.(*ssa.UnOp); isU && u.Op == token.NOT {
			taken = !taken
			v = u.X
			continue
		}
		break
	}
	if bo, isB := v.(*ssa.BinOp); isB && (bo.Op == token.EQL || bo.Op == token.NEQ) {
		x, y := bo.X, bo.Y
		if IsNilConst(x) {
			x, y = y, x
		}
		if xp, isPhi := x.(*ssa.Phi); isPhi && IsNilConst(y) {
			// a phi known to carry a call result on this path: the test is about that result
			if cur, ok := e.vals[xp]; ok {
				if ex, isEx := cur.(*ssa.Extract); isEx && isCallTuple(ex) {
					x = ex
				}
			}
		}
		if _, isPhi := x.(*ssa.Phi); IsNilConst(y) && !isPhi && !IsNilConst(x) {
			nonNil := (bo.Op == token.NEQ) == taken
			if old, known := e.nn[x]; known && old == nonNil {
				return e
			}
			nn := make(map[ssa.Value]bool, len(e.nn)+1)
			for k, f := range e.nn {
				nn[k] = f
			}
			nn[x] = nonNil
			out := phiEnv{vals: e.vals, nn: nn}
			for p, pv := range e.vals {
				out.sig += entryHash(p, pv)
			}
			for k, f := range nn {
				out.sig += factHash(k, f)
			}
			return out
		}
		return e
	}
	ph, ok := v.(*ssa.Phi)
	if !ok {
		return e
	}
	if b, isB := ph.Type().Underlying().(*types.Basic); !isB || b.Kind() != types.Bool {
		return e
	}
	if _, known := e.vals[ph]; known {
		return e
	}
	nv := make(map[*ssa.Phi]ssa.Value, len(e.vals)+1)
	for p, x := range e.vals {
		nv[p] = x
	}
	nv[ph] = ssa.NewConst(constant.MakeBool(taken), types.Typ[types.Bool])
	out := phiEnv{vals: nv, nn: e.nn}
	for p, x := range nv {
		out.sig += entryHash(p, x)
	}
	for k, f := range e.nn {
		out.sig += factHash(k, f)
	}
	return out
}

// evalCond evaluates a branch condition under the environment: !, a phi, or one comparison of a phi with a
// constant / nil.
func (e phiEnv) evalCond(cond ssa.Value) (bool, bool) {
	switch x := cond.(type) {
	case *ssa.Const:
		if x.Value != nil && x.Value.Kind() == constant.Bool {
			return constant.BoolVal(x.Value), true
		}
	case *ssa.UnOp:
		if x.Op == token.NOT {
			v, ok := e.evalCond(x.X)
			return !v, ok
		}
	case *ssa.Phi:
		if v, ok := e.vals[x]; ok {
			if c, isC := v.(*ssa.Const); isC && c.Value != nil && c.Value.Kind() == constant.Bool {
				return constant.BoolVal(c.Value), true
			}
		}
	case *ssa.BinOp:
		l, r := x.X, x.Y
		op := x.Op
		if _, isPhi := r.(*ssa.Phi); isPhi {
			l, r = r, l
			switch op {
			case token.LSS:
				op = token.GTR
			case token.GTR:
				op = token.LSS
			case token.LEQ:
				op = token.GEQ
			case token.GEQ:
				op = token.LEQ
			}
		}
		ph, isPhi := l.(*ssa.Phi)
		if !isPhi {
			// a value already tested against nil on this path
			a, b := x.X, x.Y
			if IsNilConst(a) {
				a, b = b, a
			}
			if IsNilConst(b) && (x.Op == token.EQL || x.Op == token.NEQ) {
				if fact, known := e.nn[a]; known {
					return (x.Op == token.NEQ) == fact, true
				}
			}
			return false, false
		}
		v, ok := e.vals[ph]
		if !ok {
			return false, false
		}
		switch op {
		case token.EQL, token.NEQ, token.LSS, token.LEQ, token.GTR, token.GEQ:
		default:
			return false, false
		}
		if IsNilConst(r) {
			if op != token.EQL && op != token.NEQ {
				return false, false
			}
			switch {
			case IsNilConst(v):
				return op == token.EQL, true
			case e.nonNil(v):
				return op == token.NEQ, true
			}
			if fact, known := e.nn[v]; known && !fact {
				return op == token.EQL, true
			}
			return false, false
		}
		rc, okr := r.(*ssa.Const)
		vc, okv := v.(*ssa.Const)
		if !okr || !okv || rc.Value == nil || vc.Value == nil || rc.Value.Kind() != vc.Value.Kind() {
			return false, false
		}
		return constant.Compare(vc.Value, op, rc.Value), true
	}
	return false, false
}

// Reach computes the instructions reachable from the start points.
func Reach(starts []Pt, o Opts) Result {
	res := Result{Reached: map[ssa.Instruction]bool{}, Stopped: map[ssa.Instruction]bool{}, RetVals: map[*ssa.Return][]constant.Value{}, RetEdges: map[*ssa.Return][]ssa.Value{}, RetTuples: map[*ssa.Return][][]ssa.Value{}}
	type key struct {
		b   *ssa.BasicBlock
		i   int
		env uint64
	}
	type item struct {
		p    Pt
		from *ssa.BasicBlock
		env  phiEnv
	}
	seen := map[key]bool{}
	var work []item
	budget := 200000
	push := func(p Pt, from *ssa.BasicBlock, env phiEnv) {
		if p.B == nil {
			return
		}
		k := key{p.B, p.I, env.sig}
		_, cph := condPhi(p.B)
		if p.I == 0 && from != nil && (returnsPhi(p.B) || (o.EdgeOKVia != nil && cph != nil)) {
			// the results depend on the edge the block is entered through: one visit per predecessor
			for i, pr := range p.B.Preds {
				if pr == from {
					k.env += uint64(i+1) * 0x9e3779b97f4a7c15
				}
			}
		}
		if !seen[k] {
			seen[k] = true
			work = append(work, item{p, from, env})
		}
	}
	for _, s := range starts {
		if s.From != nil && s.I == 0 {
			env := phiEnv{}
			if n := len(s.From.Instrs); n > 0 {
				if fi, isIf := s.From.Instrs[n-1].(*ssa.If); isIf && len(s.From.Succs) == 2 && s.From.Succs[0] != s.From.Succs[1] {
					env = env.learn(fi.Cond, s.From.Succs[0] == s.B)
				}
			}
			push(Pt{B: s.B, I: 0}, s.From, env.with(s.B, s.From))
		} else {
			push(Pt{B: s.B, I: s.I}, nil, phiEnv{})
		}
	}
	for len(work) > 0 && budget > 0 {
		budget--
		it := work[len(work)-1]
		work = work[:len(work)-1]
		p := it.p
		b := p.B
		stopped := false
		for i := p.I; i < len(b.Instrs); i++ {
			in := b.Instrs[i]
			if i > p.I {
				k := key{b, i, it.env.sig}
				if seen[k] {
					stopped = true
					break
				}
				seen[k] = true
			}
			if o.Stop != nil && o.Stop(in) {
				res.Stopped[in] = true
				stopped = true
				break
			}
			res.Reached[in] = true
			if o.Observe != nil {
				env := it.env
				o.Observe(in, func(ph *ssa.Phi) (ssa.Value, bool) { v, ok := env.vals[ph]; return v, ok })
			}
			if o.ObserveFacts != nil {
				env := it.env
				o.ObserveFacts(in, func(v ssa.Value) (bool, bool) {
					if KnownNonNil(v) {
						return true, true
					}
					f, ok := env.nn[v]
					return f, ok
				})
			}
			if ret, isRet := in.(*ssa.Return); isRet {
				tuple := make([]ssa.Value, len(ret.Results))
				for ri := range ret.Results {
					v := RetVal(ret, ri)
					tuple[ri] = v
					if ph, isPhi := v.(*ssa.Phi); isPhi && ph.Block() == b {
						if ev := it.env.vals[ph]; ev != nil {
							tuple[ri] = ev
						} else if p.I == 0 && it.from != nil {
							for k, pr := range b.Preds {
								if pr == it.from {
									tuple[ri] = ph.Edges[k]
								}
							}
						}
					}
				}
				res.RetTuples[ret] = append(res.RetTuples[ret], tuple)
				if ph := PhiResult(ret); ph != nil {
					ev := it.env.vals[ph]
					if ev == nil && p.I == 0 && it.from != nil {
						// not a tracked constant: the operand itself (e.g. the err variable of the failing phase)
						for k, pr := range b.Preds {
							if pr == it.from {
								ev = ph.Edges[k]
							}
						}
					}
					res.RetEdges[ret] = append(res.RetEdges[ret], ev)
				}
				if r2, ph, neg, ok := retPhi(b); ok && r2 == ret {
					var cv constant.Value
					if c, isC := it.env.vals[ph].(*ssa.Const); isC && c.Value != nil && c.Value.Kind() == constant.Bool {
						cv = constant.MakeBool(constant.BoolVal(c.Value) != neg)
					}
					res.RetVals[ret] = append(res.RetVals[ret], cv)
				}
			}
			if !o.KeepNoReturn {
				if c, ok := in.(*ssa.Call); ok && NeverReturns(c.Common().StaticCallee()) {
					stopped = true
					break
				}
			}
		}
		if stopped {
			continue
		}
		only := -1
		var ifi *ssa.If
		if len(b.Instrs) > 0 {
			if x, isIf := b.Instrs[len(b.Instrs)-1].(*ssa.If); isIf {
				ifi = x
				if t, ok := it.env.evalCond(ifi.Cond); ok {
					if t {
						only = 0
					} else {
						only = 1
					}
				}
			}
		}
		for si, s := range b.Succs {
			if only >= 0 && si != only {
				continue
			}
			if o.EdgeOK != nil && !o.EdgeOK(b, si) {
				continue
			}
			if o.EdgeOKVia != nil && !o.EdgeOKVia(it.from, b, si) {
				continue
			}
			env := it.env
			if ifi != nil {
				env = env.learn(ifi.Cond, si == 0)
				if o.ErrNilImpliesValue {
					env = env.valueOfNilErr()
				}
			}
			push(Pt{B: s, I: 0}, b, env.with(s, b))
		}
	}
	return res
}

// Returns lists the Return instructions of fn.
func Returns(fn *ssa.Function) []*ssa.Return {
	var out []*ssa.Return
	for _, b := range fn.Blocks {
		if b == fn.Recover {
			continue // only entered after a recovered panic, never from the normal CFG
		}
		for _, in := range b.Instrs {
			if r, ok := in.(*ssa.Return); ok {
				out = append(out, r)
			}
		}
	}
	return out
}

var neverReturns = map[*ssa.Function]int{} // 0 unknown, 1 in progress, 2 false, 3 true

// NeverReturns reports whether a function can never return normally
// (os.Exit, runtime.Goexit, log.Fatal*, or a function all of whose paths panic).
func NeverReturns(fn *ssa.Function) bool {
	if fn == nil {
		return false
	}
	switch neverReturns[fn] {
	case 1, 2:
		return false
	case 3:
		return true
	}
	if fn.Pkg != nil {
		full := fn.Pkg.Pkg.Path() + "." + fn.Name()
		switch full {
		case "os.Exit", "runtime.Goexit", "log.Fatal", "log.Fatalf", "log.Fatalln", "log.Panic", "log.Panicf", "log.Panicln":
			neverReturns[fn] = 3
			return true
		}
	}
	if len(fn.Blocks) == 0 {
		neverReturns[fn] = 2
		return false
	}
	neverReturns[fn] = 1
	res := Reach([]Pt{Entry(fn)}, Opts{})
	ret := false
	for in := range res.Reached {
		if _, ok := in.(*ssa.Return); ok {
			ret = true
			break
		}
	}
	if fn.Recover != nil {
		ret = true // a recovering function returns through its recover block
	}
	if ret {
		neverReturns[fn] = 2
	} else {
		neverReturns[fn] = 3
	}
	return !ret
}

// Event is a named instruction predicate (named so summaries can be memoised).
type Event struct {
	ID    string
	Match func(in ssa.Instruction) bool
}

type sumKey struct {
	fn *ssa.Function
	id string
}

var mustMemo = map[sumKey]int{} // 1 in progress, 2 false, 3 true

// MustHit: every path from fn's entry to a normal return passes an
// instruction matching ev, or a static call (or defer) of a function for which
// MustHit holds (depth-bounded, recursion ⇒ false).
func MustHit(fn *ssa.Function, ev Event, depth int) bool {
	if fn == nil || len(fn.Blocks) == 0 || depth < 0 {
		return false
	}
	k := sumKey{fn, ev.ID}
	switch mustMemo[k] {
	case 1, 2:
		return false
	case 3:
		return true
	}
	mustMemo[k] = 1
	stop := func(in ssa.Instruction) bool { return ev.Match(in) || CallMustHit(in, ev, depth-1) }
	res := Reach([]Pt{Entry(fn)}, Opts{Stop: stop})
	ok := true
	for in := range res.Reached {
		if _, isRet := in.(*ssa.Return); isRet {
			ok = false
			break
		}
	}
	if ok {
		mustMemo[k] = 3
	} else {
		mustMemo[k] = 2
	}
	return ok
}

// CallMustHit: instruction is a call/defer of a function with the must-summary.
func CallMustHit(in ssa.Instruction, ev Event, depth int) bool {
	if depth < 0 {
		return false
	}
	switch c := in.(type) {
	case *ssa.Call:
		return MustHit(CalleeOf(c.Common()), ev, depth)
	case *ssa.Defer:
		return MustHit(CalleeOf(c.Common()), ev, depth)
	}
	return false
}

// WithSummaries lifts an event to "the instruction matches, or is a call whose
// callee must hit the event on every path".
func WithSummaries(ev Event, depth int) func(ssa.Instruction) bool {
	return func(in ssa.Instruction) bool { return ev.Match(in) || CallMustHit(in, ev, depth) }
}

// MayHit: some instruction matching ev is reachable inside fn or (depth-bounded) its static callees.
func MayHit(fn *ssa.Function, ev Event, depth int, seen map[*ssa.Function]bool) bool {
	if fn == nil || depth < 0 || seen[fn] {
		return false
	}
	seen[fn] = true
	for _, b := range fn.Blocks {
		for _, in := range b.Instrs {
			if ev.Match(in) {
				return true
			}
			if c, ok := in.(ssa.CallInstruction); ok {
				if MayHit(CalleeOf(c.Common()), ev, depth-1, seen) {
					return true
				}
			}
		}
	}
	return false
}

// PathExists: is some instruction satisfying target reachable from the starts
// without passing a Stop instruction?
func PathExists(starts []Pt, o Opts, target func(ssa.Instruction) bool) (ssa.Instruction, bool) {
	res := Reach(starts, o)
	var best ssa.Instruction
	for in := range res.Reached {
		if target(in) {
			if best == nil || in.Pos() < best.Pos() {
				best = in
			}
		}
	}
	return best, best != nil
}

// IsExit matches normal returns.
func IsExit(in ssa.Instruction) bool {
	_, ok := in.(*ssa.Return)
	return ok
}

// BlockReachableWithoutEdge: can block target be reached from block from when
// the edge (eb, es) is removed? Used for "executes only if the edge was taken".
func ReachableWithoutEdge(from Pt, target ssa.Instruction, eb *ssa.BasicBlock, es int) bool {
	res := Reach([]Pt{from}, Opts{EdgeOK: func(b *ssa.BasicBlock, s int) bool { return !(b == eb && s == es) }})
	return res.Reached[target]
}

// RetVal returns the i-th result of a return, looking through the result
// spill that go/ssa emits for functions with defers (*slot = v; rundefers; t = *slot; return t).
func RetVal(ret *ssa.Return, i int) ssa.Value {
	if i >= len(ret.Results) {
		return nil
	}
	v := ret.Results[i]
	u, ok := v.(*ssa.UnOp)
	if !ok || u.Op != token.MUL {
		return v
	}
	al, ok := u.X.(*ssa.Alloc)
	if !ok {
		return v
	}
	b := ret.Block()
	var last ssa.Value
	for _, in := range b.Instrs {
		if st, ok := in.(*ssa.Store); ok && st.Addr == ssa.Value(al) {
			last = st.Val
		}
	}
	if last != nil {
		return last
	}
	// single predecessor chain
	for p := b; len(p.Preds) == 1; {
		p = p.Preds[0]
		for _, in := range p.Instrs {
			if st, ok := in.(*ssa.Store); ok && st.Addr == ssa.Value(al) {
				last = st.Val
			}
		}
		if last != nil {
			return last
		}
	}
	return v
}

// ReturnsNil reports whether the return's (single / last error) result i is the nil constant.
func ReturnsNil(ret *ssa.Return, i int) bool {
	v := RetVal(ret, i)
	return v != nil && IsNilConst(v)
}

func hasPhiReturn(b *ssa.BasicBlock) bool {
	if len(b.Instrs) == 0 {
		return false
	}
	ret, ok := b.Instrs[len(b.Instrs)-1].(*ssa.Return)
	return ok && PhiResult(ret) != nil
}

// returnsPhi: the block ends in a Return one of whose results is a phi of the block itself.
func returnsPhi(b *ssa.BasicBlock) bool {
	if len(b.Instrs) == 0 {
		return false
	}
	ret, ok := b.Instrs[len(b.Instrs)-1].(*ssa.Return)
	if !ok {
		return false
	}
	for i := range ret.Results {
		if ph, isPhi := RetVal(ret, i).(*ssa.Phi); isPhi && ph.Block() == b {
			return true
		}
	}
	return false
}

// valueOfNilErr: for every call whose error result is known to be nil on this path, its pointer-typed first result
// is known to be non-nil (the (value, error) convention).
func (e phiEnv) valueOfNilErr() phiEnv {
	var add []ssa.Value
	for v, nonNil := range e.nn {
		ex, ok := v.(*ssa.Extract)
		if nonNil || !ok || ex.Index == 0 {
			continue
		}
		if ex.Type().String() != "error" {
			continue
		}
		c, ok := ex.Tuple.(*ssa.Call)
		if !ok || c.Referrers() == nil {
			continue
		}
		for _, rr := range *c.Referrers() {
			if h, isE := rr.(*ssa.Extract); isE && h.Index == 0 {
				if _, isPtr := h.Type().Underlying().(*types.Pointer); isPtr {
					if _, known := e.nn[h]; !known {
						add = append(add, h)
					}
				}
			}
		}
	}
	if len(add) == 0 {
		return e
	}
	nn := make(map[ssa.Value]bool, len(e.nn)+len(add))
	for k, f := range e.nn {
		nn[k] = f
	}
	out := phiEnv{vals: e.vals, nn: nn, sig: e.sig}
	for _, h := range add {
		nn[h] = true
		out.sig += factHash(h, true)
	}
	return out
}

func isCallTuple(ex *ssa.Extract) bool {
	_, ok := ex.Tuple.(*ssa.Call)
	return ok
}
