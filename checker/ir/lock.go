package ir

import (
	"sort"
	"strings"

	"golang.org/x/tools/go/ssa"
)

// Lockset is the set of mutexes (keyed by the access path of the mutex value)
// that are held on every path reaching a program point (E-LOCK, must-hold).
// A read lock is keyed path+"#R".
type Lockset map[string]bool

func (l Lockset) clone() Lockset {
	o := Lockset{}
	for k := range l {
		o[k] = true
	}
	return o
}

func (l Lockset) String() string {
	var ks []string
	for k := range l {
		ks = append(ks, k)
	}
	sort.Strings(ks)
	return "{" + strings.Join(ks, ",") + "}"
}

// Holds reports whether the write lock (or, when allowRead, the read lock) named by key is held.
func (l Lockset) Holds(key string, allowRead bool) bool {
	return l[key] || (allowRead && l[key+"#R"])
}

func lockOp(in ssa.Instruction) (key string, acquire bool, ok bool) {
	c, isCall := in.(*ssa.Call)
	if !isCall {
		return "", false, false
	}
	n := CallName(c.Common())
	var suffix string
	switch n {
	case "(*sync.Mutex).Lock", "(*sync.RWMutex).Lock":
		acquire = true
	case "(*sync.Mutex).Unlock", "(*sync.RWMutex).Unlock":
	case "(*sync.RWMutex).RLock":
		acquire, suffix = true, "#R"
	case "(*sync.RWMutex).RUnlock":
		suffix = "#R"
	default:
		return "", false, false
	}
	if len(c.Call.Args) == 0 {
		return "", false, false
	}
	return Path(c.Call.Args[0]) + suffix, acquire, true
}

// Locksets computes, for every instruction of fn, the locks held just before it.
// entry is the lockset assumed at function entry (caller-holds).
func Locksets(fn *ssa.Function, entry Lockset) map[ssa.Instruction]Lockset {
	out := map[ssa.Instruction]Lockset{}
	if fn == nil || len(fn.Blocks) == 0 {
		return out
	}
	in := map[*ssa.BasicBlock]Lockset{}
	visited := map[*ssa.BasicBlock]bool{}
	in[fn.Blocks[0]] = entry.clone()
	work := []*ssa.BasicBlock{fn.Blocks[0]}
	for len(work) > 0 {
		b := work[0]
		work = work[1:]
		cur := in[b].clone()
		visited[b] = true
		for _, ins := range b.Instrs {
			out[ins] = cur.clone()
			if key, acq, ok := lockOp(ins); ok {
				if acq {
					cur[key] = true
				} else {
					delete(cur, key)
				}
			}
			// deferred unlocks keep the lock until exit: nothing to do
		}
		for _, s := range b.Succs {
			old, seen := in[s]
			if !seen {
				in[s] = cur.clone()
				work = append(work, s)
				continue
			}
			// meet = intersection
			changed := false
			for k := range old {
				if !cur[k] {
					delete(old, k)
					changed = true
				}
			}
			if changed || !visited[s] {
				work = append(work, s)
			}
		}
	}
	return out
}

// UnlockOnAllExits: after `lock` (a Lock call) every normal return is preceded by
// the matching Unlock, either deferred or explicit.
func UnlockOnAllExits(fn *ssa.Function, lock ssa.Instruction) bool {
	key, acq, ok := lockOp(lock)
	if !ok || !acq {
		return false
	}
	isUnlock := func(in ssa.Instruction) bool {
		if d, isD := in.(*ssa.Defer); isD {
			n := CallName(d.Common())
			if strings.HasSuffix(n, ".Unlock") || strings.HasSuffix(n, ".RUnlock") {
				suffix := ""
				if strings.HasSuffix(n, ".RUnlock") {
					suffix = "#R"
				}
				return len(d.Call.Args) > 0 && Path(d.Call.Args[0])+suffix == key
			}
			return false
		}
		k, a, ok := lockOp(in)
		return ok && !a && k == key
	}
	_, bad := PathExists([]Pt{After(lock)}, Opts{Stop: isUnlock}, IsExit)
	return !bad
}
