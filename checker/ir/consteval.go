package ir

import (
	"go/constant"
	"go/token"

	"golang.org/x/tools/go/ssa"
)

// ConstEval interprets a small pure function symbolically: values are either
// known constants or unknown. env supplies constants for loads / calls / params
// the caller wants to fix (E-CONST in DESIGN §1.3). It returns the constant
// results of the function when control flow never depends on an unknown value.
func ConstEval(fn *ssa.Function, env func(v ssa.Value) (constant.Value, bool)) ([]constant.Value, bool) {
	if fn == nil || len(fn.Blocks) == 0 {
		return nil, false
	}
	vals := map[ssa.Value]constant.Value{}
	get := func(v ssa.Value) (constant.Value, bool) {
		if c, ok := v.(*ssa.Const); ok {
			if c.Value == nil {
				return nil, false
			}
			return c.Value, true
		}
		if cv, ok := vals[v]; ok {
			return cv, true
		}
		if env != nil {
			if cv, ok := env(v); ok {
				return cv, true
			}
		}
		return nil, false
	}
	var prev *ssa.BasicBlock
	b := fn.Blocks[0]
	for steps := 0; steps < 10000; steps++ {
		var next *ssa.BasicBlock
		for _, in := range b.Instrs {
			switch x := in.(type) {
			case *ssa.Phi:
				for i, p := range b.Preds {
					if p == prev {
						if cv, ok := get(x.Edges[i]); ok {
							vals[x] = cv
						} else {
							delete(vals, x)
						}
					}
				}
			case *ssa.BinOp:
				l, lok := get(x.X)
				r, rok := get(x.Y)
				if lok && rok {
					switch x.Op {
					case token.EQL, token.NEQ, token.LSS, token.LEQ, token.GTR, token.GEQ:
						vals[x] = constant.MakeBool(constant.Compare(l, x.Op, r))
					case token.ADD, token.SUB, token.MUL, token.AND, token.OR, token.XOR:
						vals[x] = constant.BinaryOp(l, x.Op, r)
					case token.LAND, token.LOR:
						vals[x] = constant.BinaryOp(l, x.Op, r)
					}
				}
			case *ssa.UnOp:
				if x.Op == token.NOT {
					if cv, ok := get(x.X); ok {
						vals[x] = constant.UnaryOp(token.NOT, cv, 0)
					}
				} else if x.Op == token.MUL {
					if cv, ok := get(x); ok { // env decides loads
						vals[x] = cv
					}
				}
			case *ssa.Convert:
				if cv, ok := get(x.X); ok {
					vals[x] = cv
				}
			case *ssa.ChangeType:
				if cv, ok := get(x.X); ok {
					vals[x] = cv
				}
			case *ssa.Call:
				if cv, ok := get(x); ok {
					vals[x] = cv
				}
			case *ssa.If:
				cv, ok := get(x.Cond)
				if !ok {
					return nil, false
				}
				if constant.BoolVal(cv) {
					next = b.Succs[0]
				} else {
					next = b.Succs[1]
				}
			case *ssa.Jump:
				next = b.Succs[0]
			case *ssa.Return:
				var out []constant.Value
				for _, r := range x.Results {
					cv, ok := get(r)
					if !ok {
						return nil, false
					}
					out = append(out, cv)
				}
				return out, true
			case *ssa.Panic:
				return nil, false
			}
		}
		if next == nil {
			return nil, false
		}
		prev, b = b, next
	}
	return nil, false
}
