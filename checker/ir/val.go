package ir

import (
	"fmt"
	"go/constant"
	"go/token"
	"go/types"
	"strings"

	"golang.org/x/tools/go/ssa"
)

// CalleeOf resolves the called function when it is statically known:
// direct calls, closures created in place, and bound-method closures.
func CalleeOf(c *ssa.CallCommon) *ssa.Function {
	if c == nil {
		return nil
	}
	if f := c.StaticCallee(); f != nil {
		return f
	}
	if c.IsInvoke() {
		return nil
	}
	switch v := c.Value.(type) {
	case *ssa.MakeClosure:
		if f, ok := v.Fn.(*ssa.Function); ok {
			return f
		}
	}
	return nil
}

// FullName of a function: "pkgpath.Func" or "(pkgpath.T).M" / "(*pkgpath.T).M".
func FullName(fn *ssa.Function) string {
	if fn == nil {
		return ""
	}
	if o := fn.Origin(); o != nil {
		fn = o
	}
	return fn.String()
}

// CallName returns the full name of the callee of an instruction: for static
// calls the function's full name, for interface invokes "(iface).Method" with
// the interface type's string.
func CallName(c *ssa.CallCommon) string {
	if c == nil {
		return ""
	}
	if c.IsInvoke() {
		return "(" + c.Value.Type().String() + ")." + c.Method.Name()
	}
	if f := CalleeOf(c); f != nil {
		return FullName(f)
	}
	if b, ok := c.Value.(*ssa.Builtin); ok {
		return "builtin." + b.Name()
	}
	return ""
}

// AsCall returns the CallCommon of call-like instructions (Call, Go, Defer).
func AsCall(in ssa.Instruction) *ssa.CallCommon {
	if c, ok := in.(ssa.CallInstruction); ok {
		return c.Common()
	}
	return nil
}

// IsCallTo reports whether in calls (Call/Defer/Go) one of the named functions.
func IsCallTo(in ssa.Instruction, names ...string) bool {
	c := AsCall(in)
	if c == nil {
		return false
	}
	n := CallName(c)
	if n == "" {
		return false
	}
	for _, w := range names {
		if n == w {
			return true
		}
	}
	return false
}

// IsPlainCallTo is IsCallTo restricted to *ssa.Call (not defer/go).
func IsPlainCallTo(in ssa.Instruction, names ...string) bool {
	if _, ok := in.(*ssa.Call); !ok {
		return false
	}
	return IsCallTo(in, names...)
}

// MethodCall matches a call of method `name` whose receiver's (pointer-stripped) named type is pkgpath.T.
func MethodCall(in ssa.Instruction, typ, name string) bool {
	c := AsCall(in)
	if c == nil {
		return false
	}
	if c.IsInvoke() {
		return c.Method.Name() == name && TypeName(c.Value.Type()) == typ
	}
	f := CalleeOf(c)
	if f == nil || f.Name() != name || f.Signature.Recv() == nil {
		return false
	}
	return TypeName(f.Signature.Recv().Type()) == typ
}

// TypeName gives "pkgpath.Name" for a (pointer to) named type, else the type string.
func TypeName(t types.Type) string {
	for {
		if p, ok := t.(*types.Pointer); ok {
			t = p.Elem()
			continue
		}
		break
	}
	if a, ok := t.(*types.Alias); ok {
		t = types.Unalias(a)
	}
	if n, ok := t.(*types.Named); ok {
		if n.Obj().Pkg() != nil {
			return n.Obj().Pkg().Path() + "." + n.Obj().Name()
		}
		return n.Obj().Name()
	}
	return t.String()
}

// Args returns the actual arguments excluding the receiver.
func Args(c *ssa.CallCommon) []ssa.Value {
	if c.IsInvoke() {
		return c.Args
	}
	if f := CalleeOf(c); f != nil && f.Signature.Recv() != nil && len(c.Args) > 0 {
		return c.Args[1:]
	}
	return c.Args
}

// Recv returns the receiver value of a method call (nil if none).
func Recv(c *ssa.CallCommon) ssa.Value {
	if c.IsInvoke() {
		return c.Value
	}
	if f := CalleeOf(c); f != nil && f.Signature.Recv() != nil && len(c.Args) > 0 {
		return c.Args[0]
	}
	return nil
}

// ConstInt returns the integer value of a constant SSA value.
func ConstInt(v ssa.Value) (int64, bool) {
	v = Strip(v)
	if c, ok := v.(*ssa.Const); ok && c.Value != nil {
		if c.Value.Kind() == constant.Int {
			return c.Int64(), true
		}
		if c.Value.Kind() == constant.Float {
			f, _ := constant.Float64Val(c.Value)
			if f == float64(int64(f)) {
				return int64(f), true
			}
		}
	}
	return 0, false
}

// ConstFloat returns the numeric value of a constant.
func ConstFloat(v ssa.Value) (float64, bool) {
	v = Strip(v)
	if c, ok := v.(*ssa.Const); ok && c.Value != nil {
		switch c.Value.Kind() {
		case constant.Int, constant.Float:
			f, _ := constant.Float64Val(constant.ToFloat(c.Value))
			return f, true
		}
	}
	return 0, false
}

// ConstString returns the string value of a constant.
func ConstString(v ssa.Value) (string, bool) {
	v = Strip(v)
	if c, ok := v.(*ssa.Const); ok && c.Value != nil && c.Value.Kind() == constant.String {
		return constant.StringVal(c.Value), true
	}
	return "", false
}

// IsNilConst reports a nil constant.
func IsNilConst(v ssa.Value) bool {
	c, ok := v.(*ssa.Const)
	return ok && c.Value == nil
}

// Strip removes value-preserving wrappers (interface boxing, type changes, numeric conversions).
func Strip(v ssa.Value) ssa.Value {
	for {
		switch x := v.(type) {
		case *ssa.MakeInterface:
			v = x.X
		case *ssa.ChangeType:
			v = x.X
		case *ssa.ChangeInterface:
			v = x.X
		case *ssa.Convert:
			v = x.X
		default:
			return v
		}
	}
}

// Path renders a canonical access path of an SSA value: globals, field
// chains, method-call chains, constants. Locals are named by their defining
// instruction kind so that two paths are equal only if they denote the same
// computation on the same roots.
func Path(v ssa.Value) string { return pathDepth(v, 0) }

func pathDepth(v ssa.Value, d int) string {
	if v == nil {
		return "<nil>"
	}
	if d > 40 {
		return "…"
	}
	switch x := v.(type) {
	case *ssa.Const:
		if x.Value == nil {
			return "nil"
		}
		return x.Value.ExactString()
	case *ssa.Global:
		return shortPkg(x.Pkg.Pkg) + "." + x.Name()
	case *ssa.Function:
		return "func:" + FullName(x)
	case *ssa.Builtin:
		return "builtin." + x.Name()
	case *ssa.Parameter:
		return "$" + x.Name()
	case *ssa.FreeVar:
		// resolve through the closure binding when there is exactly one MakeClosure
		if b := freeVarBinding(x); b != nil {
			return pathDepth(b, d+1)
		}
		return "$free:" + x.Name()
	case *ssa.Alloc:
		// a cell written exactly once (captured parameter, range copy, spilled local) denotes the stored value
		if sv := uniqueStored(x); sv != nil {
			return "&" + pathDepth(sv, d+1)
		}
		if x.Comment != "" {
			return "&" + x.Comment + "@" + posKey(x)
		}
		return "&alloc@" + posKey(x)
	case *ssa.UnOp:
		switch x.Op {
		case token.MUL:
			inner := pathDepth(x.X, d+1)
			if strings.HasPrefix(inner, "&") {
				return inner[1:]
			}
			return inner // loads through field/global addresses are transparent
		case token.ARROW:
			return "<-" + pathDepth(x.X, d+1)
		case token.NOT:
			return "!" + pathDepth(x.X, d+1)
		case token.SUB:
			return "-" + pathDepth(x.X, d+1)
		}
		return x.Op.String() + pathDepth(x.X, d+1)
	case *ssa.FieldAddr:
		return pathDepth(x.X, d+1) + "." + fieldName(x.X.Type(), x.Field)
	case *ssa.Field:
		return pathDepth(x.X, d+1) + "." + fieldName(x.X.Type(), x.Field)
	case *ssa.IndexAddr:
		return pathDepth(x.X, d+1) + "[" + pathDepth(x.Index, d+1) + "]"
	case *ssa.Index:
		return pathDepth(x.X, d+1) + "[" + pathDepth(x.Index, d+1) + "]"
	case *ssa.Lookup:
		return pathDepth(x.X, d+1) + "[" + pathDepth(x.Index, d+1) + "]"
	case *ssa.Slice:
		s := pathDepth(x.X, d+1) + "["
		if x.Low != nil {
			s += pathDepth(x.Low, d+1)
		}
		s += ":"
		if x.High != nil {
			s += pathDepth(x.High, d+1)
		}
		return s + "]"
	case *ssa.Extract:
		return pathDepth(x.Tuple, d+1) + "#" + fmt.Sprint(x.Index)
	case *ssa.MakeInterface:
		return pathDepth(x.X, d+1)
	case *ssa.ChangeType:
		return pathDepth(x.X, d+1)
	case *ssa.ChangeInterface:
		return pathDepth(x.X, d+1)
	case *ssa.Convert:
		return types.TypeString(x.Type(), func(p *types.Package) string { return p.Name() }) + "(" + pathDepth(x.X, d+1) + ")"
	case *ssa.TypeAssert:
		return pathDepth(x.X, d+1) + ".(" + types.TypeString(x.AssertedType, func(p *types.Package) string { return p.Name() }) + ")"
	case *ssa.BinOp:
		// x+0, 0+x, x-0 (a constant offset parameter of an inlined helper) name x itself
		if x.Op == token.ADD || x.Op == token.SUB {
			if z, ok := ConstInt(x.Y); ok && z == 0 {
				return pathDepth(x.X, d+1)
			}
			if z, ok := ConstInt(x.X); ok && z == 0 && x.Op == token.ADD {
				return pathDepth(x.Y, d+1)
			}
		}
		return "(" + pathDepth(x.X, d+1) + " " + x.Op.String() + " " + pathDepth(x.Y, d+1) + ")"
	case *ssa.Phi:
		// a phi whose (non-self) operands are all the same value is that value; any other phi is named by identity
		var only ssa.Value
		same := true
		for _, e := range x.Edges {
			if e == v {
				continue
			}
			if only == nil {
				only = e
			} else if only != e {
				same = false
			}
		}
		if same && only != nil {
			return pathDepth(only, d+1)
		}
		return "phi@" + posKey(x)
	case *ssa.Call:
		c := x.Common()
		name := CallName(c)
		var parts []string
		for _, a := range Args(c) {
			parts = append(parts, pathDepth(a, d+1))
		}
		if r := Recv(c); r != nil {
			short := name
			if i := strings.LastIndex(name, ")."); i >= 0 {
				short = name[i+2:]
			} else if c.IsInvoke() {
				short = c.Method.Name()
			}
			return pathDepth(r, d+1) + "." + short + "(" + strings.Join(parts, ",") + ")"
		}
		if name == "" {
			name = "call:" + pathDepth(c.Value, d+1)
		} else {
			name = shortFull(name)
		}
		return name + "(" + strings.Join(parts, ",") + ")"
	case *ssa.MakeClosure:
		return "closure:" + FullName(x.Fn.(*ssa.Function))
	case *ssa.MakeChan:
		return "makechan@" + posKey(x)
	case *ssa.MakeMap:
		return "makemap@" + posKey(x)
	case *ssa.MakeSlice:
		return "makeslice@" + posKey(x)
	case *ssa.Next:
		return "next(" + pathDepth(x.Iter, d+1) + ")"
	case *ssa.Range:
		return "range(" + pathDepth(x.X, d+1) + ")"
	case *ssa.Select:
		return "select@" + posKey(x)
	}
	return fmt.Sprintf("%T:%s", v, v.Name())
}

// posKey is an instruction identity token used only inside one run (never
// stored, never compared with anything but itself).
func posKey(v ssa.Value) string {
	if in, ok := v.(ssa.Instruction); ok && in.Block() != nil {
		return fmt.Sprintf("%s.b%d.%s", in.Parent().Name(), in.Block().Index, v.Name())
	}
	return v.Name()
}

func shortPkg(p *types.Package) string {
	if p == nil {
		return ""
	}
	return p.Name()
}

// shortFull turns "github.com/x/y/pkg.Func" into "pkg.Func".
func shortFull(name string) string {
	if i := strings.LastIndex(name, "/"); i >= 0 && !strings.HasPrefix(name, "(") {
		return name[i+1:]
	}
	return name
}

func fieldName(t types.Type, idx int) string {
	for {
		if p, ok := t.Underlying().(*types.Pointer); ok {
			t = p.Elem()
			continue
		}
		break
	}
	if st, ok := t.Underlying().(*types.Struct); ok && idx < st.NumFields() {
		return st.Field(idx).Name()
	}
	return fmt.Sprintf("f%d", idx)
}

// FieldOf returns (struct type name, field name) for FieldAddr/Field values.
func FieldOf(v ssa.Value) (string, string, bool) {
	switch x := v.(type) {
	case *ssa.FieldAddr:
		return TypeName(x.X.Type()), fieldName(x.X.Type(), x.Field), true
	case *ssa.Field:
		return TypeName(x.X.Type()), fieldName(x.X.Type(), x.Field), true
	}
	return "", "", false
}

// freeVarBinding maps a FreeVar to the value bound at the (unique) MakeClosure of its function.
func freeVarBinding(fv *ssa.FreeVar) ssa.Value {
	fn := fv.Parent()
	parent := fn.Parent()
	if parent == nil {
		return nil
	}
	idx := -1
	for i, f := range fn.FreeVars {
		if f == fv {
			idx = i
		}
	}
	if idx < 0 {
		return nil
	}
	var found ssa.Value
	n := 0
	for _, b := range parent.Blocks {
		for _, in := range b.Instrs {
			if mc, ok := in.(*ssa.MakeClosure); ok && mc.Fn == fn && idx < len(mc.Bindings) {
				found = mc.Bindings[idx]
				n++
			}
		}
	}
	if n == 1 {
		return found
	}
	return nil
}

// FreeVarBinding is the exported form.
func FreeVarBinding(fv *ssa.FreeVar) ssa.Value { return freeVarBinding(fv) }

// Referrers returns the instructions that use v (nil-safe).
func Referrers(v ssa.Value) []ssa.Instruction {
	if v == nil {
		return nil
	}
	r := v.Referrers()
	if r == nil {
		return nil
	}
	return *r
}

// FlowsTo reports whether value src reaches value dst through copies, phis,
// conversions, boxing, slicing, append, string concatenation or as an argument
// of a call whose result is dst (a deliberately generous def-use closure).
func FlowsTo(src ssa.Value, isSink func(in ssa.Instruction, operand ssa.Value) bool, maxSteps int) (ssa.Instruction, bool) {
	seen := map[ssa.Value]bool{}
	work := []ssa.Value{src}
	steps := 0
	for len(work) > 0 && steps < maxSteps {
		v := work[len(work)-1]
		work = work[:len(work)-1]
		if seen[v] {
			continue
		}
		seen[v] = true
		steps++
		for _, in := range Referrers(v) {
			if isSink(in, v) {
				return in, true
			}
			switch x := in.(type) {
			case *ssa.Phi, *ssa.MakeInterface, *ssa.ChangeType, *ssa.ChangeInterface, *ssa.Convert, *ssa.Slice, *ssa.BinOp, *ssa.Extract, *ssa.Index, *ssa.Lookup, *ssa.TypeAssert, *ssa.UnOp, *ssa.Field:
				work = append(work, x.(ssa.Value))
			case *ssa.IndexAddr:
				work = append(work, x)
			case *ssa.FieldAddr:
				work = append(work, x)
			case *ssa.Call:
				work = append(work, x)
			case *ssa.Store:
				if x.Val == v {
					// value stored into a cell: follow loads of that cell
					work = append(work, x.Addr)
					if a, ok := x.Addr.(*ssa.Alloc); ok {
						for _, r := range Referrers(a) {
							if u, ok := r.(*ssa.UnOp); ok && u.Op == token.MUL {
								work = append(work, u)
							}
						}
					}
					if ia, ok := x.Addr.(*ssa.IndexAddr); ok {
						work = append(work, ia.X)
					}
				}
			case *ssa.Range:
				work = append(work, x)
			case *ssa.Next:
				work = append(work, x)
			}
		}
	}
	return nil, false
}

// uniqueStored returns the single value ever stored into a local cell, if the cell has exactly one store
// to itself (field stores into a struct cell do not count) and its address does not escape into calls.
func uniqueStored(a *ssa.Alloc) ssa.Value {
	var val ssa.Value
	n := 0
	for _, r := range Referrers(a) {
		switch x := r.(type) {
		case *ssa.Store:
			if x.Addr == ssa.Value(a) {
				n++
				val = x.Val
			}
		}
	}
	if n == 1 {
		return val
	}
	return nil
}

// RootedAt reports whether v is obtained from root by field selections, element indexing, loads and
// copies through single-store local cells only (e.g. rows[i].ID from rows).
func RootedAt(v, root ssa.Value) bool {
	for i := 0; i < 20 && v != nil; i++ {
		if v == root {
			return true
		}
		switch x := v.(type) {
		case *ssa.UnOp:
			if x.Op != token.MUL {
				return false
			}
			v = x.X
		case *ssa.FieldAddr:
			v = x.X
		case *ssa.Field:
			v = x.X
		case *ssa.IndexAddr:
			v = x.X
		case *ssa.Index:
			v = x.X
		case *ssa.Alloc:
			v = uniqueStored(x)
		case *ssa.Phi:
			var only ssa.Value
			for _, e := range x.Edges {
				if e != ssa.Value(x) {
					if only != nil && only != e {
						return false
					}
					only = e
				}
			}
			v = only
		default:
			return false
		}
	}
	return false
}
