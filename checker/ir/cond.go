package ir

import (
	"go/token"

	"golang.org/x/tools/go/ssa"
)

// Atom is a normalised branch condition.
//
//	comparison:  Op ∈ {==, <, <=}, X Op Y            (>, >=, != are rewritten)
//	boolean:     Op == ILLEGAL, V is the boolean value (call result, comma-ok, load)
type Atom struct {
	Op   token.Token
	X, Y ssa.Value
	V    ssa.Value
}

// Decompose rewrites a boolean SSA value into (atom, polarity): v ≡ atom when
// polarity is true, v ≡ ¬atom otherwise.
func Decompose(v ssa.Value) (Atom, bool) {
	pol := true
	for {
		switch x := v.(type) {
		case *ssa.Call:
			// errors.Is(err, sentinel) is the modern spelling of err == sentinel (for the bare sentinels compared here)
			if IsCallTo(x, "errors.Is") && len(x.Call.Args) == 2 {
				return Atom{Op: token.EQL, X: stripIface(x.Call.Args[0]), Y: stripIface(x.Call.Args[1])}, pol
			}
		case *ssa.UnOp:
			if x.Op == token.NOT {
				pol = !pol
				v = x.X
				continue
			}
		case *ssa.BinOp:
			switch x.Op {
			case token.EQL:
				// b == true / b == false
				if c, ok := x.Y.(*ssa.Const); ok && isBool(c) {
					if !boolVal(c) {
						pol = !pol
					}
					v = x.X
					continue
				}
				return Atom{Op: token.EQL, X: x.X, Y: x.Y}, pol
			case token.NEQ:
				if c, ok := x.Y.(*ssa.Const); ok && isBool(c) {
					if boolVal(c) {
						pol = !pol
					}
					v = x.X
					continue
				}
				return Atom{Op: token.EQL, X: x.X, Y: x.Y}, !pol
			case token.LSS:
				return Atom{Op: token.LSS, X: x.X, Y: x.Y}, pol
			case token.LEQ:
				return Atom{Op: token.LEQ, X: x.X, Y: x.Y}, pol
			case token.GTR: // x > y  ≡  y < x
				return Atom{Op: token.LSS, X: x.Y, Y: x.X}, pol
			case token.GEQ: // x >= y ≡  y <= x
				return Atom{Op: token.LEQ, X: x.Y, Y: x.X}, pol
			}
		}
		return Atom{V: v}, pol
	}
}

func isBool(c *ssa.Const) bool {
	return c.Value != nil && c.Value.Kind().String() == "Bool"
}
func boolVal(c *ssa.Const) bool { return c.Value.ExactString() == "true" }

// Less reports whether the atom (with polarity) states "a < b" for the given
// access paths — accepting a<b, ¬(b<=a).
func (a Atom) States(pol bool, op token.Token, x, y string) bool {
	if a.V != nil {
		return false
	}
	px, py := Path(a.X), Path(a.Y)
	switch op {
	case token.LSS: // x < y
		return (pol && a.Op == token.LSS && px == x && py == y) || (!pol && a.Op == token.LEQ && px == y && py == x)
	case token.LEQ: // x <= y
		return (pol && a.Op == token.LEQ && px == x && py == y) || (!pol && a.Op == token.LSS && px == y && py == x)
	case token.GEQ: // x >= y ≡ y <= x
		return a.States(pol, token.LEQ, y, x)
	case token.GTR: // x > y ≡ y < x
		return a.States(pol, token.LSS, y, x)
	case token.EQL:
		return pol && a.Op == token.EQL && ((px == x && py == y) || (px == y && py == x))
	case token.NEQ:
		return !pol && a.Op == token.EQL && ((px == x && py == y) || (px == y && py == x))
	}
	return false
}

// IfInfo is one conditional branch of a function with its normalised atom.
// Edge 0 of If.Block() is taken when the atom is Pol, edge 1 when it is ¬Pol.
type IfInfo struct {
	If   *ssa.If
	Atom Atom
	Pol  bool
	// Via is set for a virtual branch: the If tests a bool phi of its own block (a materialised `a || b`, a flag
	// left by an inlined helper) and Atom is the non-constant value that flows in over predecessor Via — entering
	// the block from Via, the branch is decided by Atom. Constant incoming values are handled by jump threading
	// in Reach, so for the usual `x := a || b; if x` the edges of the If are reachable only from Via.
	Via *ssa.BasicBlock
}

// Ifs lists the conditional branches of fn.
func Ifs(fn *ssa.Function) []IfInfo {
	var out []IfInfo
	for _, b := range fn.Blocks {
		if len(b.Instrs) == 0 {
			continue
		}
		if i, ok := b.Instrs[len(b.Instrs)-1].(*ssa.If); ok {
			a, pol := Decompose(i.Cond)
			out = append(out, IfInfo{If: i, Atom: a, Pol: pol})
			if ph, neg, nilcmp, th := threadableKind(b); th {
				for k, pred := range b.Preds {
					if k >= len(ph.Edges) {
						break
					}
					v := ph.Edges[k]
					if _, isC := v.(*ssa.Const); isC {
						continue
					}
					if _, isPhi := v.(*ssa.Phi); isPhi {
						continue
					}
					if nilcmp {
						if KnownNonNil(v) {
							continue
						}
						// entering from pred the branch tests `v == nil`
						out = append(out, IfInfo{If: i, Atom: Atom{Op: token.EQL, X: v, Y: nilOf(v)}, Pol: !neg, Via: pred})
						continue
					}
					va, vpol := Decompose(v)
					if neg {
						vpol = !vpol
					}
					out = append(out, IfInfo{If: i, Atom: va, Pol: vpol, Via: pred})
				}
			}
		}
	}
	return out
}

// EdgeWhen returns the successor index of the If block taken when the atom has truth value t.
func (ii IfInfo) EdgeWhen(t bool) int {
	if t == ii.Pol {
		return 0
	}
	return 1
}

// OnlyVia reports whether instruction target can be reached from `from` only
// through edge (b, succ) — i.e. it becomes unreachable when the edge is removed.
func OnlyVia(from Pt, target ssa.Instruction, b *ssa.BasicBlock, succ int) bool {
	if !Reach([]Pt{from}, Opts{}).Reached[target] {
		return false // not reachable at all: vacuous, caller decides
	}
	return !ReachableWithoutEdge(from, target, b, succ)
}

// GuardedBy reports whether `target` executes (from `from`) only when some If
// whose atom satisfies match has truth value `truth`.
func GuardedBy(fn *ssa.Function, from Pt, target ssa.Instruction, truth bool, match func(Atom) bool) (*ssa.If, bool) {
	for _, ii := range Ifs(fn) {
		if !match(ii.Atom) {
			continue
		}
		if OnlyVia(from, target, ii.If.Block(), ii.EdgeWhen(truth)) {
			return ii.If, true
		}
	}
	return nil, false
}

// BoolCallAtom matches a boolean atom that is (the result of) a call to one of the named functions.
func BoolCallAtom(a Atom, names ...string) *ssa.Call {
	if a.V == nil {
		return nil
	}
	if c, ok := a.V.(*ssa.Call); ok && IsCallTo(c, names...) {
		return c
	}
	return nil
}

// SelectInfo describes one select statement.
type SelectInfo struct {
	Sel  *ssa.Select
	Arms []SelectArm
}

// SelectArm is one communication clause; Body is the first block executed when the arm fires.
type SelectArm struct {
	Index int
	State *ssa.SelectState
	Body  *ssa.BasicBlock
	// Edge: (block, succ) taken when this arm fires
	EdgeB *ssa.BasicBlock
	EdgeS int
}

// Selects decodes the `index == k` dispatch chains that follow every Select.
func Selects(fn *ssa.Function) []SelectInfo {
	var out []SelectInfo
	for _, b := range fn.Blocks {
		for _, in := range b.Instrs {
			sel, ok := in.(*ssa.Select)
			if !ok {
				continue
			}
			si := SelectInfo{Sel: sel}
			// find extract #0
			var idx ssa.Value
			for _, r := range Referrers(sel) {
				if e, ok := r.(*ssa.Extract); ok && e.Index == 0 {
					idx = e
				}
			}
			arms := map[int]SelectArm{}
			if idx != nil {
				for _, r := range Referrers(idx) {
					bo, ok := r.(*ssa.BinOp)
					if !ok || bo.Op != token.EQL {
						continue
					}
					k, okc := ConstInt(bo.Y)
					if !okc {
						continue
					}
					for _, rr := range Referrers(bo) {
						if ifi, ok := rr.(*ssa.If); ok {
							arms[int(k)] = SelectArm{Index: int(k), Body: ifi.Block().Succs[0], EdgeB: ifi.Block(), EdgeS: 0}
						}
					}
				}
			}
			for k := range sel.States {
				a, ok := arms[k]
				if !ok {
					a = SelectArm{Index: k}
					// single-state select without default: body follows directly
					if len(sel.States) == 1 && sel.Blocking {
						a.Body = nil
					}
				}
				a.State = sel.States[k]
				si.Arms = append(si.Arms, a)
			}
			out = append(out, si)
		}
	}
	return out
}

// IsDoneChan reports whether v is the result of calling Done() on a context.Context value.
func IsDoneChan(v ssa.Value) (ctx ssa.Value, ok bool) {
	c, isCall := v.(*ssa.Call)
	if !isCall {
		return nil, false
	}
	cc := c.Common()
	if cc.IsInvoke() && cc.Method.Name() == "Done" && TypeName(cc.Value.Type()) == "context.Context" {
		return cc.Value, true
	}
	return nil, false
}

func nilOf(v ssa.Value) ssa.Value { return ssa.NewConst(nil, v.Type()) }

// IndependentOf: can `target` be reached from `from` whatever the outcomes of the given (foreign) branches are?
// Every assignment of outcomes to those branches is tried (at most 2^8); it returns false with a description of the
// first assignment under which the target is unreachable — i.e. the target is gated by some combination
// (conjunction, disjunction, mixed) of the foreign conditions, which single-edge dominance tests do not see.
func IndependentOf(from Pt, target ssa.Instruction, foreign []IfInfo, stop func(ssa.Instruction) bool) (bool, string) {
	// one entry per If instruction
	var ifs []IfInfo
	seen := map[*ssa.If]bool{}
	for _, ii := range foreign {
		if !seen[ii.If] {
			seen[ii.If] = true
			ifs = append(ifs, ii)
		}
	}
	if len(ifs) == 0 {
		return true, ""
	}
	if len(ifs) > 8 {
		ifs = ifs[:8]
	}
	for mask := 0; mask < 1<<len(ifs); mask++ {
		type edge struct {
			b *ssa.BasicBlock
			s int
		}
		cut := map[edge]bool{}
		for i, ii := range ifs {
			// outcome bit: 1 → the branch goes to successor 0, so successor 1 is cut; 0 → the other way round
			if mask&(1<<i) != 0 {
				cut[edge{ii.If.Block(), 1}] = true
			} else {
				cut[edge{ii.If.Block(), 0}] = true
			}
		}
		res := Reach([]Pt{from}, Opts{Stop: stop, EdgeOK: func(b *ssa.BasicBlock, s int) bool { return !cut[edge{b, s}] }})
		if !res.Reached[target] && !res.Stopped[target] {
			desc := ""
			for i, ii := range ifs {
				if desc != "" {
					desc += ", "
				}
				out := "true"
				if (mask&(1<<i) != 0) != ii.Pol {
					out = "false"
				}
				if ii.Atom.V != nil {
					desc += Path(ii.Atom.V) + "=" + out
				} else {
					desc += "(" + Path(ii.Atom.X) + " " + ii.Atom.Op.String() + " " + Path(ii.Atom.Y) + ")=" + out
				}
			}
			return false, desc
		}
	}
	return true, ""
}

func stripIface(v ssa.Value) ssa.Value {
	for {
		switch x := v.(type) {
		case *ssa.ChangeInterface:
			v = x.X
		default:
			return v
		}
	}
}
