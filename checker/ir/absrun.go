package ir

import (
	"go/constant"
	"go/token"
	"go/types"

	"golang.org/x/tools/go/ssa"
)

// AVal is an abstract value of the finite domain used by AbsRun: a known constant, a known nil-ness of a
// pointer/interface value, or unknown.
type AVal struct {
	C   constant.Value // non-nil: known constant (bool, int, string, float)
	Nil int            // 1: known nil, 2: known non-nil, 0: unknown
}

func (a AVal) Known() bool { return a.C != nil || a.Nil != 0 }

func ABool(b bool) AVal { return AVal{C: constant.MakeBool(b)} }
func ANil(isNil bool) AVal {
	if isNil {
		return AVal{Nil: 1}
	}
	return AVal{Nil: 2}
}

// AbsOpts configures AbsRun.
type AbsOpts struct {
	Env    map[ssa.Value]AVal                  // bindings fixed by the caller (inputs of the truth table)
	Effect func(c ssa.CallInstruction) string  // non-empty: the call is recorded as an effect (and not inlined)
	StopAt func(from, to *ssa.BasicBlock) bool // stop before entering `to` (top-level frame only)
	Inline func(f *ssa.Function) bool          // static callees to interpret with bound arguments
}

// AbsResult is one row of the truth table.
type AbsResult struct {
	OK       bool // false: control flow depended on an unknown value (Why says where)
	Why      string
	At       ssa.Instruction
	Effects  []string
	Returned bool
	Ret      []AVal
	From, To *ssa.BasicBlock // the edge at which StopAt fired
	Vals     map[ssa.Value]AVal
}

// PhiIn gives the abstract value a phi of block To would take over the edge the run stopped at.
func (r AbsResult) PhiIn(ph *ssa.Phi) AVal {
	for i, p := range ph.Block().Preds {
		if p == r.From {
			return absGet(r.Vals, nil, ph.Edges[i])
		}
	}
	return AVal{}
}

func absGet(vals map[ssa.Value]AVal, env map[ssa.Value]AVal, v ssa.Value) AVal {
	if c, ok := v.(*ssa.Const); ok {
		if c.Value == nil {
			switch c.Type().Underlying().(type) {
			case *types.Pointer, *types.Interface, *types.Slice, *types.Map, *types.Chan, *types.Signature:
				return AVal{Nil: 1}
			}
			return AVal{}
		}
		return AVal{C: c.Value}
	}
	if a, ok := vals[v]; ok {
		return a
	}
	if env != nil {
		if a, ok := env[v]; ok {
			return a
		}
	}
	return AVal{}
}

// AbsRun interprets the code from `start` over the finite abstract domain: branch conditions must evaluate to
// known booleans, calls selected by Effect are recorded in order, calls selected by Inline are interpreted with
// their arguments bound. It is an exhaustive, exact evaluation when the caller enumerates all inputs (E-CONST).
func AbsRun(start Pt, o AbsOpts) AbsResult {
	res := AbsResult{Vals: map[ssa.Value]AVal{}}
	for k, v := range o.Env {
		res.Vals[k] = v
	}
	steps := 0
	var run func(b *ssa.BasicBlock, idx int, top bool, depth int) (ret []AVal, returned bool, ok bool)
	run = func(b *ssa.BasicBlock, idx int, top bool, depth int) ([]AVal, bool, bool) {
		var prev *ssa.BasicBlock
		for {
			var next *ssa.BasicBlock
			if idx == 0 && prev != nil {
				// phis take their values simultaneously
				upd := map[*ssa.Phi]AVal{}
				for _, in := range b.Instrs {
					ph, isPhi := in.(*ssa.Phi)
					if !isPhi {
						break
					}
					for k, p := range b.Preds {
						if p == prev {
							upd[ph] = absGet(res.Vals, nil, ph.Edges[k])
						}
					}
				}
				for ph, v := range upd {
					res.Vals[ph] = v
				}
			}
			for i := idx; i < len(b.Instrs); i++ {
				steps++
				if steps > 20000 {
					res.Why = "step budget exhausted"
					return nil, false, false
				}
				in := b.Instrs[i]
				switch x := in.(type) {
				case *ssa.BinOp:
					l, r := absGet(res.Vals, nil, x.X), absGet(res.Vals, nil, x.Y)
					switch {
					case l.C != nil && r.C != nil:
						switch x.Op {
						case token.EQL, token.NEQ, token.LSS, token.LEQ, token.GTR, token.GEQ:
							res.Vals[x] = AVal{C: constant.MakeBool(constant.Compare(l.C, x.Op, r.C))}
						case token.ADD, token.SUB, token.MUL, token.AND, token.OR, token.XOR:
							res.Vals[x] = AVal{C: constant.BinaryOp(l.C, x.Op, r.C)}
						}
					case l.Nil != 0 && r.Nil != 0 && (x.Op == token.EQL || x.Op == token.NEQ):
						if l.Nil == 1 || r.Nil == 1 {
							eq := l.Nil == r.Nil
							res.Vals[x] = ABool(eq == (x.Op == token.EQL))
						}
					}
				case *ssa.UnOp:
					if x.Op == token.NOT {
						if a := absGet(res.Vals, nil, x.X); a.C != nil {
							res.Vals[x] = AVal{C: constant.UnaryOp(token.NOT, a.C, 0)}
						}
					}
				case *ssa.ChangeType:
					res.Vals[x] = absGet(res.Vals, nil, x.X)
				case *ssa.ChangeInterface:
					res.Vals[x] = absGet(res.Vals, nil, x.X)
				case *ssa.MakeInterface:
					res.Vals[x] = AVal{Nil: 2}
				case *ssa.Alloc, *ssa.MakeClosure, *ssa.MakeMap, *ssa.MakeSlice, *ssa.MakeChan:
					res.Vals[x.(ssa.Value)] = AVal{Nil: 2}
				case ssa.CallInstruction:
					if _, isGo := x.(*ssa.Go); isGo {
						continue
					}
					if _, isDefer := x.(*ssa.Defer); isDefer {
						if o.Effect != nil && o.Effect(x) != "" {
							res.Why = "deferred effect call"
							return nil, false, false
						}
						continue
					}
					if o.Effect != nil {
						if e := o.Effect(x); e != "" {
							res.Effects = append(res.Effects, e)
							continue
						}
					}
					cal := CalleeOf(x.Common())
					if cal != nil && cal.Blocks != nil && o.Inline != nil && o.Inline(cal) && depth < 4 {
						args := x.Common().Args
						if len(args) == len(cal.Params) {
							for k, p := range cal.Params {
								res.Vals[p] = absGet(res.Vals, nil, args[k])
							}
							ret, _, ok := run(cal.Blocks[0], 0, false, depth+1)
							if !ok {
								return nil, false, false
							}
							if v, isV := x.(ssa.Value); isV {
								if len(ret) == 1 {
									res.Vals[v] = ret[0]
								} else {
									for _, rr := range Referrers(v) {
										if e, isE := rr.(*ssa.Extract); isE && e.Index < len(ret) {
											res.Vals[e] = ret[e.Index]
										}
									}
								}
							}
						}
					}
				case *ssa.If:
					a := absGet(res.Vals, nil, x.Cond)
					if a.C == nil {
						res.Why = "branch on a value outside the abstract domain in " + x.Parent().Name()
						res.At = x
						return nil, false, false
					}
					if constant.BoolVal(a.C) {
						next = b.Succs[0]
					} else {
						next = b.Succs[1]
					}
				case *ssa.Jump:
					next = b.Succs[0]
				case *ssa.Return:
					var out []AVal
					for k := range x.Results {
						out = append(out, absGet(res.Vals, nil, RetVal(x, k)))
					}
					return out, true, true
				case *ssa.Panic:
					res.Why = "panic reached"
					return nil, false, false
				case *ssa.Select:
					res.Why = "select reached inside the interpreted region"
					return nil, false, false
				}
			}
			if next == nil {
				res.Why = "fell off a block"
				return nil, false, false
			}
			if top && o.StopAt != nil && o.StopAt(b, next) {
				res.From, res.To = b, next
				return nil, false, true
			}
			prev, b, idx = b, next, 0
		}
	}
	ret, returned, ok := run(start.B, start.I, true, 0)
	res.OK, res.Returned, res.Ret = ok, returned, ret
	return res
}
