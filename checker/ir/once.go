package ir

import (
	"golang.org/x/tools/go/ssa"
)

// Region is the acyclic per-iteration part of a worker loop: it starts at
// Start and ends when control reaches the first instruction of Header again
// (next iteration) or leaves the function.
type Region struct {
	Start  Pt
	Header *ssa.BasicBlock
}

func (r Region) headerFirst() ssa.Instruction {
	if r.Header == nil || len(r.Header.Instrs) == 0 {
		return nil
	}
	return r.Header.Instrs[0]
}

// OnceResult describes a violation of exactly-once.
type OnceResult struct {
	OK      bool
	Missing ssa.Instruction // an end (header re-entry or return) reachable without any event
	First   ssa.Instruction // for "twice": the first event …
	Second  ssa.Instruction // … and a second one reachable after it
}

// ExactlyOnce checks that on every path through the region exactly one event
// happens: (a) the end of the region is unreachable when events are removed,
// (b) after an event no further event is reachable before the region ends.
// Panic exits are abort exits and never count as "missing".
func ExactlyOnce(r Region, event func(ssa.Instruction) bool, opts Opts) OnceResult {
	hf := r.headerFirst()
	stopA := func(in ssa.Instruction) bool {
		if in == hf {
			return true
		}
		return event(in) || (opts.Stop != nil && opts.Stop(in))
	}
	resA := Reach([]Pt{r.Start}, Opts{Stop: stopA, EdgeOK: opts.EdgeOK})
	// missing: header reached (recorded in Stopped) without an event, or a Return reached
	if hf != nil && resA.Stopped[hf] {
		// was it stopped because it is the header? events are also in Stopped; header is distinct
		if !event(hf) {
			return OnceResult{Missing: hf}
		}
	}
	for in := range resA.Reached {
		if _, ok := in.(*ssa.Return); ok {
			return OnceResult{Missing: in}
		}
	}
	// at most once
	for e := range resA.Stopped {
		if e == hf || !event(e) {
			continue
		}
		stopB := func(in ssa.Instruction) bool {
			if in == hf {
				return true
			}
			return opts.Stop != nil && opts.Stop(in)
		}
		resB := Reach([]Pt{After(e)}, Opts{Stop: stopB, EdgeOK: opts.EdgeOK})
		for in := range resB.Reached {
			if event(in) {
				return OnceResult{First: e, Second: in}
			}
		}
	}
	return OnceResult{OK: true}
}

// AtMostOnce is part (b) of ExactlyOnce alone.
func AtMostOnce(r Region, event func(ssa.Instruction) bool, opts Opts) OnceResult {
	hf := r.headerFirst()
	stop := func(in ssa.Instruction) bool { return in == hf || (opts.Stop != nil && opts.Stop(in)) }
	res := Reach([]Pt{r.Start}, Opts{Stop: stop, EdgeOK: opts.EdgeOK})
	for e := range res.Reached {
		if !event(e) {
			continue
		}
		resB := Reach([]Pt{After(e)}, Opts{Stop: stop, EdgeOK: opts.EdgeOK})
		for in := range resB.Reached {
			if event(in) {
				return OnceResult{First: e, Second: in}
			}
		}
	}
	return OnceResult{OK: true}
}

// SameValue reports whether v is `want` possibly through boxing or a phi all of whose operands are `want`.
func SameValue(v, want ssa.Value) bool {
	v = Strip(v)
	if v == want {
		return true
	}
	if p, ok := v.(*ssa.Phi); ok {
		return samePhi(p, want, map[*ssa.Phi]bool{})
	}
	return false
}

// samePhi: every operand of the phi is `want`, the phi itself (loop-carried), or a nil constant (the value a
// multi-result helper hands back on its error path — never used there, the error is tested first).
func samePhi(p *ssa.Phi, want ssa.Value, seen map[*ssa.Phi]bool) bool {
	if seen[p] {
		return true
	}
	seen[p] = true
	n := 0
	for _, e := range p.Edges {
		e = Strip(e)
		if e == ssa.Value(p) {
			continue
		}
		if IsNilConst(e) {
			continue
		}
		if e == want {
			n++
			continue
		}
		if q, ok := e.(*ssa.Phi); ok && samePhi(q, want, seen) {
			n++
			continue
		}
		return false
	}
	return n > 0
}
