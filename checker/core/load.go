// Package core holds the loader, the obligation model, the known-findings
// table and the evidence writer shared by all rules.
package core

import (
	_ "embed"
	"encoding/json"
	"fmt"
	"go/token"
	"go/types"
	"os"
	"path/filepath"
	"sort"
	"strings"
	"sync"

	"golang.org/x/tools/go/callgraph"
	"golang.org/x/tools/go/callgraph/cha"
	"golang.org/x/tools/go/callgraph/vta"
	"golang.org/x/tools/go/packages"
	"golang.org/x/tools/go/ssa"
	"golang.org/x/tools/go/ssa/ssautil"

	"zenocheck/canon"
)

// baselineFuncs is the inventory of functions declared on the tree the rules were written against
// (one line per function: key<TAB>signature). Functions that are not in it are "new helpers": package canon
// inlines them back into their callers before the analysis (regenerate with `zenocheck -write-inventory`).
//
//go:embed baseline_funcs.txt
var baselineFuncs string

func baseline() map[string]string {
	out := map[string]string{}
	for _, l := range strings.Split(baselineFuncs, "\n") {
		if i := strings.Index(l, "\t"); i > 0 {
			out[l[:i]] = l[i+1:]
		}
	}
	return out
}

// WriteInventory regenerates the baseline inventory from the given tree.
func WriteInventory(repo, file string) error {
	inv, err := canon.Inventory(repo, nil)
	if err != nil {
		return err
	}
	var keys []string
	for k := range inv {
		keys = append(keys, k)
	}
	sort.Strings(keys)
	var b strings.Builder
	for _, k := range keys {
		b.WriteString(k + "\t" + inv[k] + "\n")
	}
	return os.WriteFile(file, []byte(b.String()), 0o644)
}

// ModPath is the module the rules are written for.
const ModPath = "github.com/internetarchive/Zeno"

// Program is the resolved program every rule works on.
type Program struct {
	Repo     string
	Fset     *token.FileSet
	Pkgs     []*packages.Package // root (module) packages
	AllPkgs  map[string]*packages.Package
	SSA      *ssa.Program
	ModFuncs []*ssa.Function // every function (incl. anonymous) whose package is in the module
	Tier     string

	cgOnce sync.Once
	cg     *callgraph.Graph
	cgKind string

	LoadStats LoadStats
	Canon     canon.Report
	aliases   map[string][]string // baseline "relpkg.Name" -> current candidates (renamed / converted functions)
}

type LoadStats struct {
	RootPackages  int      `json:"root_packages"`
	TotalPackages int      `json:"total_packages"`
	GoFiles       int      `json:"go_files_in_module"`
	ModFunctions  int      `json:"module_functions"`
	Unloaded      []string `json:"unloaded_files,omitempty"`
}

// Overlay maps absolute file name to replacement content (self-test only).
type Overlay map[string][]byte

// Load type-checks the repository and builds SSA. Any load problem is fatal:
// a rule must never pass because part of the program was not seen.
func Load(repo string, tier string, overlay Overlay) (*Program, error) {
	env := append(os.Environ(),
		"GOFLAGS=-mod=mod", "GOPROXY=off", "GOSUMDB=off", "GOTOOLCHAIN=local", "GOWORK=off")
	// canonicalise: inline helpers that the reference tree did not have (no-op on the reference tree itself)
	var canonRep canon.Report
	if os.Getenv("ZENOCHECK_NO_CANON") == "" {
		ov, rep := canon.Run(repo, env, overlay, baseline())
		canonRep = rep
		if os.Getenv("ZENOCHECK_CANON_DEBUG") != "" {
			b, _ := json.MarshalIndent(rep, "", " ")
			fmt.Fprintf(os.Stderr, "canon: %s\n", b)
			if dir := os.Getenv("ZENOCHECK_CANON_DUMP"); dir != "" {
				for name, content := range ov {
					os.MkdirAll(dir, 0o755)
					os.WriteFile(filepath.Join(dir, strings.ReplaceAll(strings.TrimPrefix(name, repo+"/"), "/", "__")), content, 0o644)
				}
			}
		}
		if len(ov) > 0 {
			overlay = Overlay(ov)
		}
	}
	cfg := &packages.Config{
		Mode:    packages.LoadAllSyntax,
		Dir:     repo,
		Env:     env,
		Tests:   false,
		Overlay: overlay,
	}
	pkgs, err := packages.Load(cfg, "./...")
	if err != nil {
		return nil, fmt.Errorf("packages.Load: %w", err)
	}
	if len(pkgs) == 0 {
		return nil, fmt.Errorf("no packages loaded from %s", repo)
	}
	p := &Program{Repo: repo, Tier: tier, AllPkgs: map[string]*packages.Package{}, Canon: canonRep, aliases: map[string][]string{}}
	for from, to := range canonRep.Aliases {
		for _, fp := range []bool{true, false} {
			for _, tp := range []bool{true, false} {
				f, t := keyToName(from, fp), keyToName(to, tp)
				p.aliases[f] = append(p.aliases[f], t)
			}
		}
	}
	var errs []string
	packages.Visit(pkgs, nil, func(pk *packages.Package) {
		p.AllPkgs[pk.PkgPath] = pk
		if strings.HasPrefix(pk.PkgPath, ModPath) {
			for _, e := range pk.Errors {
				errs = append(errs, e.Error())
			}
		}
	})
	if len(errs) > 0 {
		sort.Strings(errs)
		if len(errs) > 8 {
			errs = errs[:8]
		}
		return nil, fmt.Errorf("type/load errors in module: %s", strings.Join(errs, "; "))
	}
	p.Pkgs = pkgs
	p.Fset = pkgs[0].Fset
	p.LoadStats.RootPackages = len(pkgs)
	p.LoadStats.TotalPackages = len(p.AllPkgs)

	// Coverage audit: every non-test .go file under the repo must belong to a
	// loaded package (compiled, or ignored by build constraints with a record).
	seen := map[string]bool{}
	for _, pk := range pkgs {
		for _, f := range pk.GoFiles {
			seen[f] = true
		}
		for _, f := range pk.CompiledGoFiles {
			seen[f] = true
		}
		for _, f := range pk.IgnoredFiles {
			seen[f] = true
		}
		for _, f := range pk.OtherFiles {
			seen[f] = true
		}
	}
	filepath.Walk(repo, func(path string, info os.FileInfo, err error) error {
		if err != nil {
			return nil
		}
		if info.IsDir() {
			n := info.Name()
			if n == ".git" || n == "testdata" || n == "vendor" || (strings.HasPrefix(n, ".") && path != repo) || strings.HasPrefix(n, "_") {
				return filepath.SkipDir
			}
			return nil
		}
		if strings.HasSuffix(path, ".go") && !strings.HasSuffix(path, "_test.go") {
			p.LoadStats.GoFiles++
			if !seen[path] {
				p.LoadStats.Unloaded = append(p.LoadStats.Unloaded, path)
			}
		}
		return nil
	})
	if len(p.LoadStats.Unloaded) > 0 {
		return nil, fmt.Errorf("files not covered by any loaded package: %v", p.LoadStats.Unloaded)
	}

	var buildErr error
	func() {
		defer func() {
			if r := recover(); r != nil {
				buildErr = fmt.Errorf("SSA build panic: %v", r)
			}
		}()
		prog, _ := ssautil.AllPackages(pkgs, ssa.InstantiateGenerics)
		prog.Build()
		p.SSA = prog
	}()
	if buildErr != nil {
		return nil, buildErr
	}
	seenFn := map[*ssa.Function]bool{}
	var addFn func(fn *ssa.Function)
	addFn = func(fn *ssa.Function) {
		if fn == nil || seenFn[fn] || !InModule(fn) {
			return
		}
		seenFn[fn] = true
		p.ModFuncs = append(p.ModFuncs, fn)
		for _, a := range fn.AnonFuncs {
			addFn(a)
		}
	}
	for fn := range ssautil.AllFunctions(p.SSA) {
		addFn(fn)
	}
	// every function and method declared in the module's source, including ones nothing calls
	// (linker-style reachability would hide a dead-but-wrong writer from the who-may-write rules)
	for _, pk := range pkgs {
		if pk.TypesInfo == nil {
			continue
		}
		for _, obj := range pk.TypesInfo.Defs {
			if f, ok := obj.(*types.Func); ok {
				addFn(p.SSA.FuncValue(f))
			}
		}
	}
	sort.Slice(p.ModFuncs, func(i, j int) bool { return FuncName(p.ModFuncs[i]) < FuncName(p.ModFuncs[j]) })
	p.LoadStats.ModFunctions = len(p.ModFuncs)
	if len(p.ModFuncs) < 300 {
		return nil, fmt.Errorf("only %d module functions found; expected several hundred", len(p.ModFuncs))
	}
	return p, nil
}

// InModule reports whether fn (or its enclosing function) is declared in the Zeno module.
func InModule(fn *ssa.Function) bool {
	pk := FuncPkg(fn)
	return pk != nil && strings.HasPrefix(pk.Path(), ModPath)
}

// FuncPkg returns the types.Package a function belongs to (through parents and origins).
func FuncPkg(fn *ssa.Function) *types.Package {
	for f := fn; f != nil; f = f.Parent() {
		if f.Pkg != nil {
			return f.Pkg.Pkg
		}
		if o := f.Origin(); o != nil && o.Pkg != nil {
			return o.Pkg.Pkg
		}
		if f.Object() != nil && f.Object().Pkg() != nil {
			return f.Object().Pkg()
		}
	}
	return nil
}

// RelPkg is the package path relative to the module ("internal/pkg/reactor").
func RelPkg(pk *types.Package) string {
	if pk == nil {
		return ""
	}
	return strings.TrimPrefix(strings.TrimPrefix(pk.Path(), ModPath), "/")
}

// FuncName is a stable, type-resolved name: "<relpkg>.(*T).m", "<relpkg>.f", "<relpkg>.f$1".
func FuncName(fn *ssa.Function) string {
	if fn == nil {
		return "<nil>"
	}
	pk := FuncPkg(fn)
	rel := ""
	if pk != nil {
		if strings.HasPrefix(pk.Path(), ModPath) {
			rel = RelPkg(pk)
			if rel == "" {
				rel = "main"
			}
		} else {
			rel = pk.Path()
		}
	}
	return rel + "." + fn.RelString(pk)
}

// Pos renders a position relative to the repo.
func (p *Program) Pos(pos token.Pos) string {
	if !pos.IsValid() {
		return ""
	}
	ps := p.Fset.Position(pos)
	f := ps.Filename
	if r, err := filepath.Rel(p.Repo, f); err == nil && !strings.HasPrefix(r, "..") {
		f = r
	}
	return fmt.Sprintf("%s:%d", f, ps.Line)
}

// InstrPos gives the best position for an instruction (falls back to neighbours / function).
func (p *Program) InstrPos(in ssa.Instruction) string {
	if in == nil {
		return ""
	}
	if in.Pos().IsValid() {
		return p.Pos(in.Pos())
	}
	if b := in.Block(); b != nil {
		for _, o := range b.Instrs {
			if o.Pos().IsValid() {
				return p.Pos(o.Pos())
			}
		}
		if b.Parent() != nil {
			return p.Pos(b.Parent().Pos())
		}
	}
	return ""
}

// Func finds a package-level function or method by relative package and
// RelString name, e.g. ("internal/pkg/reactor", "ReceiveInsert") or
// ("internal/pkg/reactor", "(*reactor).run").
func (p *Program) Func(relpkg, name string) *ssa.Function {
	want := relpkg + "." + name
	for _, fn := range p.ModFuncs {
		if FuncName(fn) == want {
			return fn
		}
	}
	// a declared function before a synthetic wrapper (the pointer-receiver wrapper of a value-receiver method has
	// no body of its own)
	var wrapper *ssa.Function
	for _, to := range p.aliases[want] {
		for _, fn := range p.ModFuncs {
			if FuncName(fn) == to {
				if fn.Synthetic == "" {
					return fn
				}
				if wrapper == nil {
					wrapper = fn
				}
			}
		}
	}
	return wrapper
}

// FuncsInPkg lists all functions (incl. anonymous) of a module package.
func (p *Program) FuncsInPkg(relpkg string) []*ssa.Function {
	var out []*ssa.Function
	for _, fn := range p.ModFuncs {
		if RelPkg(FuncPkg(fn)) == relpkg {
			out = append(out, fn)
		}
	}
	return out
}

// Package returns the *packages.Package for a relative module package path.
func (p *Program) Package(relpkg string) *packages.Package {
	if relpkg == "" {
		return p.AllPkgs[ModPath]
	}
	return p.AllPkgs[ModPath+"/"+relpkg]
}

// CallGraph returns the call graph for the tier: quick = CHA, thorough = VTA over CHA.
func (p *Program) CallGraph() (*callgraph.Graph, string) {
	p.cgOnce.Do(func() {
		g := cha.CallGraph(p.SSA)
		p.cgKind = "cha"
		if p.Tier == "thorough" {
			g = vta.CallGraph(ssautil.AllFunctions(p.SSA), g)
			p.cgKind = "vta(cha)"
		}
		p.cg = g
	})
	return p.cg, p.cgKind
}

func mustJSON(v any) []byte {
	b, err := json.MarshalIndent(v, "", " ")
	if err != nil {
		panic(err)
	}
	return b
}

// keyToName turns an inventory key "dir|Recv|Name" into the FuncName form "dir.(*Recv).Name" / "dir.Name".
// Pointer and value receivers are not distinguished in the key: both spellings are tried by the caller through
// aliasVariants.
func keyToName(k string, ptr bool) string {
	parts := strings.SplitN(k, "|", 3)
	if len(parts) != 3 {
		return k
	}
	if parts[1] == "" {
		return parts[0] + "." + parts[2]
	}
	if ptr {
		return parts[0] + ".(*" + parts[1] + ")." + parts[2]
	}
	return parts[0] + ".(" + parts[1] + ")." + parts[2]
}

// CurrentName maps a function name of the reference tree ("relpkg.Name" / "relpkg.(*T).Name") to the name it has on
// the analysed tree when the canonicaliser recognised a pure rename; otherwise the name itself.
func (p *Program) CurrentName(name string) string {
	for _, fn := range p.ModFuncs {
		if FuncName(fn) == name {
			return name
		}
	}
	for _, to := range p.aliases[name] {
		for _, fn := range p.ModFuncs {
			if FuncName(fn) == to {
				return to
			}
		}
	}
	return name
}
