package core

import (
	"bufio"
	"fmt"
	"os"
	"path/filepath"
	"sort"
	"strings"
	"time"

	"golang.org/x/tools/go/ssa"
)

type Verdict string

const (
	Held      Verdict = "held"
	Violated  Verdict = "violated"
	Undecided Verdict = "undecided"
)

// Obligation is one filled instance of a rule template. Its key is
// rule + "/" + construct, where construct is a type-resolved name, never a line.
type Obligation struct {
	Rule      string  `json:"rule"`
	Construct string  `json:"construct"`
	Verdict   Verdict `json:"verdict"`
	Pos       string  `json:"pos,omitempty"`
	Detail    string  `json:"detail,omitempty"`
	Sites     int     `json:"sites"` // how many concrete sites the instance matched (non-vacuity)
}

func (o Obligation) Key() string { return o.Rule + "/" + o.Construct }

// Rule is a template; Run fills its slots from the program and reports obligations.
type Rule struct {
	ID    string
	Props []string
	Doc   string
	Run   func(r *Reporter)
}

// Reporter collects obligations and coverage counters for one property run.
type Reporter struct {
	P        *Program
	Property string
	rule     string
	Obs      []Obligation
	funcs    map[string]bool
	Calls    int
	Paths    int
}

func NewReporter(p *Program, prop string) *Reporter {
	return &Reporter{P: p, Property: prop, funcs: map[string]bool{}}
}

func (r *Reporter) SetRule(id string) { r.rule = id }

// Analysed records that a function body was inspected (for evidence).
func (r *Reporter) Analysed(fns ...*ssa.Function) {
	for _, f := range fns {
		if f != nil {
			r.funcs[FuncName(f)] = true
		}
	}
}

func (r *Reporter) FunctionsAnalysed() int { return len(r.funcs) }

func (r *Reporter) add(v Verdict, construct, pos, detail string, sites int) {
	r.Obs = append(r.Obs, Obligation{Rule: r.rule, Construct: construct, Verdict: v, Pos: pos, Detail: detail, Sites: sites})
}

func (r *Reporter) Held(construct string, sites int, detail string, a ...any) {
	r.add(Held, construct, "", fmt.Sprintf(detail, a...), sites)
}

func (r *Reporter) HeldAt(construct, pos string, sites int, detail string, a ...any) {
	r.add(Held, construct, pos, fmt.Sprintf(detail, a...), sites)
}

func (r *Reporter) Violated(construct, pos string, detail string, a ...any) {
	r.add(Violated, construct, pos, fmt.Sprintf(detail, a...), 1)
}

func (r *Reporter) Undecided(construct, pos string, detail string, a ...any) {
	r.add(Undecided, construct, pos, fmt.Sprintf(detail, a...), 0)
}

// Floor fails (undecided) when a rule matched fewer instances than were confirmed by hand.
func (r *Reporter) Floor(what string, got, floor int) bool {
	if got < floor {
		r.Undecided("floor:"+what, "", "matched %d instance(s), floor confirmed by reading is %d — the rule lost its anchors", got, floor)
		return false
	}
	return true
}

// ---------------------------------------------------------------------------
// known findings

type Known struct {
	Property string
	Key      string // rule/construct
	What     string
}

type KnownFile struct {
	Known []Known
	Fixed []string
}

// LoadKnown parses lines:
//
//	known: property=C12 key=R-REACT-INSERT/reactor.ReceiveFeedback <what fails>
//	fixed: property=C03 <commit> <what failed>
func LoadKnown(path string) (*KnownFile, error) {
	kf := &KnownFile{}
	f, err := os.Open(path)
	if err != nil {
		if os.IsNotExist(err) {
			return kf, nil
		}
		return nil, err
	}
	defer f.Close()
	sc := bufio.NewScanner(f)
	for sc.Scan() {
		line := strings.TrimSpace(sc.Text())
		if line == "" || strings.HasPrefix(line, "#") {
			continue
		}
		switch {
		case strings.HasPrefix(line, "known:"):
			rest := strings.Fields(strings.TrimSpace(strings.TrimPrefix(line, "known:")))
			k := Known{}
			var what []string
			for _, w := range rest {
				switch {
				case strings.HasPrefix(w, "property=") && k.Property == "":
					k.Property = strings.TrimPrefix(w, "property=")
				case strings.HasPrefix(w, "key=") && k.Key == "":
					k.Key = strings.TrimPrefix(w, "key=")
				default:
					what = append(what, w)
				}
			}
			k.What = strings.Join(what, " ")
			if k.Property == "" || k.Key == "" {
				return nil, fmt.Errorf("malformed known line: %q", line)
			}
			kf.Known = append(kf.Known, k)
		case strings.HasPrefix(line, "fixed:"):
			kf.Fixed = append(kf.Fixed, strings.TrimSpace(strings.TrimPrefix(line, "fixed:")))
		default:
			return nil, fmt.Errorf("malformed line in known findings: %q", line)
		}
	}
	return kf, sc.Err()
}

func (kf *KnownFile) Lookup(prop, key string) *Known {
	for i := range kf.Known {
		if kf.Known[i].Property == prop && kf.Known[i].Key == key {
			return &kf.Known[i]
		}
	}
	return nil
}

// ---------------------------------------------------------------------------
// evidence + verdict

type Evidence struct {
	PropertyID  string         `json:"property_id"`
	Tier        string         `json:"tier"`
	Seed        int            `json:"seed"`
	Level       string         `json:"level"`
	Coverage    map[string]any `json:"coverage"`
	Assumptions []string       `json:"assumptions"`
	WallS       float64        `json:"wall_s"`
	Violations  int            `json:"violations"`
}

type ReplayRecord struct {
	Property   string     `json:"property"`
	Obligation Obligation `json:"obligation"`
	Rule       string     `json:"rule_doc"`
	Command    string     `json:"command"`
}

// Finish prints the report, writes evidence and replay files, and returns the exit code.
func Finish(r *Reporter, rules []*Rule, kf *KnownFile, verifDir string, seed int, start time.Time, explanation string, notDecided string, extra map[string]any) int {
	p := r.P
	sort.SliceStable(r.Obs, func(i, j int) bool { return r.Obs[i].Key() < r.Obs[j].Key() })
	ruleDoc := map[string]string{}
	for _, ru := range rules {
		ruleDoc[ru.ID] = ru.Doc
	}
	exit := 0
	nViol := 0
	discharged := 0
	distinct := map[string]bool{}
	var samples []any
	var violSamples []any
	replayDir := filepath.Join(verifDir, "replay")
	os.MkdirAll(replayDir, 0o755)
	fmt.Printf("== property %s tier=%s  rules=%d obligations=%d functions_analysed=%d\n", r.Property, p.Tier, len(rules), len(r.Obs), r.FunctionsAnalysed())
	for _, o := range r.Obs {
		if o.Sites > 0 {
			distinct[o.Key()] = true
		}
		switch o.Verdict {
		case Held:
			discharged++
			fmt.Printf("  held       %-50s sites=%d %s\n", o.Key(), o.Sites, o.Detail)
			if len(samples) < 6 {
				samples = append(samples, o)
			}
		default:
			if o.Verdict == Violated {
				if k := kf.Lookup(r.Property, o.Key()); k != nil {
					fmt.Printf("KNOWN-FINDING: property=%s %s [%s at %s]\n", r.Property, k.What, o.Key(), o.Pos)
					violSamples = append(violSamples, o)
					continue
				}
			}
			nViol++
			exit = 1
			name := strings.NewReplacer("/", "_", " ", "_", "*", "", "(", "", ")", "", ":", "_", "$", "_").Replace(o.Key())
			rp := filepath.Join(replayDir, r.Property+"-"+name+".json")
			rec := ReplayRecord{Property: r.Property, Obligation: o, Rule: ruleDoc[o.Rule],
				Command: fmt.Sprintf("./check.sh --replay %s", rp)}
			os.WriteFile(rp, mustJSON(rec), 0o644)
			fmt.Printf("  %-10s %-50s at %s: %s\n", o.Verdict, o.Key(), o.Pos, o.Detail)
			fmt.Printf("VIOLATION property=%s replay=%s\n", r.Property, rp)
			violSamples = append(violSamples, o)
		}
	}
	samples = append(samples, violSamples...)
	if len(r.Obs) == 0 {
		fmt.Printf("  undecided  no obligation was generated — rules lost all anchors\n")
		rp := filepath.Join(replayDir, r.Property+"-no-obligations.json")
		os.WriteFile(rp, mustJSON(map[string]string{"property": r.Property, "problem": "no obligations generated"}), 0o644)
		fmt.Printf("VIOLATION property=%s replay=%s\n", r.Property, rp)
		exit = 1
		nViol++
	}
	var ruleIDs []string
	for _, ru := range rules {
		ruleIDs = append(ruleIDs, ru.ID)
	}
	_, cgKind := "", ""
	if p.cg != nil {
		cgKind = p.cgKind
	}
	cov := map[string]any{
		"explanation":         explanation,
		"not_decided":         notDecided,
		"rules":               ruleIDs,
		"obligations":         len(r.Obs),
		"discharged":          discharged,
		"evaluations":         len(r.Obs),
		"distinct_nontrivial": len(distinct),
		"rule":                "one obligation per filled rule instance, keyed rule/construct (type-resolved names); non-trivial = the instance matched at least one concrete site in /repo's current source",
		"functions_analysed":  r.FunctionsAnalysed(),
		"call_sites":          r.Calls,
		"paths":               r.Paths,
		"samples":             samples,
		"checker_cmd":         fmt.Sprintf("./check.sh %s %s", r.Property, p.Tier),
		"trusted_base":        []string{"go/types type checker (go1.26.8)", "golang.org/x/tools v0.50.0 go/packages, go/ssa, callgraph/cha+vta", "the rule tables in /verif/checker/rules (reviewed by hand against the pinned tree)"},
		"load":                p.LoadStats,
		"call_graph":          cgKind,
	}
	if len(p.Canon.Inlined) > 0 || len(p.Canon.Kept) > 0 || len(p.Canon.Aliases) > 0 || p.Canon.Note != "" {
		cov["canonicalisation"] = p.Canon
	}
	for k, v := range extra {
		cov[k] = v
	}
	ev := Evidence{
		PropertyID: r.Property, Tier: p.Tier, Seed: seed, Level: "other", Coverage: cov,
		Assumptions: []string{
			"static necessary-condition rules: decides the named structural clauses, not the runtime behaviour as a whole",
			"third-party modules (warc, goquery, gocrawlhq, sqlite, leveldb, ada) are trusted to meet their documented contracts",
		},
		WallS: time.Since(start).Seconds(), Violations: nViol,
	}
	evDir := filepath.Join(verifDir, "evidence")
	os.MkdirAll(evDir, 0o755)
	if err := os.WriteFile(filepath.Join(evDir, r.Property+".json"), mustJSON(ev), 0o644); err != nil {
		fmt.Fprintf(os.Stderr, "cannot write evidence: %v\n", err)
		return 2
	}
	fmt.Printf("== %s: %d obligations, %d held, %d unsuppressed violation(s)/undecided, %.1fs\n", r.Property, len(r.Obs), discharged, nViol, time.Since(start).Seconds())
	return exit
}
